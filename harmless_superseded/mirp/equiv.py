"""
Equivalence harness for the refactoring of vrpqubo/applications/mirp.py

usage: python equiv.py <source root> [dump file]
       (<source root> is the directory that contains `vrpqubo`)

Exercises MIRP.add_nodes / add_entry_arcs / get_arc_based / get_path_based /
get_sequence_based (and the untouched neighbours that they feed) on deterministic
inputs, including empty inputs, repeated calls and error cases, and prints one
digest per scenario plus an overall digest.  Floats are recorded with float.hex(),
and the python/numpy type of every scalar is part of the record.
"""
import sys
import time
import hashlib
import logging

sys.path.insert(0, sys.argv[1])

import numpy as np                                        # noqa: E402
from vrpqubo.applications.mirp import MIRP                # noqa: E402
from vrpqubo.applications import mirp as mirp_module      # noqa: E402
from vrpqubo.examples.mirp_g1 import get_mirp             # noqa: E402

np.seterr(all="ignore")


# ----------------------------------------------------------------------------
# canonical, bit-exact text form of (nested) results
def canon(x):
    if x is None or isinstance(x, (bool, str)):
        return repr(x)
    if isinstance(x, (np.bool_,)):
        return f"npbool:{bool(x)}"
    if isinstance(x, (int,)):
        return f"int:{x}"
    if isinstance(x, np.integer):
        return f"{type(x).__name__}:{int(x)}"
    if isinstance(x, float):
        return f"float:{x.hex() if x == x else 'nan'}"
    if isinstance(x, np.floating):
        return f"{type(x).__name__}:{float(x).hex() if x == x else 'nan'}"
    if isinstance(x, np.ndarray):
        return f"nd[{x.dtype},{x.shape}](" + ",".join(canon(v) for v in x.ravel().tolist()) + ")"
    if isinstance(x, tuple):
        return "(" + ",".join(canon(v) for v in x) + ")"
    if isinstance(x, list):
        return "[" + ",".join(canon(v) for v in x) + "]"
    if isinstance(x, dict):
        return "{" + ",".join(canon(k) + "=>" + canon(v) for k, v in x.items()) + "}"
    if isinstance(x, (set, frozenset)):
        return "set{" + ",".join(sorted(canon(v) for v in x)) + "}"
    if hasattr(x, "tocoo"):  # scipy sparse
        c = x.tocoo()
        return f"sp[{c.shape}]" + canon([c.row, c.col, c.data])
    return f"<{type(x).__name__}>"


def vrptw_state(v):
    return [
        ("names", list(v.node_names)),
        ("nodes", [(n.name, n.demand, tuple(n.time_window)) for n in v.nodes]),
        ("arcs", [(k, a.origin.name, a.destination.name, a.travel_time, a.cost)
                  for k, a in v.arcs.items()]),
        ("depot", v.depot_index, v.vehicle_cap, v.initial_loading),
    ]


def mirp_state(m):
    return [
        ("supply", list(m.supply_ports)),
        ("demand", list(m.demand_ports)),
        ("mapping", {k: list(v) for k, v in m.port_mapping.items()}),
        ("freq", dict(m.port_frequency)),
        ("flags", m.routes_added, m.abrp is None, m.pbrp is None, m.sbrp is None),
        ("cargo", m.cargo_size, m.time_horizon),
        ("vrptw", vrptw_state(m.vrptw)),
        ("str", str(m)),
    ]


def rng_digest():
    st = np.random.get_state()
    h = hashlib.sha256(st[1].tobytes()).hexdigest()[:16]
    return (st[0], h, int(st[2]), int(st[3]), float(st[4]))


def abrp_state(p):
    return [
        ("tp", p.time_points),
        ("vrptw", vrptw_state(p.vrptw)),
        ("nvar", p.get_num_variables()),
        ("feas", getattr(p, "feasible_solution", None)),
    ]


def pbrp_state(p):
    return [
        ("routes", [list(r) for r in p.routes]),
        ("costs", list(p.route_costs)),
        ("visited", [canon(v) for v in p.route_node_visited]),
        ("vrptw", vrptw_state(p.vrptw)),
        ("nvar", p.get_num_variables()),
        ("feas", getattr(p, "feasible_solution", None)),
    ]


def sbrp_state(p):
    return [
        ("strict", p.strict, p.max_sequence_length, p.max_vehicles, list(p.vehicle_cost)),
        ("vrptw", vrptw_state(p.vrptw)),
        ("nvar", p.get_num_variables()),
        ("fixed", dict(p.fixed_values)),
        ("feas", getattr(p, "feasible_solution", None)),
    ]


# ----------------------------------------------------------------------------
# log capture: the DEBUG records of the mirp module are observable behaviour too
class ListHandler(logging.Handler):
    def __init__(self):
        super().__init__(level=logging.DEBUG)
        self.records = []

    def emit(self, record):
        self.records.append((record.levelname, record.getMessage()))


LOG = ListHandler()
mirp_module.logger.addHandler(LOG)
mirp_module.logger.setLevel(logging.DEBUG)
mirp_module.logger.propagate = False


# ----------------------------------------------------------------------------
RESULTS = []


def attempt(fn, *args, **kwargs):
    """ call, and turn the outcome (value or exception TYPE) into a record """
    try:
        return ("ok", fn(*args, **kwargs))
    except Exception as exc:  # pylint: disable=broad-except
        return ("raised", type(exc).__name__)


def scenario(name):
    def deco(fn):
        LOG.records.clear()
        np.random.seed(12345)
        start = time.time()
        out = fn()
        print(f"{name}: {time.time()-start:.1f}s", file=sys.stderr)
        text = canon([out, ("log", list(LOG.records)), ("rng", rng_digest())])
        RESULTS.append((name, hashlib.sha256(text.encode()).hexdigest()))
        if len(sys.argv) > 2:   # optional: dump the full records for eyeballing / diffing
            with open(sys.argv[2], "a", encoding="utf-8") as dump:
                dump.write(f"### {name}\n{text}\n")
        return fn
    return deco


def dist(p1, p2):
    """ deterministic 'distance' between two port names """
    return 100.0 + 37.0*((sum(map(ord, str(p1))) * 7 + sum(map(ord, str(p2))) * 3) % 11)


def small_mirp(horizon=20, cargo=10, entry=6.0, with_arcs=True):
    m = MIRP(cargo, horizon)
    m.add_nodes("S1", 8, 2.5, 30)
    m.add_nodes("S2", 3.0, 1.75, 24.0)
    m.add_nodes("D1", 12, -2.0, 20)
    m.add_nodes("D2", 20.5, -3.25, 30)
    if with_arcs:
        m.add_travel_arcs(dist, 400.0, 0.07, {"S1": 3, "S2": 4.5}, {"D1": 1.25, "D2": 2})
        m.add_exit_arcs()
        if entry is not None:
            m.add_entry_arcs(entry)
    return m


# ---------------------------------------------------------------- add_nodes
@scenario("add_nodes/basic")
def _():
    out = []
    for cargo, horizon in [(1, 1), (1, 2), (10, 20), (7.5, 33.3), (300, 100), (3, 0), (3, -5)]:
        m = MIRP(cargo, horizon)
        out.append(attempt(m.add_nodes, "foo", 0, 1, 2))
        out.append(attempt(m.add_nodes, "sup", 8, 2.5, 30))
        out.append(attempt(m.add_nodes, "dem", 12, -2.0, 28))
        out.append(attempt(m.add_nodes, "np", np.float64(5), np.float64(-1.5), np.float64(19)))
        out.append(attempt(m.add_nodes, 7, 5, 3, 19))          # non-string port name
        out.append(attempt(m.add_nodes, "", 221, -34, 374))
        out.append(mirp_state(m))
    return out


@scenario("add_nodes/errors-and-state")
def _():
    out = []
    m = MIRP(10, 20)
    out.append(attempt(m.add_nodes, "Z", 5, 0, 10))            # ZeroDivisionError
    out.append(mirp_state(m))
    out.append(attempt(m.add_nodes, "S", 8, 2.5, 30))
    out.append(attempt(m.add_nodes, "S", 8, 2.5, 30))          # duplicate: ValueError
    out.append(mirp_state(m))
    out.append(attempt(m.add_nodes, "S", 8, 2.5, 300))         # duplicate again, other data
    out.append(mirp_state(m))
    out.append(attempt(m.add_nodes, "neg", 8, 2.5, -30))       # tw0 > tw1: Node refuses
    out.append(mirp_state(m))
    out.append(attempt(m.add_nodes, "D", 12, -2.0, 5))         # cap < cargo, demand
    out.append(mirp_state(m))
    out.append(attempt(m.add_nodes, "Depot", 12, -2.0, 28))    # fine: nodes are Depot-0...
    out.append(attempt(m.add_nodes, None, "a", 1, 2))          # TypeError inside arithmetic
    out.append(mirp_state(m))
    # returned list is a fresh list, distinct from the stored one but equal to it
    m2 = MIRP(10, 40)
    names = m2.add_nodes("P", 8, 2.5, 30)
    out.append((names, names is m2.port_mapping["P"], names == m2.port_mapping["P"],
                all(a is b for a, b in zip(names, m2.port_mapping["P"])),
                all(a is b for a, b in zip(names, m2.vrptw.node_names[1:]))))
    return out


@scenario("add_nodes/subclass-hooks")
def _():
    # the loop must keep going through the overridable methods, in the same order
    calls = []

    class Traced(MIRP):
        def get_time_window(self, *a):
            calls.append(("tw", a))
            return super().get_time_window(*a)

        def add_node(self, name, demand, time_window):
            calls.append(("node", name, demand, time_window, list(self.port_mapping)))
            return super().add_node(name, demand, time_window)

    m = Traced(10, 30)
    out = [attempt(m.add_nodes, "S", 8, 2.5, 30), attempt(m.add_nodes, "D", 12, -2.0, 28)]
    return [out, calls, mirp_state(m)]


# ----------------------------------------------------------- add_entry_arcs
@scenario("add_entry_arcs/limits")
def _():
    out = []
    for limit in [-1, 0, 3.2, 6.0, 8, 14, 1e9, np.inf, float("nan")]:
        for tt, cost in [(0, 0), (1.5, 7), (50.0, 2)]:
            m = small_mirp(entry=None)
            out.append(attempt(m.add_entry_arcs, limit, tt, cost))
            out.append(mirp_state(m))
    m = small_mirp(entry=None)
    out.append(attempt(m.add_entry_arcs, 9))          # defaults
    out.append(attempt(m.add_entry_arcs, time_limit=9, travel_time=2, cost=3))   # Dum0 clash
    out.append(mirp_state(m))
    return out


@scenario("add_entry_arcs/empty-and-repeated")
def _():
    out = []
    m = MIRP(10, 20)
    out.append(attempt(m.add_entry_arcs, 5))           # no ports at all
    out.append(attempt(m.add_entry_arcs, 5))
    out.append(mirp_state(m))
    m = MIRP(10, 1)                                    # ports without nodes
    m.add_nodes("S", 8, 2.5, 30)
    m.add_nodes("D", 12, -2.0, 28)
    out.append(attempt(m.add_entry_arcs, 5))
    out.append(mirp_state(m))
    m = small_mirp(entry=None)                         # only supply is early: repeat is fine
    out.append(attempt(m.add_entry_arcs, 3.0))
    out.append(attempt(m.add_entry_arcs, 3.0, 1, 1))
    out.append(mirp_state(m))
    m = small_mirp(entry=None)                         # demand early too: repeat raises
    out.append(attempt(m.add_entry_arcs, 8))
    out.append(mirp_state(m))
    out.append(attempt(m.add_entry_arcs, 8, 1, 1))
    out.append(mirp_state(m))
    m = small_mirp(entry=None)                         # a node called Dum1 already there
    m.add_node("Dum1", -10, (0, 3))
    out.append(attempt(m.add_entry_arcs, 8))
    out.append(mirp_state(m))
    return out


@scenario("add_entry_arcs/corrupt-state")
def _():
    out = []
    m = small_mirp(entry=None)
    m.supply_ports.append("ghost")                     # KeyError after the real ports
    out.append(attempt(m.add_entry_arcs, 8))
    out.append(mirp_state(m))
    m = small_mirp(entry=None)
    m.demand_ports.insert(1, "ghost")                  # KeyError half way through demand
    out.append(attempt(m.add_entry_arcs, 8))
    out.append(mirp_state(m))
    m = small_mirp(entry=None)
    m.port_mapping["D1"].insert(1, "nowhere")          # ValueError from the node lookup
    out.append(attempt(m.add_entry_arcs, 8))
    out.append(mirp_state(m))
    m = small_mirp(entry=None)
    m.port_mapping["S2"].insert(0, "nowhere")
    out.append(attempt(m.add_entry_arcs, 8))
    out.append(mirp_state(m))
    m = small_mirp(entry=None)
    m.vrptw.depot_index = 99                           # IndexError before anything happens
    out.append(attempt(m.add_entry_arcs, 8))
    out.append(mirp_state(m))
    m = small_mirp(entry=None)
    m.supply_ports = tuple(m.supply_ports)             # other iterables keep working
    m.demand_ports = tuple(reversed(m.demand_ports))
    out.append(attempt(m.add_entry_arcs, 8))
    out.append(mirp_state(m))
    return out


# ------------------------------------------------------------ get_arc_based
@scenario("get_arc_based/small")
def _():
    out = []
    for horizon in [0, 5, 9, 12, 20]:
        for m_f in [True, False]:
            m = small_mirp(horizon=horizon)
            res = attempt(m.get_arc_based, m_f)
            out.append(res[0])
            if res[0] == "ok":
                again = m.get_arc_based(not m_f)
                out.append((res[1] is again, res[1] is m.abrp))
                out.append(abrp_state(m.abrp))
            else:
                out.append(res[1])
                out.append((m.abrp is None, attempt(lambda: m.get_arc_based() is m.abrp)))
            out.append(mirp_state(m))
    return out


@scenario("get_arc_based/time-points")
def _():
    out = []

    def build(windows):
        m = MIRP(10, 20)
        for i, t_w in enumerate(windows):
            m.add_node(f"n{i}", 1, t_w)
        return m

    cases = [
        [],                                            # only the depot: [0] stays integer
        [(0.0, 3.5)],                                  # 0.0 met before the final 0
        [(-0.5, 2.0)],                                 # ceil gives -0.0
        [(-0.5, 2.0), (0.0, 1.0)],
        [(0.25, 2.0), (-0.75, 0.5)],
        [(1, 4), (2.5, 7.5), (3, np.inf), (6.0, 6.0)],
        [(2.2, 2.8)],                                  # empty range
        [(5, 5)],
        [(-3.5, -1.2), (8.9, 11.1)],
        [(np.float64(1.5), np.float64(4.0))],
        [(0, 2), (float("nan"), float("nan"))],        # arange refuses
        [(-np.inf, 3)],
        [(0, 1e300)],
    ]
    for windows in cases:
        m = build(windows)
        res = attempt(m.get_arc_based, False)
        out.append(res[0])
        if res[0] == "ok":
            t_p = m.abrp.time_points
            out.append((t_p, [str(v) for v in np.asarray(t_p).tolist()],
                        [bool(np.signbit(v)) for v in np.asarray(t_p, dtype=float)]))
        else:
            out.append((res[1], m.abrp is None, canon(m.abrp.time_points)))
            out.append(attempt(lambda: m.get_arc_based(True) is m.abrp))
        # make_feasible=True without any arc: estimate_high_cost raises
        m = build(windows)
        out.append(attempt(m.get_arc_based))
        out.append((m.abrp is None, None if m.abrp is None else canon(m.abrp.time_points)))
    return out


@scenario("get_arc_based/what-reaches-add_time_points")
def _():
    # element types and order of the list handed over to the formulation
    seen = []
    orig = mirp_module.ArcBasedRoutingProblem.add_time_points

    def spy(self, time_points):
        seen.append((type(time_points).__name__, list(time_points)))
        return orig(self, time_points)

    mirp_module.ArcBasedRoutingProblem.add_time_points = spy
    try:
        for windows in [[], [(0.0, 3.5)], [(-0.5, 2.0)], [(0.25, 2.0), (-0.75, 0.5)],
                        [(3, 6), (1, 4)]]:
            m = MIRP(10, 20)
            for i, t_w in enumerate(windows):
                m.add_node(f"n{i}", 1, t_w)
            m.get_arc_based(False)
        attempt(small_mirp().get_arc_based)
        attempt(small_mirp(horizon=9).get_arc_based, False)
        attempt(get_mirp(31).get_arc_based)
    finally:
        mirp_module.ArcBasedRoutingProblem.add_time_points = orig
    return [seen, [[(type(v).__name__, str(v)) for v in lst] for _, lst in seen]]


# ----------------------------------------------------------- get_path_based
@scenario("get_path_based/small")
def _():
    out = []
    for horizon in [0, 0.5, 5, 9, 12.5, 20]:
        for m_f in [True, False]:
            m = small_mirp(horizon=horizon)
            np.random.seed(99)
            np.random.random(3)
            res = attempt(m.get_path_based, m_f)
            out.append((res[0], rng_digest()))
            if res[0] == "ok":
                again = m.get_path_based(not m_f)
                out.append((res[1] is again, res[1] is m.pbrp, rng_digest()))
                out.append(pbrp_state(m.pbrp))
            else:
                out.append(res[1])
                out.append((m.pbrp is None, attempt(lambda: m.get_path_based() is m.pbrp)))
            out.append(mirp_state(m))
    return out


@scenario("get_path_based/errors")
def _():
    out = []
    for horizon in [np.inf, float("nan"), 1e400]:
        m = small_mirp(horizon=8)
        m.time_horizon = horizon                      # int() of it overflows / fails
        np.random.seed(5)
        out.append(attempt(m.get_path_based))
        out.append((m.pbrp is None, rng_digest()))
        if m.pbrp is not None:
            out.append(pbrp_state(m.pbrp))
    m = small_mirp(with_arcs=False)                   # no arcs: max() of nothing
    np.random.seed(5)
    out.append(attempt(m.get_path_based))
    out.append((m.pbrp is None, rng_digest(), pbrp_state(m.pbrp)))
    m = MIRP(10, 20)                                  # no ports: min() of nothing
    np.random.seed(5)
    out.append(attempt(m.get_path_based, False))
    out.append((m.pbrp is None, rng_digest()))
    return out


@scenario("get_path_based/arguments-of-add_routes_better")
def _():
    seen = []
    orig = mirp_module.PathBasedRoutingProblem.add_routes_better

    def spy(self, explore, node_costs, time_costs):
        probe = [-1, 0, 9.999, 10, 10.0, 10.000001, 11, 1e6, np.float64(10), np.float64(12.5),
                 np.int64(10), np.int64(11), float("nan"), np.inf, -np.inf]
        seen.append((explore, list(node_costs), [time_costs(t) for t in probe],
                     time_costs.__name__))
        return orig(self, explore, node_costs, time_costs)

    mirp_module.PathBasedRoutingProblem.add_routes_better = spy
    try:
        for horizon in [0, 4, 9, 9.95, 13]:
            m = small_mirp(horizon=horizon)
            seen.append(attempt(m.get_path_based, False)[0])
    finally:
        mirp_module.PathBasedRoutingProblem.add_routes_better = orig
    return seen


# ------------------------------------------------------- get_sequence_based
@scenario("get_sequence_based/small")
def _():
    out = []
    for horizon in [0, 5, 9, 12, 20]:
        for m_f in [True, False]:
            for strict in [True, False]:
                m = small_mirp(horizon=horizon)
                res = attempt(m.get_sequence_based, m_f, strict)
                out.append(res[0])
                if res[0] == "ok":
                    again = m.get_sequence_based(not m_f, not strict)
                    out.append((res[1] is again, res[1] is m.sbrp))
                    out.append(sbrp_state(m.sbrp))
                else:
                    out.append(res[1])
                    out.append((m.sbrp is None,
                                attempt(lambda: m.get_sequence_based() is m.sbrp)))
                out.append(mirp_state(m))
    return out


@scenario("get_sequence_based/min-travel-time")
def _():
    out = []
    # no arcs at all / only zero and negative travel times / mixed types
    arc_sets = [
        [],
        [("Depot", "a", 0, 1), ("a", "Depot", 0, 1)],
        [("Depot", "a", 0, 1), ("a", "b", -2, 1), ("b", "Depot", 0, 0)],
        [("Depot", "a", 0, 1), ("a", "b", 3, 1), ("b", "a", 2.5, 1), ("b", "Depot", 0, 0)],
        [("Depot", "a", 0, 1), ("a", "b", np.float64(0.75), 1), ("b", "Depot", 7, 0)],
        [("Depot", "a", 0, 1), ("a", "b", float("nan"), 1), ("b", "Depot", 4, 0)],
        [("Depot", "a", 1e-320, 1), ("a", "b", 4, 1), ("b", "Depot", 4, 0)],
        [("Depot", "a", np.inf, 1), ("a", "Depot", np.inf, 1)],
    ]
    for arcs in arc_sets:
        for horizon in [10, 3.7]:
            m = MIRP(5, horizon)
            m.add_node("a", -5, (0, 50))
            m.add_node("b", 5, (0, 60))
            m.port_frequency["a"] = 4.0
            for arc in arcs:
                m.add_arc(*arc)
            res = attempt(m.get_sequence_based, False, False)
            out.append(res[0])
            out.append(res[1] if res[0] != "ok" else sbrp_state(m.sbrp))
            out.append((m.sbrp is None,
                        None if m.sbrp is None
                        else (m.sbrp.max_vehicles, m.sbrp.max_sequence_length)))
            out.append(attempt(lambda: m.get_sequence_based() is m.sbrp))
    return out


# ------------------------------------------------------------ whole example
@scenario("g1/build")
def _():
    out = []
    for horizon in [0, 10, 31, 45, 100]:
        m = get_mirp(horizon)
        out.append(mirp_state(m))
        out.append(attempt(m.estimate_high_cost))
    return out


@scenario("g1/formulations")
def _():
    out = []
    for horizon in [20, 31]:
        for m_f in [True, False]:
            m = get_mirp(horizon)
            a = m.get_arc_based(m_f)
            out.append(abrp_state(a))
            m = get_mirp(horizon)
            p = m.get_path_based(m_f)
            out.append((pbrp_state(p), rng_digest()))
            out.append(p.get_objective_data())
            out.append(p.get_constraint_data())
            m = get_mirp(horizon)
            s = m.get_sequence_based(m_f, strict=False)
            out.append(sbrp_state(s))
            m = get_mirp(horizon)
            s = m.get_sequence_based(m_f)
            out.append(sbrp_state(s))
    # all three on ONE object, in both orders (they share the underlying graph)
    for order in [("a", "p", "s"), ("s", "p", "a")]:
        m = get_mirp(25)
        for which in order:
            getter = {"a": m.get_arc_based, "p": m.get_path_based, "s": m.get_sequence_based}
            out.append(attempt(lambda: getter[which]() is getter[which](False)))
            out.append(mirp_state(m))
        out.append((abrp_state(m.abrp), pbrp_state(m.pbrp), sbrp_state(m.sbrp), rng_digest()))
    return out


# ----------------------------------------------------------------------------
for name, digest in RESULTS:
    print(f"{digest[:32]}  {name}")
overall = hashlib.sha256("".join(d for _, d in RESULTS).encode()).hexdigest()
print(f"scenarios: {len(RESULTS)}")
print(f"OVERALL {overall}")
