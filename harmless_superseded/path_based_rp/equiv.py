"""
Equivalence harness for the refactoring of path_based_rp.py

usage: python equiv.py <source root>      (e.g. /tmp/wt5/path_based_rp/src)

Exercises the touched functions (check_route, generate_route, add_routes_better,
make_feasible, get_routes, get_sampled_key) and their neighbours on deterministic
inputs and prints a digest per section plus an overall digest.
"""
import sys
sys.path.insert(0, sys.argv[1])

import hashlib
import logging
import numpy as np

from vrpqubo.routing_problem import PathBasedRoutingProblem
from vrpqubo.routing_problem.formulations import path_based_rp as mod
from vrpqubo.routing_problem.formulations.path_based_rp import get_sampled_key

LINES = []
SECTIONS = []


def canon(x):
    """ Canonical text of a value INCLUDING element types (int vs np.int64 vs float...) """
    if isinstance(x, np.ndarray):
        return f"ndarray[{x.dtype},{x.shape}]({[canon(v) for v in x.tolist()]};{x.tobytes().hex()})"
    if isinstance(x, (list, tuple)):
        return f"{type(x).__name__}({', '.join(canon(v) for v in x)})"
    if isinstance(x, dict):
        return "dict(" + ", ".join(f"{canon(k)}: {canon(v)}" for k, v in x.items()) + ")"
    if isinstance(x, (float, np.floating)):
        return f"{type(x).__name__}:{float(x).hex()}"
    if hasattr(x, "toarray") and hasattr(x, "nnz"):
        return f"{type(x).__name__}[{x.shape},{x.nnz}]" + canon(x.toarray())
    return f"{type(x).__name__}:{x!r}"


def rng_state():
    st = np.random.get_state()
    return hashlib.sha256(st[1].tobytes() + repr(st[2:]).encode()).hexdigest()[:16]


def state(pb):
    """ Everything a caller can read off the object """
    arcs = [(k, a.origin.name, a.destination.name, a.travel_time, a.cost)
            for k, a in pb.arcs.items()]
    nodes = [(n.name, n.demand, n.time_window) for n in pb.nodes]
    return canon(dict(
        routes=pb.routes, costs=pb.route_costs, visited=pb.route_node_visited,
        names=pb.node_names, nodes=nodes, arcs=arcs, depot=pb.depot_index,
        cap=pb.vehicle_cap, init=pb.initial_loading, feas=pb.feasible_solution,
    ))


def emit(tag, *vals):
    LINES.append(tag + " | " + " | ".join(v if isinstance(v, str) else canon(v) for v in vals))


def call(tag, fn, *args, **kwargs):
    """ Call, record result or exception type, and the RNG state afterwards """
    try:
        res = fn(*args, **kwargs)
        emit(tag, "ok", canon(res), rng_state())
        return res
    except Exception as e:  # pylint: disable=broad-except
        emit(tag, "EXC", type(e).__name__, rng_state())
        return None


def section(name):
    start = SECTIONS[-1][1] if SECTIONS else 0
    h = hashlib.sha256("\n".join(LINES[start:]).encode()).hexdigest()
    SECTIONS.append((name, len(LINES)))
    print(f"{name:28s} lines={len(LINES) - start:4d} {h}")


class ListHandler(logging.Handler):
    def emit(self, record):
        LINES.append(f"LOG | {record.levelname} | {record.getMessage()}")


mod.logger.setLevel(logging.DEBUG)
mod.logger.addHandler(ListHandler())
mod.logger.propagate = False


# ---------------------------------------------------------------- problem builders
def tiny():
    pb = PathBasedRoutingProblem()
    pb.add_node("depot", 0)
    pb.add_node("node1", 1, (1, 2))
    pb.add_node("node2", 1, (3, 4))
    pb.add_arc("depot", "node1", 1, 1)
    pb.add_arc("node1", "node2", 1, 1)
    pb.add_arc("node2", "depot", 3, 3)
    pb.add_arc("node1", "depot", 1, 1)
    pb.set_initial_loading(2)
    pb.set_vehicle_cap(2)
    return pb


def random_problem(seed, n, density=0.7, pickup=False, depot_last=False):
    """ Deterministic pseudo-random instance (uses its own generator, not the global one) """
    rs = np.random.RandomState(seed)
    pb = PathBasedRoutingProblem()
    names = [f"n{i}" for i in range(n)]
    for i, nm in enumerate(names):
        if i == 0:
            pb.add_node(nm, 0)
        else:
            lo = float(rs.randint(0, 6))
            hi = lo + float(rs.randint(1, 12))
            dem = float(rs.randint(1, 4)) * (-1 if pickup and rs.rand() < 0.4 else 1)
            pb.add_node(nm, dem + 0.1 * rs.randint(0, 3), (lo, hi))
    for i in range(n):
        for j in range(n):
            if i != j and rs.rand() < density:
                pb.add_arc(names[i], names[j], float(rs.randint(1, 5)) + 0.25 * rs.randint(0, 4),
                           round(float(rs.rand() * 7), 3) + 0.1)
    pb.set_vehicle_cap(6.0)
    pb.set_initial_loading(6.0 if not pickup else 3.0)
    if depot_last:
        pb.set_depot(names[-1])
    return pb


# ---------------------------------------------------------------- get_sampled_key
np.random.seed(12345)
dicts = [
    {'a': 100, 'b': 101, 'c': 102, 'd': 10},
    {3: 1.5, 1: 1.5, 2: 1.5},
    {0: 0.0},
    {5: -3.25, 7: 2.0, 9: -3.25, 11: 1e6},
    {1: 1e-9, 2: 2e-9, 3: 3e-9, 4: 0.0},
    {np.int64(4): np.float64(2.5), np.int64(2): np.float64(2.25)},
    {},
]
for di, d in enumerate(dicts):
    for ex in (0, 0.5, 1, 10.0, np.inf, -1):
        for rep in range(3):
            before = canon(d)
            call(f"gsk d{di} ex{ex} #{rep}", get_sampled_key, d, ex)
            assert canon(d) == before
# pmf that numpy rejects (nan) -> ValueError path inside, re-raised
call("gsk nan", get_sampled_key, {1: np.nan, 2: 1.0}, 1)
call("gsk inf", get_sampled_key, {1: np.inf, 2: -np.inf}, 1)
call("gsk bigspread", get_sampled_key, {i: float(i) ** 3 for i in range(40)}, 0)
call("gsk explore-str", get_sampled_key, {1: 1.0}, "x")
section("get_sampled_key")

# ---------------------------------------------------------------- check_route / add_route
np.random.seed(777)
pb = tiny()
cands = [
    [], [0], ["depot"], [0, 0], ["depot", "depot"], [0, 1, 0], [0, 1, 2, 0], [0, 2, 0],
    [0, 2, 1, 0], [1, 2, 1], [0, 1, 1, 0], [0, 1, 2, 1, 0], [0, 1, 0, 1, 0],
    ["depot", "node1", "node2", "depot"], ["depot", "node1", "depot"],
    ["depot", "node2", "depot"], ["node1", "node2", "depot"], ["depot", "node1", "node2"],
    ["depot", "nope", "depot"], ["depot", "node1", "nope", "depot"], ["nope", "node1", "depot"],
    ["depot", "node1", "node2", "nope", "depot"], ["depot", "node1", "nope", "alsonope"],
    [0, "node1", 2, "depot"], ["depot", 1, "node2", 0], [0, 1, "node2", "node1", "depot"],
    [0, 5, 0], [0, -1, 0], [0, 1, 7, 0], (0, 1, 0), ("depot", 1, 0), (0, 1, "node2", 0),
    [np.int64(0), np.int64(1), np.int64(0)], [0, 1.0, 0], [0, None, 0], [0, 1, 2, 0, 0],
]
for ci, c in enumerate(cands):
    for rep in range(2):
        arg = list(c) if isinstance(c, list) else c
        call(f"check_route c{ci} #{rep}", pb.check_route, arg)
        emit(f"check_route c{ci} arg", arg)
for ci, c in enumerate(cands):
    for rep in range(2):   # second time: already-present route
        arg = list(c) if isinstance(c, list) else c
        call(f"add_route c{ci} #{rep}", pb.add_route, arg)
        emit(f"add_route c{ci} arg/state", arg, state(pb))
# same list object added twice, then mutated by caller: stored copy must be independent
r = ["depot", "node1", "depot"]
pb2 = tiny()
call("add_route alias 1", pb2.add_route, r)
r.append(99)
emit("alias state", r, state(pb2))
# capacity / time window failures
pb3 = tiny()
pb3.set_initial_loading(1)
call("check_route cap", pb3.check_route, [0, 1, 2, 0])
pb3.set_initial_loading(5)
call("check_route overcap", pb3.check_route, [0, 1, 0])
pb3.set_initial_loading(None)
call("check_route none-load", pb3.check_route, [0, 1, 0])
pb4 = PathBasedRoutingProblem()
call("check_route nonodes", pb4.check_route, [0, 0])
call("check_route nonodes-empty", pb4.check_route, [])
call("add_route nonodes", pb4.add_route, [])
for a in [(0, 1), (1, 0), (2, 1), (9, 9), (0, 0), "xy", (0, 1, 2)]:
    for t, l in [(0, 2), (0.5, 1), (3.0, 0), (100, 2), (0, 3), (0, -1)]:
        call(f"check_arc {a} {t} {l}", pb.check_arc, t, l, a)
call("check_arc unhashable", pb.check_arc, 0, 0, [0, 1])
section("check_route/add_route")

# ---------------------------------------------------------------- generate_route
np.random.seed(2024)
calls_tc = []


def make_tc(tag):
    def tc(t):
        calls_tc.append((tag, t))
        return 0.5 * t
    return tc


for seed in range(8):
    pbr = random_problem(seed, 4 + seed % 4, density=0.5 + 0.05 * seed,
                         pickup=seed % 2 == 1, depot_last=seed % 3 == 2)
    n = len(pbr.nodes)
    emit(f"gen seed{seed} init", state(pbr))
    vf = None
    for it in range(6):
        explore = [0, 0.3, 1, 5, np.inf, 0][it]
        nc = None if it % 2 == 0 else [0.25 * k for k in range(n)]
        tcf = None if it % 3 == 0 else make_tc((seed, it))
        unv = None if it < 3 else [k for k in range(n) if (k + it) % 3 != 1 or k == pbr.depot_index]
        unv_before = canon(unv)
        res = call(f"gen seed{seed} it{it}", pbr.generate_route, vf, explore, nc, tcf, unv)
        emit(f"gen seed{seed} it{it} args", vf, nc, unv, unv_before)
        if res is not None:
            r, vf_out = res
            emit("vf identity", str(vf is None or vf_out is vf))
            vf = vf_out
            call(f"gen seed{seed} it{it} add", pbr.add_route, r)
    emit(f"gen seed{seed} final", state(pbr))
    # error / edge cases
    call(f"gen seed{seed} badvf", pbr.generate_route, [0.0] * (n + 1))
    call(f"gen seed{seed} negexplore", pbr.generate_route, None, -1.0)
    call(f"gen seed{seed} emptyunv", pbr.generate_route, None, 1, None, None, [])
    call(f"gen seed{seed} depotonly", pbr.generate_route, None, 1, None, None, [pbr.depot_index])
    call(f"gen seed{seed} shortnc", pbr.generate_route, None, 1, [0.0], make_tc("short"))
    call(f"gen seed{seed} badtc", pbr.generate_route, None, 1, None, lambda t: 1 / 0)
    call(f"gen seed{seed} outofrange", pbr.generate_route, None, 1, None, None, [0, 1, 99])
    call(f"gen seed{seed} arrayvf", pbr.generate_route, np.zeros(n), 0.5)
    sol = np.zeros(len(pbr.routes))
    sol[::2] = 1
    call(f"get_routes seed{seed}", pbr.get_routes, sol)
    call(f"get_routes seed{seed} list", pbr.get_routes, [1] * len(pbr.routes))
    call(f"get_routes seed{seed} empty", pbr.get_routes, [])
    call(f"get_routes seed{seed} toolong", pbr.get_routes, [0] * len(pbr.routes) + [1])
    call(f"get_routes seed{seed} bool", pbr.get_routes, np.arange(len(pbr.routes)) % 3 == 0)
emit("time_costs calls", calls_tc)
pbe = PathBasedRoutingProblem()
call("gen nonodes", pbe.generate_route)
call("get_routes nonodes", pbe.get_routes, [])
call("get_routes nonodes bad", pbe.get_routes, [1])
section("generate_route/get_routes")

# ---------------------------------------------------------------- add_routes_better
np.random.seed(99)
calls_tc.clear()
for seed in range(8, 16):
    pbr = random_problem(seed, 4 + seed % 5, density=0.45 + 0.04 * (seed - 8),
                         pickup=seed % 2 == 0, depot_last=seed % 4 == 1)
    n = len(pbr.nodes)
    for it, explore in enumerate([0, 1, np.inf, 0]):
        nc = None if it == 0 else [0.5 * ((k * 7) % 3) for k in range(n)]
        tcf = None if it == 1 else make_tc((seed, it))
        call(f"arb seed{seed} it{it}", pbr.add_routes_better, explore, nc, tcf)
        emit(f"arb seed{seed} it{it} state", state(pbr), nc)
    call(f"arb seed{seed} negexplore", pbr.add_routes_better, -2, None, None)
    call(f"arb seed{seed} badnc", pbr.add_routes_better, 1, [1.0], None)
    emit(f"arb seed{seed} end", state(pbr))
emit("time_costs calls", calls_tc)
call("arb nonodes", PathBasedRoutingProblem().add_routes_better, 0, None, None)
call("arb tiny", tiny().add_routes_better, 0, None, None)
section("add_routes_better")

# ---------------------------------------------------------------- make_feasible + downstream
np.random.seed(4242)
for seed in range(16, 28):
    pbr = random_problem(seed, 3 + seed % 6, density=0.3 + 0.05 * (seed - 16),
                         pickup=seed % 3 == 0, depot_last=seed % 5 == 2)
    if seed % 4 == 0:
        # some routes first, so exit_penalty is non-trivial
        for _ in range(3):
            r, _ = pbr.generate_route(explore=2)
            pbr.add_route(r)
    if seed % 6 == 1:
        pbr.set_initial_loading(8.5)     # above capacity: dummy nodes with negative loading
    for rep, hc in enumerate([100, 33.5]):    # repeated call: dummy names already taken
        call(f"mf seed{seed} #{rep}", pbr.make_feasible, hc)
        emit(f"mf seed{seed} #{rep} state", state(pbr))
        call(f"mf seed{seed} #{rep} mpd", pbr.get_math_program_data)
        call(f"mf seed{seed} #{rep} obj", pbr.get_objective_data)
        call(f"mf seed{seed} #{rep} con", pbr.get_constraint_data)
        call(f"mf seed{seed} #{rep} pen", pbr.get_sufficient_penalty, False)
        call(f"mf seed{seed} #{rep} penF", pbr.get_sufficient_penalty, True)
        call(f"mf seed{seed} #{rep} qubo", pbr.get_qubo)
        call(f"mf seed{seed} #{rep} quboF", pbr.get_qubo, True, 3.5)
        if pbr.feasible_solution is not None:
            call(f"mf seed{seed} #{rep} routes", pbr.get_routes, pbr.feasible_solution)
            A, b, _, _ = pbr.get_constraint_data()
            emit(f"mf seed{seed} #{rep} resid", A.dot(pbr.feasible_solution) - b)
    call(f"mf seed{seed} names", pbr.get_route_names, pbr.routes[0] if pbr.routes else [])
call("mf tiny", tiny().make_feasible, 10)
pbt = tiny()
call("mf tiny none-hc", pbt.make_feasible, None)
emit("mf tiny none-hc state", state(pbt))
pbn = PathBasedRoutingProblem()
call("mf nonodes", pbn.make_feasible, 10)
emit("mf nonodes state", state(pbn))
# no arcs at all: every customer needs a dummy; the return arc has to be created
pbna = PathBasedRoutingProblem()
for k, nm in enumerate(["d", "a", "b", "c"]):
    pbna.add_node(nm, float(k))
pbna.set_vehicle_cap(2.0)
pbna.set_initial_loading(1.0)
call("mf noarcs", pbna.make_feasible, 50)
emit("mf noarcs state", state(pbna))
call("mf noarcs again", pbna.make_feasible, 60)
emit("mf noarcs state2", state(pbna))
# node with a closed time window: the dummy arcs cannot be added -> assertion
pbw = PathBasedRoutingProblem()
pbw.add_node("d", 0)
pbw.add_node("a", 1, (5, 6))
pbw.add_node("b", 1, (0, 1))
pbw.add_arc("d", "a", 1, 1)
pbw.add_arc("a", "b", 1, 1)
pbw.set_vehicle_cap(3)
pbw.set_initial_loading(3)
call("mf window", pbw.make_feasible, 5)
emit("mf window state", state(pbw))
# unset capacity / loading
pbu = tiny()
pbu.set_vehicle_cap(None)
call("mf nocap", pbu.make_feasible, 5)
emit("mf nocap state", state(pbu))
section("make_feasible")

print("TOTAL lines=%d %s" % (len(LINES), hashlib.sha256("\n".join(LINES).encode()).hexdigest()))
if len(sys.argv) > 2:
    with open(sys.argv[2], "w", encoding="utf-8") as f:
        f.write("\n".join(LINES) + "\n")
