"""
Equivalence check for the refactoring of vrpqubo/tools/qubo_tools.py

usage: python equiv.py <source root>   (the directory that contains the vrpqubo package)

Prints one line per exercised case plus a final sha256 digest of all of them.
Everything is deterministic (datetime is replaced by a fixed stub, files are
written to a fresh temporary directory, no wall-clock / random state is printed).
"""
import sys
sys.path.insert(0, sys.argv[1])

# pylint: disable=wrong-import-position, invalid-name, broad-except
import hashlib
import os
import tempfile
import types
import warnings

import numpy as np
import scipy.sparse as sp

from vrpqubo.tools import qubo_tools as QT

warnings.simplefilter("ignore")

LINES = []

def canon(obj):
    """ Deterministic, type-revealing, bit-exact description of a value """
    if sp.issparse(obj):
        coo = obj.tocoo()
        return ("sparse", type(obj).__name__, obj.format, str(obj.dtype), obj.shape,
                canon(obj.toarray()), obj.nnz,
                # stored structure, in storage order
                [int(i) for i in coo.row], [int(j) for j in coo.col],
                [canon(v) for v in coo.data])
    if isinstance(obj, np.ndarray):
        return ("ndarray", str(obj.dtype), obj.shape, [canon(v) for v in obj.ravel().tolist()])
    if isinstance(obj, (bool, np.bool_)):
        return (type(obj).__name__, bool(obj))
    if isinstance(obj, (float, np.floating)):
        return (type(obj).__name__, float(obj).hex())
    if isinstance(obj, (int, np.integer)):
        return (type(obj).__name__, int(obj))
    if isinstance(obj, dict):
        return ("dict", [(canon(k), canon(v)) for k, v in obj.items()])  # insertion order
    if isinstance(obj, (list, tuple)):
        return (type(obj).__name__, [canon(v) for v in obj])
    if obj is None or isinstance(obj, str):
        return obj
    return ("object", type(obj).__name__)

def record(label, thunk):
    """ Run thunk, log its canonical result or the type+message of its exception """
    try:
        out = ("ok", canon(thunk()))
    except Exception as exc:
        out = ("raised", type(exc).__name__, str(exc))
    LINES.append(f"{label}: {out!r}")

# ---------------------------------------------------------------------------
# inputs
def matrices():
    """ name -> zero-argument factory of a fresh matrix (so mutation is visible) """
    rng = np.random.RandomState(12345)
    R5 = rng.randint(-3, 4, size=(5, 5)).astype(float)
    R4 = np.round(rng.randn(4, 4), 3)
    R4[np.abs(R4) < 0.6] = 0.0
    I3 = np.array([[1, 2, 0], [3, 0, -1], [0, 4, 5]])  # integer dtype
    mats = {
        "R5": lambda: R5.copy(),
        "R4sparse_float": lambda: R4.copy(),
        "I3int": lambda: I3.copy(),
        "upper3": lambda: np.triu(R5[:3, :3]),
        "sym3": lambda: R5[:3, :3] + R5[:3, :3].T,
        "zeros3": lambda: np.zeros((3, 3)),
        "diag3": lambda: np.diag([1.5, 0.0, -2.25]),
        "one": lambda: np.array([[2.5]]),
        "empty": lambda: np.zeros((0, 0)),
        "csr": lambda: sp.csr_array(R5),
        "csc": lambda: sp.csc_array(R4),
        "lil": lambda: sp.lil_array(I3),
        "coo": lambda: sp.coo_array(R5[:4, :4]),
        "csr_matrix": lambda: sp.csr_matrix(R4),
        # error cases
        "rect23": lambda: np.arange(6.0).reshape(2, 3),
        "rect32sparse": lambda: sp.csr_array(np.arange(6.0).reshape(3, 2)),
        "vec": lambda: np.arange(3.0),
        "cube": lambda: np.zeros((2, 2, 2)),
        "scalar": lambda: np.float64(3.0),
        "list": lambda: [[1.0, 2.0], [3.0, 4.0]],
        "none": lambda: None,
    }
    return mats

def with_input_check(fun, make, *extra):
    """ call fun(M, *extra) and also report the input afterwards (mutation check) """
    M = make()
    result = fun(M, *extra)
    return result, ("input-after", canon(M))

# ---------------------------------------------------------------------------
def free_functions(mats):
    for name, make in mats.items():
        record(f"to_upper_triangular[{name}]", lambda: with_input_check(QT.to_upper_triangular, make))
        record(f"to_symmetric[{name}]", lambda: with_input_check(QT.to_symmetric, make))
        record(f"QUBO_to_Ising[{name}]", lambda: with_input_check(QT.QUBO_to_Ising, make))
        record(f"QUBO_to_Ising[{name},const]", lambda: with_input_check(QT.QUBO_to_Ising, make, 1.75))
        for hname, h in (("zeros", None), ("ones", 1.0), ("short", "short"), ("2d", "2d"), ("list", "list")):
            def call():
                J = make()
                try:
                    n = J.shape[0]
                except Exception:
                    n = 2
                if h is None:
                    hh = np.zeros(n)
                elif h == "short":
                    hh = np.ones(n + 1)
                elif h == "2d":
                    hh = np.arange(float(n)).reshape(1, n)
                elif h == "list":
                    hh = [0.5 * k for k in range(n)]
                else:
                    hh = np.full(n, h)
                hh0 = canon(hh)
                res = QT.Ising_to_QUBO(J, hh, 0.25)
                return res, canon(J), hh0 == canon(hh)
            record(f"Ising_to_QUBO[{name},{hname}]", call)
        # twice in a row: nothing cached
        record(f"to_upper_triangular-again[{name}]", lambda: QT.to_upper_triangular(make()))

    # round trips, default const
    for name in ("R5", "I3int", "csr", "empty", "one"):
        def trip():
            J, h, c = QT.QUBO_to_Ising(mats[name]())
            Q2, c2 = QT.Ising_to_QUBO(J, h, c)
            return J, h, c, Q2, c2
        record(f"roundtrip[{name}]", trip)

    # the untouched helpers, for completeness
    x = np.array([0, 1, 1, 0, 1])
    record("x_to_s", lambda: QT.x_to_s(x))
    record("s_to_x", lambda: QT.s_to_x(QT.x_to_s(x)))
    record("evaluate_QUBO", lambda: QT.evaluate_QUBO(mats["R5"](), 0.5, x))
    record("get_Ising_J_h", lambda: with_input_check(QT.get_Ising_J_h, mats["lil"]))

def all_bitstrings(n):
    return [[int(b) for b in format(v, f"0{n}b")] if n else [] for v in range(2 ** n)]

def container(mats, tmpdir):
    patterns = ("upper-triangular", "symmetric", "foo", "UPPER-Triangular", "SyMMetric", "", None, 7, b"symmetric")
    for name, make in mats.items():
        for pat in patterns:
            label = f"QC[{name},{pat!r}]"
            holder = {}
            def build():
                M = make()
                qc = QT.QUBOContainer(M, 0.375, pattern=pat)
                holder["qc"] = qc
                return (sorted(vars(qc)), qc.n_vars, qc.const_qubo, qc.Q, qc.J, qc.h,
                        qc.const_ising, ("input-after", canon(M)))
            record(label, build)
            qc = holder.get("qc")
            if qc is None:
                continue
            n = qc.n_vars
            if n <= 4:
                xs = all_bitstrings(n)
                record(label + ".evaluate_QUBO", lambda: [qc.evaluate_QUBO(x) for x in xs])
                record(label + ".objective_QUBO", lambda: [qc.get_objective_function_QUBO()(np.array(x)) for x in xs])
                record(label + ".evaluate_Ising",
                       lambda: [qc.evaluate_Ising(QT.x_to_s(np.array(x, dtype=int))) for x in xs])
                record(label + ".objective_Ising",
                       lambda: [qc.get_objective_function_Ising()(QT.x_to_s(np.array(x, dtype=int))) for x in xs])
            record(label + ".report", qc.report)
            if n <= 5:
                record(label + ".report-stats", lambda: qc.report(obj_stats=True))
                record(label + ".report-stats-tol", lambda: qc.report(True, 0.5))
            record(label + ".report-again", qc.report)
            # export, both flavours, twice
            for as_ising in (False, True):
                for rep in range(2):
                    fname = os.path.join(tmpdir, "out.txt")
                    def export():
                        if os.path.exists(fname):
                            os.remove(fname)
                        ret = qc.export(fname, as_ising)
                        with open(fname, encoding="utf-8") as f:
                            return ret, f.read()
                    record(label + f".export[{as_ising},{rep}]", export)
            # state after all of that
            record(label + ".state", lambda: (qc.n_vars, qc.const_qubo, qc.Q, qc.J, qc.h, qc.const_ising))

    # positional / default pattern
    record("QC-default", lambda: QT.QUBOContainer(mats["R5"](), 1).Q)
    record("QC-positional", lambda: QT.QUBOContainer(mats["R5"](), 1, "symmetric").Q)
    record("QC-noargs", lambda: QT.QUBOContainer())
    record("QC-const-types", lambda: [QT.QUBOContainer(mats["I3int"](), c).const_ising
                                      for c in (0, 2, 1.5, np.float64(2.0), np.int64(3))])

def export_edge_cases(mats, tmpdir):
    # default file names (written relative to the cwd)
    old = os.getcwd()
    os.chdir(tmpdir)
    try:
        qc = QT.QUBOContainer(mats["R4sparse_float"](), -2.0, "symmetric")
        for as_ising, expected in ((False, "fubo.qubo"), (True, "fubo.rudy")):
            def default_name():
                ret = qc.export(as_ising=as_ising)
                with open(expected, encoding="utf-8") as f:
                    return ret, sorted(os.listdir(".")), f.read()
            record(f"export-default-name[{as_ising}]", default_name)
    finally:
        os.chdir(old)

    # caller tampered with the public attributes between calls: nothing is cached
    for as_ising in (False, True):
        for new_n in (0, 2, 5, 9):
            qc = QT.QUBOContainer(mats["R5"](), 0.125)
            fname = os.path.join(tmpdir, f"tamper_{as_ising}_{new_n}.txt")
            def tampered():
                qc.n_vars = new_n
                try:
                    ret = qc.export(fname, as_ising)
                finally:
                    created = os.path.exists(fname)
                with open(fname, encoding="utf-8") as f:
                    return ret, created, f.read()
            record(f"export-tampered-n[{as_ising},{new_n}]", tampered)
            record(f"export-tampered-n[{as_ising},{new_n}]-file-exists", lambda: os.path.exists(fname))
        qc = QT.QUBOContainer(mats["I3int"](), 0.125)
        fname = os.path.join(tmpdir, f"tamper2_{as_ising}.txt")
        def swapped():
            first = qc.export(fname, as_ising)
            with open(fname, encoding="utf-8") as f:
                a = f.read()
            qc.Q = sp.csr_array(np.array([[0.0, 7.0, 0.0], [1.0, 2.0, 0.0], [0.0, 0.0, 0.004]]))
            qc.J = sp.csc_array(np.array([[9.0, -1.0, 0.0], [0.0, 0.0, 3.0], [0.0, 0.0, 0.0]]))
            qc.h = [0.0, -0.0, 2]
            qc.const_qubo = 10
            qc.const_ising = -1
            second = qc.export(fname, as_ising)
            with open(fname, encoding="utf-8") as f:
                b = f.read()
            return first, a, second, b
        record(f"export-swapped[{as_ising}]", swapped)
        # non-formattable constant -> exception before the file is opened
        fname2 = os.path.join(tmpdir, f"bad_{as_ising}.txt")
        record(f"export-bad-const[{as_ising}]", lambda: QT.QUBOContainer(mats["I3int"](), "text").export(fname2, as_ising))
        def bad():
            qc3 = QT.QUBOContainer(mats["I3int"](), 1.0)
            qc3.const_qubo = "text"
            qc3.const_ising = None
            qc3.export(fname2, as_ising)
        record(f"export-bad-const2[{as_ising}]", bad)
        record(f"export-bad-const[{as_ising}]-file-exists", lambda: os.path.exists(fname2))
        # unwritable target -> OSError after the contents were built
        record(f"export-bad-path[{as_ising}]",
               lambda: QT.QUBOContainer(mats["I3int"](), 1.0).export(os.path.join(tmpdir, "no", "such", "dir.txt"), as_ising))

def main():
    # freeze the time stamp written by export()
    class _FixedDateTime:
        calls = 0
        @classmethod
        def today(cls):
            cls.calls += 1
            return f"<fixed time #{cls.calls}>"
    QT.datetime = types.SimpleNamespace(datetime=_FixedDateTime)

    np.random.seed(2023)
    state_before = canon(np.random.get_state()[1])
    mats = matrices()
    with tempfile.TemporaryDirectory() as tmpdir:
        free_functions(mats)
        container(mats, tmpdir)
        export_edge_cases(mats, tmpdir)
    record("today-calls", lambda: _FixedDateTime.calls)
    record("global-rng-untouched", lambda: state_before == canon(np.random.get_state()[1]))
    record("public-names", lambda: sorted(k for k in vars(QT) if not k.startswith("_")))
    record("public-methods", lambda: sorted(k for k in vars(QT.QUBOContainer) if not k.startswith("_")))

    text = "\n".join(LINES)
    # temp dir names differ between runs: they only appear in OSError messages
    digest_lines = []
    for line in LINES:
        if "export-bad-path" in line:
            line = line.split(", \"[Errno")[0].split(", '[Errno")[0]
        digest_lines.append(line)
    text = "\n".join(digest_lines)
    if len(sys.argv) > 2:
        with open(sys.argv[2], "w", encoding="utf-8") as f:
            f.write(text + "\n")
    print(f"cases: {len(LINES)}")
    print(f"ok: {sum(': (' + repr('ok') in l for l in LINES)}  raised: {sum(': (' + repr('raised') in l for l in LINES)}")
    print("sha256:", hashlib.sha256(text.encode("utf-8")).hexdigest())

if __name__ == "__main__":
    main()
