"""Equivalence check for vrpqubo.tools.sampling: prints a deterministic digest.

usage: python equiv.py <source-root>
"""
import sys
import hashlib
from fractions import Fraction

sys.path.insert(0, sys.argv[1])

import numpy as np
from scipy import stats
from vrpqubo.tools import sampling as S

LINES = []

def emit(*parts):
    LINES.append(" | ".join(str(p) for p in parts))

def arr(a):
    a = np.asarray(a)
    if a.dtype == object:  # tobytes() would hash pointers; use the element reprs instead
        return f"object{a.shape}:{[repr(v) for v in a.ravel().tolist()]}"
    return f"{a.dtype}{a.shape}:{hashlib.sha256(np.ascontiguousarray(a).tobytes()).hexdigest()[:16]}"

def rng_digest():
    st = np.random.get_state()
    return hashlib.sha256(st[1].tobytes() + bytes(str(st[2:]), "ascii")).hexdigest()[:16]

def members(seq):
    """Describe members of a list/tuple (do not consume iterators, tolerate junk)"""
    if isinstance(seq, (list, tuple)):
        return ", ".join(struct(s) for s in seq)
    return "?"

def struct(x):
    """Structural description of a sampler tree (types, attribute names, constants)"""
    if isinstance(x, S.ConstantSampler):
        return f"Const({type(x.constant).__name__}:{x.constant!r})"
    if isinstance(x, S.WrapperSampler):
        u = x.underlying
        return f"Wrap({type(u).__name__}:{getattr(getattr(u, 'dist', u), 'name', '?')})"
    if isinstance(x, S.NegatedSampler):
        return f"Neg({struct(x.positive)})"
    if isinstance(x, S.SumSampler):
        return f"Sum[{type(x.summands).__name__}]({members(x.summands)})"
    if isinstance(x, S.ProductSampler):
        return f"Prod[{type(x.multiplicands).__name__}]({members(x.multiplicands)})"
    if isinstance(x, S.RatioSampler):
        return f"Ratio({struct(x.numerator)}, {struct(x.denominator)})"
    if isinstance(x, S.RVT):
        return f"RV({type(x).__name__}:{getattr(getattr(x, 'dist', x), 'name', '?')})"
    return f"Other({type(x).__name__}:{x!r})"

def attempt(label, fn):
    """Run fn, record the result structure or the exception type"""
    try:
        res = fn()
    except Exception as exc:  # pylint: disable=broad-except
        emit(label, "EXC", type(exc).__name__)
        return None
    emit(label, "OK", struct(res) if not isinstance(res, (np.ndarray, float, int)) else res)
    return res

def sample(label, sampler, sizes=(1, 0, 3, 7, (2, 3)), seed=1234):
    """Sample with fixed seeds (also repeated calls); record values and RNG consumption"""
    for size in sizes:
        np.random.seed(seed)
        try:
            first = sampler.rvs(size)
            second = sampler.rvs(size)
            emit(label, f"size={size}", arr(first), arr(second), rng_digest())
        except Exception as exc:  # pylint: disable=broad-except
            emit(label, f"size={size}", "EXC", type(exc).__name__, rng_digest())
    np.random.seed(seed)
    try:
        emit(label, "default", arr(sampler.rvs()), rng_digest())
    except Exception as exc:  # pylint: disable=broad-except
        emit(label, "default", "EXC", type(exc).__name__, rng_digest())

# ---------------------------------------------------------------------------
U = S.WrapperSampler(stats.uniform(1.0, 2.0))
N = S.WrapperSampler(stats.norm(0.5, 3.0))
P = S.WrapperSampler(stats.poisson(4.0))
E = S.WrapperSampler(stats.expon)          # unfrozen rv_continuous
raw_rv = stats.uniform(0.0, 1.0)           # a bare frozen RV (not wrapped)

class Duck:
    """Not a SimpleSampler, not Real; has rvs and __neg__"""
    def __init__(self, val):
        self.val = val
    def rvs(self, size=1):
        return self.val * np.ones(size) + np.random.random(size)
    def __neg__(self):
        return Duck(-self.val)
    def __repr__(self):
        return f"Duck({self.val})"

constants = [0, 1, -2, 3.5, -0.0, True, False, np.float64(2.25), np.int64(7),
             np.float32(0.1), Fraction(1, 3), float("inf"), float("nan")]
non_reals = [1 + 2j, "abc", None, [1, 2], np.array([1.0, 2.0]), Duck(2.0), raw_rv]

emit("module names", sorted(n for n in dir(S) if not n.startswith("_")))
emit("mean", U.mean(), N.mean(), P.mean())

# Operators with real constants, both sides
for i, c in enumerate(constants):
    for name, fn in [
        ("add", lambda c=c: U + c), ("radd", lambda c=c: c + U),
        ("sub", lambda c=c: U - c), ("rsub", lambda c=c: c - U),
        ("mul", lambda c=c: U * c), ("rmul", lambda c=c: c * U),
        ("div", lambda c=c: U / c), ("rdiv", lambda c=c: c / U),
        ("ratio", lambda c=c: S.RatioSampler(c, c)),
    ]:
        label = f"const[{i}] {name}"
        res = attempt(label, fn)
        if res is not None:
            sample(label, res, sizes=(1, 0, 4))

# Operators with non-real operands (error cases / pass-through)
for i, x in enumerate(non_reals):
    for name, fn in [
        ("add", lambda x=x: N + x), ("radd", lambda x=x: N.__radd__(x)),
        ("sub", lambda x=x: N - x), ("rsub", lambda x=x: N.__rsub__(x)),
        ("mul", lambda x=x: N * x), ("rmul", lambda x=x: N.__rmul__(x)),
        ("div", lambda x=x: N / x), ("rdiv", lambda x=x: N.__rtruediv__(x)),
        ("ratio", lambda x=x: S.RatioSampler(x, x)),
    ]:
        label = f"nonreal[{i}] {name}"
        res = attempt(label, fn)
        if res is not None:
            sample(label, res, sizes=(1, 3))

# Sampler (x) sampler algebra, nested expressions
exprs = {
    "U+N": lambda: U + N, "U-N": lambda: U - N, "U*N": lambda: U * N, "U/N": lambda: U / N,
    "-U": lambda: -U, "--U": lambda: -(-U), "U+U": lambda: U + U,
    "nested1": lambda: (U + 2) * (N - 1.5) / (P + 1),
    "nested2": lambda: 3 - (2 * U - N / 4) + (-P) * 0.5,
    "nested3": lambda: 1 / (1 + U * U) - (E - 2) / 7,
    "nested4": lambda: ((U + N) + P) + E,
    "nested5": lambda: U * (N * (P * E)),
    "sum(builtin)": lambda: sum([U, N, P]),
    "raw add": lambda: U + raw_rv, "raw radd": lambda: raw_rv + U,
    "raw sub": lambda: U - raw_rv, "raw mul": lambda: U * raw_rv, "raw div": lambda: U / raw_rv,
    "const only": lambda: S.ConstantSampler(2) + 3,
    "const/0": lambda: S.ConstantSampler(1.0) / 0,
}
for label, fn in exprs.items():
    res = attempt(label, fn)
    if res is not None:
        sample(label, res)

# Direct construction: empty / single / many / list instead of tuple / bad members
direct = {
    "Sum()": lambda: S.SumSampler(()), "Prod()": lambda: S.ProductSampler(()),
    "Sum(U,)": lambda: S.SumSampler((U,)), "Prod(U,)": lambda: S.ProductSampler((U,)),
    "Sum list": lambda: S.SumSampler([U, N, P, E]),
    "Prod list": lambda: S.ProductSampler([U, N, P, E]),
    "Sum gen": lambda: S.SumSampler(iter((U, N))),
    "Sum bad": lambda: S.SumSampler((U, 3)), "Prod bad": lambda: S.ProductSampler((U, "x")),
    "Sum None": lambda: S.SumSampler(None), "Prod None": lambda: S.ProductSampler(None),
    "Neg bad": lambda: S.NegatedSampler(3), "Wrap bad": lambda: S.WrapperSampler(3),
    "Ratio raw": lambda: S.RatioSampler(raw_rv, raw_rv),
    "Ratio bad": lambda: S.RatioSampler(U, "x"),
}
for label, fn in direct.items():
    res = attempt(label, fn)
    if res is not None:
        sample(label, res)

# Arguments are not mutated; attribute identity is preserved
lst = [U, N]
ss = S.SumSampler(lst)
np.random.seed(5)
ss.rvs(3)
emit("identity", ss.summands is lst, lst == [U, N], (U + N).summands[1] is N,
     (N * U).multiplicands[0] is N, (U / N).denominator is N, (U - 1).summands[0] is U,
     (raw_rv + U).summands[0] is raw_rv)
# mutate after construction: no caching
lst.append(P)
np.random.seed(5)
emit("mutated", arr(ss.rvs(3)), rng_digest())
rs = U / 2
rs.denominator = N
np.random.seed(5)
emit("ratio reassigned", arr(rs.rvs(3)), rng_digest())

digest = hashlib.sha256("\n".join(LINES).encode()).hexdigest()
if len(sys.argv) > 2:
    print("\n".join(LINES))
print(f"{len(LINES)} records; digest {digest}")
