"""Shared machinery: paths, exact numbers, Lean build/audit, driver process, verdicts, evidence."""
import fcntl
import hashlib
import json
import os
import random
import re
import subprocess
import sys
import time
from dataclasses import dataclass, field
from fractions import Fraction
from pathlib import Path

VERIF = Path(__file__).resolve().parents[2]
REPO = Path(os.environ.get("VERIF_REPO", "/repo")).resolve()
LEAN = VERIF / "lean"
EVIDENCE = Path(os.environ["VERIF_EVIDENCE_DIR"]) if os.environ.get("VERIF_EVIDENCE_DIR") else VERIF / "evidence"
REPLAYS = EVIDENCE / "replays"
CORPUS = VERIF / "corpus"
KNOWN = VERIF / "known_findings.txt"
GUARD = "SMHARWOOD_VRP_AS_QUBO_VERIF"

ALLOWED_AXIOMS = {"propext", "Classical.choice", "Quot.sound"}
FORBIDDEN = re.compile(r"\bsorry\b|\badmit\b|^axiom |native_decide|bv_decide|implemented_by|\bunsafe |maxHeartbeats 0", re.M)


class SkipCase(Exception):
    """the case cannot be set up for a reason that is not the property's business (reported as a feature, never as a verdict)"""


class Infra(Exception):
    """infrastructure fault (exit 2), never a verdict"""


def use_repo():
    """make `import vrpqubo` resolve to the tree under test and check that it did"""
    src = str(REPO / "src")
    if src not in sys.path:
        sys.path.insert(0, src)
    os.environ[GUARD] = "1"
    import vrpqubo  # noqa
    got = Path(vrpqubo.__file__).resolve()
    if not str(got).startswith(str(REPO / "src")):
        raise Infra(f"vrpqubo imported from {got}, expected under {REPO}/src")
    import logging
    logging.disable(logging.CRITICAL)
    import warnings
    warnings.filterwarnings("ignore")


# ---------------------------------------------------------------- exact numbers

INF = "inf"


def F(x):
    """exact Fraction of an int / float / numpy scalar / 'p/q' string"""
    if isinstance(x, Fraction):
        return x
    if isinstance(x, str):
        return Fraction(x)
    if isinstance(x, int):
        return Fraction(x)
    import numpy as np
    if isinstance(x, (np.integer,)):
        return Fraction(int(x))
    xf = float(x)
    if xf != xf or xf in (float("inf"), float("-inf")):
        raise ValueError(f"non-finite {x}")
    return Fraction(xf)


def fs(x):
    """protocol token of a rational (or inf)"""
    if x is None or x == INF:
        return "inf"
    if isinstance(x, float) and x == float("inf"):
        return "inf"
    f = F(x)
    return str(f.numerator) if f.denominator == 1 else f"{f.numerator}/{f.denominator}"


def fl(xs):
    xs = list(xs)
    return " ".join([str(len(xs))] + [fs(x) for x in xs])


def fmat(rows, r=None, c=None):
    rows = [list(rw) for rw in rows]
    r = len(rows) if r is None else r
    c = (len(rows[0]) if rows else 0) if c is None else c
    return " ".join([str(r), str(c)] + [fs(x) for rw in rows for x in rw])


def parse_tok(t):
    if t == "inf":
        return INF
    if t == "none":
        return None
    return Fraction(t)


def jsonable(x):
    if isinstance(x, Fraction):
        return fs(x)
    if isinstance(x, dict):
        return {str(k): jsonable(v) for k, v in x.items()}
    if isinstance(x, (list, tuple)):
        return [jsonable(v) for v in x]
    if isinstance(x, float):
        return "inf" if x == float("inf") else x
    try:
        import numpy as np
        if isinstance(x, np.generic):
            return jsonable(x.item())
    except Exception:
        pass
    return x


# ---------------------------------------------------------------- Lean side

def _run(cmd, cwd, timeout=3600):
    return subprocess.run(cmd, cwd=cwd, stdout=subprocess.PIPE, stderr=subprocess.STDOUT, text=True, timeout=timeout)


def lake_build(targets):
    """serialised `lake build`; returns (ok, log)"""
    LEAN.mkdir(exist_ok=True)
    lock = open(LEAN / ".build.lock", "w")
    fcntl.flock(lock, fcntl.LOCK_EX)
    try:
        p = _run(["lake", "build"] + list(targets), LEAN)
        return p.returncode == 0, p.stdout
    finally:
        fcntl.flock(lock, fcntl.LOCK_UN)
        lock.close()


def strip_comments(src):
    src = re.sub(r"/-.*?-/", "", src, flags=re.S)
    src = re.sub(r"--.*", "", src)
    return src


def forbidden_tokens():
    hits = []
    for sub in ("VrpModel", "VrpProofs", "Driver"):
        for f in sorted((LEAN / sub).rglob("*.lean")):
            m = FORBIDDEN.search(strip_comments(f.read_text()))
            if m:
                hits.append(f"{f.relative_to(VERIF)}: {m.group(0)!r}")
    return hits


def prop_modules(prop_id):
    """theorem modules of a property: Props/Cxx.lean plus optional continuation files Props/Cxx[a-z].lean"""
    d = LEAN / "VrpProofs" / "Props"
    files = [d / f"{prop_id}.lean"] + sorted(d.glob(f"{prop_id}[a-z].lean"))
    return [f for f in files if f.exists()]


def theorem_names(prop_id):
    """fully qualified names of all theorems of the property's modules (tracks nested `namespace … end`)"""
    out = []
    for f in prop_modules(prop_id):
        src = strip_comments(f.read_text())
        stack = []
        for ln in src.splitlines():
            m = re.match(r"^namespace\s+(\S+)", ln)
            if m:
                stack.append(m.group(1))
                continue
            m = re.match(r"^end\s+(\S+)", ln)
            if m and stack and stack[-1] == m.group(1):
                stack.pop()
                continue
            m = re.match(r"^(?:private\s+|protected\s+)?theorem\s+([^\s\(\{\[:]+)", ln)
            if m and not ln.startswith("private"):
                out.append(".".join(stack + [m.group(1)]))
    return out


def audit_axioms(prop_id):
    """elaborate a fresh `#print axioms` file for every theorem of Props/<id>.lean"""
    names = theorem_names(prop_id)
    d = LEAN / ".lake" / "audit"
    d.mkdir(parents=True, exist_ok=True)
    f = d / f"Audit_{prop_id}_{os.getpid()}.lean"
    f.write_text("".join(f"import VrpProofs.Props.{m.stem}\n" for m in prop_modules(prop_id))
                 + "".join(f"#print axioms {n}\n" for n in names))
    try:
        p = _run(["lake", "env", "lean", str(f)], LEAN)
    finally:
        try:
            f.unlink()
        except OSError:
            pass
    out = {}
    for m in re.finditer(r"'(\S+)' depends on axioms: \[([^\]]*)\]", p.stdout.replace("\n", " ")):
        out[m.group(1)] = [a.strip() for a in m.group(2).split(",") if a.strip()]
    for m in re.finditer(r"'(\S+)' does not depend on any axioms", p.stdout):
        out[m.group(1)] = []
    missing = [n for n in names if n not in out]
    return names, out, missing, p.stdout


class Driver:
    def __init__(self):
        exe = LEAN / ".lake" / "build" / "bin" / "vrpdriver"
        if not exe.exists():
            raise Infra("driver executable missing")
        self.p = subprocess.Popen([str(exe)], stdin=subprocess.PIPE, stdout=subprocess.PIPE, text=True, bufsize=1)
        self.requests = 0

    def ask(self, line):
        assert "\n" not in line
        try:
            self.p.stdin.write(line + "\n")
            self.p.stdin.flush()
            out = self.p.stdout.readline()
        except BrokenPipeError as e:
            raise Infra(f"driver died: {e}")
        if not out:
            raise Infra(f"driver gave no reply to: {line[:200]}")
        out = out.rstrip("\n")
        self.requests += 1
        if out.startswith("bad-request"):
            raise Infra(f"{out} <- {line[:300]}")
        return out

    def close(self):
        try:
            self.p.stdin.close()
            self.p.wait(timeout=5)
        except Exception:
            self.p.kill()


def split_reply(rep):
    """'ok a b | c d' -> ('ok', [['a','b'],['c','d']])"""
    head, _, rest = rep.partition(" ")
    groups = [g.split() for g in rest.split("|")] if rest else []
    return head, groups


# ---------------------------------------------------------------- case results

@dataclass
class Result:
    key: str = ""                                  # canonical identity of the case (for distinct counting)
    nontrivial: bool = True
    features: list = field(default_factory=list)   # input-distribution counters
    disagreements: list = field(default_factory=list)   # model vs implementation
    failures: list = field(default_factory=list)        # (signature, message): property fails on the real code

    def disagree(self, what, impl, model):
        self.disagreements.append(f"{what}: impl={_short(impl)} model={_short(model)}")

    def fail(self, signature, msg):
        self.failures.append((signature, msg))


def _short(x, n=300):
    s = str(jsonable(x))
    return s if len(s) <= n else s[:n] + "…"


def case_key(case):
    return hashlib.sha1(json.dumps(jsonable(case), sort_keys=True).encode()).hexdigest()[:16]


def err_kind(e):
    if isinstance(e, AssertionError):
        return "err:assert"
    if isinstance(e, ZeroDivisionError):
        return "err:zerodiv"
    if isinstance(e, ValueError):
        return "err:value"
    if isinstance(e, (IndexError, KeyError)):
        return "err:index"
    if isinstance(e, (TypeError, AttributeError)):
        return "err:type"
    return "err:other:" + type(e).__name__


def err_class(x):
    """'err:value' / 'raise:…' / 'heur-raised:…' -> 'raised'; anything else unchanged (the properties say THAT a call raises, not what)"""
    if isinstance(x, str) and (x.startswith("err") or x.startswith("raise") or x.startswith("heur-raised") or x.startswith("raised")):
        return "raised"
    return x


# ---------------------------------------------------------------- known findings

def load_known():
    findings, fixed = [], []
    if KNOWN.exists():
        for ln in KNOWN.read_text().splitlines():
            ln = ln.strip()
            if not ln or ln.startswith("#"):
                continue
            if ln.startswith("finding:"):
                m = re.match(r"finding:\s+property=(\S+)\s+signature=(\S+)\s+witness=(\S+)\s+::\s*(.*)", ln)
                if m:
                    findings.append(dict(prop=m.group(1), signature=m.group(2), witness=m.group(3), what=m.group(4)))
            elif ln.startswith("fixed:"):
                fixed.append(ln)
    return findings, fixed
