"""Cases over the three formulations: generation, construction of the real object, model requests from its instance state."""
from fractions import Fraction
import numpy as np

from . import core
from . import vrp_util as VU
from . import mirp_util as MU
from .core import fs, fl, F


def gen_routes(rng, spec, k=None):
    names = [n["name"] for n in spec["nodes"]]
    arcs = {(a[0], a[1]) for a in spec["arcs"]}
    out = []
    k = k if k is not None else rng.randint(0, 7)
    for _ in range(k):
        r = ["D"]
        left = names[1:]
        rng.shuffle(left)
        L = rng.randint(0, len(left))
        for nm in left[:L]:
            if (r[-1], nm) in arcs or rng.random() < 0.25:
                r.append(nm)
        r.append("D")
        if rng.random() < 0.3:
            r = [names.index(x) if rng.random() < 0.6 else x for x in r]
        out.append(r)
    return out


def gen_form_case(rng, tier, forms=("arc", "path", "seq"), heur_p=0.35, nmax=None):
    form = rng.choice(forms)
    nmax = nmax or (4 if form != "path" else 5)
    spec = VU.gen_vrptw(rng, nmax=nmax)
    case = dict(form=form, spec=spec, seed=rng.randrange(10 ** 6))
    if form == "arc":
        case["grid"] = VU.gen_grid(rng, spec, tier)
    elif form == "path":
        case["routes"] = gen_routes(rng, spec)
    else:
        case["strict"] = rng.random() < 0.5
        case["V"] = rng.choice([0, 1, 1, 2, 2, 3])
        case["L"] = rng.choice([3, 3, 4, 4, 5])
    if rng.random() < heur_p:
        case["heur"] = fs(Fraction(rng.choice([0, 1, 10, 40, 1000, 3]), rng.choice([1, 1, 4])))
        if rng.random() < 0.4:
            # queries issued BEFORE the heuristic (fills the object's caches; they must not matter afterwards)
            case["pre"] = rng.sample(["n", "obj", "con", "qubo_o", "qubo_f"], rng.randint(1, 3))
    if form == "seq" and case.get("heur") is not None and rng.random() < 0.45:
        # a depot window that closes: the heuristic's exit arcs may be refused, so it raises after it has already added vehicles / arcs;
        # the half-updated object must still report what its state says (with queries issued before)
        his = [Fraction(nd["hi"]) for nd in spec["nodes"][1:] if nd["hi"] != "inf"]
        spec["nodes"][0]["hi"] = fs(max(Fraction(0), max(his + [Fraction(1)]) + Fraction(rng.randint(-3, 2))))
        case.setdefault("pre", rng.sample(["n", "obj", "con", "qubo_o", "qubo_f"], rng.randint(1, 3)))
    r_ = rng.random()
    if r_ < 0.25:
        # the graph is assembled through the formulation object's own add_node / add_arc / set_depot, the depot named late
        case["via"] = "wrapper"
        case["arcs_before_depot"] = rng.randint(0, len(case["spec"]["arcs"]))
    elif r_ < 0.33:
        # … or with the depot node first, queried, and the depot declared only afterwards
        case["via"], case["skip_set_depot"], case["then_set_depot"] = "wrapper", True, True
        case["arcs_before_depot"] = len(case["spec"]["arcs"])
    elif r_ < 0.41 and form != "seq":
        # … or with the depot node first and NEVER declared ("default depot is zeroth node").  Not for the sequence class: its protocol
        # is to call set_depot, which installs the stay-at-depot move (the package's own test_sequence_based pins "3 arcs before
        # set_depot, 4 after"; a repair that installs the loop at the first add_node breaks that test)
        case["via"], case["skip_set_depot"] = "wrapper", True
        case["arcs_before_depot"] = len(case["spec"]["arcs"])
    return case


def shrink_form_case(case):
    spec = case["spec"]
    # drop an arc
    for i in range(len(spec["arcs"])):
        yield dict(case, spec=dict(spec, arcs=spec["arcs"][:i] + spec["arcs"][i + 1:]))
    # drop the last node (with its arcs)
    if len(spec["nodes"]) > 2:
        nm = spec["nodes"][-1]["name"]
        arcs = [a for a in spec["arcs"] if nm not in (a[0], a[1])]
        c2 = dict(case, spec=dict(spec, nodes=spec["nodes"][:-1], arcs=arcs))
        if "routes" in case:
            idx = len(spec["nodes"]) - 1
            c2["routes"] = [r for r in case["routes"] if nm not in r and idx not in r]
        yield c2
    if "grid" in case and len(case["grid"]) > 1:
        for i in range(len(case["grid"])):
            yield dict(case, grid=case["grid"][:i] + case["grid"][i + 1:])
    if "routes" in case:
        for i in range(len(case["routes"])):
            yield dict(case, routes=case["routes"][:i] + case["routes"][i + 1:])
    if case.get("V", 0) > 1:
        yield dict(case, V=case["V"] - 1)
    if case.get("L", 0) > 3:
        yield dict(case, L=case["L"] - 1)
    if "pre" in case:
        c2 = dict(case)
        del c2["pre"]
        yield c2
    if "heur" in case:
        c2 = dict(case)
        del c2["heur"]
        c2.pop("pre", None)
        yield c2
    # simplify numbers
    for i, a in enumerate(spec["arcs"]):
        if a[3] not in ("0", "1"):
            arcs = [list(x) for x in spec["arcs"]]
            arcs[i][3] = "1"
            yield dict(case, spec=dict(spec, arcs=arcs))


def gen_raising_seq_case(rng):
    """a sequence-based case whose heuristic raises AFTER it has changed the object: no regular vehicle, and a depot window that closes
    before some customer's window opens, so the exit arc of that customer's dummy vehicle is refused; queries are issued before"""
    spec, info = VU.gen_planted(rng, ncust=rng.randint(1, 3), extra_arc_p=0.3, wide=True)
    los = [Fraction(nd["lo"]) for nd in spec["nodes"][1:]]
    if max(los) <= 0:
        nd = rng.choice(spec["nodes"][1:])
        nd["lo"] = "1"
        if nd["hi"] != "inf" and Fraction(nd["hi"]) < 1:
            nd["hi"] = "2"
        los = [Fraction(n_["lo"]) for n_ in spec["nodes"][1:]]
    spec["nodes"][0]["hi"] = fs(max(los) - Fraction(1, 4))
    return dict(form="seq", spec=spec, strict=False, V=rng.choice([0, 0, 1]), L=max(3, info["Lmin"]), seed=rng.randrange(10 ** 6),
                heur=rng.choice(["10", "1000"]), pre=rng.sample(["n", "obj", "con", "qubo_o", "qubo_f"], rng.randint(1, 3)))


EXHAUSTIVE_FORMS_SCOPE = ("every VRPTW on a depot and two customers a, b with windows a in {[0,inf), [1,2], [2,2]}, b in {[0,inf), [1,3]}, every subset of the "
                          "six arcs D->a, D->b, a->D, b->D, a->b (time 1 or 2), b->a (unit times and costs otherwise; 2 x 64 x 6 graphs), as arc-based "
                          "on the grid [0,1,2,3], path-based with every depot route offered, sequence-based with (V,L) in {(1,3),(2,4)} strict and non-strict")


def gen_exhaustive_forms(forms=("arc", "path", "seq"), extra=None):
    """complete enumeration of a small scope of formulation instances (thorough tier)"""
    import itertools
    arcs_all = [["D", "a"], ["D", "b"], ["a", "D"], ["b", "D"], ["a", "b"], ["b", "a"]]
    routes_all = [[0, 1, 0], [0, 2, 0], [0, 1, 2, 0], [0, 2, 1, 0]]
    for wa, wb, tab in itertools.product([("0", "inf"), ("1", "2"), ("2", "2")], [("0", "inf"), ("1", "3")], ["1", "2"]):
        for mask in range(64):
            arcs = [[o, d, (tab if (o, d) == ("a", "b") else "1"), "1"] for k, (o, d) in enumerate(arcs_all) if mask >> k & 1]
            if tab == "2" and not (mask >> 4 & 1):
                continue       # the a->b time only matters when the arc exists
            spec = dict(nodes=[dict(name="D", demand="0", lo="0", hi="inf"), dict(name="a", demand="1", lo=wa[0], hi=wa[1]),
                               dict(name="b", demand="1", lo=wb[0], hi=wb[1])], arcs=arcs, cap="4", init="3")
            for form in forms:
                if form == "arc":
                    variants = [dict(grid=["0", "1", "2", "3"])]
                elif form == "path":
                    variants = [dict(routes=[list(r) for r in routes_all])]
                else:
                    variants = [dict(strict=st, V=V, L=L) for st in (False, True) for (V, L) in ((1, 3), (2, 4))]
                for var in variants:
                    case = dict(form=form, spec={k: (list(map(dict, v)) if k == "nodes" else [list(a) for a in v] if k == "arcs" else v)
                                                 for k, v in spec.items()}, seed=1, **var)
                    if extra:
                        case.update(extra)
                    yield case


def build_form(case, with_heur=True):
    """returns (object, heuristic outcome) where outcome is None / 'ok' / error kind"""
    from vrpqubo.routing_problem import ArcBasedRoutingProblem, PathBasedRoutingProblem, SequenceBasedRoutingProblem
    form = case["form"]
    if case.get("mirp") is not None:
        # formulation obtained from a MIRP through its getter (with or without the heuristic run by the getter)
        m, results = MU.build_py(case["mirp"])
        if any(r[0] != "ok" for r in results):
            raise RuntimeError("a MIRP helper call raised on a well-formed MIRP: " + repr([r for r in results if r[0] != "ok"][:1]))
        heur = case.get("heur")
        try:
            np.random.seed(case.get("seed", 0))
            if form == "arc":
                o = m.get_arc_based(make_feasible=False)
            elif form == "path":
                o = m.get_path_based(make_feasible=False)
            else:
                o = m.get_sequence_based(make_feasible=False, strict=case.get("strict", True))
        except Exception as e:  # noqa
            # the getter itself cannot configure a formulation for this MIRP (e.g. no travel arc of positive time: min() of nothing);
            # there is no object to speak about (since fix ff3f4a7 nothing half-built is kept either)
            # decided from the input, not from the exception's wording: the sequence getter sizes its sequences by the shortest positive
            # travel time, the path getter needs an arc cost and a port frequency for its high-cost estimate
            arcs_ = list(m.vrptw.arcs.values())
            no_pos = not any(a.get_travel_time() > 0 for a in arcs_)
            if (form == "seq" and no_pos) or (form == "path" and (not arcs_ or not m.port_frequency)):
                raise core.SkipCase("mirp-getter-raised:no-travel-arc")
            # any other exception out of a getter on a well-formed MIRP is not expected (reported as a broken correspondence)
            raise RuntimeError("the MIRP getter raised: " + repr(e)[:160])
        try:
            if heur is not None and with_heur:
                # (a dyadic high cost instead of the getter's own estimate, which is not exactly representable)
                o.make_feasible(VU.val(heur))
            return o, ("ok" if heur is not None and with_heur else None)
        except Exception as e:  # noqa
            return o, core.err_kind(e) + ":" + repr(e)[:120]
    if case.get("via") == "wrapper":
        spec = case["spec"]
        v = None
        o0 = (ArcBasedRoutingProblem() if form == "arc" else PathBasedRoutingProblem() if form == "path"
              else SequenceBasedRoutingProblem(strict=case["strict"]))
        if spec.get("cap") is not None:
            o0.set_vehicle_cap(VU.val(spec["cap"]))
        if spec.get("init") is not None:
            o0.set_initial_loading(VU.val(spec["init"]))
        skip_depot = bool(case.get("skip_set_depot"))      # the depot node is added first and set_depot is left to the history
        for nd in (spec["nodes"] if skip_depot else spec["nodes"][1:] + spec["nodes"][:1]):
            o0.add_node(nd["name"], VU.val(nd["demand"]), (VU.val(nd["lo"]), VU.val(nd["hi"])))
        kb = case.get("arcs_before_depot", 0)
        for a in spec["arcs"][:kb]:
            o0.add_arc(a[0], a[1], VU.val(a[2]), VU.val(a[3]))
        if not skip_depot:
            o0.set_depot(spec["nodes"][0]["name"])
        for a in spec["arcs"][kb:]:
            o0.add_arc(a[0], a[1], VU.val(a[2]), VU.val(a[3]))
        # the routing problem described by these calls is the one a depot-first construction describes (the strict sequence flavour
        # checks arcs against the depot known at the time of the call, so only the base flavour is compared)
        if skip_depot:
            pass
        elif not (form == "seq" and case["strict"]):
            vr = VU.build_vrptw(spec)
            ref = (ArcBasedRoutingProblem(vr) if form == "arc" else PathBasedRoutingProblem(vr) if form == "path"
                   else SequenceBasedRoutingProblem(vr, strict=False))
            gw, gr = VU.graph_of(o0), VU.graph_of(ref)
            if form == "seq":
                # the sequence-based set_depot installs a free depot self-loop; whether a depot self-arc given by the caller survives
                # depends on whether it was given before or after set_depot (documented behaviour), so it is not compared
                gw["arcs"] = [a for a in gw["arcs"] if (a[0], a[1]) != (0, 0)]
                gr["arcs"] = [a for a in gr["arcs"] if (a[0], a[1]) != (0, 0)]
            if (gw["nodes"], sorted(gw["arcs"]), gw["cap"], gw["init"]) != (gr["nodes"], sorted(gr["arcs"]), gr["cap"], gr["init"]):
                o0.vh_graph_mismatch = (gw, gr)
        else:
            # strict flavour: an arc out of the real depot given before set_depot is judged by the strict rule (and may be refused),
            # but no arc may be stored that the depot-first construction refuses (D13)
            vr = VU.build_vrptw(spec)
            gw, gr = VU.graph_of(o0), VU.graph_of(SequenceBasedRoutingProblem(vr, strict=True))
            extra = [a for a in gw["arcs"] if (a[0], a[1]) != (0, 0) and a not in gr["arcs"]]
            if gw["nodes"] != gr["nodes"] or extra:
                o0.vh_graph_mismatch = (gw, dict(gr, arcs=[a for a in gr["arcs"] if a in gw["arcs"] or (a[0], a[1]) == (0, 0)]))
    else:
        v = VU.build_vrptw(case["spec"])
        o0 = None
    if form == "arc":
        o = o0 if o0 is not None else ArcBasedRoutingProblem(v)
        o.add_time_points([VU.val(t) for t in case["grid"]])
    elif form == "path":
        o = o0 if o0 is not None else PathBasedRoutingProblem(v)
        for r in case["routes"]:
            try:
                o.add_route(list(r))
            except ValueError:
                pass
    else:
        o = o0 if o0 is not None else SequenceBasedRoutingProblem(v, strict=case["strict"])
        o.set_max_vehicles(case["V"])
        o.set_max_sequence_length(case["L"])
    if case.get("then_set_depot"):
        # the object was assembled through its own API with the depot node first but never declared; it is queried, and only then told
        # which node is the depot (the graph does not move; the sequence class installs its depot self-loop at that moment)
        try:
            if int(o.get_num_variables()) >= 1:
                o.get_qubo(feasibility=True)
        except Exception:  # noqa
            pass
        o.set_depot(case["spec"]["nodes"][0]["name"])
    outcome = None
    if with_heur and case.get("heur") is not None:
        for q in case.get("pre", []):
            try:
                if q == "n":
                    o.get_num_variables()
                elif q == "obj":
                    o.get_objective_data()
                elif q == "con":
                    o.get_constraint_data()
                elif q == "same":
                    # exactly the QUBO request that will be made after the heuristic (same mode, same penalty argument, same call form)
                    rho = case.get("rho")
                    o.get_qubo(feasibility=bool(case.get("feas", False)), penalty_parameter=None if rho is None else float(Fraction(rho)))
                else:
                    o.get_qubo(feasibility=(q == "qubo_f"))
            except Exception:  # noqa
                pass
        np.random.seed(case.get("seed", 0))
        try:
            o.make_feasible(VU.val(case["heur"]))
            outcome = "ok"
        except Exception as e:  # noqa
            outcome = core.err_kind(e) + ":" + repr(e)[:120]
    return o, outcome


def check_construction(o, res):
    """a formulation assembled call by call (late depot) must describe the same VRPTW as the depot-first construction"""
    mm = getattr(o, "vh_graph_mismatch", None)
    if mm:
        gw, gr = mm
        lost = [a for a in gr["arcs"] if a not in gw["arcs"]][:3]
        extra = [a for a in gw["arcs"] if a not in gr["arcs"]][:3]
        res.fail("construction:graph", "the formulation object assembled through add_node/add_arc/set_depot (depot named late) does not hold the "
                 f"specified routing problem: arcs lost {lost}, arcs not specified {extra}, nodes {gw['nodes'] != gr['nodes']}")
        return False
    return True


def fresh_twin(o, form):
    """a new object holding a copy of the instance state of `o` (graph, grid / pool / vehicles and positions) and no caches"""
    from copy import deepcopy
    from vrpqubo.routing_problem import ArcBasedRoutingProblem, PathBasedRoutingProblem, SequenceBasedRoutingProblem
    if form == "arc":
        t = ArcBasedRoutingProblem(o.vrptw)
        t.time_points = deepcopy(o.time_points)
    elif form == "path":
        t = PathBasedRoutingProblem(o.vrptw)
        t.routes = [list(r) for r in o.routes]
        t.route_costs = list(o.route_costs)
        t.route_node_visited = [np.array(v, copy=True) for v in o.route_node_visited]
    else:
        t = SequenceBasedRoutingProblem(None, strict=o.strict)
        t.vrptw = deepcopy(o.vrptw)
        t.max_vehicles = o.max_vehicles
        t.vehicle_cost = list(o.vehicle_cost)
        t.max_sequence_length = o.max_sequence_length
    return t


def check_fresh_twin(o, form, res):
    """whatever happened to `o` before (queries, a heuristic that returned or raised): what it reports now must be what an object
    without caches reports for the same instance state"""
    try:
        a = (int(o.get_num_variables()), VU.impl_data(o)) if int(o.get_num_variables()) > 0 else (0, None)
    except Exception as e:  # noqa
        a = ("raises", core.err_kind(e))
    try:
        t = fresh_twin(o, form)
        b = (int(t.get_num_variables()), VU.impl_data(t)) if int(t.get_num_variables()) > 0 else (0, None)
    except Exception as e:  # noqa
        b = ("raises", core.err_kind(e))
    if a != b:
        what = "number of variables" if a[0] != b[0] else next((k for k in (a[1] or {}) if (b[1] or {}).get(k) != a[1][k]), "data")
        res.fail(f"{form}:stale-data", f"the object reports {what} that differ from what a cache-free object with the same instance state reports "
                                      f"({a[0]} vs {b[0]} variables)")
        return False
    return True


def check_query_mutate_query(case, res):
    """a second object of the same case is queried, then changed through its own API (an arc that the object accepts; for the arc-based
    form also another time grid; for the sequence-based form also one more vehicle), then compared with a cache-free twin of its new
    state: what it reports must be what its current data say"""
    form = case["form"]
    if case.get("mirp") is not None:
        return
    try:
        o, outcome = build_form(case)
        if outcome not in (None, "ok"):
            return
        if int(o.get_num_variables()) >= 1:
            VU.impl_data(o)
            o.get_qubo(feasibility=True)
        k = case.get("seed", 0)
        if form == "seq" and k % 2 == 1:
            # the same fleet size / sequence length set again (the surcharges of dummy vehicles are reset by set_max_vehicles)
            o.set_max_vehicles(int(o.max_vehicles))
            res.features.append("query-mutate-query:same-sizes-again")
            if not check_fresh_twin(o, form, res):
                return
            o.set_max_sequence_length(int(o.max_sequence_length))
            if not check_fresh_twin(o, form, res):
                return
            if int(o.get_num_variables()) >= 1:
                VU.impl_data(o)
        g = VU.graph_of(o)
        names = [nd[0] for nd in g["nodes"]]
        if len(names) < 2:
            return
        # prefer a destination whose window never closes (accepted by the strict rule as well)
        dests = [i for i, nd in enumerate(g["nodes"]) if nd[3] == core.INF and i != 0] or list(range(1, len(names)))
        j = dests[k % len(dests)]
        i = [x for x in range(1, len(names)) if x != j][k % max(1, len(names) - 2)] if len(names) > 2 else 0
        added = o.add_arc(names[i], names[j], 1.0, 2.0)
        if form == "arc" and k % 2:
            o.add_time_points(sorted({float(t) for t in o.time_points} | {float(max([0.0] + [float(t) for t in o.time_points]) + 1.0)}))
        if form == "seq" and k % 3 == 0:
            o.set_max_vehicles(int(o.max_vehicles) + 1)

        res.features.append(f"query-mutate-query:{'arc-added' if added else 'arc-refused'}")
    except Exception as e:  # noqa
        res.fail(f"{form}:mutator-raises", f"changing the problem through the object after a query raised {e!r}")
        return
    check_fresh_twin(o, form, res)


def inst_tokens(o, form):
    """protocol literal of the real object's current instance state"""
    g = VU.graph_tokens(VU.graph_of(o))
    if form == "arc":
        return f"{g} {fl([F(t) for t in o.time_points])}"
    if form == "path":
        routes = " ".join([str(len(o.routes))] + [" ".join([str(len(r))] + [str(int(i)) for i in r]) for r in o.routes])
        visited = " ".join([str(len(o.route_node_visited))] + [" ".join([str(len(v))] + [str(int(i)) for i in v]) for v in o.route_node_visited])
        return f"{g} {routes} {fl([F(c) for c in o.route_costs])} {visited}"
    return f"lit {g} {1 if o.strict else 0} {int(o.max_vehicles)} {int(o.max_sequence_length)} {fl([F(c) for c in o.vehicle_cost])}"


# ------------------------------------------------------------------ enumeration order
# No property fixes the ORDER in which a formulation numbers its decision variables (C18 asks for a bijection between indices and
# admissible tuples, the others speak about vectors over "the variables").  The Lean model enumerates in the order of the pinned code;
# when the implementation numbers the same tuples differently, model output is relabelled into the implementation's numbering before
# it is compared (and vectors handed to the model are relabelled the other way).  Different tuple SETS are not relabelled: the plain
# comparison then reports the disagreement.
ORDER_STATS = {"same": 0, "relabelled": 0, "different-sets": 0}
_ORDER_CACHE = {}


def order_of(ivars, mvars):
    """None if the two lists are equal or are not permutations of one another; else to_model with to_model[k_impl] = k_model"""
    if ivars is None or mvars is None or list(ivars) == list(mvars):
        ORDER_STATS["same"] += 1
        return None
    pos = {u: k for k, u in enumerate(mvars)}
    if len(pos) != len(mvars) or len(ivars) != len(mvars) or len(set(ivars)) != len(ivars) or any(u not in pos for u in ivars):
        ORDER_STATS["different-sets"] += 1
        return None
    ORDER_STATS["relabelled"] += 1
    return [pos[u] for u in ivars]


def enumerated(o):
    return bool(getattr(o, "variables_enumerated", False))


def var_order(drv, o, form):
    """to_model (see order_of) for the real object's CURRENT instance state; None for the path-based class (routes are numbered as
    stored) and for an object that has not enumerated its variables (asking would change its caches)"""
    if form not in ("arc", "seq") or not enumerated(o):
        return None
    iv = impl_vars(o, form)
    key = (form, inst_tokens(o, form), tuple(iv))
    if key not in _ORDER_CACHE:
        if len(_ORDER_CACHE) > 64:
            _ORDER_CACHE.clear()
        rep = drv.ask(f"{form}.data {inst_tokens(o, form)}")
        head, groups = core.split_reply(rep)
        if head != "ok":
            return None
        tk = MU.Toks(groups[0])
        if form == "arc":
            mv = tk.lst(lambda: (tk.nat(), Fraction(tk.tok()), tk.nat(), Fraction(tk.tok())))
        else:
            mv = tk.lst(lambda: (tk.nat(), tk.nat(), tk.nat()))
        _ORDER_CACHE[key] = order_of(iv, mv)
    return _ORDER_CACHE[key]


def vec_to_impl(tm, v):
    """a vector over the model's variables, relabelled into the implementation's numbering"""
    return v if tm is None or len(v) != len(tm) else [v[tm[k]] for k in range(len(tm))]


def vec_to_model(tm, x):
    """a vector over the implementation's variables, relabelled into the model's numbering"""
    if tm is None or len(x) != len(tm):
        return x
    y = [0] * len(x)
    for k, km in enumerate(tm):
        y[km] = x[k]
    return y


def mat_to_impl(tm, M):
    return M if tm is None or len(M) != len(tm) else [[M[tm[a]][tm[b]] for b in range(len(tm))] for a in range(len(tm))]


def _relabel_mp(tm, mp):
    inv = [0] * len(tm)
    for k, km in enumerate(tm):
        inv[km] = k
    return dict(mp, A=[(i, inv[j], v) for (i, j, v) in mp["A"]], R=[(inv[i], inv[j]) for (i, j) in mp["R"]],
                c=vec_to_impl(tm, mp["c"]), Q=[(inv[i], inv[j], v) for (i, j, v) in mp["Q"]])


def model_data(drv, o, form):
    """(status, dict(vars, suff, mp)) — in the implementation's variable numbering (see "enumeration order" above)"""
    rep = drv.ask(f"{form}.data {inst_tokens(o, form)}")
    head, groups = core.split_reply(rep)
    if head != "ok":
        return head, None
    if form == "path":
        return "ok", dict(vars=None, suff=Fraction(groups[0][0]), mp=VU.parse_mp(groups, 1))
    tk = MU.Toks(groups[0])
    if form == "arc":
        vars_ = tk.lst(lambda: (tk.nat(), Fraction(tk.tok()), tk.nat(), Fraction(tk.tok())))
        d = dict(vars=vars_, T=[Fraction(t) for t in groups[1][1:]], suff=Fraction(groups[2][0]), mp=VU.parse_mp(groups, 3))
    else:
        vars_ = tk.lst(lambda: (tk.nat(), tk.nat(), tk.nat()))
        d = dict(vars=vars_, suff=Fraction(groups[2][0]), fixed=groups[3], mp=VU.parse_mp(groups, 4))
    tm = order_of(impl_vars(o, form), vars_) if enumerated(o) else None
    d["model_order_vars"] = vars_
    if tm is not None and d["mp"]["n"] == len(tm):
        d["vars"] = [vars_[km] for km in tm]
        d["mp"] = _relabel_mp(tm, d["mp"])
    d["order"] = tm
    return "ok", d


def model_qubo(drv, o, form, feas, rho):
    """the model's QUBO, in the implementation's variable numbering"""
    rep = drv.ask(f"{form}.qubo {inst_tokens(o, form)} {1 if feas else 0} {'none' if rho is None else fs(rho)}")
    head, groups = core.split_reply(rep)
    if head != "ok":
        return head, None
    n = int(groups[0][0])
    Q = [[Fraction(t) for t in groups[1][i * n:(i + 1) * n]] for i in range(n)]
    return "ok", dict(n=n, rho=Fraction(groups[0][1]), Q=mat_to_impl(var_order(drv, o, form), Q), k=Fraction(groups[2][0]))


def impl_vars(o, form):
    if form == "arc":
        o.get_num_variables()
        return [(int(i), F(s), int(j), F(t)) for (i, s, j, t) in o.var_mapping]
    if form == "seq":
        o.get_num_variables()
        return [(int(v), int(p), int(n)) for (v, p, n) in o.var_mapping]
    return None
