"""Subprocess worker of C17: builds one instance and prints fingerprints as JSON (run with a chosen PYTHONHASHSEED)."""
import hashlib
import json
import os
import sys
import tempfile


def main():
    job = json.loads(sys.argv[1])
    sys.path.insert(0, os.path.join(os.environ.get("VERIF_ROOT", "/verif")))
    from harness.vh import core
    core.use_repo()
    import numpy as np
    from harness.vh import mirp_util as MU
    from harness.vh.props.props_common import light_state
    out = {}
    # disturb the global generator first
    if job.get("prior_draws"):
        np.random.seed(job.get("prior_seed", 123))
        np.random.rand(job["prior_draws"])
    if job["kind"] == "direct":
        # formulations constructed directly from a hand-built VRPTW; the heuristic is called by the caller (no MIRP getter in between)
        from harness.vh import form_util as FU
        for form in job.get("forms", ["arc", "path", "seq"]):
            case = dict(job["cases"][form])
            try:
                o, _ = FU.build_form(case, with_heur=False)
                try:
                    o.make_feasible(float(job["high"]))
                    tag = "ok"
                except Exception as e:  # noqa
                    tag = "heur-raise:" + type(e).__name__
                out[form] = tag + ":" + light_state(o, form)
            except Exception as e:  # noqa
                out[form] = "raise:" + type(e).__name__
        print("FP " + json.dumps(out, sort_keys=True))
        return
    if job["kind"] == "g1":
        from vrpqubo.examples.mirp_g1 import get_mirp
        m = get_mirp(job["horizon"])
    elif job["kind"] == "mirp":
        m, _ = MU.build_py(job["spec"])
    else:
        from vrpqubo.examples.mirp_random import get_generator
        gen_ = get_generator(job["ns"], job["nd"], job["horizon"])
        gen_.seed = {"npint64": np.int64, "npint32": np.int32, "npuint32": np.uint32}.get(job.get("seed_type"), int)(job["seed"])
        m = gen_.get_random_mirp(reset_seed=True)
        st = MU.mirp_state(m)
        out["instance"] = hashlib.sha1(repr((sorted(st["mapping"].items()), [tuple(map(str, n)) for n in st["g"]["nodes"]],
                                             [tuple(map(str, a)) for a in st["g"]["arcs"]])).encode()).hexdigest()
    for form in job.get("forms", ["arc", "path", "seq"]):
        try:
            if form == "arc":
                o = m.get_arc_based()
            elif form == "path":
                o = m.get_path_based()
            else:
                o = m.get_sequence_based(strict=job.get("strict", True))
            fp = light_state(o, form)
            # exported coefficient lines
            from vrpqubo.tools.qubo_tools import QUBOContainer
            if o.get_num_variables() <= 1500 and o.get_num_variables() >= 1:
                Q, c = o.get_qubo(feasibility=False)
                with tempfile.TemporaryDirectory(prefix="vh_c17_") as d:
                    fn = os.path.join(d, "x.rudy")
                    QUBOContainer(Q, c).export(fn, as_ising=True)
                    lines = open(fn).read().split("\n")[1:]
                fp += ":" + hashlib.sha1("\n".join(lines).encode()).hexdigest()
            out[form] = fp
        except Exception as e:  # noqa
            out[form] = "raise:" + type(e).__name__
    print("FP " + json.dumps(out, sort_keys=True))


if __name__ == "__main__":
    main()
