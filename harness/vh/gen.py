"""Seeded structured generators shared by the property modules (all values are small dyadic rationals)."""
from fractions import Fraction
import itertools

KINDS = ["ndarray", "csr", "coo", "coo_dup", "lil", "csc", "csr_matrix"]
CLASSES = ["full", "upper", "lower", "sym", "empty_last", "zero", "diag", "sparse", "explicit_zero_sum"]


def q(rng, lim=16, den=4):
    return Fraction(rng.randint(-lim, lim), den)


def gen_matrix(rng, nmax=5, r=None, c=None):
    n = r if r is not None else rng.choice([k for k in [1, 2, 2, 3, 3, 4, 4, 5, 5, 6, 7] if k <= nmax])
    m = c if c is not None else n
    cls = rng.choice(CLASSES)
    M = [[Fraction(0)] * m for _ in range(n)]
    for i in range(n):
        for j in range(m):
            v = q(rng)
            if cls == "full":
                M[i][j] = v
            elif cls == "upper":
                M[i][j] = v if i <= j else Fraction(0)
            elif cls == "lower":
                M[i][j] = v if i >= j else Fraction(0)
            elif cls == "sym":
                M[i][j] = v
            elif cls == "empty_last":
                M[i][j] = v if (i < n - 1 and j < m - 1) else Fraction(0)
            elif cls == "diag":
                M[i][j] = v if i == j else Fraction(0)
            elif cls in ("sparse", "explicit_zero_sum"):
                M[i][j] = v if rng.random() < 0.35 else Fraction(0)
    if cls == "sym":
        for i in range(n):
            for j in range(min(i, m)):
                if j < n and i < m:
                    M[i][j] = M[j][i]
    if cls == "explicit_zero_sum" and n >= 2 and m >= 2:
        # entries that cancel in M + Mᵀ-type operations
        M[1][0] = -M[0][1]
    return dict(rows=M, cls=cls)


def pick_dtype(rows, rng):
    """a numpy dtype that holds the dyadic matrix `rows` exactly (float64 most of the time; integer / unsigned / single precision
    when the values allow it, with head-room for the sums the package forms: |entries| summed stay far below the type's range)"""
    vals = [Fraction(x) for r in rows for x in r]
    opts = ["float64", "float64", "float64"]
    if all(v.denominator == 1 for v in vals):
        opts += ["int64", "int32"]
        if vals and all(v >= 0 for v in vals) and 8 * sum(vals) < 200:
            opts = ["float64", "int64", "uint8", "uint8", "uint16", "uint32"]
    if all(v.denominator in (1, 2, 4) and abs(v) < 64 for v in vals):
        opts += ["float32"]
    return rng.choice(opts)


def typed(m, rng):
    """sometimes turns the generated matrix into an integer-valued (or non-negative integer-valued) one, and picks a dtype that holds
    it exactly; returns the dtype name (the matrix in `m` is changed in place)"""
    r = rng.random()
    if r < 0.2:
        m["rows"] = [[Fraction(int(x * 4)) for x in row] for row in m["rows"]]
    elif r < 0.4:
        # small non-negative integers (odd and even: halves appear when the matrix is symmetrised)
        m["rows"] = [[Fraction(abs(int(x * 4)) % 4) for x in row] for row in m["rows"]]
    return pick_dtype(m["rows"], rng)


def to_container(rows, kind, rng=None, dtype=None):
    """container of the given kind (and dtype, default float64) holding exactly the dyadic matrix `rows`"""
    import numpy as np
    import scipy.sparse as sp
    A = np.array([[float(x) for x in r] for r in rows], dtype=float)
    if dtype not in (None, "float64"):
        A = A.astype(dtype)
    if A.ndim == 1:
        A = A.reshape((len(rows), 0))
    if kind == "ndarray":
        return A
    if kind == "csr":
        return sp.csr_array(A)
    if kind == "csc":
        return sp.csc_array(A)
    if kind == "lil":
        return sp.lil_array(A)
    if kind == "csr_matrix":
        return sp.csr_matrix(A)
    if kind == "coo":
        return sp.coo_array(A)
    if kind in ("csr_zero", "lil_zero"):
        # a sparse matrix that keeps an explicitly STORED zero (as after `Q[i, j] = 0` or setdiag(0)): the first zero off-diagonal
        # position is written with a value and then overwritten with 0
        C = sp.csr_array(A) if kind == "csr_zero" else sp.lil_array(A)
        pos = [(i, j) for i in range(A.shape[0]) for j in range(A.shape[1]) if i != j and A[i, j] == 0]
        if pos and kind == "csr_zero":
            i, j = pos[0]
            B = A.copy()
            B[i, j] = 7
            C = sp.csr_array(B)
            C[i, j] = 0
        return C
    if kind == "coo_dup" and A.dtype.kind != "f":
        kind = "coo"
        return sp.coo_array(A)
    if kind == "coo_dup":
        rr, cc = np.nonzero(A)
        data, ri, ci = [], [], []
        for i, j in zip(rr, cc):
            v = A[i, j]
            # split into two stored entries that sum to v, plus an explicit stored zero elsewhere
            data += [v - 0.25, 0.25]
            ri += [i, i]
            ci += [j, j]
        if A.size:
            data.append(0.0)
            ri.append(0)
            ci.append(0)
        return sp.coo_array((data, (ri, ci)), shape=A.shape)
    raise ValueError(kind)


def dense_fr(M):
    """exact dense list-of-lists of Fractions from any container"""
    import numpy as np
    import scipy.sparse as sp
    if sp.issparse(M):
        M = M.toarray()
    M = np.asarray(M)
    return [[Fraction(float(x)) for x in row] for row in M]


def vec_fr(v):
    import numpy as np
    return [Fraction(float(x)) for x in np.asarray(v).ravel()]


def snapshot(obj):
    """deep byte-level fingerprint of a numpy / scipy container (to detect mutation of inputs)"""
    import numpy as np
    import scipy.sparse as sp
    if sp.issparse(obj):
        parts = [type(obj).__name__, obj.shape]
        for attr in ("data", "indices", "indptr", "row", "col", "rows"):
            if hasattr(obj, attr):
                a = getattr(obj, attr)
                if attr in ("rows", "data") and getattr(a, "dtype", None) == object:
                    parts.append((attr, repr([list(x) for x in a])))
                else:
                    parts.append((attr, np.asarray(a).tobytes(), str(np.asarray(a).dtype)))
        return repr(parts)
    a = np.asarray(obj)
    return repr((a.shape, str(a.dtype), a.tobytes()))


def all_binary(n):
    return itertools.product((0, 1), repeat=n)


def quad_fr(M, x):
    n = len(x)
    return sum(M[i][j] * x[i] * x[j] for i in range(n) for j in range(n))
