"""Shared MIRP helpers: generator of dyadic MIRP specs, builder of the real object, model request/parse."""
from fractions import Fraction
from . import core
from .core import fs, F


def gen_mirp(rng, tier="quick", malformed=False):
    size = Fraction(rng.choice([1, 1, 2, 3, 300]))
    ns, nd = rng.randint(1, 2 if tier == "quick" else 3), rng.randint(1, 2 if tier == "quick" else 3)
    horizon = Fraction(rng.randint(4, 60), 4) * (1 if size < 100 else 1)
    ports = []
    for kind, n in (("S", ns), ("D", nd)):
        for i in range(n):
            rate = Fraction(2) ** rng.randint(-2, 2) * (1 if size < 100 else 32)
            cap = size + Fraction(rng.randint(0, 12), 4) * (1 if size < 100 else 100)
            if malformed and rng.random() < 0.3:
                cap = size - Fraction(1, 4)
            init = Fraction(rng.randint(0, int(cap * 4)), 4)
            ports.append(dict(name=f"{kind}{i + 1}", init=fs(init), rate=fs(rate if kind == "S" else -rate), cap=fs(cap)))
    # interleave port order sometimes (supply/demand lists are filled in call order)
    if rng.random() < 0.4:
        rng.shuffle(ports)
    sup = [p["name"] for p in ports if Fraction(p["rate"]) > 0]
    dem = [p["name"] for p in ports if Fraction(p["rate"]) < 0]
    dist = {f"{s},{d}": fs(Fraction(rng.randint(0, 16), 4)) for s in sup for d in dem}
    spec = dict(size=fs(size), horizon=fs(horizon), ports=ports, dist=dist,
                speed=fs(Fraction(2) ** rng.randint(-1, 1)), unit=fs(Fraction(rng.randint(0, 8), 4)),
                sfee={s: fs(Fraction(rng.randint(0, 12), 4)) for s in sup},
                dfee={d: fs(Fraction(rng.randint(13, 24), 4)) for d in dem},
                exit=[fs(Fraction(rng.choice([0, 0, 1, 2]), 4)), fs(Fraction(rng.choice([0, 0, 3]), 4))],
                entry=[fs(Fraction(rng.randint(2, 40), 4)), fs(Fraction(rng.choice([0, 0, 1]), 4)), fs(Fraction(rng.choice([0, 0, 5]), 4))],
                order=rng.choice([["TRAVEL", "EXIT", "ENTRY"], ["TRAVEL", "EXIT", "ENTRY"], ["EXIT", "TRAVEL", "ENTRY"],
                                  ["ENTRY", "TRAVEL", "EXIT"], ["TRAVEL", "ENTRY", "EXIT"], ["TRAVEL", "EXIT"]]))
    return spec


def val(t):
    return float(Fraction(t))


def build_py(spec, upto=None):
    """build the real MIRP; returns (mirp, per-op results)"""
    from vrpqubo.applications.mirp import MIRP
    m = MIRP(val(spec["size"]), val(spec["horizon"]))
    results = []
    for p in spec["ports"]:
        try:
            names = m.add_nodes(p["name"], val(p["init"]), val(p["rate"]), val(p["cap"]))
            results.append(("ok", list(names)))
            # the caller owns the returned list: whatever it does with it must not reach the MIRP's own bookkeeping
            names.append("caller-appended")
            names.reverse()
        except Exception as e:  # noqa
            results.append((core.err_kind(e), repr(e)))
            return m, results
    for op in spec["order"]:
        try:
            if op == "TRAVEL":
                d = {k: val(v) for k, v in spec["dist"].items()}
                m.add_travel_arcs(lambda a, b: d[f"{a},{b}"], val(spec["speed"]), val(spec["unit"]),
                                  {k: val(v) for k, v in spec["sfee"].items()}, {k: val(v) for k, v in spec["dfee"].items()})
            elif op == "EXIT":
                m.add_exit_arcs(val(spec["exit"][0]), val(spec["exit"][1]))
            elif op == "ENTRY":
                m.add_entry_arcs(val(spec["entry"][0]), val(spec["entry"][1]), val(spec["entry"][2]))
            results.append(("ok", None))
        except Exception as e:  # noqa
            results.append((core.err_kind(e), repr(e)))
            return m, results
    return m, results


def request(spec):
    toks = ["mirp", spec["size"], spec["horizon"]]
    ops = []
    for p in spec["ports"]:
        ops.append(["PORT", p["name"], p["init"], p["rate"], p["cap"]])
    for op in spec["order"]:
        if op == "TRAVEL":
            t = ["TRAVEL", spec["speed"], spec["unit"], str(len(spec["dist"]))]
            for k, v in spec["dist"].items():
                a, b = k.split(",")
                t += [a, b, v]
            t.append(str(len(spec["sfee"])))
            for k, v in spec["sfee"].items():
                t += [k, v]
            t.append(str(len(spec["dfee"])))
            for k, v in spec["dfee"].items():
                t += [k, v]
            ops.append(t)
        elif op == "EXIT":
            ops.append(["EXIT"] + spec["exit"])
        else:
            ops.append(["ENTRY"] + spec["entry"])
    toks.append(str(len(ops)))
    for o in ops:
        toks += o
    return " ".join(toks)


class Toks:
    def __init__(self, toks):
        self.t, self.i = toks, 0

    def tok(self):
        self.i += 1
        return self.t[self.i - 1]

    def nat(self):
        return int(self.tok())

    def lst(self, f):
        return [f() for _ in range(self.nat())]


def parse_graph(tk):
    nodes = tk.lst(lambda: (tk.tok(), Fraction(tk.tok()), Fraction(tk.tok()), core.parse_tok(tk.tok())))
    arcs = tk.lst(lambda: (tk.nat(), tk.nat(), tk.tok(), tk.tok(), Fraction(tk.tok()), Fraction(tk.tok())))
    cap = core.parse_tok(tk.tok())
    init = core.parse_tok(tk.tok())
    return dict(nodes=nodes, arcs=arcs, cap=cap, init=init)


def parse_reply(rep):
    assert rep.startswith("ok ")
    body = rep[3:]
    results_s, _, state_s = body.rpartition(" | ")
    results = []
    for r in results_s.split(" ; ") if results_s else []:
        ts = r.split()
        if ts[0] == "ok":
            results.append(("ok", ts[2:] if len(ts) > 1 else None))
        else:
            results.append((ts[0], None))
    tk = Toks(state_s.split())
    supply = tk.lst(tk.tok)
    demand = tk.lst(tk.tok)
    mapping = tk.lst(lambda: (tk.tok(), tk.lst(tk.tok)))
    g = parse_graph(tk)
    return results, dict(supply=supply, demand=demand, mapping=dict(mapping), g=g)


def graph_state(v):
    """exact state of a real VRPTW graph in the parse_graph format"""
    nodes = [(n.name, F(n.demand), F(n.time_window[0]), core.INF if n.time_window[1] == float("inf") else F(n.time_window[1]))
             for n in v.nodes]
    arcs = [(k[0], k[1], a.origin.name, a.destination.name, F(a.travel_time), F(a.cost)) for k, a in v.arcs.items()]
    return dict(nodes=nodes, arcs=arcs, cap=None if v.vehicle_cap is None else F(v.vehicle_cap),
                init=None if v.initial_loading is None else F(v.initial_loading))


def mirp_state(m):
    return dict(supply=list(m.supply_ports), demand=list(m.demand_ports), mapping={k: list(v) for k, v in m.port_mapping.items()},
                g=graph_state(m.vrptw))
