"""C01 — QUBO and Ising forms have equal energy on every assignment."""
from fractions import Fraction
import numpy as np
import scipy.sparse as sp

from .. import core
from .. import gen as G
from ..core import Result, fs, fl, fmat, F

ID = "C01"
RULE = ("seeded matrices n=1..5 with entries k/4 in density classes (full/upper/lower/symmetric/empty last row+col/"
        "zero/diagonal/sparse/cancelling), constants k/4, field vectors, container kinds ndarray/CSR/COO/COO with duplicate "
        "and explicit-zero entries/LIL/CSC/csr_matrix, plus non-square shapes; non-trivial = square, n>=2 and a non-zero "
        "off-diagonal entry; distinct = distinct (matrix, constant, h, container kind)")
ASSUMPTIONS = [
    "exact arithmetic: theorems are over any field of characteristic 0 (and the model over Q); IEEE rounding is outside the proof",
    "'caller's matrices are left unmodified' and 'every accepted container type' are runtime/scipy behaviour: covered by the byte-level snapshot comparison in the correspondence run (a test, not a theorem)",
]
PARTIAL = ["no-mutation / container-type half of the property: differential test only (a Lean function is pure by construction)"]
BUDGET_S = {"quick": 60, "thorough": 600}


def gen(rng, tier):
    n_cases = 250 if tier == "quick" else 4000
    nmax = 5 if tier == "quick" else 7
    for k in range(n_cases):
        if k % 12 == 11:
            r = rng.randint(1, 4)
            c = rng.choice([x for x in range(1, 5) if x != r])
            m = G.gen_matrix(rng, r=r, c=c)
            yield dict(mode="nonsquare", r=r, c=c, M=[[fs(x) for x in row] for row in m["rows"]],
                       const=fs(G.q(rng)), kind=rng.choice(G.KINDS), h=[fs(G.q(rng)) for _ in range(r)], cls=m["cls"])
            continue
        m = G.gen_matrix(rng, nmax=nmax)
        n = len(m["rows"])
        dt = G.typed(m, rng)          # integer / unsigned / single-precision containers (the field vector stays fractional)
        yield dict(mode="square", r=n, c=n, M=[[fs(x) for x in row] for row in m["rows"]], const=fs(G.q(rng)),
                   kind=rng.choice(G.KINDS), h=[fs(G.q(rng)) for _ in range(n)], cls=m["cls"], dtype=dt)


def shrink(case):
    n = case["r"]
    if case["mode"] == "square" and n > 1:
        for d in range(n):
            M = [[x for j, x in enumerate(row) if j != d] for i, row in enumerate(case["M"]) if i != d]
            yield dict(case, r=n - 1, c=n - 1, M=M, h=[x for i, x in enumerate(case["h"]) if i != d])
    for i in range(len(case["M"])):
        for j in range(len(case["M"][i])):
            if case["M"][i][j] != "0":
                M = [list(r) for r in case["M"]]
                M[i][j] = "0"
                yield dict(case, M=M)
    if case["const"] != "0":
        yield dict(case, const="0")
    if case["kind"] != "ndarray":
        yield dict(case, kind="ndarray")


def run_case(case, drv):
    from vrpqubo.tools import qubo_tools as qt
    res = Result(key=core.case_key(case))
    M = [[F(x) for x in row] for row in case["M"]]
    r, c = case["r"], case["c"]
    const = F(case["const"])
    h = [F(x) for x in case["h"]]
    kind = case["kind"]
    res.features += [f"dtype:{case.get('dtype', 'float64')}", f"kind:{kind}", f"class:{case.get('cls')}", f"n:{r}", f"mode:{case['mode']}"]
    res.nontrivial = case["mode"] == "square" and r >= 2 and any(M[i][j] != 0 for i in range(r) for j in range(c) if i != j)

    # ---------------- QUBO -> Ising
    Qobj = G.to_container(M, kind, dtype=case.get("dtype"))
    before = G.snapshot(Qobj)
    try:
        J, hh, cc = qt.QUBO_to_Ising(Qobj, float(const))
        impl = ("ok", G.dense_fr(J), G.vec_fr(hh), F(cc))
    except Exception as e:  # noqa
        impl = (core.err_kind(e), repr(e))
    rep = drv.ask(f"q2i {fmat(M, r, c)} {fs(const)}")
    head, groups = core.split_reply(rep)
    if core.err_class(head) != core.err_class(impl[0]):      # (that it raises, not which exception)
        res.disagree("QUBO_to_Ising status", impl[0] + (": " + impl[1] if impl[0] != "ok" else ""), head)
        if case["mode"] == "square" and impl[0] != "ok":
            res.fail("q2i:raises", f"QUBO_to_Ising raised on a square {r}x{c} {kind} input: {impl[1]}")
        if case["mode"] == "nonsquare" and impl[0] == "ok":
            res.fail("q2i:nonsquare-accepted", f"QUBO_to_Ising accepted a {r}x{c} matrix")
    elif head == "ok":
        mJ = [[Fraction(t) for t in groups[0][i * r:(i + 1) * r]] for i in range(r)]
        mh = [Fraction(t) for t in groups[1][1:]]
        mc = Fraction(groups[2][0])
        if impl[1] != mJ:
            res.disagree("J", impl[1], mJ)
        if impl[2] != mh:
            res.disagree("h", impl[2], mh)
        if impl[3] != mc:
            res.disagree("const_ising", impl[3], mc)
        # oracle on the real code's outputs: energy identity on all 2^n assignments, zero diagonal
        if any(impl[1][i][i] != 0 for i in range(r)):
            res.fail("q2i:diag", "returned J has a non-zero diagonal")
        if r <= 8:
            for x in G.all_binary(r):
                xv = np.array(x)
                s = qt.x_to_s(xv)
                e_is = F(qt.evaluate_Ising(J, hh, cc, s))
                e_q = G.quad_fr(M, x) + const
                # the same energy evaluated independently of the package's evaluator, in exact arithmetic on the returned (J, h, c)
                sv = [1 - 2 * int(t) for t in x]
                e_ind = sum(impl[1][i][j] * sv[i] * sv[j] for i in range(r) for j in range(r)) + sum(impl[2][i] * sv[i] for i in range(r)) + impl[3]
                if e_ind != e_q:
                    res.fail("q2i:energy", f"Ising energy of the returned (J, h, c) = {fs(e_ind)} != QUBO energy {fs(e_q)} at x={list(x)}")
                    break
                if [int(t) for t in s] != sv:
                    res.fail("q2i:x_to_s", f"x_to_s({list(x)}) = {list(s)}")
                    break
                if e_is != e_q:
                    res.fail("q2i:energy", f"Ising energy {fs(e_is)} != QUBO energy {fs(e_q)} at x={list(x)}")
                    break
    if G.snapshot(Qobj) != before:
        res.fail("q2i:mutates-input", f"QUBO_to_Ising modified its {kind} input")
    # narrow integer storage (int8, int16, bool): QUBO_to_Ising itself never adds two entries in the matrix's own type (it sums into the
    # platform integer and scales into floats), so entries that FIT the type must give the exact Ising problem even when sums of two of
    # them would not fit.  (Other functions of the package do add in the input's dtype: there the overflow is numpy's and is not claimed.)
    if case["mode"] == "square" and r <= 5:
        for dt, scale, ok_ in ((np.int8, 25, True), (np.int16, 8000, True), (np.bool_, 1, all(v in (0, 1) for row in M for v in row))):
            if not ok_:
                continue
            Mi = [[int(v * 4) % 5 * scale if dt is not np.bool_ else int(v) for v in row] for row in M] if dt is not np.bool_ else [[int(v) for v in row] for row in M]
            if dt is not np.bool_:
                Mi = [[(v if (i + j) % 2 == 0 else -v) for j, v in enumerate(row)] for i, row in enumerate(Mi)]
            A = np.array(Mi).astype(dt)
            Mi = [[int(t) for t in row] for row in A.astype(int).tolist()]
            cont = A if kind == "ndarray" else (sp.csr_array(A) if kind in ("csr", "csr_matrix", "csc") else sp.coo_array(A) if kind.startswith("coo") else sp.lil_array(A))
            try:
                Jn, hn, cn = qt.QUBO_to_Ising(cont, 0.0)
                Jn, hn, cn = G.dense_fr(Jn), G.vec_fr(hn), F(cn)
            except Exception as e:  # noqa
                res.fail("q2i:narrow-dtype-raises", f"QUBO_to_Ising raised {e!r} on a {np.dtype(dt).name} {kind} matrix")
                break
            bad = None
            for x in list(G.all_binary(r))[:16]:
                sv = [1 - 2 * int(t) for t in x]
                e_i = sum(Jn[i][j] * sv[i] * sv[j] for i in range(r) for j in range(r)) + sum(hn[i] * sv[i] for i in range(r)) + cn
                e_q = sum(Fraction(Mi[i][j]) * x[i] * x[j] for i in range(r) for j in range(r))
                if e_i != e_q:
                    bad = (list(x), e_i, e_q)
                    break
            if bad:
                res.fail("q2i:energy-narrow-dtype", f"{np.dtype(dt).name} {kind} matrix {Mi}: Ising energy {fs(bad[1])} != QUBO energy {fs(bad[2])} at x={bad[0]}")
                break
            res.features.append(f"narrow-dtype:{np.dtype(dt).name}")

    if case["mode"] == "nonsquare":
        # Ising_to_QUBO must reject as well
        Jobj = G.to_container(M, kind, dtype=case.get("dtype"))
        try:
            qt.Ising_to_QUBO(Jobj, np.array([float(x) for x in h]), float(const))
            res.fail("i2q:nonsquare-accepted", f"Ising_to_QUBO accepted a {r}x{c} matrix")
        except Exception:  # noqa  (rejected: which exception is not part of the property)
            pass
        return res

    # ---------------- a linear-term vector of the wrong length is rejected (model and code)
    for hbad in (list(h)[:-1], list(h) + [Fraction(1)]):
        try:
            qt.Ising_to_QUBO(G.to_container(M, kind, dtype=case.get("dtype")), np.array([float(x) for x in hbad]), float(const))
            impl_bad = "ok"
        except ValueError:
            impl_bad = "err:value"
        except Exception as e:  # noqa
            impl_bad = core.err_kind(e)
        rep_bad = drv.ask(f"i2q {fmat(M, r, c)} {fl(hbad)} {fs(const)}").split()[0]
        if core.err_class(impl_bad) != core.err_class(rep_bad):
            res.disagree(f"Ising_to_QUBO with len(h)={len(hbad)} for n={r}", impl_bad, rep_bad)
        if impl_bad == "ok":
            res.fail("i2q:length-mismatch-accepted", f"Ising_to_QUBO accepted h of length {len(hbad)} for a {r}x{r} matrix")
    # ---------------- Ising -> QUBO (couplings = M with its diagonal)
    Jobj = G.to_container(M, kind, dtype=case.get("dtype"))
    hobj = np.array([float(x) for x in h])
    bJ, bh = G.snapshot(Jobj), G.snapshot(hobj)
    try:
        Q2, c2 = qt.Ising_to_QUBO(Jobj, hobj, float(const))
        impl = ("ok", G.dense_fr(Q2), F(c2))
    except Exception as e:  # noqa
        impl = (core.err_kind(e), repr(e))
        res.fail("i2q:raises", f"Ising_to_QUBO raised on a square {kind} input: {e!r}")
    rep = drv.ask(f"i2q {fmat(M, r, c)} {fl(h)} {fs(const)}")
    head, groups = core.split_reply(rep)
    if core.err_class(head) != core.err_class(impl[0]):
        res.disagree("Ising_to_QUBO status", impl[0], head)
    elif head == "ok":
        mQ = [[Fraction(t) for t in groups[0][i * r:(i + 1) * r]] for i in range(r)]
        mc = Fraction(groups[1][0])
        if impl[1] != mQ:
            res.disagree("Q", impl[1], mQ)
        if impl[2] != mc:
            res.disagree("const_qubo", impl[2], mc)
        if r <= 8:
            for x in G.all_binary(r):
                s = [1 - 2 * xi for xi in x]
                xb = qt.s_to_x(np.array(s))
                e_q = F(qt.evaluate_QUBO(Q2, c2, xb))
                e_is = G.quad_fr(M, s) + sum(hi * si for hi, si in zip(h, s)) + const
                if e_q != e_is:
                    res.fail("i2q:energy", f"QUBO energy {fs(e_q)} != Ising energy {fs(e_is)} at s={s}")
                    break
    if G.snapshot(Jobj) != bJ or G.snapshot(hobj) != bh:
        res.fail("i2q:mutates-input", f"Ising_to_QUBO modified its {kind} input")

    # ---------------- variable maps and evaluators
    xs = [int(F(t) != 0) for t in case["M"][0]] if r else []
    xv = np.array(xs, dtype=int)
    bx = G.snapshot(xv)
    s_impl = [F(t) for t in qt.x_to_s(xv)]
    s_model = [Fraction(t) for t in core.split_reply(drv.ask(f"x2s {fl(xs)}"))[1][0][1:]]
    if s_impl != s_model:
        res.disagree("x_to_s", s_impl, s_model)
    if any(si != (-1 if xi == 1 else 1) for si, xi in zip(s_impl, xs)):
        res.fail("maps:x_to_s", f"x_to_s({xs}) = {s_impl}")
    back = [F(t) for t in qt.s_to_x(np.array([int(t) for t in s_impl]))]
    b_model = [Fraction(t) for t in core.split_reply(drv.ask(f"s2x {fl(s_impl)}"))[1][0][1:]]
    if back != b_model:
        res.disagree("s_to_x", back, b_model)
    if back != [Fraction(t) for t in xs]:
        res.fail("maps:inverse", f"s_to_x(x_to_s({xs})) = {back}")
    if G.snapshot(xv) != bx:
        res.fail("maps:mutates-input", "x_to_s modified its argument")
    # the maps on binary vectors of every numeric dtype (np.unpackbits gives uint8, comparisons give bool)
    for dt in (np.uint8, np.uint16, np.uint32, np.int8, np.bool_, np.float64, np.float32):
        xd = np.array(xs, dtype=dt)
        try:
            sd = qt.x_to_s(xd)
            got = [F(float(t)) for t in sd]
            backd = [F(float(t)) for t in qt.s_to_x(sd)]
        except Exception as e:  # noqa
            res.fail("maps:dtype-raises", f"x_to_s / s_to_x raised {e!r} on a binary vector of dtype {np.dtype(dt).name}")
            break
        if got != [Fraction(-1 if xi == 1 else 1) for xi in xs]:
            res.fail("maps:x_to_s-dtype", f"x_to_s(array({xs}, dtype={np.dtype(dt).name})) = {[fs(t) for t in got]}")
            break
        if backd != [Fraction(t) for t in xs]:
            res.fail("maps:inverse-dtype", f"s_to_x(x_to_s(array({xs}, dtype={np.dtype(dt).name}))) = {[fs(t) for t in backd]}")
            break
    # the evaluators on the caller's own container (every accepted kind, every size from 1 x 1)
    if r <= 6:
        Cq = G.to_container(M, kind, dtype=case.get("dtype"))
        for x in list(G.all_binary(r))[:16]:
            want_q = G.quad_fr(M, x) + const
            sx = [1 - 2 * t for t in x]
            want_i = G.quad_fr(M, sx) + sum(hi * si for hi, si in zip(h, sx)) + const
            try:
                got_q = F(float(qt.evaluate_QUBO(Cq, float(const), np.array(x))))
                got_i = F(float(qt.evaluate_Ising(Cq, hobj, float(const), np.array(sx))))
            except Exception as e:  # noqa
                res.fail("eval:raises", f"evaluate_QUBO / evaluate_Ising raised {e!r} on a {r}x{r} {kind} matrix at x={list(x)}")
                break
            if got_q != want_q or got_i != want_i:
                res.fail("eval:value", f"evaluate_QUBO = {fs(got_q)} (exact {fs(want_q)}), evaluate_Ising = {fs(got_i)} (exact {fs(want_i)}) on a {kind} matrix at x={list(x)}")
                break
    # evaluators against the model on the package's own outputs
    e_impl = F(qt.evaluate_QUBO(sp.csr_array(G.to_container(M, "ndarray")), float(const), xv))
    e_model = Fraction(core.split_reply(drv.ask(f"evalq {fmat(M, r, c)} {fs(const)} {fl(xs)}"))[1][0][0])
    if e_impl != e_model:
        res.disagree("evaluate_QUBO", e_impl, e_model)
    sv = [1 - 2 * t for t in xs]
    e_impl = F(qt.evaluate_Ising(sp.csr_array(G.to_container(M, "ndarray")), hobj, float(const), np.array(sv)))
    e_model = Fraction(core.split_reply(drv.ask(f"evali {fmat(M, r, c)} {fl(h)} {fs(const)} {fl(sv)}"))[1][0][0])
    if e_impl != e_model:
        res.disagree("evaluate_Ising", e_impl, e_model)
    return res


EXHAUSTIVE_SCOPE = "all 2x2 matrices with entries in {-1, 0, 1/2, 1} x constants {0, 3/4} x container kinds {ndarray, csr, lil}" + \
    ("" if "c01" == "c01" else " x patterns {upper-triangular, symmetric, none}")


def gen_exhaustive():
    import itertools
    vals = ["-1", "0", "1/2", "1"]
    for a, b, c_, d in itertools.product(vals, repeat=4):
        M = [[a, b], [c_, d]]
        for c in ("0", "3/4"):
            for kind in ("ndarray", "csr", "lil"):
                for pat in (("upper-triangular", "symmetric", "none") if "c01" != "c01" else ("-",)):
                    yield dict(mode="square", r=2, c=2, M=M, const=c, kind=kind, h=["1/2", "-1"], cls="exhaustive")
