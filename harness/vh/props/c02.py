"""C02 — Penalty QUBO equals objective plus weighted squared constraint violation."""
from fractions import Fraction
import numpy as np

from .. import core
from .. import gen as G
from .. import vrp_util as VU
from .. import form_util as FU
from ..core import Result, fs, F

ID = "C02"
RULE = ("seeded VRPTW instances (2..5 nodes; windows in quarters incl. inf and zero width; unreachable customers; costs of either sign) x "
        "penalty given as float / int / numpy integer x formulation (arc with unsorted/sparse/complete grids; path with pools of valid and invalid candidate routes; sequence with V in 0..3, "
        "L in 3..5, strict/non-strict) x before/after the feasibility heuristic x mode x rho in {default, 0, 1/4, 3, -2}; brute force over all "
        "2^n vectors for n <= 14 (both tiers), 4000 (n <= 40) or 300 random vectors beyond; non-trivial = n >= 2 with at least one feasible and one infeasible vector "
        "examined; distinct = distinct case")
ASSUMPTIONS = [
    "sequence-based: L >= 3 (for L = 2 the code itself drops a constant of the objective and says so)",
    "data are small dyadic rationals: every float operation of get_qubo is exact, so the identity is checked with zero tolerance",
    "the theorem is generic in (A, b, R, c, Q_obj): it covers every instance state, including states produced by the heuristic",
]
PARTIAL = []
BUDGET_S = {"quick": 100, "thorough": 1200}
RHOS = [None, None, Fraction(0), Fraction(1, 4), Fraction(3), Fraction(-2)]


def gen(rng, tier):
    n_cases = 220 if tier == "quick" else 3000
    for k in range(n_cases):
        if k % 11 == 6:
            # a formulation obtained from a MIRP through its getter (small integer MIRPs; the identity is checked on sampled vectors
            # when there are more than 14 variables)
            from .c16 import small_mirp
            form = rng.choice(["arc", "path", "seq"])
            case = dict(form=form, mirp=small_mirp(rng), spec=dict(nodes=[], arcs=[]), strict=rng.random() < 0.5, seed=rng.randrange(10 ** 6),
                        feas=rng.random() < 0.4, rho=None if rng.random() < 0.6 else fs(rng.choice([Fraction(1, 4), Fraction(3)])))
            if rng.random() < 0.5:
                case["heur"] = rng.choice(["10", "40"])
            yield case
            continue
        case = FU.gen_form_case(rng, tier, heur_p=0.5)
        if k % 13 == 9:
            case = FU.gen_raising_seq_case(rng)      # the heuristic raises after it has started to change the object
            case["strict"] = rng.random() < 0.5
        if k % 5 == 4:
            # heuristic-sensitive shape: a customer that can leave for the depot but cannot be entered from it, with the
            # caches already filled by earlier queries
            spec, info = VU.gen_planted(rng, ncust=rng.randint(2, 3), extra_arc_p=0.3, wide=True)
            victim = rng.choice(spec["nodes"][1:])["name"]
            spec["arcs"] = [a for a in spec["arcs"] if a[1] != victim] + ([[victim, "D", "1", "1"]] if not any(a[0] == victim and a[1] == "D" for a in spec["arcs"]) else [])
            case = dict(form=rng.choice(["arc", "seq", "path"]), spec=spec, seed=rng.randrange(10 ** 6), heur=rng.choice(["10", "1"]),
                        pre=rng.sample(["n", "obj", "con", "qubo_o", "qubo_f"], rng.randint(1, 3)))
            if case["form"] == "arc":
                case["grid"] = info["grid"]
            elif case["form"] == "path":
                case["routes"] = info["routes"][:1]
            else:
                case.update(strict=False, V=1, L=max(3, info["Lmin"]))
        if k % 20 == 2:
            # route (arc) costs of both signs that CANCEL exactly: the sum of the costs is zero although no cost is
            c1, c2 = Fraction(rng.randint(1, 12), 4), Fraction(rng.randint(0, 8), 4)
            form = rng.choice(["path", "path", "arc", "seq"])
            spec = dict(nodes=[dict(name="D", demand="0", lo="0", hi="inf"), dict(name="A", demand="1", lo="0", hi="4"), dict(name="B", demand="1", lo="0", hi="4")],
                        arcs=[["D", "A", "1", fs(c1)], ["A", "D", "1", fs(c2)], ["D", "B", "1", fs(-c1)], ["B", "D", "1", fs(-c2)]], cap="4", init="4")
            case = dict(form=form, spec=spec, seed=rng.randrange(10 ** 6))
            if form == "arc":
                case["grid"] = ["0", "1", "2"]
            elif form == "path":
                case["routes"] = [["D", "A", "D"], ["D", "B", "D"]]
            else:
                case.update(strict=False, V=2, L=3)
        case["feas"] = rng.random() < 0.4 and k % 20 != 2
        rho = rng.choice(RHOS)
        case["rho"] = None if rho is None else fs(rho)
        if rho is not None and rho.denominator == 1:
            # "any penalty weight": a Python int or a numpy integer is as legitimate as a float (the arc-based A and b are integer arrays)
            case["rho_kind"] = rng.choice(["float", "int", "npint"])
        if case.get("heur") is not None and rng.random() < 0.5:
            # the very same QUBO request before the heuristic changes the instance (a memoised answer would be stale afterwards)
            case["pre"] = list(case.get("pre", [])) + ["same"]
        yield case


def shrink(case):
    yield from FU.shrink_form_case(case)
    if case.get("rho") is not None:
        yield dict(case, rho=None)


def run_case(case, drv, nmax=None):
    res = Result(key=core.case_key(case))
    form = case["form"]
    tier_n = nmax or 14
    o, outcome = FU.build_form(case)
    FU.check_fresh_twin(o, case["form"], res)
    FU.check_query_mutate_query(case, res)
    res.features += [f"form:{form}", f"heur:{outcome if outcome in (None, 'ok') else 'raised'}", f"mode:{'feas' if case['feas'] else 'opt'}",
                     f"source:{'mirp-getter' if case.get('mirp') is not None else 'vrptw'}",
                     f"rho:{case['rho']}"]
    if outcome not in (None, "ok"):
        # the heuristic failed loudly (C09's business); the object it leaves behind is still an instance with variables, for which the
        # data and the QUBO must be produced
        res.nontrivial = False
        try:
            n_after = int(o.get_num_variables())
        except Exception as e:  # noqa
            res.fail(f"{form}:numvars-raises", f"get_num_variables raised {e!r} after a heuristic that raised")
            return res
        if n_after >= 1:
            try:
                VU.impl_data(o)
                VU.qubo_dense(o, case["feas"], None)
                res.features.append("qubo-after-failed-heuristic:ok")
            except Exception as e:  # noqa
                res.fail(f"{form}:qubo-after-failed-heuristic", f"after make_feasible raised ({outcome[:60]}) the object has {n_after} variable(s) but its "
                                                               f"data / QUBO getters raise {e!r}")
        return res
    rho = None if case["rho"] is None else Fraction(case["rho"])
    # ---------------- implementation
    try:
        n = o.get_num_variables()
    except Exception as e:  # noqa
        res.fail(f"{form}:numvars-raises", f"get_num_variables raised {e!r}")
        return res
    try:
        impl = VU.impl_data(o)
        impl_err = None
    except Exception as e:  # noqa
        impl, impl_err = None, e
    if impl_err is not None:
        if n == 0:
            # the property speaks about instances with at least one variable
            res.features.append("n:0-getters-raise")
            res.nontrivial = False
            return res
        res.fail(f"{form}:data-raises", f"objective/constraint getters raised {impl_err!r} on an instance with {n} variable(s)")
        return res
    res.features.append(f"n:{min(n, 20)}")
    # dimensions
    m = len(impl["b"])
    if impl["Ashape"] != (m, n):
        res.fail(f"{form}:dims-A", f"A has shape {impl['Ashape']} but len(b)={m}, n={n}")
    if impl["Rshape"] != (n, n) or impl["Qshape"] != (n, n) or len(impl["c"]) != n:
        res.fail(f"{form}:dims", f"R {impl['Rshape']}, Q_obj {impl['Qshape']}, len(c)={len(impl['c'])} for n={n}")
    if impl["r"] != 0:
        res.fail(f"{form}:r_eq", f"r_eq = {impl['r']}")
    if res.failures:
        # inconsistent dimensions: the identity cannot even be stated; report what was found
        return res
    try:
        rho_arg = None if rho is None else {"int": int, "npint": np.int64}.get(case.get("rho_kind"), float)(rho)
        res.features.append(f"rho_type:{type(rho_arg).__name__}")
        Q, k, shape = VU.qubo_dense(o, case["feas"], rho_arg)
        q_err = None
    except Exception as e:  # noqa
        Q, k, shape, q_err = None, None, None, e
    # ---------------- model
    st, md = FU.model_data(drv, o, form)
    if st != "ok":
        res.disagree(f"{form} data status", "ok", st)
    else:
        VU.compare_data(res, impl, VU.model_dense(md["mp"]), form)
        iv = FU.impl_vars(o, form)
        if iv is not None and iv != md["vars"]:
            res.disagree(f"{form} variable list", iv, md["vars"])
        suff_impl = F(o.get_sufficient_penalty(False))
        if suff_impl != md["suff"]:
            res.disagree(f"{form} sufficient penalty", suff_impl, md["suff"])
        if F(o.get_sufficient_penalty(True)) != 0:
            res.fail(f"{form}:suff-feas", "sufficient penalty in feasibility mode is not 0")
    if n > 120:
        # (the model's dense n x n QUBO takes the driver minutes for hundreds of variables; the data (A, b, R, c, Q_obj), the variable
        # list and the sufficient penalty were compared above, the identity is checked on the real QUBO below)
        res.features.append("model-qubo-skipped:n>120")
        stq, mq = "skipped", None
    else:
        stq, mq = FU.model_qubo(drv, o, form, case["feas"], rho)
    if q_err is not None:
        if n >= 1:
            res.fail(f"{form}:qubo-raises", f"get_qubo raised {q_err!r} on an instance with {n} variable(s)")
        if stq == "ok" and n >= 1:
            res.disagree(f"{form} get_qubo status", core.err_kind(q_err), "ok")
        return res
    if stq == "ok":
        if shape != (n, n):
            res.fail(f"{form}:dims-Q", f"Q has shape {shape} for n={n}")
        elif Q != mq["Q"] or k != mq["k"]:
            res.disagree(f"{form} QUBO (Q,k)", (Q, k), (mq["Q"], mq["k"]))
    elif n >= 1 and stq != "skipped":
        res.disagree(f"{form} get_qubo status", "ok", stq)
    if n == 0 or shape != (n, n) or impl["Ashape"] != (m, n):
        res.nontrivial = False
        return res
    # ---------------- oracle: energy identity on the real code's own outputs
    rho_eff = rho if rho is not None else (Fraction(0) if case["feas"] else F(o.get_sufficient_penalty(False))) + 1
    import random
    rnd = random.Random(case.get("seed", 0))
    X = None if n <= tier_n else [[rnd.randint(0, 1) for _ in range(n)] for _ in range(4000 if n <= 40 else 300)]
    B = VU.Brute(impl, X)
    lhs, dl = B.qubo(Q, k)
    # lhs/dl == obj/dO + rho * pen/dP   (cross-multiplied, all integers)
    M = VU._lcm(VU._lcm(dl, B.dO), B.dP * rho_eff.denominator)
    left = lhs * (M // dl)
    right = (0 if case["feas"] else B.obj * (M // B.dO)) + B.pen * (rho_eff.numerator * (M // (B.dP * rho_eff.denominator)))
    bad = np.nonzero(left != right)[0]
    nfeas = int(B.feasible.sum())
    ninf = int(len(B.feasible) - nfeas)
    if len(bad):
        i0 = int(bad[0])
        x = [int(t) for t in B.X[i0]]
        res.fail(f"{form}:energy", f"x'Qx+k = {fs(Fraction(int(left[i0]), M))} but objective + rho*penalty = {fs(Fraction(int(right[i0]), M))} at x={x} "
                                   f"(rho={fs(rho_eff)}, {'feasibility' if case['feas'] else 'optimisation'} mode)")
    res.nontrivial = n >= 2 and nfeas >= 1 and ninf >= 1
    res.features.append(f"exhaustive:{n <= tier_n}")
    return res


EXHAUSTIVE_SCOPE = FU.EXHAUSTIVE_FORMS_SCOPE


def gen_exhaustive():
    yield from FU.gen_exhaustive_forms(("arc", "path", "seq"), extra=dict(feas=False, rho=None))
