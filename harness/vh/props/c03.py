"""C03 — Feasibility QUBO is zero exactly on the feasible set, positive elsewhere."""
from fractions import Fraction
import numpy as np

from .. import core
from .. import vrp_util as VU
from .. import form_util as FU
from ..core import Result, fs, F

ID = "C03"
RULE = ("same instance generator as C02 (three formulations, strict/non-strict, before/after the heuristic), feasibility mode with the default "
        "penalty; all 2^n vectors for n <= 18 (both tiers): value >= 0, zero set = set of vectors satisfying the object's own linear and quadratic "
        "constraints, minimum 0 iff that set is non-empty; non-trivial = n >= 2 with a non-empty feasible set and at least one infeasible vector; "
        "distinct = distinct case")
ASSUMPTIONS = [
    "R is entrywise non-negative for every formulation (empty for arc/path, counts of products for sequence): proved per formulation",
    "exact arithmetic (dyadic data)",
]
PARTIAL = []
BUDGET_S = {"quick": 100, "thorough": 1200}


def gen(rng, tier):
    n_cases = 220 if tier == "quick" else 3000
    for k in range(n_cases):
        if k % 10 == 9:
            yield FU.gen_raising_seq_case(rng)      # the heuristic raises after it has changed the object (queries issued before)
        elif k % 10 == 4:
            # dummy arcs / vehicles of INFINITE cost (a natural "never use this" value): costs play no part in feasibility mode.
            # Two thirds sequence-based; a customer loses its arcs from the depot so that the heuristic has something to add
            case = FU.gen_form_case(rng, tier, forms=("seq", "seq", "arc", "path")[(k // 10) % 4:][:1], heur_p=0.0, nmax=3)
            cust = [nd["name"] for nd in case["spec"]["nodes"][1:]]
            if cust:
                victim = rng.choice(cust)
                case["spec"]["arcs"] = [a for a in case["spec"]["arcs"] if not (a[0] == "D" and a[1] == victim)]
            if case["form"] == "seq":
                case["V"] = max(1, case.get("V", 1))
                for key in ("via", "skip_set_depot", "then_set_depot", "arcs_before_depot"):
                    case.pop(key, None)
            case["inf_high_cost"] = True
            yield case
        elif k % 10 == 2:
            # systematic: sequence-based, five or six positions, a customer that can be entered from the depot but has no arc back to it
            # (and another one to return through): the "depot is absorbing" products must be there for that customer too
            spec, info = VU.gen_planted(rng, ncust=2, extra_arc_p=0.6, wide=True)
            a = spec["nodes"][1]["name"]
            b = spec["nodes"][2]["name"]
            spec["arcs"] = [x for x in spec["arcs"] if not (x[0] == a and x[1] == "D")]
            for o_, d_ in (("D", a), (a, b), (b, "D")):
                if not any(x[0] == o_ and x[1] == d_ for x in spec["arcs"]):
                    spec["arcs"].append([o_, d_, "0", "1"])
            yield dict(form="seq", spec=spec, strict=False, V=1, L=rng.choice([5, 6]), seed=rng.randrange(10 ** 6))
        elif k % 10 == 7:
            # systematic: a sequence-based object assembled through its own API with the depot node first, queried, and only then told
            # which node is the depot (set_depot on the node that already is first still installs the stay-at-depot move)
            case = FU.gen_form_case(rng, tier, forms=("seq",), heur_p=0.0)
            case["via"], case["skip_set_depot"], case["then_set_depot"] = "wrapper", True, True
            case["arcs_before_depot"] = len(case["spec"]["arcs"])
            case["V"], case["L"] = max(1, case.get("V", 1)), max(3, case.get("L", 3))
            yield case
        else:
            yield FU.gen_form_case(rng, tier, heur_p=0.45)


def shrink(case):
    yield from FU.shrink_form_case(case)


def inf_cost_case(case, res):
    """the feasibility QUBO after make_feasible(inf): finite, >= 0, zero exactly on the vectors that satisfy the reported constraints
    (the exact-rational model cannot hold inf; this is an oracle on the real code only)"""
    import itertools
    form = case["form"]
    o, _ = FU.build_form(case, with_heur=False)
    res.features += [f"form:{form}", "high-cost:inf"]
    try:
        o.make_feasible(np.inf)
    except Exception:  # noqa
        res.features.append("heur:raised")
        res.nontrivial = False
        return res
    try:
        n = int(o.get_num_variables())
        A, b, R, r_ = o.get_constraint_data()
        Q, k = o.get_qubo(feasibility=True)
    except Exception as e:  # noqa
        res.fail(f"{form}:raises", f"feasibility QUBO construction raised {e!r} after make_feasible(inf)")
        return res
    Qd = Q.toarray() if hasattr(Q, "toarray") else np.asarray(Q)
    if not (np.all(np.isfinite(Qd)) and np.isfinite(k)):
        res.fail(f"{form}:feas-qubo-not-finite", "the feasibility QUBO after make_feasible(inf) has non-finite entries (costs must play no part in feasibility mode)")
        return res
    if n == 0 or n > 12:
        res.nontrivial = False
        return res
    Ad = A.toarray() if hasattr(A, "toarray") else np.asarray(A, dtype=float).reshape(len(b), -1)
    Rd = R.toarray() if hasattr(R, "toarray") else np.asarray(R)
    nz = nf = 0
    for bits in itertools.product((0, 1), repeat=n):
        x = np.array(bits, dtype=float)
        e = float(x @ Qd @ x + k)
        d = Ad @ x - np.asarray(b, dtype=float) if len(b) else np.zeros(0)
        viol = float(d @ d + x @ Rd @ x)
        if e < 0 or (e == 0) != (viol == 0):
            res.fail(f"{form}:zero-set", f"after make_feasible(inf): feasibility QUBO value {e} at x={list(bits)}, squared violation {viol}")
            return res
        nz += e == 0
        nf += e != 0
    res.nontrivial = nz >= 1 and nf >= 1
    return res


def run_case(case, drv):
    res = Result(key=core.case_key(case))
    form = case["form"]
    if case.get("inf_high_cost"):
        return inf_cost_case(case, res)
    o, outcome = FU.build_form(case)
    FU.check_fresh_twin(o, case["form"], res)
    FU.check_query_mutate_query(case, res)
    FU.check_construction(o, res)
    res.features += [f"form:{form}", f"heur:{outcome if outcome in (None, 'ok') else 'raised'}"]
    if outcome not in (None, "ok"):
        res.nontrivial = False
        return res
    try:
        n = o.get_num_variables()
        if n == 0:
            res.nontrivial = False
            res.features.append("n:0")
            return res
        impl = VU.impl_data(o)
        Q, k, shape = VU.qubo_dense(o, True, None)
    except Exception as e:  # noqa
        res.fail(f"{form}:raises", f"feasibility QUBO construction raised {e!r}")
        return res
    stq, mq = FU.model_qubo(drv, o, form, True, None)
    if stq != "ok":
        res.disagree(f"{form} feasibility qubo status", "ok", stq)
    elif Q != mq["Q"] or k != mq["k"] or mq["rho"] != 1:
        res.disagree(f"{form} feasibility QUBO", (Q, k, 1), (mq["Q"], mq["k"], mq["rho"]))
    if any(impl["R"][i][j] < 0 for i in range(n) for j in range(n)):
        res.fail(f"{form}:R-negative", "quadratic constraint matrix has a negative entry")
    if n > 18:
        res.nontrivial = False
        res.features.append("n>18:skipped-bruteforce")
        return res
    B = VU.Brute(impl)
    vals, d = B.qubo(Q, k)
    neg = np.nonzero(vals < 0)[0]
    if len(neg):
        x = [int(t) for t in B.X[int(neg[0])]]
        res.fail(f"{form}:negative", f"feasibility QUBO value {fs(Fraction(int(vals[neg[0]]), d))} < 0 at x={x}")
    zero = vals == 0
    bad = np.nonzero(zero != B.feasible)[0]
    if len(bad):
        i0 = int(bad[0])
        x = [int(t) for t in B.X[i0]]
        res.fail(f"{form}:zero-set", f"x={x}: QUBO value {fs(Fraction(int(vals[i0]), d))}, satisfies the constraints: {bool(B.feasible[i0])}")
    if (int(vals.min()) == 0) != bool(B.feasible.any()):
        res.fail(f"{form}:min-zero", f"minimum {fs(Fraction(int(vals.min()), d))} but feasible set non-empty = {bool(B.feasible.any())}")
    # the package's own feasibility tester (vrpqubo/test_feasibility.py) on the constraint data: model correspondence and oracle
    try:
        from vrpqubo.test_feasibility import test_feasibility
        A_eq, b_eq, Q_eq, r_eq = o.get_constraint_data()
        idx = sorted(set([int(i) for i in np.nonzero(B.feasible)[0][:2]] + [int(i) for i in np.nonzero(~B.feasible)[0][:3]]
                         + [(7 * n + 3) % len(B.X), len(B.X) - 1]))
        xs = [[int(t) for t in B.X[i]] for i in idx]
        tm = FU.var_order(drv, o, form)      # (vectors go to the model in the model's variable numbering)
        rep = drv.ask(f"{form}.tf {FU.inst_tokens(o, form)} {len(xs)} " + " ".join(f"{n} " + " ".join(map(str, FU.vec_to_model(tm, x))) for x in xs))
        head, groups = core.split_reply(rep)
        if head != "ok":
            res.disagree("test_feasibility status", "ok", rep[:80])
        for q, (i, x) in enumerate(zip(idx, xs)):
            vio_l, vio_q, nnz = test_feasibility(np.array(x), A_eq, b_eq, Q_eq, r_eq)
            got = ([bool(t) for t in np.asarray(vio_l).ravel()], F(vio_q), int(nnz))
            if head == "ok":
                mg = groups[3 * q: 3 * q + 3]
                want = ([t == "1" for t in mg[0][1:]], Fraction(mg[1][0]), int(mg[2][0]))
                # (violated rows as a count: the order in which the object lists its equations is not part of any property)
                if (sum(got[0]), len(got[0])) + got[1:] != (sum(want[0]), len(want[0])) + want[1:]:
                    res.disagree(f"test_feasibility at x={x}", got, want)
            clean = (not any(got[0])) and got[1] == 0
            if clean != bool(B.feasible[i]):
                res.fail(f"{form}:tester-vs-constraints", f"test_feasibility reports {'no' if clean else 'a'} violation at x={x} but the vector "
                         f"{'satisfies' if B.feasible[i] else 'violates'} the constraints")
        res.features.append("test_feasibility:compared")
    except Exception as e:  # noqa
        res.fail(f"{form}:tester-raises", f"test_feasibility raised {e!r}")
    # zero-energy assignments must be valid solutions of the routing problem itself (independent statement of the formulation's
    # constraints: depot-route decomposition for arc-based instances with positive customer-to-customer times)
    if form == "arc" and n <= 14 and not res.failures:
        from .c05 import decompose
        g = VU.graph_of(o)
        pos = all(a[4] > 0 for a in g["arcs"] if a[0] != 0 and a[1] != 0) and not any(a[0] == 0 and a[1] == 0 for a in g["arcs"])
        if pos:
            var = [(int(i), F(s_), int(j), F(t)) for (i, s_, j, t) in o.var_mapping]
            for i0 in range(len(B.X)):
                sel = [var[k2] for k2 in range(n) if B.X[i0][k2]]
                valid = decompose(sel, len(g["nodes"])) is not None
                if bool(zero[i0]) != valid:
                    res.fail("arc:zero-energy-vs-routes", f"x selecting {core.jsonable(sel)} has feasibility-QUBO value "
                                                          f"{fs(Fraction(int(vals[i0]), d))} but is {'a' if valid else 'not a'} valid set of depot routes")
                    break
    if form == "seq" and n <= 13 and not res.failures and int(o.max_sequence_length) >= 3:
        # ... and for sequence-based instances: exactly the indicator vectors of walk assignments (absorbing depot, arcs, every
        # customer once), enumerated independently of the object's own constraint data
        from .c07 import walks
        g = VU.graph_of(o)
        has = {(a[0], a[1]): a for a in g["arcs"]}
        V_, L_ = int(o.max_vehicles), int(o.max_sequence_length)
        var = [(int(v), int(p_), int(k2)) for (v, p_, k2) in o.var_mapping]
        vidx = {u: i for i, u in enumerate(var)}
        ws = walks(len(g["nodes"]), V_, L_, has)
        if len(ws) <= 5000:
            enc = set()
            for w in ws:
                x = [0] * n
                ok_ = True
                for v in range(V_):
                    for p_ in range(L_):
                        u = (v, p_, w[v][p_])
                        if u in vidx:
                            x[vidx[u]] = 1
                        elif o.fixed_values.get(u) != 1.0:
                            ok_ = False
                if ok_:
                    enc.add(tuple(x))
            for i0 in range(len(B.X)):
                x = tuple(int(t) for t in B.X[i0])
                if bool(zero[i0]) != (x in enc):
                    res.fail("seq:zero-energy-vs-walks", f"x={list(x)} (tuples {[var[k2] for k2 in range(n) if x[k2]]}) has feasibility-QUBO value "
                                                         f"{fs(Fraction(int(vals[i0]), d))} but is {'a' if x in enc else 'not a'} walk assignment")
                    break
            res.features.append("zero-energy-vs-walks:checked")
    nf = int(B.feasible.sum())
    res.nontrivial = n >= 2 and nf >= 1 and nf < len(B.feasible)
    res.features += [f"n:{n}", f"feasible_set:{'empty' if nf == 0 else 'nonempty'}"]
    return res


EXHAUSTIVE_SCOPE = FU.EXHAUSTIVE_FORMS_SCOPE


def gen_exhaustive():
    yield from FU.gen_exhaustive_forms(("arc", "path", "seq"))
