"""C04 — Default penalty is exact: QUBO minimisers are the constrained optima."""
from fractions import Fraction
import numpy as np

from .. import core
from .. import vrp_util as VU
from .. import form_util as FU
from ..core import Result, fs, F

ID = "C04"
RULE = ("instance generator of C02 biased to adversarial cost ratios: negative arc costs, heuristic high costs in {0,1,10,40,1000} far above or "
        "below arc costs, vehicle counts too small (so that dummy vehicles / arcs / routes are added); optimisation mode with the default penalty; "
        "all 2^n vectors for n <= 18 (both tiers): argmin set of the QUBO = argmin set of the objective over the feasible set, equal minima; "
        "non-trivial = feasible set non-empty and n >= 2 and not every vector feasible; distinct = distinct case")
ASSUMPTIONS = [
    "the constrained program is feasible (hypothesis of the property); infeasible instances are counted and skipped",
    "exact arithmetic (dyadic data); A, b, R are integral so a violated constraint costs at least 1",
]
PARTIAL = []
BUDGET_S = {"quick": 100, "thorough": 1200}


def gen(rng, tier):
    n_cases = 240 if tier == "quick" else 3000
    for k in range(n_cases):
        if k % 12 == 11:
            yield FU.gen_raising_seq_case(rng)
            continue
        if k % 24 == 5:
            # systematic: arc-based on a grid with ONE time point and zero-time arcs only (every variable is a pair (s, s)); costs of
            # some size, optionally the heuristic with a high cost
            t0 = Fraction(rng.randint(0, 3))
            ncust = rng.randint(1, 2)
            names = ["D"] + [f"c{i + 1}" for i in range(ncust)]
            nodes = [dict(name=nm, demand="0", lo="0", hi="inf" if nm == "D" else fs(t0 + rng.randint(0, 2))) for nm in names]
            arcs = []
            for nm in names[1:]:
                arcs.append(["D", nm, "0", fs(Fraction(rng.randint(1, 9)))])
                if rng.random() < 0.7:
                    arcs.append([nm, "D", "0", fs(Fraction(rng.randint(1, 9)))])
            case = dict(form="arc", spec=dict(nodes=nodes, arcs=arcs, cap="8", init="4"), grid=[fs(t0)], seed=rng.randrange(10 ** 6))
            if rng.random() < 0.6:
                case["heur"] = rng.choice(["100", "1000", "40"])
            yield case
            continue
        case = FU.gen_form_case(rng, tier, heur_p=0.6, forms=("arc", "path", "seq", "seq"))
        if case["form"] == "seq" and "heur" in case:
            case["V"] = rng.choice([0, 1, 1, 2])
            case["heur"] = rng.choice(["1000", "40", "10", "1", "0"])
        yield case


def shrink(case):
    yield from FU.shrink_form_case(case)


def run_case(case, drv):
    res = Result(key=core.case_key(case))
    form = case["form"]
    o, outcome = FU.build_form(case)
    FU.check_fresh_twin(o, case["form"], res)
    FU.check_query_mutate_query(case, res)
    res.features += [f"form:{form}", f"heur:{outcome if outcome in (None, 'ok') else 'raised'}"]
    if outcome not in (None, "ok"):
        res.nontrivial = False
        return res
    try:
        n = o.get_num_variables()
        if n == 0:
            res.nontrivial = False
            return res
        impl = VU.impl_data(o)
        Q, k, shape = VU.qubo_dense(o, False, None)
        suff = F(o.get_sufficient_penalty(False))
    except Exception as e:  # noqa
        res.fail(f"{form}:raises", f"optimisation QUBO construction raised {e!r}")
        return res
    st, md = FU.model_data(drv, o, form)
    if st == "ok":
        if suff != md["suff"]:
            res.disagree(f"{form} sufficient penalty", suff, md["suff"])
        imd = VU.model_dense(md["mp"])
        if impl["c"] != imd["c"] or (impl["Q"] != imd["Q"] and n > 0):
            res.disagree(f"{form} objective coefficients", (impl["c"], impl["Q"]), (imd["c"], imd["Q"]))
    else:
        res.disagree(f"{form} data status", "ok", st)
    # the bound the proof needs: default rho > sum of |objective coefficients|
    coeff_sum = sum(abs(x) for x in impl["c"]) + sum(abs(x) for row in impl["Q"] for x in row)
    res.features.append(f"bound:{'tight' if suff == coeff_sum else ('slack' if suff > coeff_sum else 'VIOLATED')}")
    if n > 18:
        res.nontrivial = False
        res.features.append("n>18:skipped-bruteforce")
        return res
    B = VU.Brute(impl)
    if not B.feasible.any():
        res.features.append("infeasible-instance")
        res.nontrivial = False
        return res
    vals, d = B.qubo(Q, k)
    qmin = int(vals.min())
    qarg = vals == qmin
    big = np.iinfo(np.int64).max
    objf = np.where(B.feasible, B.obj, big)
    omin = int(objf.min())
    oarg = objf == omin
    if Fraction(qmin, d) != Fraction(omin, B.dO):
        i0 = int(np.nonzero(qarg)[0][0])
        res.fail(f"{form}:min-value", f"QUBO minimum {fs(Fraction(qmin, d))} (at x={[int(t) for t in B.X[i0]]}, feasible={bool(B.feasible[i0])}) "
                                      f"!= constrained optimum {fs(Fraction(omin, B.dO))}; default penalty {fs(suff + 1)}, sum|coeff|={fs(coeff_sum)}")
    elif (qarg != oarg).any():
        i0 = int(np.nonzero(qarg != oarg)[0][0])
        res.fail(f"{form}:argmin-set", f"x={[int(t) for t in B.X[i0]]} is a QUBO minimiser: {bool(qarg[i0])}, a constrained optimum: {bool(oarg[i0])}")
    nf = int(B.feasible.sum())
    res.nontrivial = n >= 2 and nf < len(B.feasible)
    res.features += [f"n:{n}", f"optima:{min(int(oarg.sum()), 3)}"]
    return res


EXHAUSTIVE_SCOPE = FU.EXHAUSTIVE_FORMS_SCOPE


def gen_exhaustive():
    yield from FU.gen_exhaustive_forms(("arc", "path", "seq"))
