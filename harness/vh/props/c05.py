"""C05 — Arc-based constraints describe exactly the time-feasible route sets."""
from fractions import Fraction
import itertools
import numpy as np

from .. import core
from .. import vrp_util as VU
from .. import form_util as FU
from .. import mirp_util as MU
from ..core import Result, fs, fl, F

ID = "C05"
RULE = ("seeded VRPTW instances with positive customer-to-customer travel times (2..4 nodes, windows in quarters incl. inf, costs of either sign; every 25th: "
        "a zero-duration depot exit whose arc comes AFTER the customer's arcs in the arc table) x "
        "time grids given in any order (integer / quarter / sparse / window-end / complete); all 2^n vectors for n <= 14 (both tiers): satisfies the "
        "object's constraints <=> the selected moves decompose (independent implementation) into depot-to-depot routes with every customer exactly "
        "once; objective = summed arc costs; get_routes = that decomposition; non-trivial = at least one feasible and one infeasible vector with "
        "n >= 3; distinct = distinct case")
ASSUMPTIONS = [
    "customer-to-customer travel times are positive (hypothesis of the property: a zero-time 2-cycle between customers satisfies all rows but is no route)",
    "depot is node 0 and has no self-arc; time grid without duplicate values",
    "the complete-grid half (equality with the VRPTW optimum without capacity) is exercised in C08",
]
PARTIAL = ["complete-grid half (equality with the VRPTW optimum without capacity) is exercised in C08"]
BUDGET_S = {"quick": 100, "thorough": 1200}


def gen(rng, tier):
    n_cases = 200 if tier == "quick" else 3000
    for k in range(n_cases):
        if k % 50 == 17:
            # no customer at all: the empty selection satisfies the (empty) constraint system and decodes to no route
            yield dict(form="arc", spec=dict(nodes=[dict(name="D", demand="0", lo="0", hi="inf")], arcs=[], cap="4", init="0"),
                       grid=[fs(Fraction(t)) for t in range(rng.randint(1, 3))], seed=0)
            continue
        if k % 25 == 7:
            # a depot->customer move of zero duration ties on departure time with the customer's onward move, and the customer's arcs
            # were added BEFORE the depot's (they come first in the arc table): every decoded route must still start at the depot
            q = lambda: fs(Fraction(rng.randint(-8, 12), 4))        # noqa: E731
            two = rng.random() < 0.5
            nodes = [dict(name="D", demand="0", lo="0", hi="inf"), dict(name="A", demand="1", lo="0", hi="1" if two else "2")]
            arcs = [["A", "D", "1", q()]]
            if two:
                nodes.append(dict(name="B", demand="1", lo="1", hi="2"))
                arcs += [["A", "B", "1", q()], ["B", "D", "1", q()]]
            arcs.append(["D", "A", "0", q()])
            if two:
                arcs.append(["D", "B", rng.choice(["0", "1"]), q()])
            grid = ["0", "1", "2"] + ([] if two else ["3"])
            if rng.random() < 0.5:
                grid.reverse()
            yield dict(form="arc", spec=dict(nodes=nodes, arcs=arcs, cap="4", init="0"), grid=grid, seed=rng.randrange(10 ** 6))
            continue
        if k % 4 != 3:
            spec, info = VU.gen_planted(rng, wide=(k % 4 == 2))
            case = dict(form="arc", spec=spec, grid=info["grid"], seed=rng.randrange(10 ** 6))
            if rng.random() < 0.1:
                case["heur"] = "10"
        else:
            case = FU.gen_form_case(rng, tier, forms=("arc",), heur_p=0.15, nmax=4)
        # no depot self-arc (excluded point of the property)
        case["spec"]["arcs"] = [a for a in case["spec"]["arcs"] if not (a[0] == "D" and a[1] == "D")]
        yield case


def shrink(case):
    yield from FU.shrink_form_case(case)


def decompose(sel, N):
    """independent decomposition of selected (i,s,j,t) moves into depot routes; None when impossible"""
    moves = list(sel)
    # every customer exactly one arrival
    for c in range(1, N):
        if sum(1 for m in moves if m[2] == c) != 1:
            return None
    starts = sorted(m for m in moves if m[0] == 0)
    rest = [m for m in moves if m[0] != 0]
    routes = []
    for m in starts:
        r = [(m[0], m[1])]
        cur = m
        while True:
            r.append((cur[2], cur[3]))
            if cur[2] == 0:
                break
            nxt = [a for a in rest if (a[0], a[1]) == (cur[2], cur[3])]
            if len(nxt) != 1:
                return None
            rest.remove(nxt[0])
            cur = nxt[0]
        routes.append(r)
    if rest:
        return None          # moves not reachable from the depot (cycles / dangling)
    return routes


def run_case(case, drv):
    res = Result(key=core.case_key(case))
    o, outcome = FU.build_form(case)
    FU.check_fresh_twin(o, case["form"], res)
    FU.check_query_mutate_query(case, res)
    FU.check_construction(o, res)
    if outcome not in (None, "ok"):
        res.nontrivial = False
        res.features.append("heur:raised")
        return res
    n = o.get_num_variables()
    g = VU.graph_of(o)
    N = len(g["nodes"])
    res.features += [f"n:{n}", f"grid:{len(o.time_points)}"]
    if n == 0 and N == 1:
        # a depot and no customer: nothing to select, nothing to decode
        try:
            dec0 = o.get_routes(np.zeros(0))
            if list(dec0) != []:
                res.fail("arc:decode-empty", f"get_routes of the empty selection gives {core.jsonable(dec0)}")
        except Exception as e:  # noqa
            res.fail("arc:decode-empty", f"get_routes of the empty selection (no customer, no variable) raised {e!r}")
        res.features.append("no-customer:decoded")
    if n == 0 or n > 17:
        res.nontrivial = False
        res.features.append("skipped:size")
        return res
    try:
        impl = VU.impl_data(o)
    except Exception as e:  # noqa
        res.fail("arc:data-raises", f"getters raised {e!r}")
        return res
    st, md = FU.model_data(drv, o, "arc")
    if st != "ok":
        res.disagree("arc data status", "ok", st)
    else:
        VU.compare_data(res, impl, VU.model_dense(md["mp"]), "arc")
    var = [(int(i), F(s), int(j), F(t)) for (i, s, j, t) in o.var_mapping]
    arcs = {(a[0], a[1]): a for a in g["arcs"]}
    if n > 14:
        res.nontrivial = False
        res.features.append("exhaustive:False")
        return res
    B = VU.Brute(impl)
    inst = FU.inst_tokens(o, "arc")
    nf = 0
    checked_dec = 0
    for idx in range(len(B.X)):
        x = [int(t) for t in B.X[idx]]
        sel = [var[k] for k in range(n) if x[k]]
        routes = decompose(sel, N)
        code_feas = bool(B.feasible[idx])
        if code_feas != (routes is not None):
            res.fail("arc:feasible-vs-routes", f"x selects {core.jsonable(sel)}: satisfies the constraints = {code_feas}, decomposes into depot routes = {routes is not None}")
            break
        if routes is None:
            continue
        nf += 1
        cost = sum(arcs[(m[0], m[2])][5] for m in sel)
        if Fraction(int(B.obj[idx]), B.dO) != cost:
            res.fail("arc:objective", f"objective {fs(Fraction(int(B.obj[idx]), B.dO))} != summed arc cost {fs(cost)} for {core.jsonable(sel)}")
            break
        if checked_dec < 40:
            checked_dec += 1
            try:
                dec = o.get_routes(np.array(x))
                dec = [[(int(a), F(b)) for (a, b) in r] for r in dec]
            except Exception as e:  # noqa
                dec = core.err_kind(e)
            if isinstance(dec, str) or sorted(dec) != sorted(routes):
                res.fail("arc:decode", f"get_routes gives {core.jsonable(dec)}; the selected moves are the routes {core.jsonable(routes)}")
                break
            rep = drv.ask(f"arc.decode {inst} {fl(FU.vec_to_model(md.get('order') if st == 'ok' else None, x))}")
            head, groups = core.split_reply(rep)
            if head != "ok":
                res.disagree("decode status", "ok", head)
            else:
                tk = MU.Toks(groups[0])
                mdec = tk.lst(lambda: tk.lst(lambda: (tk.nat(), Fraction(tk.tok()))))
                if sorted(mdec) != sorted(dec):      # the order in which the routes are listed is not part of the property
                    res.disagree("decode", dec, mdec)
    res.nontrivial = n >= 3 and nf >= 1 and nf < len(B.X)
    res.features += ["exhaustive:True", f"feasible_vectors:{min(nf, 5)}"]
    return res


EXHAUSTIVE_SCOPE = FU.EXHAUSTIVE_FORMS_SCOPE


def gen_exhaustive():
    yield from FU.gen_exhaustive_forms(("arc",))
