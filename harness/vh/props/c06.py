"""C06 — Path-based route admission matches the VRPTW route definition."""
from fractions import Fraction
import itertools

from .. import core
from .. import vrp_util as VU
from .. import form_util as FU
from .. import mirp_util as MU
from ..core import Result, fs, fl, F

ID = "C06"
RULE = ("seeded VRPTW instances (demands of either sign, capacities, initial loads, windows incl. waiting and zero width) x histories of "
        "candidate routes: all valid routes from a reference enumerator (sampled) and invalid ones by mutation (repeat a node, drop the depot, "
        "miss an arc, exceed a window by a quarter, overload, revisit the depot, length < 2), given as names / indices / mixed, with repeats, "
        "interleaved with later add_node / add_arc calls; non-trivial = history with at least one accepted and one rejected route; distinct = "
        "distinct history")
ASSUMPTIONS = [
    "vehicle capacity and initial loading are set (else the code raises TypeError)",
    "integer stops are valid node positions or at most 1 beyond (negative Python indices wrap around: outside the model)",
    "the depot is node 0 (set_depot called before routes are added)",
]
PARTIAL = []
BUDGET_S = {"quick": 90, "thorough": 900}


def valid_route(g, r):
    """independent VRPTW route definition on index routes (Fraction arithmetic); returns (valid, cost)"""
    nodes, arcs = g["nodes"], {(a[0], a[1]): a for a in g["arcs"]}
    if len(r) < 2 or r[0] != 0 or r[-1] != 0:
        return False, None
    inner = r[1:-1]
    if len(set(inner)) != len(inner) or 0 in inner:
        return False, None
    # the vehicle leaves the depot when the depot's window opens
    time, load, cost = nodes[0][2], g["init"], Fraction(0)
    for a, b in zip(r, r[1:]):
        if (a, b) not in arcs:
            return False, None
        time = max(time + arcs[(a, b)][4], nodes[b][2])
        if nodes[b][3] != core.INF and time > nodes[b][3]:
            return False, None
        load = load - nodes[b][1]
        if load < 0 or load > g["cap"]:
            return False, None
        cost += arcs[(a, b)][5]
    return True, cost


def reject_reason(g, r):
    """why the independent definition rejects `r` (feature only)"""
    nodes, arcs = g["nodes"], {(a[0], a[1]): a for a in g["arcs"]}
    if len(r) < 2 or r[0] != 0 or r[-1] != 0:
        return "ends"
    inner = r[1:-1]
    if len(set(inner)) != len(inner) or 0 in inner:
        return "repeat"
    time, load = nodes[0][2], g["init"]
    for k, (a, b) in enumerate(zip(r, r[1:])):
        if (a, b) not in arcs:
            return "no-arc"
        time = max(time + arcs[(a, b)][4], nodes[b][2])
        if nodes[b][3] != core.INF and time > nodes[b][3]:
            return "late-at-depot" if b == 0 else ("late-intermediate" if k < len(r) - 3 else "late-last-customer")
        load = load - nodes[b][1]
        if load < 0:
            return "load-negative"
        if load > g["cap"]:
            return "load-over-capacity"
    return "valid"


def all_routes(g, limit=400):
    n = len(g["nodes"])
    arcs = {(a[0], a[1]) for a in g["arcs"]}
    out = []

    def rec(r):
        if len(out) >= limit:
            return
        for j in range(n):
            if (r[-1], j) in arcs:
                if j == 0:
                    if len(r) >= 1:
                        out.append(r + [0])
                elif j not in r:
                    rec(r + [j])
    rec([0])
    return out


def gen_planted_history(rng):
    """instance with planted multi-customer routes; the history offers them, their permutations, and versions of the instance in which
    one window closes a quarter before the planted arrival (late at an intermediate / last customer) or a load bound is exceeded"""
    spec, info = VU.gen_planted(rng, ncust=rng.randint(2, 4), extra_arc_p=rng.choice([0.2, 0.5]), wide=rng.random() < 0.5)
    planted = [r for r in info["routes"]]
    r = max(planted, key=len)
    mut = rng.choice(["none", "late", "late", "overload", "underload"])
    if mut == "late" and len(r) > 2:
        # arrival times along r when the depot opens at 0 and early arrivals wait
        t, arcs = Fraction(0), {(a[0], a[1]): Fraction(a[2]) for a in spec["arcs"]}
        lo = {nd["name"]: Fraction(nd["lo"]) for nd in spec["nodes"]}
        arr = {}
        for a, b in zip(r, r[1:]):
            t = max(t + arcs[(a, b)], lo[b])
            arr[b] = t
        victim = rng.choice(r[1:-1])
        for nd in spec["nodes"]:
            if nd["name"] == victim:
                nd["hi"] = fs(arr[victim] - Fraction(1, 4))
                nd["lo"] = fs(min(Fraction(nd["lo"]), arr[victim] - Fraction(1, 4)))
    elif mut == "overload":
        spec["cap"] = fs(Fraction(spec["init"]) - Fraction(1, 4)) if rng.random() < 0.5 else spec["cap"]
        for nd in spec["nodes"][1:2]:
            nd["demand"] = fs(-Fraction(1, 2))          # a pick-up that pushes the load above the capacity
    elif mut == "underload":
        spec["init"] = "1/4"
    ops = []
    cands = [list(x) for x in planted]
    for x in planted:
        inner = x[1:-1]
        if len(inner) >= 2:
            y = inner[:]
            rng.shuffle(y)
            cands.append(["D"] + y + ["D"])
            cands.append(["D"] + inner[:-1] + ["D"])
    rng.shuffle(cands)
    names = [nd["name"] for nd in spec["nodes"]]
    if len(r) >= 4 and mut == "none":
        # a route that is feasible in every other respect but visits one customer twice (the way back is made possible: arc y -> x of
        # time 0, x's window left open), the two visits spelled differently: once by name, once by index
        x_, y_ = r[1], r[2]
        arcset = {(a[0], a[1]) for a in spec["arcs"]}
        if (y_, x_) not in arcset:
            spec["arcs"].append([y_, x_, "0", "1"])
        if (x_, "D") not in arcset:
            spec["arcs"].append([x_, "D", "0", "1"])
        for nd in spec["nodes"]:
            if nd["name"] in (x_, "D"):
                nd["hi"] = "inf"
            if nd["name"] in (x_, y_):
                nd["demand"] = "0"
        ops_first = [["R", ["D", x_, y_, names.index(x_), "D"]], ["R", [0, names.index(x_), y_, x_, 0]]]
    else:
        ops_first = []
    ops += ops_first
    for c in cands[:6]:
        enc = rng.choice(["names", "idx", "mixed"])
        ops.append(["R", [(names.index(x) if enc == "idx" or (enc == "mixed" and rng.random() < 0.5) else x) for x in c]])
    return dict(spec=spec, ops=ops)


def gen_decimal_waiting(rng):
    """decimal (non-dyadic) data on which floating point cannot matter: every customer has a zero-width window [w, w] at a tenth, and
    the vehicle always arrives early by at least 1/4, so the clock after each stop must read exactly w (waiting = max, no arithmetic)
    and the window end is met with equality.  An implementation that computes the waiting by adding a difference is off by an ulp."""
    ncust = rng.randint(1, 3)
    w = Fraction(0)
    nodes = [dict(name="D", demand="0", lo="0", hi="inf")]
    arcs = []
    prev = "D"
    for i in range(ncust):
        # (travel time, waiting) pairs for which  a + (b - a) != b  in doubles, a = arrival, b = window start: there the two ways of
        # computing the clock after waiting differ; early by >= 3/10 in every case
        hits = [(Fraction(tt, 10), Fraction(gg, 100)) for tt in range(1, 10) for gg in range(30, 150)
                if float(w + Fraction(tt, 10)) + (float(w + Fraction(tt, 10) + Fraction(gg, 100)) - float(w + Fraction(tt, 10)))
                != float(w + Fraction(tt, 10) + Fraction(gg, 100))]
        t, gap = rng.choice(hits) if hits else (Fraction(rng.randint(1, 9), 10), Fraction(rng.choice([3, 6, 7, 11, 14]), 10))
        w = w + t + gap
        nm = f"c{i + 1}"
        nodes.append(dict(name=nm, demand="0", lo=fs(w), hi=fs(w)))
        arcs.append([prev, nm, fs(t), str(rng.randint(1, 4))])
        arcs.append([nm, "D", fs(Fraction(rng.randint(1, 9), 10)), str(rng.randint(1, 4))])
        if prev != "D" and rng.random() < 0.5:
            arcs.append(["D", nm, fs(Fraction(rng.randint(1, 3), 10)), "2"])
        prev = nm
    names = [nd["name"] for nd in nodes]
    full = names + ["D"]
    ops = [["R", list(full)], ["R", [names.index(x) for x in full]]]
    for i in range(1, ncust):
        ops.append(["R", names[:i + 1] + ["D"]])
    ops.append(["R", list(full)])
    return dict(spec=dict(nodes=nodes, arcs=arcs, cap="10", init="5"), ops=ops, decimal=True)


def gen(rng, tier):
    n_cases = 220 if tier == "quick" else 3000
    for k in range(n_cases):
        if k % 11 == 7:
            yield gen_decimal_waiting(rng)
            continue
        if k % 3 == 2:
            yield gen_planted_history(rng)
            continue
        spec = VU.gen_vrptw(rng, nmax=5)
        if rng.random() < 0.07:
            spec[rng.choice(["cap", "init"])] = None        # vehicle data left unset (the excluded point of the route definition)
        names = [n["name"] for n in spec["nodes"]]
        v = None
        ops = []
        L = rng.randint(3, 10 if tier == "quick" else 16)
        extra = 0
        for _ in range(L):
            r = rng.random()
            if r < 0.12 and extra < 2:
                extra += 1
                nm = f"x{extra}"
                lo = Fraction(rng.randint(0, 8), 4)
                ops.append(["N", nm, fs(Fraction(rng.randint(-2, 4), 4)), fs(lo), rng.choice(["inf", fs(lo + 2)])])
                names.append(nm)
                ops.append(["A", "D", nm, "0", fs(Fraction(rng.randint(0, 8), 4))])
                ops.append(["A", nm, rng.choice(names[1:]), fs(Fraction(rng.randint(0, 4), 4)), "1"])
                ops.append(["A", nm, "D", "0", "0"])
                continue
            # a candidate route: random walk biased to existing arcs, then maybe mutated
            arcs = {(a[0], a[1]) for a in spec["arcs"]} | {(o[1], o[2]) for o in ops if o[0] == "A"}
            route = ["D"]
            left = names[1:]
            rng.shuffle(left)
            for nm in left[:rng.randint(0, len(left))]:
                if (route[-1], nm) in arcs or rng.random() < 0.15:
                    route.append(nm)
            route.append("D")
            mut = rng.random()
            repeated = None
            if mut < 0.08 and len(route) > 2:
                repeated = route[rng.randint(1, len(route) - 2)]
                route.insert(rng.randint(1, len(route) - 1), repeated)                                 # repeat a node
            elif mut < 0.12:
                route = route[:-1]                                                                     # drop the final depot
            elif mut < 0.15:
                route = route[1:]
            elif mut < 0.18 and len(route) > 3:
                route.insert(2, "D")                                                                   # revisit the depot
            elif mut < 0.20:
                route = [route[0]]
            elif mut < 0.22:
                route = route + ["zz"] if rng.random() < 0.5 else ["zz"] + route                       # unknown name
            enc = rng.choice(["names", "names", "idx", "mixed"])
            if enc != "names":
                route = [(names.index(x) if x in names and (enc == "idx" or rng.random() < 0.5) else x) for x in route]
            if repeated is not None and repeated in names and rng.random() < 0.6:
                # the two visits of the repeated customer spelled differently: once by name, once by index
                occ = [i for i, x in enumerate(route) if x == repeated or x == names.index(repeated)]
                if len(occ) >= 2:
                    route[occ[0]], route[occ[1]] = repeated, names.index(repeated)
            if rng.random() < 0.05 and len(route) >= 3 and all(isinstance(x, int) for x in route):
                # a node position below zero is no node (Python's negative indexing would read it as "the k-th node from the end")
                j = rng.randint(1, len(route) - 2)
                if 0 < route[j] < len(names):
                    route[j] = route[j] - len(names)
            ops.append(["R", route])
            if rng.random() < 0.15:
                ops.append(["R", list(route)])                                                          # same route again
        yield dict(spec=spec, ops=ops)


def shrink(case):
    ops = case["ops"]
    for i in range(len(ops)):
        yield dict(case, ops=ops[:i] + ops[i + 1:])
    spec = case["spec"]
    for i in range(len(spec["arcs"])):
        yield dict(case, spec=dict(spec, arcs=spec["arcs"][:i] + spec["arcs"][i + 1:]))


def same_route_reply(a, b):
    """`<check_route reply> <add_route reply>` of the code and of the model: both raise or both return (which exception is not part of
    the property); the same admission flag; the same cost when the route is ACCEPTED (the partial cost reported with a rejection is
    incidental); the same stored flag"""
    ta, tb = a.split(), b.split()
    if len(ta) != 2 or len(tb) != 2:
        return a == b
    for x, y, is_check in ((ta[0], tb[0], True), (ta[1], tb[1], False)):
        if core.err_class(x) != core.err_class(y) and (core.err_class(x) == "raised" or core.err_class(y) == "raised"):
            return False
        if core.err_class(x) == "raised":
            continue
        px, py = x.split(":"), y.split(":")
        if px[1] != py[1]:
            return False
        if is_check and px[1] == "1" and px[2] != py[2]:
            return False
        if not is_check and px[2] != py[2]:
            return False
    return True


def stop_tok(x):
    # (the model's positions are natural numbers: a negative position is handed over as a position beyond every node — both are
    # "no node", and a route through it must be rejected)
    return (f"i:{x}" if x >= 0 else "i:9999") if isinstance(x, int) else f"n:{x}"


def run_case(case, drv):
    from vrpqubo.routing_problem import PathBasedRoutingProblem
    import numpy as np
    res = Result(key=core.case_key(case))
    v = VU.build_vrptw(case["spec"])
    o = PathBasedRoutingProblem(v)
    g0 = VU.graph_of(o)
    toks = []
    for op in case["ops"]:
        if op[0] == "R":
            toks += ["R", str(len(op[1]))] + [stop_tok(x) for x in op[1]]
        else:
            toks += op
    rep = drv.ask(f"path.hist {VU.graph_tokens(g0)} {len(case['ops'])} {' '.join(toks)}")
    head, groups = core.split_reply(rep)
    body = rep[3:]
    results_s = body.split(" | ")[0]
    mres = [r.strip() for r in results_s.split(" ; ")] if case["ops"] else []
    acc = rej = 0
    import random as _random
    qrnd = _random.Random(len(case["ops"]) * 7919 + len(case["spec"]["arcs"]))
    for idx, op in enumerate(case["ops"]):
        if qrnd.random() < 0.3:
            # queries in the middle of the history (they must not influence what is reported later)
            try:
                o.get_constraint_data()
                o.get_objective_data()
            except Exception:  # noqa
                pass
        if op[0] != "R":
            try:
                if op[0] == "N":
                    o.add_node(op[1], VU.val(op[2]), (VU.val(op[3]), VU.val(op[4])))
                    out = "ok"
                else:
                    out = f"ok:{1 if o.add_arc(op[1], op[2], VU.val(op[3]), VU.val(op[4])) else 0}"
            except Exception as e:  # noqa
                out = core.err_kind(e)
            if idx < len(mres) and out != mres[idx]:
                res.disagree(f"graph op #{idx} {op}", out, mres[idx])
            continue
        route = op[1]
        g = VU.graph_of(o)
        names = [n[0] for n in g["nodes"]]
        pool_before = [list(r) for r in o.routes]
        # check_route on a copy, then add_route on another copy (both convert names in place)
        r1, r2 = list(route), list(route)
        if route and (all(isinstance(x, int) for x in route) or all(isinstance(x, str) for x in route) or (idx + len(route)) % 3 == 1):
            # a route (indices, names or mixed) may be handed over as any node sequence: list, tuple or, when its entries are of one
            # kind, numpy array
            kind = ["list", "tuple", "array"][(idx + len(route)) % 3]
            if kind == "tuple":
                r1, r2 = tuple(route), tuple(route)
            elif kind == "array":
                r1, r2 = np.array(route), np.array(route)
            res.features.append(f"route-container:{kind}:{'names' if any(isinstance(x, str) for x in route) else 'indices'}")
        try:
            feas, cost, visits = o.check_route(r1)
            # (the number reported together with a REJECTION is not part of the property: it is not read, whatever it is)
            chk = f"ok:{1 if feas else 0}:{fs(F(cost)) if feas else '0'}"
        except Exception as e:  # noqa
            chk, feas, cost = core.err_kind(e), None, None
        try:
            f2, added = o.add_route(r2)
            add = f"ok:{1 if f2 else 0}:{1 if added else 0}"
        except Exception as e:  # noqa
            add, f2, added = core.err_kind(e), None, None
        # the caller may re-use its list afterwards: what was stored must not change with it
        pool_after = [list(r) for r in o.routes]
        costs_after = list(o.route_costs)
        if isinstance(r2, list):
            r2[:] = ["clobbered-by-caller"] * 3
            r1[:] = [0]
        if [list(r) for r in o.routes] != pool_after or list(o.route_costs) != costs_after:
            res.fail("route:aliases-caller-list", f"the stored pool changed when the caller re-used the list it had passed to add_route ({route})")
            o.routes[:] = [list(r) for r in pool_after]
        line = f"{chk} {add}"
        unset = g["cap"] is None or g["init"] is None
        if unset:
            # without vehicle data the property only excludes an acceptance (raise or reject, early or late: incidental)
            ok_ = idx >= len(mres) or all(core.err_class(t) == "raised" or t.split(":")[1] == "0" for t in line.split() + mres[idx].split())
            if not ok_:
                res.disagree(f"route #{idx} {route} (vehicle data unset)", line, mres[idx])
        elif idx < len(mres) and not same_route_reply(line, mres[idx]):
            res.disagree(f"route #{idx} {route}", line, mres[idx])
        if g["cap"] is None or g["init"] is None:
            # vehicle data unset: the code raises TypeError when it reaches the load arithmetic and rejects routes that fail earlier
            # (modelled by checkRouteO, proved in Props/C06d: never an acceptance); compared with the model above
            if feas is True or f2 is True:
                res.fail("route:accepted-without-vehicle-data", f"route {route} accepted although capacity / initial loading are unset")
            res.features.append("vehicle-data-unset:" + ("raised" if feas is None else "rejected"))
            continue
        if any(isinstance(x, int) and x < 0 for x in route):
            if feas is True or f2 is True:
                res.fail("route:negative-position-accepted", f"route {route} with a node position below zero accepted (it aliases a route through node {[x % len(names) for x in route if isinstance(x, int) and x < 0]})")
            if [list(r) for r in o.routes] != pool_before:
                res.fail("route:error-changed-pool", f"route {route} changed the pool although it was not accepted")
            res.features.append("route:negative-position")
            rej += 1
            continue
        # ---------- oracle
        unknown = [x for x in route if isinstance(x, str) and x not in names]
        idx_route = [names.index(x) if isinstance(x, str) and x in names else x for x in route]
        if unknown:
            # an unknown name either raises or the route is rejected before the name is looked at; the pool must not change
            if f2 or (feas is True):
                res.fail("route:unknown-accepted", f"route {route} with unknown name accepted")
            if [list(r) for r in o.routes] != pool_before:
                res.fail("route:error-changed-pool", f"route {route} changed the pool although it was not accepted")
            rej += 1
            continue
        want, wcost = valid_route(g, idx_route)
        res.features.append(f"route:{reject_reason(g, idx_route)}:{min(len(idx_route) - 2, 3)}cust")
        if feas is None or f2 is None:
            res.fail("route:raises", f"check_route/add_route raised on {route}: {chk} / {add}")
            continue
        if feas != want or f2 != want:
            res.fail("route:admission", f"route {route} (indices {idx_route}): accepted={feas}/{f2} but the route definition says {want}")
            continue
        if want:
            acc += 1
            if F(cost) != wcost:
                res.fail("route:cost", f"route {idx_route}: stored cost {fs(F(cost))} != sum of arc costs {fs(wcost)}")
            dup = idx_route in pool_before
            if added == dup:
                res.fail("route:stored-once", f"route {idx_route}: added={added} although already stored={dup}")
            if o.routes.count(idx_route) != 1:
                res.fail("route:stored-once", f"route {idx_route} stored {o.routes.count(idx_route)} times")
        else:
            rej += 1
            if added or [list(r) for r in o.routes] != pool_before:
                res.fail("route:rejected-but-stored", f"rejected route {idx_route} changed the pool")
    # ---------- final data: exact cover over the pool on the current node list
    try:
        impl = VU.impl_data(o)
    except Exception as e:  # noqa
        res.fail("data:raises", f"constraint/objective getters raised {e!r}")
        return res
    final = body.split(" | ")
    mgroups = [x.split() for x in final]
    mpool_t = MU.Toks(mgroups[1])
    mpool = mpool_t.lst(lambda: mpool_t.lst(mpool_t.nat))
    if [[int(x) for x in r] for r in o.routes] != mpool:
        res.disagree("route pool", o.routes, mpool)
    mp = VU.parse_mp(mgroups, 3)
    VU.compare_data(res, impl, VU.model_dense(mp), "path")
    g = VU.graph_of(o)
    N = len(g["nodes"])
    shape_ok = (not impl["A"]) or (len(impl["A"]) == N - 1 and all(len(row) == len(o.routes) for row in impl["A"]))
    if not shape_ok:
        res.fail("cover:shape", f"cover matrix is {len(impl['A'])} x {len(impl['A'][0]) if impl['A'] else 0} for {N - 1} customers and {len(o.routes)} routes")
    for col, r in enumerate(o.routes if shape_ok else []):
        for k in range(1, N):
            want = 1 if k in r else 0
            if impl["A"] and impl["A"][k - 1][col] != want:
                res.fail("cover:entry", f"cover entry (customer {k}, route {col}) = {impl['A'][k - 1][col]} but route {list(r)} visits it: {bool(want)}")
    if any(b != 1 for b in impl["b"]) or len(impl["b"]) != N - 1:
        res.fail("cover:rhs", f"right-hand sides {impl['b']} for {N - 1} customers")
    if any(x != 0 for row in impl["R"] for x in row):
        res.fail("cover:R", "quadratic constraint present")
    if impl["c"] != [F(c) for c in o.route_costs]:
        res.fail("cover:costs", "objective coefficients are not the stored route costs")
    # decoding
    if o.routes:
        x = [1 if i % 2 == 0 else 0 for i in range(len(o.routes))]
        dec = o.get_routes(np.array(x))
        want = [[g["nodes"][i][0] for i in r] for i_, r in enumerate(o.routes) if x[i_]]
        if dec != want:
            res.fail("decode", f"get_routes returns {dec}, expected {want}")
    res.nontrivial = acc >= 1 and rej >= 1
    res.features += [f"accepted:{min(acc, 5)}", f"rejected:{min(rej, 5)}", f"later_nodes:{any(op[0] == 'N' for op in case['ops'])}"]
    return res
