"""C07 — Sequence-based constraints describe per-vehicle walks with absorbing depot."""
from fractions import Fraction
import itertools
import numpy as np

from .. import core
from .. import vrp_util as VU
from .. import form_util as FU
from .. import mirp_util as MU
from ..core import Result, fs, fl, F

ID = "C07"
RULE = ("seeded VRPTW instances (2..4 nodes, arc sets of varying density, costs of either sign) x V in 1..3 x L in 3..5 x strict/non-strict x "
        "optional vehicle surcharges (via the heuristic, 20 % of the planted cases); all 2^n vectors for n <= 13 (both tiers; instances with n > 16 are skipped) against an independent enumeration of all walk "
        "assignments (absorbing depot, every customer once); objective and decoding compared on every feasible vector; strict mode: every walk "
        "simulated against the time windows; non-trivial = at least one feasible walk assignment and one infeasible vector; distinct = distinct case")
ASSUMPTIONS = [
    "L >= 3 and at least one node; the depot self-arc (0,0) exists (set_depot adds it; the constructor calls set_depot whenever the source graph has a node)",
    "strict-timing statement: reference clock starts at 0 and the depot window starts at or after 0",
]
PARTIAL = []
BUDGET_S = {"quick": 100, "thorough": 1200}


def gen(rng, tier):
    n_cases = 200 if tier == "quick" else 3000
    for k in range(n_cases):
        if k % 8 == 5:
            # systematic: strict mode with a depot window that closes exactly when the latest customer window closes, so that every
            # return arc with positive travel time out of that customer is subject to (and fails) the strict rule
            spec, info = VU.gen_planted(rng, extra_arc_p=rng.choice([0.3, 0.6]), wide=True)
            his = [Fraction(nd["hi"]) for nd in spec["nodes"][1:] if nd["hi"] != "inf"]
            spec["nodes"][0]["hi"] = fs(max(his + [Fraction(2)]) + Fraction(rng.choice([0, 0, 1])))
            yield dict(form="seq", spec=spec, strict=True, seed=rng.randrange(10 ** 6), V=info["V"], L=max(3, info["Lmin"]))
            continue
        if k % 4 != 3:
            spec, info = VU.gen_planted(rng, extra_arc_p=rng.choice([0.1, 0.3, 0.6]), wide=True)
            case = dict(form="seq", spec=spec, strict=rng.random() < 0.4, seed=rng.randrange(10 ** 6),
                        V=info["V"] + rng.choice([0, 0, 1]), L=max(3, info["Lmin"] + rng.choice([0, 0, 1])))
            if rng.random() < 0.2:
                case["heur"] = rng.choice(["10", "1", "40"])
                case["V"] = max(1, case["V"] - 1)
            if case["strict"] and rng.random() < 0.5:
                # a depot with a finite window end: return arcs are then subject to the strict rule as well
                his = [Fraction(nd["hi"]) for nd in spec["nodes"][1:] if nd["hi"] != "inf"]
                spec["nodes"][0]["hi"] = fs(max(his + [Fraction(2)]) + Fraction(rng.randint(-2, 3)))
        else:
            case = FU.gen_form_case(rng, tier, forms=("seq",), heur_p=0.25, nmax=4)
            case["V"] = rng.choice([1, 1, 2, 2, 3])
            case["L"] = rng.choice([3, 4, 4, 5])
        yield case


def shrink(case):
    yield from FU.shrink_form_case(case)


def walks(N, V, L, has):
    """all assignments of V walks of L positions: start/end depot, arcs, absorbing depot, every customer exactly once"""
    out = []

    def one(v_done, used, acc):
        if len(out) > 5000:
            return
        if v_done == V:
            if len(used) == N - 1:
                out.append([list(w) for w in acc])
            return

        def ext(w, used_now):
            if len(w) == L - 1:
                if (w[-1], 0) in has:
                    yield w + [0], used_now
                return
            for nxt in range(N):
                if (w[-1], nxt) not in has:
                    continue
                if len(w) >= 2 and w[-1] == 0 and nxt != 0:
                    continue       # absorbing depot (positions >= 1)
                if nxt != 0 and nxt in used_now:
                    continue
                yield from ext(w + [nxt], used_now | ({nxt} if nxt != 0 else set()))
        for w, u in ext([0], used):
            one(v_done + 1, u, acc + [w])
    one(0, frozenset(), [])
    return out


def run_case(case, drv):
    res = Result(key=core.case_key(case))
    o, outcome = FU.build_form(case)
    FU.check_fresh_twin(o, case["form"], res)
    FU.check_query_mutate_query(case, res)
    FU.check_construction(o, res)
    if outcome not in (None, "ok"):
        res.nontrivial = False
        res.features.append("heur:raised")
        return res
    V, L = int(o.max_vehicles), int(o.max_sequence_length)
    n = o.get_num_variables()
    g = VU.graph_of(o)
    N = len(g["nodes"])
    has = {(a[0], a[1]): a for a in g["arcs"]}
    # "staying at the depot counts as a move": the reference has the depot's stay move (time 0, cost 0) whether or not the object holds it
    has.setdefault((0, 0), (0, 0, g["nodes"][0][0], g["nodes"][0][0], Fraction(0), Fraction(0)))
    vc = [F(c) for c in o.vehicle_cost]
    res.features += [f"strict:{o.strict}", f"V:{V}", f"L:{L}", f"n:{n}", f"surcharge:{any(c != 0 for c in vc)}"]
    limit = 13
    if n == 0 or n > 16:
        res.nontrivial = False
        res.features.append("skipped:size")
        return res
    try:
        impl = VU.impl_data(o)
    except Exception as e:  # noqa
        res.fail("seq:data-raises", f"getters raised {e!r}")
        return res
    st, md = FU.model_data(drv, o, "seq")
    if st != "ok":
        res.disagree("seq data status", "ok", st)
    else:
        VU.compare_data(res, impl, VU.model_dense(md["mp"]), "seq")
    var = [(int(v), int(p), int(k)) for (v, p, k) in o.var_mapping]
    vidx = {u: i for i, u in enumerate(var)}
    B = VU.Brute(impl) if n <= limit else None
    ws = walks(N, V, L, has)
    res.features.append(f"walk_assignments:{min(len(ws), 50) // 10 * 10}+")
    enc = set()
    enc_complete = True
    inst = FU.inst_tokens(o, "seq")
    for w in ws:
        x = [0] * n
        ok = True
        for v in range(V):
            for p in range(L):
                u = (v, p, w[v][p])
                if u in vidx:
                    x[vidx[u]] = 1
                else:
                    # must be a variable fixed to 1
                    if o.fixed_values.get(u) != 1.0:
                        ok = False
        if not ok:
            res.fail("seq:walk-not-representable", f"walk assignment {w} uses a (vehicle,position,node) that is fixed to 0")
            continue
        enc.add(tuple(x))
        if not VU.feasible(impl, x):
            res.fail("seq:walk-infeasible", f"walk assignment {w} violates the constraints")
            continue
        cost = sum(has[(w[v][p], w[v][p + 1])][5] + vc[v] for v in range(V) for p in range(L - 1))
        if VU.objective(impl, x) != cost:
            res.fail("seq:objective", f"objective {fs(VU.objective(impl, x))} != move costs + surcharges {fs(cost)} for walks {w}")
        try:
            dec = o.get_routes(np.array(x))
            dec = [[int(t) for t in r] for r in dec]
        except Exception as e:  # noqa
            dec = core.err_kind(e)
        if any(x) and dec != w:
            res.fail("seq:decode", f"get_routes gives {dec} for walks {w}")
        rep = drv.ask(f"seq.decode {inst} {fl(FU.vec_to_model(md.get('order') if st == 'ok' else None, x))}")
        head, groups = core.split_reply(rep)
        if head == "ok":
            tk = MU.Toks(groups[0])
            mdec = tk.lst(lambda: tk.lst(tk.nat))
            if isinstance(dec, list) and mdec != dec:
                res.disagree("decode", dec, mdec)
        elif isinstance(dec, list):
            res.disagree("decode status", "ok", head)
        if o.strict:
            for v in range(V):
                t = g["nodes"][0][2]          # the clock starts when the depot opens
                for p in range(L - 1):
                    a = has[(w[v][p], w[v][p + 1])]
                    nd = g["nodes"][w[v][p + 1]]
                    t = max(t + a[4], nd[2])
                    if nd[3] != core.INF and t > nd[3]:
                        res.fail("seq:strict-timing", f"strict walk {w[v]} arrives at {nd[0]} at {fs(t)} > {fs(nd[3])}")
                        break
        if len(enc) > 300:
            enc_complete = False
            break
    if B is not None:
        feas_idx = np.nonzero(B.feasible)[0]
        for i in feas_idx:
            x = tuple(int(t) for t in B.X[int(i)])
            if x not in enc and len(ws) <= 5000 and enc_complete:
                res.fail("seq:feasible-not-walk", f"x={list(x)} (tuples {[var[k] for k in range(n) if x[k]]}) satisfies the constraints but is no walk assignment")
                break
        res.nontrivial = len(feas_idx) >= 1 and len(feas_idx) < len(B.feasible)
        res.features.append("exhaustive:True")
    else:
        res.nontrivial = len(ws) >= 1
        res.features.append("exhaustive:False")
    return res


EXHAUSTIVE_SCOPE = FU.EXHAUSTIVE_FORMS_SCOPE


def gen_exhaustive():
    yield from FU.gen_exhaustive_forms(("seq",))
