"""C08 — The three formulations agree on the optimum of the same VRPTW."""
from fractions import Fraction
import itertools
import numpy as np

from .. import core
from .. import vrp_util as VU
from .. import form_util as FU
from ..core import Result, fs, fl, F
from .c06 import valid_route

ID = "C08"
RULE = ("seeded small VRPTWs with integer data (1..3 customers, planted feasible route partitions and random ones, costs of either sign, capacity "
        "not binding, depots that open at 0 or late), handed over as a finished VRPTW or (35%) assembled through the path-based object's own add_node/add_arc/set_depot with the depot named late and routes offered by name; from one graph: path-based with EVERY depot-to-depot sequence of distinct customers offered (the object decides which are valid), arc-based on the minimal complete grid (all service times attained along valid routes), sequence-based "
        "non-strict and strict with V = #customers and L = #customers + 2; constrained optima by exhaustive search over 2^n vectors (n <= 18) and "
        "minima of the default-penalty QUBOs, against an independent route-partition optimiser (subset DP over enumerated valid routes); "
        "non-trivial = reference problem feasible with >= 2 customers; distinct = distinct instance")
ASSUMPTIONS = [
    "capacity not binding (capacity and initial load large, demands 0)",
    "the route clock starts when the depot's window opens (every formulation and the reference; the path-based formulation started at 0 until fix bf32002); 30% of the instances have a depot that opens late",
    "no depot self-arc; customer-to-customer times >= 1 in generated instances: a zero-time cycle between customers is admitted by the arc-based model as a subtour (listed known finding, witness known/c08_zero_time_cycle.json)",
    "complete grid = the set of service times attained along valid routes (the minimal complete grid of C08b.CompleteGrid) plus up to two unused points",
    "sequence-based comparison uses instances with <= 2 customers so that 2^n enumeration stays exact (n <= 18)",
]
PARTIAL = []
BUDGET_S = {"quick": 200, "thorough": 1800}


def gen(rng, tier):
    n_cases = 60 if tier == "quick" else 700
    for k in range(n_cases):
        if k % 16 == 2:
            # systematic: time stamps (2^30 + small offsets) and a cheap route D-b-a-D whose every arc passes the arc timing filter but
            # which reaches a one unit after a's window closed (b is reached late because of the way from the depot)
            T0 = Fraction(2 ** 30)
            late = Fraction(rng.choice([1, 2, 3]))
            nodes = [dict(name="D", demand="0", lo=fs(T0), hi="inf"), dict(name="a", demand="0", lo=fs(T0), hi=fs(T0 + 3)),
                     dict(name="b", demand="0", lo=fs(T0 + 1), hi=fs(T0 + 4))]
            arcs = [["D", "b", "3", "1"], ["b", "a", fs(late), "1"], ["a", "D", "1", "1"], ["D", "a", "1", fs(Fraction(rng.randint(4, 6)))],
                    ["b", "D", "1", fs(Fraction(rng.randint(4, 6)))]]
            yield dict(spec=dict(nodes=nodes, arcs=arcs, cap="100", init="50"))
            continue
        if k % 8 == 5:
            # systematic: objects assembled through their own API, depot named last, with an arc a -> b (a = the first node added) that the
            # base timing rule admits and the strict rule refuses, on a cheap route that is too late in the reference (arrival at a is
            # late because of the way from the depot): a strict object that kept that arc would beat the reference optimum
            t = rng.choice([Fraction(1), Fraction(3, 2), Fraction(2)])
            lo_a = Fraction(rng.randint(3, 6))
            hi_b = lo_a + t + Fraction(1, 2)
            nodes = [dict(name="D", demand="0", lo="0", hi="inf"), dict(name="a", demand="0", lo=fs(lo_a), hi=fs(lo_a + 1)),
                     dict(name="b", demand="0", lo="0", hi=fs(hi_b))]
            arcs = [["a", "b", fs(t), "1"], ["D", "a", fs(lo_a + Fraction(3, 4)), "1"], ["b", "D", "1", "1"], ["D", "b", "1", fs(Fraction(rng.randint(3, 6)))],
                    ["a", "D", "1", fs(Fraction(rng.randint(3, 6)))]]
            yield dict(spec=dict(nodes=nodes, arcs=arcs, cap="100", init="50"), via="wrapper", arcs_before_depot=rng.choice([1, len(arcs)]))
            continue
        ncust = rng.choice([1, 2, 2, 2, 3])
        if rng.random() < 0.7:
            spec, info = VU.gen_planted(rng, ncust=ncust, extra_arc_p=rng.choice([0.2, 0.5, 0.9]), wide=True)
        else:
            spec = VU.gen_vrptw(rng, nmax=ncust + 1, dense=rng.choice([0.6, 1.0]))
            for a in spec["arcs"]:
                a[2] = fs(Fraction(int(Fraction(a[2]) + 1)) if a[0] != "D" and a[1] != "D" else Fraction(int(Fraction(a[2]))))
            for nd in spec["nodes"][1:]:
                nd["lo"] = fs(Fraction(int(Fraction(nd["lo"]))))
                if nd["hi"] != "inf":
                    nd["hi"] = fs(Fraction(int(Fraction(nd["hi"])) + 1))
        spec["arcs"] = [a for a in spec["arcs"] if not (a[0] == "D" and a[1] == "D")]
        for nd in spec["nodes"]:
            nd["demand"] = "0"
        spec["cap"], spec["init"] = "100", "50"
        if rng.random() < 0.35:
            # costs of both signs and of some size: a penalty bound computed from a sum in which they cancel is too small
            for a in spec["arcs"]:
                a[3] = fs(Fraction(a[3]) * rng.choice([-3, -2, 2, 3]))
        if k % 5 == 3 and len(spec["nodes"]) >= 3:
            # systematic: route costs that cancel in their sum (arcs into every second customer cost -m, into the others +m, into the
            # depot 0), so that |sum of route costs| is tiny while single routes are strongly negative
            m = rng.choice([2, 3, 4])
            cust = [nd["name"] for nd in spec["nodes"][1:]]
            for a in spec["arcs"]:
                a[3] = "0" if a[1] not in cust else fs(Fraction(m if cust.index(a[1]) % 2 else -m))
        if rng.random() < 0.3:
            # a depot that opens late: every formulation must start the clock there
            for nd in spec["nodes"][1:]:
                if nd["hi"] == "inf" and rng.random() < 0.7:
                    nd["hi"] = fs(Fraction(nd["lo"]) + rng.randint(1, 3))
            his = [Fraction(nd["hi"]) for nd in spec["nodes"][1:] if nd["hi"] != "inf"]
            spec["nodes"][0]["lo"] = fs(rng.choice(his) - rng.choice([0, 0, 1])) if his and rng.random() < 0.8 else rng.choice(["1", "2"])
            if Fraction(spec["nodes"][0]["lo"]) < 0:
                spec["nodes"][0]["lo"] = "0"
        if k % 16 == 10:
            # the whole time axis far from zero (2^30: time stamps rather than offsets; still exact in doubles): a window test with a
            # RELATIVE tolerance would accept late arrivals there
            for nd in spec["nodes"][1:]:
                # (binding windows: each customer's window is narrowed so that lateness decides which routes are valid)
                nd["hi"] = fs(Fraction(nd["lo"]) + Fraction(rng.randint(0, 4), 2))
            for nd in spec["nodes"]:
                nd["lo"] = fs(Fraction(nd["lo"]) + 2 ** 30)
                if nd["hi"] != "inf":
                    nd["hi"] = fs(Fraction(nd["hi"]) + 2 ** 30)
        # construction route: a finished VRPTW handed to the formulations, or the graph assembled through the path-based object's own
        # add_node / add_arc / set_depot with the depot named late and routes offered by name (the result must not depend on it)
        if rng.random() < 0.35:
            yield dict(spec=spec, via="wrapper", arcs_before_depot=rng.randint(0, len(spec["arcs"])))
        else:
            yield dict(spec=spec)


def shrink(case):
    spec = case["spec"]
    for i in range(len(spec["arcs"])):
        yield dict(case, spec=dict(spec, arcs=spec["arcs"][:i] + spec["arcs"][i + 1:]))


def constrained_opt(o, nmax=18):
    """(status, optimum, qubo minimum) of a real formulation object by exhaustive search"""
    n = o.get_num_variables()
    if n == 0:
        # no variable: feasible iff there is no constraint to satisfy
        impl = None
        try:
            A, b, R, r = o.get_constraint_data()
            return ("feasible", Fraction(0), Fraction(0)) if len(b) == 0 else ("infeasible", None, None)
        except Exception:  # noqa
            return ("infeasible", None, None)
    if n > nmax:
        return ("too-large", None, None)
    impl = VU.impl_data(o)
    B = VU.Brute(impl)
    if not B.feasible.any():
        return ("infeasible", None, None)
    big = np.iinfo(np.int64).max
    omin = int(np.where(B.feasible, B.obj, big).min())
    Q, k, _ = VU.qubo_dense(o, False, None)
    vals, d = B.qubo(Q, k)
    return ("feasible", Fraction(omin, B.dO), Fraction(int(vals.min()), d))


def run_case(case, drv):
    from vrpqubo.routing_problem import ArcBasedRoutingProblem, PathBasedRoutingProblem, SequenceBasedRoutingProblem
    res = Result(key=core.case_key(case))
    spec = case["spec"]
    v = VU.build_vrptw(spec)
    g = VU.graph_of(v)
    N = len(g["nodes"])
    ncust = N - 1
    # ---------------- reference: all valid routes, best partition
    routes = []
    candidates = []       # every depot-to-depot sequence of distinct customers is OFFERED to the path-based object; it decides itself
    for k in range(1, ncust + 1):
        for perm in itertools.permutations(range(1, N), k):
            r = [0] + list(perm) + [0]
            candidates.append(r)
            ok, cost = valid_route(g, r)
            if ok:
                routes.append((frozenset(perm), cost, r))
    best = {frozenset(): Fraction(0)}
    custs = frozenset(range(1, N))
    for size in range(1, ncust + 1):
        for sub in itertools.combinations(range(1, N), size):
            S = frozenset(sub)
            cands = [best[S - rs] + c for rs, c, _ in routes if rs <= S and min(rs) == min(S) and (S - rs) in best]
            if cands:
                best[S] = min(cands)
    ref = best.get(custs)
    res.features += [f"customers:{ncust}", f"reference:{'feasible' if ref is not None else 'infeasible'}", f"routes:{min(len(routes), 15)}"]
    # ---------------- path with all valid routes
    if case.get("via") == "wrapper":
        res.features.append("via:wrapper-late-depot")
        pb = PathBasedRoutingProblem()
        pb.set_vehicle_cap(VU.val(spec["cap"]))
        pb.set_initial_loading(VU.val(spec["init"]))
        for nd in spec["nodes"][1:] + spec["nodes"][:1]:
            pb.add_node(nd["name"], VU.val(nd["demand"]), (VU.val(nd["lo"]), VU.val(nd["hi"])))
        kb = case.get("arcs_before_depot", 0)
        for a in spec["arcs"][:kb]:
            pb.add_arc(a[0], a[1], VU.val(a[2]), VU.val(a[3]))
        pb.set_depot(spec["nodes"][0]["name"])
        for a in spec["arcs"][kb:]:
            pb.add_arc(a[0], a[1], VU.val(a[2]), VU.val(a[3]))
        names = [nd[0] for nd in g["nodes"]]
        for r in candidates:
            pb.add_route([names[i] for i in r])
        v = pb.vrptw     # the other formulations are built from the graph assembled this way
    else:
        pb = PathBasedRoutingProblem(v)
        for r in candidates:
            pb.add_route(list(r))
    sp = constrained_opt(pb)
    # ---------------- arc on a complete grid: every service time attained along some valid route (the minimal complete grid), plus a few
    # extra points that no valid route uses (they must not matter)
    arcd = {(a[0], a[1]): a for a in g["arcs"]}
    times = {g["nodes"][0][2]}
    for _, _, r in routes:
        t = g["nodes"][0][2]
        for a_, b_ in zip(r, r[1:]):
            t = max(t + arcd[(a_, b_)][4], g["nodes"][b_][2])
            times.add(t)
    extra = sorted({t + Fraction(1, 2) for t in list(times)[:2]} | {Fraction(0)})
    grid = sorted(times | set(extra[:2]))
    top = 0
    ab = ArcBasedRoutingProblem(v)
    ab.add_time_points([float(t) for t in grid])
    sa = constrained_opt(ab)
    res.features.append(f"grid:{min(len(grid), 8)}")
    res.features.append(f"arc:{sa[0]}")
    for name, s in (("path", sp), ("arc", sa)):
        if s[0] == "too-large":
            continue
        if (s[0] == "feasible") != (ref is not None):
            res.fail(f"{name}:feasibility", f"{name}-based model is {s[0]} but the reference VRPTW is {'feasible' if ref is not None else 'infeasible'}")
        elif ref is not None:
            if s[1] != ref:
                res.fail(f"{name}:optimum", f"{name}-based optimum {fs(s[1])} != reference route-partition optimum {fs(ref)}")
            if s[2] != s[1]:
                res.fail(f"{name}:qubo-min", f"{name}-based default-penalty QUBO minimum {fs(s[2])} != constrained optimum {fs(s[1])}")
    # ---------------- sequence-based (<= 2 customers)
    if ncust <= 2:
        out = {}
        for strict in (False, True):
            if case.get("via") == "wrapper":
                # the sequence-based objects are assembled through their OWN add_node / add_arc / set_depot as well (same call order:
                # customers first, some arcs, then the depot is named, then the remaining arcs).  In strict mode an arc out of the
                # future depot offered before set_depot may be refused (fewer arcs: the strict optimum can only grow)
                sb = SequenceBasedRoutingProblem(strict=strict)
                sb.set_vehicle_cap(VU.val(spec["cap"]))
                sb.set_initial_loading(VU.val(spec["init"]))
                for nd in spec["nodes"][1:] + spec["nodes"][:1]:
                    sb.add_node(nd["name"], VU.val(nd["demand"]), (VU.val(nd["lo"]), VU.val(nd["hi"])))
                kb = case.get("arcs_before_depot", 0)
                for a in spec["arcs"][:kb]:
                    sb.add_arc(a[0], a[1], VU.val(a[2]), VU.val(a[3]))
                sb.set_depot(spec["nodes"][0]["name"])
                for a in spec["arcs"][kb:]:
                    sb.add_arc(a[0], a[1], VU.val(a[2]), VU.val(a[3]))
            else:
                sb = SequenceBasedRoutingProblem(v, strict=strict)
            sb.set_max_vehicles(ncust)
            sb.set_max_sequence_length(ncust + 2)
            out[strict] = constrained_opt(sb)
            if out[strict][0] == "feasible" and out[strict][2] != out[strict][1]:
                res.fail("seq:qubo-min", f"sequence-based (strict={strict}) QUBO minimum {fs(out[strict][2])} != constrained optimum {fs(out[strict][1])}")
        ns, st = out[False], out[True]
        res.features += [f"seqN:{ns[0]}", f"seqS:{st[0]}"]
        if ref is not None and ns[0] != "too-large":
            if ns[0] != "feasible":
                res.fail("seqN:feasibility", "reference feasible but the non-strict sequence-based model (V = #customers, L = #customers+2) is infeasible")
            elif ns[1] > ref:
                res.fail("seqN:optimum", f"non-strict sequence-based optimum {fs(ns[1])} exceeds the reference optimum {fs(ref)}")
        if st[0] == "feasible":
            if ref is None:
                res.fail("seqS:feasibility", "strict sequence-based model feasible but the reference VRPTW is infeasible")
            elif st[1] < ref:
                res.fail("seqS:optimum", f"strict sequence-based optimum {fs(st[1])} is below the reference optimum {fs(ref)}")
            if ns[0] == "infeasible" or sp[0] == "infeasible":
                res.fail("seqS:implies-others", "strict sequence-based model feasible but another formulation is infeasible")
    res.nontrivial = ref is not None and ncust >= 2
    return res
