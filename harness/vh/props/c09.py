"""C09 — Feasibility heuristic returns a genuinely feasible solution or fails loudly."""
from fractions import Fraction
import numpy as np

from .. import core
from .. import vrp_util as VU
from .. import form_util as FU
from .. import mirp_util as MU
from ..core import Result, fs, fl, F

ID = "C09"
RULE = ("seeded and planted VRPTW instances x formulation (arc grids incl. windows without a grid point; path pools incl. empty ones; sequence with "
        "V in 0..3, L in 3..5, strict / non-strict) x high cost in {0,1,10,40,1000} x one or two invocations; the G1 example at real horizons "
        "(12, 15.5, 20, 25, 31, ...) and seeded random MIRPs through the MIRP getters; after every normal return: 0/1, length, every linear and "
        "quadratic constraint of the data the object then reports, feasibility QUBO value 0, optimisation QUBO value = objective; path- and "
        "sequence-based must not raise under their preconditions; non-trivial = heuristic returned normally on an instance with >= 2 variables; "
        "distinct = distinct case")
ASSUMPTIONS = [
    "path-based 'always succeeds' precondition (PathPre): 0 <= initial load <= capacity, |customer demand| <= capacity, depot demand 0 and window end inf, customer window ends >= depot window start",
    "sequence-based 'always succeeds' precondition: L >= 3, depot set with window end inf, every customer window end >= depot window start",
    "the path-based route sampler's choices only influence which valid routes enter the pool, never admissibility (modelled by an arbitrary choice oracle)",
    "real-valued MIRP instances: only the oracle on the real code (exact evaluation of the object's own float data converted with Fraction)",
]
PARTIAL = []
TRUSTED = ["C09 path-based soundness assumes the route sampler returns one of the candidates it is offered (numpy.random.choice over the dict keys); without it the model is refuted in Lean (path_makeFeasible_unsound_without_hpick)"]
BUDGET_S = {"quick": 150, "thorough": 1500}
G1_H = [12, 15.5, 20, 25, 31]


def gen(rng, tier):
    n_cases = 220 if tier == "quick" else 3000
    for k in range(n_cases):
        if k % 20 == 19:
            hor = rng.choice(G1_H + ([40, 60, 17.25] if tier == "thorough" else []))
            yield dict(mode="g1", form=rng.choice(["arc", "path", "seq", "seqN"]), horizon=hor)
            continue
        if k % 20 == 17:
            from .c16 import small_mirp
            yield dict(mode="getters", spec=small_mirp(rng), strict=rng.random() < 0.5, choices=[rng.randrange(6) for _ in range(12)])
            continue
        if k % 20 == 18:
            yield dict(mode="random", form=rng.choice(["arc", "path", "seq", "seqN"]), seed=rng.randrange(10 ** 4),
                       ns=rng.randint(1, 2), nd=rng.randint(1, 2), horizon=rng.choice([25, 40]))
            continue
        if k % 3 == 0:
            spec, info = VU.gen_planted(rng, ncust=rng.randint(1, 4), extra_arc_p=rng.choice([0.0, 0.2, 0.5]), wide=True)
            form = rng.choice(["arc", "path", "seq"])
            case = dict(form=form, spec=spec, seed=rng.randrange(10 ** 6))
            if form == "arc":
                case["grid"] = info["grid"] if rng.random() < 0.7 else VU.gen_grid(rng, spec, tier)
            elif form == "path":
                case["routes"] = [r for r in info["routes"] if rng.random() < 0.6] + FU.gen_routes(rng, spec, rng.randint(0, 3))
            else:
                case.update(strict=rng.random() < 0.4, V=rng.choice([0, 1, info["V"], info["V"] + 1]), L=max(3, info["Lmin"] + rng.choice([-1, 0, 1])))
        else:
            case = FU.gen_form_case(rng, tier, heur_p=1.0, nmax=5)
        case["mode"] = "vrptw"
        if case["form"] == "seq" and rng.random() < 0.3:
            # a depot with a finite window end (strict mode may then refuse return arcs): outside the 'always succeeds'
            # precondition, but the heuristic must still either store a genuine solution or raise
            his = [Fraction(nd["hi"]) for nd in case["spec"]["nodes"][1:] if nd["hi"] != "inf"]
            case["spec"]["nodes"][0]["hi"] = fs(max(Fraction(0), max(his + [Fraction(1)]) + Fraction(rng.randint(-3, 2))))
            case["strict"] = True
        case["heur"] = rng.choice(["0", "1", "10", "40", "1000", "5/4"])
        case["twice"] = rng.random() < 0.3
        if rng.random() < 0.35:
            case["pre"] = rng.sample(["n", "obj", "con", "qubo_o", "qubo_f"], rng.randint(1, 3))
        if case["form"] in ("path", "seq") and k % 7 == 3:
            # the whole time axis shifted (also below zero): nothing in the property depends on where time zero is
            sh = Fraction(rng.choice([-12, -7, -3, 5]))
            for nd in case["spec"]["nodes"]:
                nd["lo"] = fs(Fraction(nd["lo"]) + sh)
                if nd["hi"] != "inf":
                    nd["hi"] = fs(Fraction(nd["hi"]) + sh)
            if case["form"] == "path":
                case["routes"] = []
            case["shifted"] = fs(sh)
        if case["form"] == "path":
            # make the documented preconditions of 'always succeeds' hold: demands within capacity
            cap = Fraction(case["spec"]["cap"])
            for nd in case["spec"]["nodes"][1:]:
                d = Fraction(nd["demand"])
                if abs(d) > cap:
                    nd["demand"] = fs(cap if d > 0 else -cap)
            if k % 5 == 1:
                # vehicles leave the depot PARTLY loaded and the pool is empty: every customer is served through a dummy node that
                # has to top the vehicle up / unload it by exactly the shortfall / the excess (demands stay within the capacity)
                cap = Fraction(rng.choice([4, 6, 8]))
                init = Fraction(rng.randint(1, int(cap) - 1))
                case["spec"]["cap"], case["spec"]["init"] = fs(cap), fs(init)
                for nd in case["spec"]["nodes"][1:]:
                    if rng.random() < 0.5:
                        nd["demand"] = fs(-Fraction(rng.randint(int(init) + 1, int(cap))))       # more than is on board
                    else:
                        nd["demand"] = fs(Fraction(rng.randint(int(cap - init) + 1, int(cap))))    # more than still fits
                case["routes"] = []
                case["partly_loaded"] = True
        yield case


def shrink(case):
    if case.get("mode") != "vrptw":
        return
    yield from FU.shrink_form_case(case)
    if case.get("twice"):
        yield dict(case, twice=False)


def check_solution(res, o, form, label, exact=True):
    """the property stated on the real object after a normal return of make_feasible"""
    sol = o.feasible_solution
    try:
        n = o.get_num_variables()
        impl = VU.impl_data(o)
    except Exception as e:  # noqa
        res.fail(f"{form}:data-raises-after-heuristic", f"getters raised {e!r} {label}")
        return None
    if sol is None:
        res.fail(f"{form}:no-solution", f"heuristic returned normally without storing a solution {label}")
        return None
    x = [F(v) for v in np.asarray(sol).ravel()]
    if len(x) != n:
        res.fail(f"{form}:length", f"stored solution has length {len(x)} but there are {n} variables {label}")
        return None
    if any(v not in (0, 1) for v in x):
        res.fail(f"{form}:not-binary", f"stored solution is not 0/1 {label}")
        return None
    xi = [int(v) for v in x]
    if not VU.feasible(impl, xi):
        nviol = sum(1 for row, rhs in zip(impl["A"], impl["b"]) if sum(row[j] * xi[j] for j in range(n)) != rhs)
        quad = sum(impl["R"][i][j] * xi[i] * xi[j] for i in range(n) for j in range(n) if impl["R"][i][j] != 0)
        res.fail(f"{form}:infeasible-solution", f"stored 'feasible' solution ({sum(xi)} ones of {n}) violates {nviol} linear constraint(s), "
                                                f"quadratic violation {fs(quad)} {label}")
        return None
    if n >= 1 and n <= 400:
        try:
            Qf, kf, _ = VU.qubo_dense(o, True, None)
            Qo, ko, _ = VU.qubo_dense(o, False, None)
        except Exception as e:  # noqa
            res.fail(f"{form}:qubo-raises", f"get_qubo raised {e!r} {label}")
            return n
        vf = VU.qubo_value(Qf, kf, xi)
        vo = VU.qubo_value(Qo, ko, xi)
        if not exact:
            # real-valued instance: Q and k were rounded by the code's float arithmetic; compare at relative 1e-9 of the
            # magnitudes that were added up (penalty constant and objective)
            tol = Fraction(1, 10 ** 9) * (abs(kf) + abs(ko) + abs(VU.objective(impl, xi)) + 1)
            if abs(vf) > tol:
                res.fail(f"{form}:feas-qubo-nonzero", f"feasibility QUBO value of the stored solution is {float(vf)} {label}")
            if abs(vo - VU.objective(impl, xi)) > tol:
                res.fail(f"{form}:opt-qubo-vs-objective", f"optimisation QUBO value {float(vo)} != objective {float(VU.objective(impl, xi))} {label}")
            return n
        if vf != 0:
            res.fail(f"{form}:feas-qubo-nonzero", f"feasibility QUBO value of the stored solution is {fs(vf)} {label}")
        if vo != VU.objective(impl, xi):
            res.fail(f"{form}:opt-qubo-vs-objective", f"optimisation QUBO value {fs(vo)} != objective {fs(VU.objective(impl, xi))} {label}")
    return n


def model_heuristic(drv, o, form, high, choices):
    """the Lean model's make_feasible on the real object's current instance state"""
    inst = FU.inst_tokens(o, form)
    if form == "path":
        rep = drv.ask(f"path.heur {inst} {fs(high)} {len(choices)} {' '.join(map(str, choices))}")
    else:
        rep = drv.ask(f"{form}.heur {inst} {fs(high)}")
    head, groups = core.split_reply(rep)
    if head != "ok":
        return head, None
    g = MU.parse_graph(MU.Toks(groups[0]))
    out = dict(g=g, sol=[Fraction(t) for t in groups[-1][1:]])
    if form == "seq":
        out["V"] = int(groups[1][0])
        out["vcost"] = [Fraction(t) for t in groups[1][3:]]
    if form == "path":
        tk = MU.Toks(groups[1])
        out["pool"] = tk.lst(lambda: tk.lst(tk.nat))
        out["costs"] = [Fraction(t) for t in groups[2][1:]]
    return "ok", out


def correspond_heuristic(res, drv, case, form, rnd_label):
    """run the real heuristic (path: with a scripted sampler) and the model from the same state; compare outcome and resulting state"""
    import random
    o, _ = FU.build_form(case, with_heur=False)
    high = Fraction(case["heur"])
    rnd = random.Random(case.get("seed", 0))
    choices = [rnd.randrange(6) for _ in range(12)]
    for invocation in range(2 if case.get("twice") else 1):
        st, m = model_heuristic(drv, o, form, high, choices)
        restore = None
        if form == "path":
            from vrpqubo.routing_problem.formulations import path_based_rp as pbm
            restore = pbm.get_sampled_key
            counter = [0]

            def scripted(key_val, explore):
                assert key_val, "Dictionary to sample is empty"
                keys = list(key_val.keys())
                k = keys[choices[counter[0] % len(choices)] % len(keys)]
                counter[0] += 1
                return k, min(key_val, key=key_val.get)
            pbm.get_sampled_key = scripted
        try:
            o.make_feasible(float(high))
            impl = "ok"
        except Exception as e:  # noqa
            impl = core.err_kind(e)
        finally:
            if restore is not None:
                pbm.get_sampled_key = restore
        if core.err_class(impl) != core.err_class(st):      # (which exception is raised is not part of the property)
            res.disagree(f"{form} make_feasible outcome (invocation {invocation + 1})", impl, st)
            return
        if impl != "ok":
            return
        g = VU.graph_of(o)
        if VU.canon_graph(g) != VU.canon_graph(m["g"]):
            a, b = g["arcs"], m["g"]["arcs"]
            res.disagree(f"{form} graph after the heuristic", ([x for x in a if x not in b][:3], [n for n in g["nodes"] if n not in m["g"]["nodes"]][:2]),
                         ([x for x in b if x not in a][:3], [n for n in m["g"]["nodes"] if n not in g["nodes"]][:2]))
            return
        sol = [F(v) for v in np.asarray(o.feasible_solution).ravel()]
        msol = FU.vec_to_impl(FU.var_order(drv, o, form), m["sol"])       # (in the implementation's variable numbering)
        if sol != msol:
            res.disagree(f"{form} stored solution", sol, msol)
        if form == "seq" and (int(o.max_vehicles), [F(c) for c in o.vehicle_cost]) != (m["V"], m["vcost"]):
            res.disagree("seq vehicles after the heuristic", (int(o.max_vehicles), [F(c) for c in o.vehicle_cost]), (m["V"], m["vcost"]))
        if form == "path" and ([[int(i) for i in r] for r in o.routes], [F(c) for c in o.route_costs]) != (m["pool"], m["costs"]):
            res.disagree("path pool after the heuristic", [[int(i) for i in r] for r in o.routes], m["pool"])


def getters_case(res, drv, case):
    """the MIRP wrappers (time grid, high cost, vehicle count, sequence length, route pool) against their Lean models"""
    spec = case["spec"]
    m, results = MU.build_py(spec)
    if any(r[0] != "ok" for r in results):
        res.nontrivial = False
        return
    req = MU.request(spec)
    toks = req.split()
    rep = drv.ask("mirp.getters " + " ".join(toks[1:]) + f" {1 if case['strict'] else 0} {len(case['choices'])} {' '.join(map(str, case['choices']))}")
    head, groups = core.split_reply(rep)
    if head != "ok":
        res.disagree("mirp.getters status", "ok", rep[:80])
        return
    # --- arc-based: time grid
    ab = m.get_arc_based(make_feasible=False)
    grid = [F(t) for t in ab.time_points]
    mgrid = [Fraction(t) for t in groups[0][1:]]
    if grid != mgrid:
        res.disagree("get_arc_based time grid", grid, mgrid)
    # --- high cost
    try:
        hc = F(m.estimate_high_cost())
        mhc = None if groups[1][0] == "none" else Fraction(groups[1][0])
        if mhc is None or abs(hc - mhc) > Fraction(1, 10 ** 9) * max(1, abs(mhc)):
            res.disagree("estimate_high_cost", hc, mhc)
    except ValueError:
        if groups[1][0] != "none":
            res.disagree("estimate_high_cost", "raises", groups[1][0])
    # --- sequence-based: V, L, graph
    try:
        sb = m.get_sequence_based(make_feasible=False, strict=case["strict"])
        iseq = (int(sb.max_vehicles), int(sb.max_sequence_length), VU.graph_of(sb))
    except ValueError:
        iseq = None
    if groups[2][0] == "none":
        if iseq is not None:
            res.disagree("get_sequence_based", iseq[:2], "none")
    else:
        tk = MU.Toks(groups[2])
        mv, ml = tk.nat(), tk.nat()
        mg = MU.parse_graph(tk)
        if iseq is None or (iseq[0], iseq[1]) != (mv, ml) or VU.canon_graph(iseq[2]) != VU.canon_graph(mg):
            res.disagree("get_sequence_based (V, L, graph)", None if iseq is None else iseq[:2], (mv, ml))
    # --- path-based: pool under a scripted sampler
    from vrpqubo.routing_problem.formulations import path_based_rp as pbm
    restore = pbm.get_sampled_key
    counter = [0]
    choices = case["choices"]

    def scripted(key_val, explore):
        assert key_val, "Dictionary to sample is empty"
        keys = list(key_val.keys())
        k = keys[choices[counter[0] % len(choices)] % len(keys)]
        counter[0] += 1
        return k, min(key_val, key=key_val.get)
    pbm.get_sampled_key = scripted
    try:
        pb = m.get_path_based(make_feasible=False)
    except ValueError:
        pb = None       # estimate_high_cost() raises on a graph without arcs / ports: a loud failure
    finally:
        pbm.get_sampled_key = restore
    if pb is None or groups[3][0] == "none":
        if (pb is None) != (groups[3][0] == "none"):
            res.disagree("get_path_based raises", pb is None, groups[3][0])
        res.features.append("path-getter:raises")
        return
    tk = MU.Toks(groups[3])
    mpool = tk.lst(lambda: tk.lst(tk.nat))
    mcosts = [Fraction(t) for t in groups[4][1:]]
    if [[int(i) for i in r] for r in pb.routes] != mpool or [F(c) for c in pb.route_costs] != mcosts:
        res.disagree("get_path_based pool (scripted sampler)", [[int(i) for i in r] for r in pb.routes][:6], mpool[:6])
    res.nontrivial = len(pb.routes) >= 1
    res.features.append(f"pool:{min(len(pb.routes), 6)}")


def preconditions(case, o, form):
    """documented preconditions under which path / sequence heuristics must succeed"""
    g = VU.graph_of(o)
    dep = g["nodes"][0]
    if form == "path":
        cap, init = g["cap"], g["init"]
        # (since fix D29 the dummy node opens when the depot opens: no condition on where time zero lies)
        return (cap is not None and init is not None and 0 <= init <= cap and dep[1] == 0 and dep[3] == core.INF
                and all(abs(n[1]) <= cap and (n[3] == core.INF or n[3] >= dep[2]) for n in g["nodes"][1:]))
    if form == "seq":
        return (int(o.max_sequence_length) >= 3 and dep[3] == core.INF
                and all(n[3] == core.INF or n[3] >= dep[2] for n in g["nodes"][1:]))
    return False


def text_scope(o, form):
    """the conditions the property text itself attaches to 'always succeeds'"""
    g = VU.graph_of(o)
    if form == "path":
        cap, init = g["cap"], g["init"]
        return cap is not None and init is not None and 0 <= init <= cap and all(abs(n[1]) <= cap for n in g["nodes"][1:])
    return int(o.max_sequence_length) >= 3


def run_case(case, drv):
    res = Result(key=core.case_key(case))
    mode = case.get("mode", "vrptw")
    res.features.append(f"mode:{mode}")
    if mode == "getters":
        getters_case(res, drv, case)
        return res
    if mode in ("g1", "random"):
        form = case["form"]
        res.features.append(f"form:{form}")
        np.random.seed(12345)
        try:
            if mode == "g1":
                from vrpqubo.examples.mirp_g1 import get_mirp
                m = get_mirp(case["horizon"])
            else:
                from vrpqubo.examples.mirp_random import get_generator
                gen_ = get_generator(case["ns"], case["nd"], case["horizon"])
                gen_.seed = case["seed"]
                m = gen_.get_random_mirp(reset_seed=True)
        except Exception as e:  # noqa
            res.features.append("instance-construction-raised")
            res.nontrivial = False
            return res
        label = f"({mode} {case.get('horizon')} seed {case.get('seed')})"
        try:
            if form == "arc":
                o = m.get_arc_based()
            elif form == "path":
                o = m.get_path_based()
            else:
                o = m.get_sequence_based(strict=(form == "seq"))
            outcome = "ok"
        except Exception as e:  # noqa
            outcome = core.err_kind(e)
            res.features.append(f"raised:{outcome}")
            # failing loudly is allowed for arc-based; path/sequence must succeed on MIRP graphs (depot [0,inf), demands = capacity)
            if form == "path" or (form in ("seq", "seqN") and "min() arg" not in repr(e) and "min() iterable" not in repr(e)):
                res.fail(f"{form[:3]}:raises", f"make_feasible raised {e!r} {label}")
            res.nontrivial = False
            return res
        n = check_solution(res, o, form[:3], label, exact=False)
        res.nontrivial = bool(n and n >= 2)
        return res

    form = case["form"]
    o, _ = FU.build_form(case, with_heur=False)
    for q in case.get("pre", []):
        try:
            {"n": o.get_num_variables, "obj": o.get_objective_data, "con": o.get_constraint_data,
             "qubo_o": lambda: o.get_qubo(feasibility=False), "qubo_f": lambda: o.get_qubo(feasibility=True)}[q]()
        except Exception:  # noqa
            pass
    pre = preconditions(case, o, form)
    res.features += [f"form:{form}", f"pre:{pre}"]
    label = f"(high_cost {case['heur']})"
    rounds = 2 if case.get("twice") else 1
    n = None
    for rnd in range(rounds):
        np.random.seed(case.get("seed", 0) + rnd)
        try:
            o.make_feasible(VU.val(case["heur"]))
            outcome = "ok"
        except Exception as e:  # noqa
            outcome = core.err_kind(e)
            res.features.append(f"raised:{outcome}")
            if form in ("path", "seq") and pre:
                res.fail(f"{form}:raises", f"make_feasible (invocation {rnd + 1}) raised {e!r} although the preconditions hold {label}")
            elif form in ("path", "seq") and case.get("text_scope") and text_scope(o, form):
                # (witnesses of the known finding only: the property TEXT asks for no more than demands within capacity / L >= 3;
                # the theorems and the generated stream carry the depot-window hypotheses PathPre / SeqPre)
                res.fail(f"{form}:raises-in-text-scope", f"make_feasible raised {e!r}: the property's own conditions hold (demands within capacity / "
                                                         f"at least three positions); the depot's window lies outside the proved preconditions PathPre / SeqPre {label}")
            break
        n = check_solution(res, o, form, label + f" invocation {rnd + 1}")
        if n is None:
            break
    res.features.append(f"outcome:{outcome}")
    res.nontrivial = outcome == "ok" and bool(n and n >= 2)
    # correspondence: the operational Lean model of the heuristic against the real one, from the same instance state
    g0 = VU.graph_of(o)
    if g0["cap"] is not None and g0["init"] is not None:
        correspond_heuristic(res, drv, case, form, label)
    return res
