"""C10 — Exported problem files represent the in-memory problem."""
from fractions import Fraction
import os
import tempfile
import numpy as np

from .. import core
from .. import gen as G
from ..core import Result, fs, fl, fmat, F

ID = "C10"
RULE = ("seeded matrices n=1..6 (entries k/4 and k/100-style values with ties at the third decimal, negative values rounding to -0.00, last "
        "variable occurring only as a row / only as a column / not at all) x pattern x {Ising, QUBO} export: bytes of the file (minus the "
        "timestamp line) vs the model's rendering, loader result vs the model (record level and character level, the latter also on 10 edited variants of every file), every coefficient listed once at its own indices, loaded energy "
        "vs rounded in-memory energy on all spin vectors (n <= 7); plus the test-set generator on small horizons: file names vs variable counts, "
        "saved constraint data reloaded through the feasibility tester; non-trivial = n >= 2 with a non-zero off-diagonal coefficient; "
        "distinct = distinct (matrix, constant, pattern, mode)")
ASSUMPTIONS = [
    "values are exact dyadic rationals, so '.2f' rounds the exact value half-to-even (modelled by round2)",
    "the character-level layout is VrpModel/ExportText.renderLines (compared byte-for-byte with the real file); load_matrix is modelled line by line by ExportText.loadText (compared with the real loader on the written file and on edited files: size line right / wrong, 'p' line, blank line, tabs, missing / extra tokens, swapped records, second constant); Props/C10b proves loadText (renderLines f) = loadFile f",
    "number syntax: the loader model accepts exactly the spellings export writes (digits; [ws][-]digits.dd[ws]) — int()/float() of Python accept more, which is outside the property",
    "file I/O, np.savez/pickle, the test-set generator and the feasibility tester are exercised, not proved",
]
PARTIAL = ["file bytes on disk, np.savez round trip and the test-set generator are runtime behaviour: compared on every run (byte-for-byte / reloaded), not proved; the theorems are about the record and character level model"]
BUDGET_S = {"quick": 150, "thorough": 900}


def gen(rng, tier):
    n_cases = 220 if tier == "quick" else 3000
    for k in range(n_cases):
        if k % 40 == 39 and k < (240 if tier == "quick" else 400):
            # (G1 below horizon ~15 has no travel arc with positive time and get_sequence_based cannot size its sequences:
            #  such horizons are outside the generator's domain)
            # (horizons 23 and 24 give path- and arc-based instances with equal variable counts but different data)
            yield dict(mode="testset", horizons=([23, 24] if k == 39 else [15.5]) if tier == "quick" else [15.5, 20, 23, 24, 25],
                       **(dict(load_limit=400) if tier == "quick" else {}))
            continue
        m = G.gen_matrix(rng, nmax=6)
        rows = m["rows"]
        n = len(rows)
        style = rng.choice(["quarters", "hundredths", "thousandths", "lastcol", "lastrow", "feas-like"])
        if style == "hundredths":
            rows = [[Fraction(int(x * 4) * 2 + (1 if x else 0), 8) for x in row] for row in rows]      # eighths: ties at .xx5 exactly
        elif style == "thousandths":
            rows = [[x / 64 for x in row] for row in rows]                                               # tiny values: -0.00 cases
        elif style == "lastcol" and n >= 2:
            rows = [[(x if (j < n - 1 and i < n - 1) else Fraction(0)) for j, x in enumerate(row)] for i, row in enumerate(rows)]
            rows[0][n - 1] = Fraction(4)
        elif style == "lastrow" and n >= 2:
            rows = [[(x if (j < n - 1 and i < n - 1) else Fraction(0)) for j, x in enumerate(row)] for i, row in enumerate(rows)]
            rows[n - 1][0] = Fraction(-2)
        elif style == "feas-like":
            rows = [[Fraction(int(x)) for x in row] for row in rows]                                     # integer QUBO: Ising coefficients are multiples of 1/4
        yield dict(mode="matrix", n=n, M=[[fs(x) for x in row] for row in rows], const=fs(G.q(rng) if style != "thousandths" else G.q(rng) / 64),
                   pattern=rng.choice(["upper-triangular", "symmetric", "none"]), ising=rng.random() < 0.6, style=style,
                   ckind=rng.choice(["csr", "csr", "csr_zero", "csr_zero", "coo_dup", "ndarray"]))


def shrink(case):
    if case.get("mode") != "matrix":
        return
    n = case["n"]
    if n > 1:
        for d in range(n):
            M = [[x for j, x in enumerate(row) if j != d] for i, row in enumerate(case["M"]) if i != d]
            yield dict(case, n=n - 1, M=M)
    for i in range(n):
        for j in range(n):
            if case["M"][i][j] != "0":
                M = [list(r) for r in case["M"]]
                M[i][j] = "0"
                yield dict(case, M=M)


def hund(x):
    """a float read from a two-decimal text is the nearest double of k/100: recover k/100 exactly (else keep the exact binary value)"""
    k = round(float(x) * 100)
    if float(Fraction(k, 100)) == float(x):
        return Fraction(k, 100)
    return Fraction(float(x))


def round2(q):
    y = q * 100
    f = y.numerator // y.denominator
    r = y - f
    if r < Fraction(1, 2):
        return f
    if r > Fraction(1, 2):
        return f + 1
    return f if f % 2 == 0 else f + 1


def load_impl(text, ising, d):
    """the real loader on a file holding `text`: ('ok', dim, const100, {(i,j): hundredths}) or ('err', kind)"""
    from vrpqubo.tools import load_tools
    fn = os.path.join(d, "variant.txt")
    with open(fn, "w", encoding="utf-8") as f:
        f.write(text)
    try:
        Lm, Lc = (load_tools.load_ising_matrix if ising else load_tools.load_qubo_matrix)(fn)
    except Exception as e:  # noqa
        return ("err", core.err_kind(e))
    Lm = Lm.tocoo()
    ent = {}
    for i, j, v in zip(Lm.row, Lm.col, Lm.data):
        ent[(int(i), int(j))] = ent.get((int(i), int(j)), 0) + hund(float(v)) * 100
    return ("ok", int(Lm.shape[0]), hund(Lc) * 100, {k: v for k, v in ent.items() if v != 0}, tuple(Lm.shape))


def load_model(drv, text, ising):
    rep = drv.ask(f"loadtext {('#' if ising else 'c').encode().hex()} {text.encode().hex() or '0a'}")
    tk = rep.split()
    if tk[0] != "ok":
        return ("err", rep)
    dim, const, cnt = int(tk[1]), int(tk[2]), int(tk[3])
    ent = {}
    for q in range(cnt):
        i, j, h = int(tk[4 + 3 * q]), int(tk[5 + 3 * q]), int(tk[6 + 3 * q])
        ent[(i, j)] = ent.get((i, j), 0) + h
    return ("ok", dim, const, {k: v for k, v in ent.items() if v != 0})


def text_variants(text, rng_key):
    """the written file and edits of it that stay inside the loader's documented input language"""
    import random
    rng = random.Random(rng_key)
    lines = text.split("\n")
    if lines and lines[-1] == "":
        lines = lines[:-1]
    recs = [k for k, ln in enumerate(lines) if ln[:1].isdigit()]
    out = [("as-written", text)]
    out.append(("no-final-newline", "\n".join(lines)))
    out.append(("size-line-right", "\n".join(lines[:1] + [f"{7} {len(recs)}"] + lines[1:]) + "\n"))
    out.append(("size-line-wrong", "\n".join(lines[:1] + [f"{7} {len(recs) + 1}"] + lines[1:]) + "\n"))
    out.append(("p-line", "\n".join(lines[:1] + [f"p qubo 0 9 {len(recs) // 2} {len(recs) - len(recs) // 2}"] + lines[1:]) + "\n"))
    out.append(("blank-line", "\n".join(lines[:2] + [""] + lines[2:]) + "\n"))
    if recs:
        k = rng.choice(recs)
        t = lines[k].split()
        out.append(("tabs-and-spaces", "\n".join(lines[:k] + [f"  {t[0]}\t{t[1]}   {t[2]}  "] + lines[k + 1:]) + "\n"))
        out.append(("one-token-record", "\n".join(lines[:k] + [t[0]] + lines[k + 1:]) + "\n"))
        out.append(("extra-token", "\n".join(lines[:k] + [lines[k] + " 5"] + lines[k + 1:]) + "\n"))
        out.append(("records-swapped", "\n".join(lines[:k] + lines[k + 1:] + [lines[k]]) + "\n"))
    out.append(("second-constant", "\n".join(lines + [lines[1][:1] + " other = -3.25"]) + "\n"))
    return out


def run_testset(case, res):
    from vrpqubo import generate_test_set, test_feasibility
    from vrpqubo.examples.mirp_g1 import get_mirp
    from vrpqubo.tools.qubo_tools import x_to_s
    import contextlib
    import io
    with tempfile.TemporaryDirectory(prefix="vh_c10_") as d:
        with contextlib.redirect_stdout(io.StringIO()):
            try:
                generate_test_set.gen(d, case["horizons"])
            except Exception as e:  # noqa
                res.fail("testset:raises", f"gen({case['horizons']}) raised {e!r}")
                return
        files = sorted(os.listdir(d))
        claimed = set()
        from functools import partial
        from vrpqubo.tools.qubo_tools import QUBOContainer
        from vrpqubo.tools import load_tools
        for t_h in case["horizons"]:
            np.random.seed(99)
            mirp = get_mirp(t_h)
            getters = dict(ab=mirp.get_arc_based, pb=mirp.get_path_based, sb=partial(mirp.get_sequence_based, strict=False))
            for name, getter in getters.items():
                r_p = getter(make_feasible=True)
                n = r_p.get_num_variables()
                # the files of this instance: names carry the true variable count (two horizons may give the same count: any scheme
                # that keeps their files apart is fine, so every not yet claimed base name with that count is tried)
                stem = f"test_{name}_{n}_"
                bases = sorted({f[:-len(suf)] for suf in ("o.rudy", "f.rudy", ".npz") for f in files if f.startswith(stem) and f.endswith(suf)})
                bases = [b for b in bases if all(b + suf in files for suf in ("o.rudy", "f.rudy", ".npz"))]
                if not bases:
                    res.fail("testset:file-name", f"no complete file triple {stem}*(o.rudy|f.rudy|.npz) (true variable count {n}, horizon {t_h}) among {files[:12]}")
                    return
                spins = x_to_s(np.asarray(r_p.feasible_solution))
                sname = os.path.join(d, f"spins_{name}.txt")
                with open(sname, "w") as fh:
                    fh.write("\n".join(str(int(s)) for s in spins))
                A, b, Q, r = r_p.get_constraint_data()
                x = np.asarray(r_p.feasible_solution)
                want_l = (A.dot(x) != b)
                want_q = float(x.dot(Q.dot(x)) - r)
                Qf, cf = r_p.get_qubo(feasibility=True)
                C = QUBOContainer(Qf, cf)
                J = C.J.toarray()
                if not (np.all(np.round(J * 100) == J * 100) and np.all(np.round(C.h * 100) == C.h * 100)):
                    res.fail("testset:feas-not-hundredths", f"feasibility instance has coefficients that are not multiples of 0.01 ({name})")
                problems = []
                for base in bases:
                    if base in claimed:
                        continue
                    why = None
                    try:
                        vio_l, vio_q, nnz = test_feasibility.convenience(os.path.join(d, base + ".npz"), sname)
                        if list(np.asarray(vio_l).ravel()) != list(np.asarray(want_l).ravel()) or float(vio_q) != want_q or nnz != Q.nnz:
                            why = ("testset:violation-measures", f"reloaded violation measures of {base}.npz differ from the in-memory ones for {name} horizon {t_h}")
                        elif np.asarray(vio_l).any() or float(vio_q) != 0:
                            why = ("testset:stored-solution-infeasible", f"stored feasible solution violates the saved constraints ({name}, horizon {t_h})")
                    except Exception as e:  # noqa
                        why = ("testset:reload-raises", f"convenience() raised {e!r} for {name} horizon {t_h}")
                    if why is None and n <= case.get("load_limit", 10 ** 9):
                        # feasibility instance: every coefficient is a multiple of 0.01 -> loads back exactly
                        # (the package's loader is quadratic in the number of lines: large files only in the thorough tier)
                        try:
                            M, const = load_tools.load_ising_matrix(os.path.join(d, base + "f.rudy"))
                            L = M.toarray()
                            m = L.shape[0]
                            full = np.zeros((n, n))
                            full[:m, :m] = L
                            want = J + np.diag(C.h)
                            if m > n or not np.array_equal(full, want) or float(const) != round(float(C.const_ising), 2):
                                why = ("testset:feas-reload", f"feasibility file {base}f.rudy (horizon {t_h}) does not load back to the in-memory Ising problem")
                        except Exception as e:  # noqa
                            why = ("testset:load-raises", f"loader raised {e!r} on the feasibility file of {name} horizon {t_h}")
                    if why is None:
                        claimed.add(base)
                        break
                    problems.append(why)
                else:
                    sig, msg = problems[0] if problems else ("testset:file-overwritten", f"every file triple {stem}* already belongs to another horizon")
                    res.fail(sig, msg + f" (horizons {case['horizons']}: another instance with the same variable count may have overwritten the files)")
    res.nontrivial = True


def run_case(case, drv):
    from vrpqubo.tools import qubo_tools as qt
    from vrpqubo.tools import load_tools
    res = Result(key=core.case_key(case))
    res.features.append(f"mode:{case['mode']}")
    if case["mode"] == "testset":
        run_testset(case, res)
        return res
    n = case["n"]
    M = [[F(x) for x in row] for row in case["M"]]
    const = F(case["const"])
    ising = case["ising"]
    res.features += [f"n:{n}", f"style:{case['style']}", f"ising:{ising}", f"pattern:{case['pattern']}"]
    res.nontrivial = n >= 2 and any(M[i][j] != 0 for i in range(n) for j in range(n) if i != j)
    # the container is built from a dense array, a CSR matrix, a CSR matrix holding an explicitly stored zero, or a COO matrix with
    # duplicate entries and a stored zero (the export must list coefficients, not storage slots)
    ckind = case.get("ckind", "csr")
    res.features.append(f"container:{ckind}")
    C = qt.QUBOContainer(G.to_container(M, ckind, dtype=case.get("dtype")), float(const), case["pattern"])
    with tempfile.TemporaryDirectory(prefix="vh_c10_") as d:
        fn = os.path.join(d, "p.rudy" if ising else "p.qubo")
        try:
            C.export(fn, as_ising=ising)
        except Exception as e:  # noqa
            res.fail("export:raises", f"export raised {e!r}")
            return res
        text = open(fn, encoding="utf-8").read()
        lines = text.split("\n")
        body = lines[1:]
        # ---------------- model
        rep = drv.ask(f"export {fmat(M, n, n)} {fs(const)} {case['pattern'].encode().hex()} {1 if ising else 0}")
        head, groups = core.split_reply(rep)
        mtext = rep[3:].split(" | ")[0]
        mlines = mtext.split(" ~ ")
        cchar = "#" if ising else "c"
        if not lines[0].startswith(cchar):
            res.fail("export:header", f"first line {lines[0]!r} is not a '{cchar}' comment line (the package's own loader expects '{cchar}')")
        # sections compared exactly; records inside a section as multisets (their order is not part of the property)
        def sections(ls):
            out, cur = [], []
            for ln in ls:
                if ln[:1] in "#c" and not ln[:1].isdigit():
                    out.append(cur)
                    cur = [ln]
                else:
                    cur.append(ln)
            out.append(cur)
            return [(s[0] if s else "", sorted(s[1:])) for s in out if s]
        # what the property is about: the record lines (as a multiset) and the constant line; the wording of the other comment lines
        # is compared as well but only noted (a reworded comment is not a broken correspondence)
        def records(ls):
            return sorted(ln for ln in ls if ln[:1].isdigit()), [ln.split("=")[1].strip() for ln in ls if ln[:1] in "#c" and "=" in ln]
        if records(body) != records(mlines):
            res.disagree("file records / constant (minus timestamp)", body[:8], mlines[:8])
        elif sections(body) != sections(mlines):
            res.features.append("comment-wording-differs-from-model")
        # ---------------- oracle: each non-zero coefficient once, at its own indices, rounded
        if ising:
            Mat, dvec, cst = G.dense_fr(C.J), G.vec_fr(C.h), F(C.const_ising)
        else:
            Mat, dvec, cst = G.dense_fr(C.Q), [G.dense_fr(C.Q)[i][i] for i in range(n)], F(C.const_qubo)
        want = {}
        for i in range(n):
            if dvec[i] != 0:
                want[(i, i)] = round2(dvec[i])
        for i in range(n):
            for j in range(n):
                if i != j and Mat[i][j] != 0:
                    want[(i, j)] = round2(Mat[i][j])
        got = {}
        cline = None
        for ln in body:
            if ln[:1] in ("#", "c"):
                if "=" in ln:
                    cline = ln.split("=")[1]
                continue
            ts = ln.split()
            if len(ts) != 3:
                res.fail("export:line-format", f"unexpected line {ln!r}")
                continue
            key = (int(ts[0]), int(ts[1]))
            if key in got:
                res.fail("export:duplicate", f"coefficient {key} listed twice")
            got[key] = round2(Fraction(ts[2]))
            if Fraction(ts[2]) * 100 != got[key]:
                res.fail("export:decimals", f"value {ts[2]} has more than two decimals")
        if got != want:
            miss = sorted(set(want) - set(got))[:3]
            extra = sorted(set(got) - set(want))[:3]
            wrong = [(k, got[k], want[k]) for k in got if k in want and got[k] != want[k]][:3]
            res.fail("export:coefficients", f"file coefficients differ from the in-memory ones (hundredths): missing {miss}, extra {extra}, wrong {wrong}")
        if cline is None or round2(Fraction(cline.strip())) != round2(cst) or Fraction(cline.strip()) * 100 != round2(cst):
            res.fail("export:constant", f"constant line {cline!r} vs in-memory {fs(cst)}")
        # ---------------- loader, text level: the model of load_matrix on the real file and on edited files
        for label, vtext in text_variants(text, res.key):
            li, lm = load_impl(vtext, ising, d), load_model(drv, vtext, ising)
            res.features.append(f"loadtext:{label}:{li[0]}")
            if li[0] != lm[0]:
                # files in the documented format must load; for the three malformed edits a more tolerant loader is not a difference that matters
                if label not in ("blank-line", "one-token-record", "size-line-wrong") or li[0] != "ok":
                    res.disagree(f"load_matrix status on variant {label}", li[:2], lm[:2])
                else:
                    res.features.append(f"loadtext:{label}:loader-more-tolerant-than-model")
            elif li[0] == "ok":
                if li[4][0] != li[4][1]:
                    res.fail("load:not-square", f"loader returned shape {li[4]} on variant {label}")
                if li[1:4] != lm[1:4]:
                    res.disagree(f"load_matrix result on variant {label}", li[1:4], lm[1:4])
        # ---------------- loader
        try:
            Lm, Lc = (load_tools.load_ising_matrix if ising else load_tools.load_qubo_matrix)(fn)
            Ld = [[hund(float(v)) for v in row] for row in (Lm.toarray() if want else [])]
            impl = ("ok", Ld, hund(Lc))
        except Exception as e:  # noqa
            impl = (core.err_kind(e), repr(e))
        tk = groups[1]
        mdim, mconst, mcount = int(tk[0]), int(tk[1]), int(tk[2])
        ment = {}
        for q in range(mcount):
            i, j, h = int(tk[3 + 3 * q]), int(tk[4 + 3 * q]), int(tk[5 + 3 * q])
            ment[(i, j)] = ment.get((i, j), 0) + h
        if impl[0] != "ok":
            if want:
                res.fail("load:raises", f"the package's loader rejects the file the package wrote: {impl[1]}")
            return res
        Ld = impl[1]
        if want:
            if len(Ld) != mdim or any(len(r) != mdim for r in Ld):
                res.disagree("loaded dimension", len(Ld), mdim)
            else:
                for i in range(mdim):
                    for j in range(mdim):
                        if Ld[i][j] * 100 != ment.get((i, j), 0):
                            res.disagree(f"loaded entry {(i, j)}", Ld[i][j], Fraction(ment.get((i, j), 0), 100))
            if impl[2] * 100 != mconst:
                res.disagree("loaded constant", impl[2], Fraction(mconst, 100))
            # energy of the reloaded problem = energy of the rounded in-memory problem, all spin / binary vectors
            m = len(Ld)
            if m > n:
                res.fail("load:dimension", f"loaded matrix is {m}x{m} for {n} variables")
            elif n <= 7:
                Rm = [[Fraction(want.get((i, j), 0), 100) for j in range(n)] for i in range(n)]
                Lfull = [[(Ld[i][j] if i < m and j < m else Fraction(0)) for j in range(n)] for i in range(n)]
                if Lfull != Rm or impl[2] * 100 != round2(cst):
                    res.fail("load:energy", "reloaded coefficients differ from the rounded in-memory ones, so the energy functions differ")
                exact = all(Fraction(v, 100) == (dvec[k[0]] if k[0] == k[1] else Mat[k[0]][k[1]]) for k, v in want.items()) and cst * 100 == round2(cst)
                res.features.append(f"exact_hundredths:{exact}")
                if ising and m == n and n >= 1:
                    # through the package's own splitter and evaluator
                    Jl, hl = qt.get_Ising_J_h(Lm.tolil())
                    for s in G.all_binary(n):
                        sv = np.array([1 - 2 * t for t in s])
                        # (evaluated in exact arithmetic on the loader's output: decimal hundredths are not binary floats)
                        Jd, hd = Jl.toarray(), np.asarray(hl).ravel()
                        e_load = sum(hund(Jd[i][j]) * sv[i] * sv[j] for i in range(n) for j in range(n)) + \
                            sum(hund(hd[i]) * sv[i] for i in range(n)) + hund(Lc)
                        if any(Jd[i][i] != 0 for i in range(n)):
                            res.fail("load:split", "get_Ising_J_h left a non-zero diagonal in J")
                        e_mem = sum(Rm[i][j] * sv[i] * sv[j] for i in range(n) for j in range(n) if i != j) + \
                            sum(Rm[i][i] * sv[i] for i in range(n)) + Fraction(round2(cst), 100)
                        if e_load != e_mem:
                            res.fail("load:energy", f"reloaded Ising energy {fs(e_load)} != rounded in-memory energy {fs(e_mem)} at s={list(sv)}")
                            break
                        if exact and e_mem != sum(Mat[i][j] * sv[i] * sv[j] for i in range(n) for j in range(n)) + sum(dvec[i] * sv[i] for i in range(n)) + cst:
                            res.fail("load:energy-exact", "coefficients are multiples of 0.01 but the reloaded energy differs from the in-memory one")
                            break
    return res
