"""C11 — MIRP time windows keep every port's inventory within bounds."""
from fractions import Fraction
import itertools

from .. import core
from .. import mirp_util as MU
from ..core import Result, fs, F

ID = "C11"
RULE = ("seeded ports: cargo size in {1,2,3,300}, rates +-2^k, capacities size+j/4, initial inventories in [0,cap] (quarters), horizons j/4, "
        "visit numbers 0..6; malformed stream with capacity < cargo size; G1 example ports at real horizons (tolerance compare, tie guard); "
        "service-time choices at window ends, midpoints and seeded interior points, in visiting orders incl. reversed; non-trivial = port with "
        ">= 2 visits inside the horizon; distinct = distinct (size, horizon, init, rate, cap)")
ASSUMPTIONS = [
    "0 < cargo size (size = 0 makes add_nodes loop forever when a window lies inside the horizon: precondition)",
    "rate != 0 (the code divides by it), 0 <= initial inventory <= capacity, cargo size <= capacity (else Node raises on an inverted window: covered as error branch)",
    "freshness of the generated node names (a duplicate port name makes add_node raise) is a hypothesis of addNodes_exact",
    "real-valued G1 data: float windows compared with the exact model at relative tolerance 1e-9; instances where a window end ties with the horizon within 1e-9 are skipped and counted",
]
PARTIAL = []
BUDGET_S = {"quick": 60, "thorough": 600}
G1_PORTS = [("D1", 221, -34, 374), ("D2", 215, -31, 403), ("D3", 175, -25, 300), ("S1", 220, 47, 376), ("S2", 270, 42, 420)]


def gen(rng, tier):
    n_cases = 300 if tier == "quick" else 5000
    for k in range(n_cases):
        if k % 10 == 9:
            nm, init, rate, cap = rng.choice(G1_PORTS)
            hor = rng.choice([12, 15.5, 20, 25, 31, 40, 60] + ([100, 17.25, 33.3] if tier == "thorough" else []))
            yield dict(mode="g1", name=nm, size="300", init=str(init), rate=str(rate), cap=str(cap), horizon=str(Fraction(hor)))
            continue
        spec = MU.gen_mirp(rng, tier, malformed=(k % 10 == 8))
        p = rng.choice(spec["ports"])
        if k % 50 == 28:
            # a cargo size that is not positive: no visit ever moves the window past the horizon
            yield dict(mode="badsize", name=p["name"], size=rng.choice(["0", "-1", "-1/2"]), init=p["init"], rate=p["rate"], cap=p["cap"],
                       horizon=spec["horizon"], seed=1)
            continue
        yield dict(mode="dyadic", name=p["name"], size=spec["size"], init=p["init"], rate=p["rate"], cap=p["cap"], horizon=spec["horizon"],
                   seed=rng.randrange(10 ** 6))


def shrink(case):
    for key in ("init", "horizon"):
        v = Fraction(case[key])
        if v > 1:
            yield dict(case, **{key: fs(v / 2)})


def inventory_check(res, size, init, rate, cap, H, windows, times, label):
    """simulate: inventory(t) = init + rate*t -/+ size*#visits; check at every event time, just before and just after"""
    sign = -1 if rate > 0 else 1
    events = sorted(set([Fraction(0), H] + [t for t in times if 0 <= t <= H] + [w for tw in windows for w in tw if 0 <= w <= H]))
    for tau in events:
        before = init + rate * tau + sign * size * sum(1 for t in times if t < tau)
        after = init + rate * tau + sign * size * sum(1 for t in times if t <= tau)
        for nm, v in (("just before", before), ("just after", after)):
            if v < 0 or v > cap:
                res.fail("inventory:out-of-bounds", f"inventory {fs(v)} outside [0,{fs(cap)}] {nm} t={fs(tau)} ({label}; service times {[fs(t) for t in times]})")
                return


def run_case(case, drv):
    import random
    from vrpqubo.applications.mirp import MIRP
    res = Result(key=core.case_key(case))
    size, init, rate, cap, H = (Fraction(case[k]) for k in ("size", "init", "rate", "cap", "horizon"))
    exact = case["mode"] == "dyadic"
    res.features += [f"mode:{case['mode']}", f"port:{'supply' if rate > 0 else 'demand'}", f"size:{case['size']}"]
    if case["mode"] == "badsize":
        import signal

        class _Timeout(Exception):
            pass

        def _alarm(*_a):
            raise _Timeout()
        old = signal.signal(signal.SIGALRM, _alarm)
        signal.setitimer(signal.ITIMER_REAL, 3.0)
        try:
            mm = MIRP(float(size), float(H))
            mm.add_nodes(case["name"], float(init), float(rate), float(cap))
            impl = "ok"
        except _Timeout:
            impl = "timeout"
        except Exception as e:  # noqa
            impl = core.err_kind(e)
        finally:
            signal.setitimer(signal.ITIMER_REAL, 0)
            signal.signal(signal.SIGALRM, old)
        rep = drv.ask(f"mirp {fs(size)} {fs(H)} 1 PORT {case['name']} {fs(init)} {fs(rate)} {fs(cap)}").split()[0]
        if impl == "timeout":
            res.fail("add_nodes:does-not-terminate", f"MIRP({fs(size)}, {fs(H)}).add_nodes({case['name']}, {fs(init)}, {fs(rate)}, {fs(cap)}) did not return within 3 s "
                                                     "(cargo size <= 0: the window of the next visit never passes the horizon)")
        elif core.err_class(impl) != core.err_class(rep):
            res.disagree("MIRP with a non-positive cargo size", impl, rep)
        res.nontrivial = False
        return res
    m = MIRP(float(size), float(H))

    def close(a, b):
        return a == b if exact else abs(a - b) <= Fraction(1, 10 ** 9) * max(1, abs(a), abs(b))

    # ---- get_time_window for several visit numbers
    wins = []
    for k in range(7):
        tw = m.get_time_window(k, float(init), float(rate), float(cap))
        tw = (F(tw[0]), F(tw[1]))
        head, groups = core.split_reply(drv.ask(f"tw {fs(size)} {k} {fs(init)} {fs(rate)} {fs(cap)}"))
        mt = (Fraction(groups[0][0]), Fraction(groups[0][1]))
        if not (close(tw[0], mt[0]) and close(tw[1], mt[1])):
            res.disagree(f"get_time_window(k={k})", tw, mt)
        wins.append(mt if not exact else tw)
        # oracle: physical meaning of the endpoints (exact formulas on exact inputs)
        if rate > 0:
            opens = lambda t: init + rate * t - (k + 1) * size >= 0          # noqa: E731
            closes = lambda t: init + rate * t - k * size <= cap             # noqa: E731
        else:
            opens = lambda t: init + rate * t + (k + 1) * size <= cap        # noqa: E731
            closes = lambda t: init + rate * t + k * size >= 0               # noqa: E731
        if exact:
            eps = Fraction(1, 64)
            if not (opens(tw[0]) and not opens(tw[0] - eps)):
                res.fail("window:opens", f"window start {fs(tw[0])} of visit {k} is not the first instant a full cargo fits")
            if not (closes(tw[1]) and not closes(tw[1] + eps)):
                res.fail("window:closes", f"window end {fs(tw[1])} of visit {k} is not the last safe instant")
    # ---- add_nodes
    want_tw = []
    k = 0
    tie = False
    while True:
        if rate > 0:
            w = ((Fraction(k + 1) * size - init) / rate, (cap + k * size - init) / rate)
        else:
            w = ((cap - (k + 1) * size - init) / rate, (-(k * size) - init) / rate)
        if not exact and abs(w[1] - H) <= Fraction(1, 10 ** 9) * max(1, abs(H)):
            tie = True
        if w[1] > H:
            break
        want_tw.append(w)
        k += 1
        if k > 5000:
            break
    if tie:
        res.features.append("skipped:float-tie")
        res.nontrivial = False
        return res
    try:
        names = m.add_nodes(case["name"], float(init), float(rate), float(cap))
        impl = ("ok", list(names))
        names.append("caller-appended")      # the returned list belongs to the caller
    except Exception as e:  # noqa
        impl = (core.err_kind(e), repr(e))
    spec = dict(size=fs(size), horizon=fs(H), ports=[dict(name=case["name"], init=fs(init), rate=fs(rate), cap=fs(cap))], order=[],
                dist={}, sfee={}, dfee={})
    mres, mstate = MU.parse_reply(drv.ask(MU.request(spec)))
    if core.err_class(mres[0][0]) != core.err_class(impl[0]):
        res.disagree("add_nodes status", impl, mres[0])
    valid = size <= cap
    if valid and impl[0] != "ok":
        res.fail("add_nodes:raises", f"add_nodes raised on a valid port: {impl[1]}")
    if not valid and want_tw and impl[0] == "ok":
        res.fail("add_nodes:accepts-inverted", "add_nodes accepted a port whose cargo size exceeds its capacity")
    if impl[0] != "ok":
        # a port that was refused (capacity below the cargo size): the caller carries on with the next port of the same MIRP; its visits,
        # looked up BY NAME, must be what a MIRP that never saw the refused port gives
        try:
            later = list(m.add_nodes("Zq", 0.5, 1.0, float(size) + 3.0))
            fresh = MIRP(float(size), float(H))
            ref = list(fresh.add_nodes("Zq", 0.5, 1.0, float(size) + 3.0))
            got = [(nm, F(m.vrptw.get_node(nm).get_demand()), tuple(F(t) for t in m.vrptw.get_node(nm).get_window())) for nm in later]
            want_l = [(nm, F(fresh.vrptw.get_node(nm).get_demand()), tuple(F(t) for t in fresh.vrptw.get_node(nm).get_window())) for nm in ref]
            if got != want_l:
                res.fail("add_nodes:after-refused-port", f"after a refused port the visits of the next port read {core._short(got, 160)}, on a fresh MIRP {core._short(want_l, 160)}")
            res.features.append("port-after-refused-port:checked")
        except Exception as e:  # noqa
            res.fail("add_nodes:after-refused-port", f"after a refused port, declaring / looking up the next port raised {e!r}")
    if impl[0] == "ok":
        st = MU.mirp_state(m)
        nodes = st["g"]["nodes"][1:]
        if st["mapping"].get(case["name"]) != impl[1]:
            res.fail("add_nodes:mapping-aliased", f"the port's node list {st['mapping'].get(case['name'])} differs from the returned names {impl[1]} after the caller modified the returned list")
        if mres[0][0] == "ok":
            if impl[1] != mres[0][1]:
                res.disagree("add_nodes names", impl[1], mres[0][1])
            mn = mstate["g"]["nodes"][1:]
            if len(nodes) != len(mn) or any(a[0] != b[0] or a[1] != b[1] or not close(a[2], b[2]) or not close(a[3], b[3])
                                            for a, b in zip(nodes, mn)):
                res.disagree("nodes added", nodes, mn)
            if (st["supply"], st["demand"], st["mapping"]) != (mstate["supply"], mstate["demand"], mstate["mapping"]):
                res.disagree("port lists", (st["supply"], st["demand"], st["mapping"]), (mstate["supply"], mstate["demand"], mstate["mapping"]))
        K = len(want_tw)
        res.nontrivial = K >= 2
        res.features.append(f"visits:{min(K, 8)}")
        if impl[1] != [f"{case['name']}-{i}" for i in range(K)]:
            res.fail("add_nodes:visits", f"returned visits {impl[1]} but the windows ending within the horizon are k=0..{K - 1}")
        want_d = -size if rate > 0 else size
        for i, n in enumerate(nodes[:K]):
            if n[1] != want_d:
                res.fail("add_nodes:demand", f"node {n[0]} has demand {fs(n[1])}, expected {fs(want_d)}")
            if not (close(n[2], want_tw[i][0]) and close(n[3], want_tw[i][1])):
                res.fail("add_nodes:window", f"node {n[0]} has window ({fs(n[2])},{fs(n[3])}), closed form gives ({fs(want_tw[i][0])},{fs(want_tw[i][1])})")
        # ---- inventory safety for several service-time choices inside the code's own windows
        if exact and 0 <= init <= cap and K <= 12:
            code_w = [(n[2], n[3]) for n in nodes[:K]]
            rnd = random.Random(case.get("seed", 0))
            choices = [[w[0] for w in code_w], [w[1] for w in code_w], [(w[0] + w[1]) / 2 for w in code_w]]
            for _ in range(3):
                choices.append([w[0] + (w[1] - w[0]) * Fraction(rnd.randint(0, 8), 8) for w in code_w])
            for j, times in enumerate(choices):
                inventory_check(res, size, init, rate, cap, H, code_w, times, f"choice {j}")
    return res
