"""C12 — MIRP graph enforces load/unload alternation and carries correct arc data."""
from fractions import Fraction
import itertools

from .. import core
from .. import mirp_util as MU
from ..core import Result, fs, F

ID = "C12"
RULE = ("seeded dyadic MIRPs (1..3 supply and demand ports in any declaration order, cargo size in {1,2,3,300}, rates +-2^k, distances/fees/"
        "speeds in quarters and powers of two, horizons and entry limits j/4) built with the helper calls in canonical and permuted orders; "
        "plus the G1 example at real horizons and seeded instances of the random generator (oracle on the real graph, float data replicated "
        "with the same operations); non-trivial = graph with >= 1 supply visit, >= 1 demand visit and >= 1 travel arc; distinct = distinct spec")
ASSUMPTIONS = [
    "port names distinct from 'Depot' and 'Dum<k>'; add_entry_arcs called at most once (a second call re-uses Dum0 and the code raises)",
    "the depot window is [0, inf) (as MIRP.__init__ creates it), so every exit arc passes the timing filter",
    "exact-specified arc set is checked for the canonical helper order (nodes, travel, exit, entry) and for permutations of the last three",
    "real-valued instances (G1, random generator): the helper calls the package makes are recorded and replayed on the model with the exact values of the floats; discrete structure compared exactly, float data at 1e-9 (near-ties of the timing filter skipped and counted); plus the oracle on the real graph",
]
PARTIAL = []
BUDGET_S = {"quick": 90, "thorough": 900}


def gen(rng, tier):
    n_cases = 200 if tier == "quick" else 3000
    for k in range(n_cases):
        if k % 12 == 11:
            hor = rng.choice([12, 15.5, 20, 25, 31] + ([40, 60, 100] if tier == "thorough" else []))
            yield dict(mode="g1", horizon=hor)
        elif k % 12 == 10:
            yield dict(mode="random", seed=rng.randrange(10 ** 5), ns=rng.randint(1, 3), nd=rng.randint(1, 3),
                       horizon=rng.choice([30, 50, 80]))
        else:
            # (every 9th instance from the malformed stream: capacity below the cargo size, zero speed, a port with rate 0)
            yield dict(mode="dyadic", spec=MU.gen_mirp(rng, tier, malformed=(k % 9 == 4)))


def shrink(case):
    if case["mode"] != "dyadic":
        return
    spec = case["spec"]
    for i in range(len(spec["ports"])):
        if len(spec["ports"]) > 2:
            ports = spec["ports"][:i] + spec["ports"][i + 1:]
            yield dict(case, spec=dict(spec, ports=ports))
    h = Fraction(spec["horizon"])
    if h > 2:
        yield dict(case, spec=dict(spec, horizon=fs(h / 2)))


def kind_oracle(res, v, size, regular, label):
    """the property stated on a real VRPTW graph built by the MIRP helper"""
    nodes, names = v.nodes, v.node_names
    n = len(nodes)
    loading = [i != 0 and nodes[i].demand < 0 for i in range(n)]
    for (i, j), a in v.arcs.items():
        if nodes[i] is not a.origin or nodes[j] is not a.destination:
            res.fail("arc:key", f"arc key {(i, j)} does not match its endpoints {label}")
        if a.origin.time_window[0] + a.travel_time > a.destination.time_window[1]:
            res.fail("arc:timing", f"stored arc {names[i]}->{names[j]} violates the timing filter {label}")
        if i == 0 and j != 0 and not loading[j]:
            res.fail("arc:depot-to-discharging", f"depot arc leads to discharging node {names[j]} {label}")
        if i != 0 and j != 0 and loading[i] == loading[j]:
            res.fail("arc:no-alternation", f"arc {names[i]}->{names[j]} joins two {'loading' if loading[i] else 'discharging'} nodes {label}")
    for nm in regular:
        i = names.index(nm)
        if (i, 0) not in v.arcs:
            res.fail("arc:no-exit", f"regular node {nm} has no exit arc {label}")
    # load along every depot-to-depot path (DFS over simple paths, bounded)
    succ = {}
    for (i, j) in v.arcs:
        succ.setdefault(i, []).append(j)
    budget = [20000]

    def dfs(i, load, seen):
        budget[0] -= 1
        if budget[0] < 0:
            return
        for j in succ.get(i, []):
            if j == 0:
                continue
            if j in seen:
                continue
            l2 = load - nodes[j].demand
            if l2 != 0 and l2 != size:
                res.fail("path:load", f"load {l2} not in {{0,{size}}} after {names[j]} on a depot path {label}")
                return
            dfs(j, l2, seen | {j})
    dfs(0, 0, frozenset([0]))


def expected_arcs(st, spec_like):
    """the specified arc set, from the node list of the real graph and the instance data; values via the callbacks"""
    nodes = {n[0]: n for n in st["g"]["nodes"]}
    out = {}
    sup, dem, mapping = st["supply"], st["demand"], st["mapping"]

    def passes(o, d, t):
        hi = nodes[d][3]
        return hi == core.INF or nodes[o][2] + t <= hi
    if "TRAVEL" in spec_like["order"]:
        for sp in sup:
            for dp in dem:
                t, c = spec_like["time"](sp, dp), spec_like["cost"](sp, dp)
                for s in mapping[sp]:
                    for d in mapping[dp]:
                        if passes(s, d, t):
                            out[(s, d)] = (t, c + spec_like["dfee"](dp))
                        if passes(d, s, t):
                            out[(d, s)] = (t, c + spec_like["sfee"](sp))
    if "EXIT" in spec_like["order"]:
        for p in sup + dem:
            for nm in mapping[p]:
                if passes(nm, "Depot", spec_like["exit"][0]):
                    out[(nm, "Depot")] = tuple(spec_like["exit"])
    if "ENTRY" in spec_like["order"]:
        lim, t, c = spec_like["entry"]
        for p in sup:
            for nm in mapping[p]:
                if nodes[nm][3] < lim and passes("Depot", nm, t):
                    out[("Depot", nm)] = (t, c)
        k = 0
        for p in dem:
            for nm in mapping[p]:
                if nodes[nm][3] < lim:
                    dum = f"Dum{k}"
                    k += 1
                    out[("Depot", dum)] = (0, 0)
                    if dum in nodes and passes(dum, nm, t):
                        out[(dum, nm)] = (t, c)
    return out


def record_build(build):
    """run `build()` (which constructs a MIRP through the package's own code) with the helper calls recorded"""
    from vrpqubo.applications import mirp as mirp_mod
    calls = []
    orig = {}

    def wrap(name):
        f = getattr(mirp_mod.MIRP, name)
        orig[name] = f

        def g(self, *a, **k):
            calls.append((name, self, a, k))
            return f(self, *a, **k)
        setattr(mirp_mod.MIRP, name, g)
    for nm in ("add_nodes", "add_travel_arcs", "add_exit_arcs", "add_entry_arcs"):
        wrap(nm)
    try:
        m = build()
    finally:
        for nm, f in orig.items():
            setattr(mirp_mod.MIRP, nm, f)
    return m, calls


def spec_from_calls(m, calls):
    """a model request (exact Fractions of the floats the code used) from recorded helper calls"""
    toks = ["mirp", fs(F(m.cargo_size)), fs(F(m.time_horizon))]
    ops = []
    sup, dem = [], []
    for name, _, a, k in calls:
        if name == "add_nodes":
            nm, init, rate, cap = a
            ops.append(["PORT", nm, fs(F(init)), fs(F(rate)), fs(F(cap))])
            (sup if rate > 0 else dem).append(nm)
        elif name == "add_travel_arcs":
            args = dict(zip(["distance_function", "vessel_speed", "cost_per_unit_distance", "supply_port_fees", "demand_port_fees"], a))
            args.update(k)
            t = ["TRAVEL", fs(F(args["vessel_speed"])), fs(F(args["cost_per_unit_distance"])), str(len(sup) * len(dem))]
            for s_ in sup:
                for d_ in dem:
                    t += [s_, d_, fs(F(args["distance_function"](s_, d_)))]
            t.append(str(len(sup)))
            for s_ in sup:
                t += [s_, fs(F(args["supply_port_fees"][s_]))]
            t.append(str(len(dem)))
            for d_ in dem:
                t += [d_, fs(F(args["demand_port_fees"][d_]))]
            ops.append(t)
        elif name == "add_exit_arcs":
            args = dict(zip(["travel_time", "cost"], a))
            args.update(k)
            ops.append(["EXIT", fs(F(args.get("travel_time", 0))), fs(F(args.get("cost", 0)))])
        else:
            args = dict(zip(["time_limit", "travel_time", "cost"], a))
            args.update(k)
            ops.append(["ENTRY", fs(F(args["time_limit"])), fs(F(args.get("travel_time", 0))), fs(F(args.get("cost", 0)))])
    toks.append(str(len(ops)))
    for o in ops:
        toks += o
    return " ".join(toks)


def correspond_real(res, drv, m, calls, label):
    """real-valued instance: the model is fed the exact values of the floats the code used; discrete structure is compared
    exactly, float-valued data at relative 1e-9; instances with a timing tie within 1e-9 are skipped"""
    rep = drv.ask(spec_from_calls(m, calls))
    mres, mstate = MU.parse_reply(rep)
    st = MU.mirp_state(m)
    tol = Fraction(1, 10 ** 9)

    def close(a, b):
        if a == core.INF or b == core.INF:
            return a == b
        return abs(a - b) <= tol * max(1, abs(a), abs(b))
    if any(r[0] != "ok" for r in mres):
        res.disagree(f"helper results {label}", "ok", [r[0] for r in mres])
        return
    # tie guard on the timing filter (exact values)
    nodes = {n[0]: n for n in mstate["g"]["nodes"]}
    mn, inn = mstate["g"]["nodes"], st["g"]["nodes"]
    if [n[0] for n in mn] != [n[0] for n in inn]:
        # a window end within rounding distance of the horizon can add / drop a visit
        res.features.append("skipped:float-tie-nodes")
        return
    for a, b in zip(inn, mn):
        if a[1] != b[1] or not close(a[2], b[2]) or not close(a[3], b[3]):
            res.disagree(f"node {a[0]} {label}", a, b)
            return
    ma = {(a[2], a[3]): a for a in mstate["g"]["arcs"]}
    ia = {(a[2], a[3]): a for a in st["g"]["arcs"]}
    if set(ma) != set(ia):
        diff = set(ma) ^ set(ia)
        # only arcs whose timing test is a near-tie may differ
        for (o, d) in diff:
            a = ma.get((o, d)) or ia.get((o, d))
            lo, hi = nodes[o][2], nodes[d][3]
            if hi == core.INF or abs(lo + a[4] - hi) > tol * max(1, abs(hi)):
                res.disagree(f"arc set {label}", sorted(set(ia) - set(ma))[:3], sorted(set(ma) - set(ia))[:3])
                return
        res.features.append("skipped:float-tie-arcs")
        return
    for key, a in ia.items():
        b = ma[key]
        if (a[0], a[1]) != (b[0], b[1]) or not close(a[4], b[4]) or not close(a[5], b[5]):
            res.disagree(f"arc {key} {label}", a, b)
            return
    if (st["supply"], st["demand"], st["mapping"]) != (mstate["supply"], mstate["demand"], mstate["mapping"]):
        res.disagree(f"port lists {label}", st["supply"], mstate["supply"])
    res.features.append("real-valued-correspondence")


def run_case(case, drv):
    res = Result(key=core.case_key(case))
    res.features.append(f"mode:{case['mode']}")
    if case["mode"] == "g1":
        from vrpqubo.examples.mirp_g1 import get_mirp
        m, calls = record_build(lambda: get_mirp(case["horizon"]))
        correspond_real(res, drv, m, calls, f"(G1 horizon {case['horizon']})")
        st = MU.mirp_state(m)
        regular = [nm for p in st["supply"] + st["demand"] for nm in st["mapping"][p]]
        kind_oracle(res, m.vrptw, 300, regular, f"(G1 horizon {case['horizon']})")
        res.nontrivial = len(regular) >= 2
        # arc data of G1 replicated with the same float operations
        dm = [[0.00, 212.34, 5305.34, 5484.21, 5459.31], [212.34, 0.00, 5496.06, 5674.36, 5655.55],
              [5305.34, 5496.06, 0.00, 181.69, 380.30], [5484.21, 5674.36, 181.69, 0.00, 386.66], [5459.31, 5655.55, 380.30, 386.66, 0.00]]
        cp = ["S1", "S2", "D1", "D2", "D3"]
        sfee = dict(zip(["S1", "S2"], [30, 85]))
        dfee = dict(zip(["D1", "D2", "D3"], [60, 82, 94]))
        like = dict(order=["TRAVEL", "EXIT", "ENTRY"], time=lambda a, b: F(dm[cp.index(a)][cp.index(b)] / 665.0),
                    cost=lambda a, b: dm[cp.index(a)][cp.index(b)] * 0.09, sfee=lambda s: sfee[s], dfee=lambda d: dfee[d],
                    exit=(0, 0), entry=(14, 0, 0))
        # cost: float(travel_cost + fee) replicated exactly
        want = expected_arcs(st, dict(like, cost=lambda a, b: 0, sfee=lambda s: F(dm[cp.index(s)][0] * 0 + 0), dfee=lambda d: 0))
        got = {(a[2], a[3]): (a[4], a[5]) for a in st["g"]["arcs"]}
        if set(got) != set(want):
            res.fail("arcset:g1", f"G1 arc set differs from the specified one: missing {sorted(set(want) - set(got))[:4]}, extra {sorted(set(got) - set(want))[:4]}")
        for (o, d), (t, c) in got.items():
            po, pd = o.split("-")[0], d.split("-")[0]
            if po in cp and pd in cp:
                dist = dm[cp.index(po)][cp.index(pd)]
                fee = dfee[pd] if pd in dfee else sfee[pd]
                tol = Fraction(1, 10 ** 9)       # real-valued data: a different but equivalent float expression must not alarm
                if abs(t - F(dist / 665.0)) > tol * max(1, abs(t)) or abs(c - F(dist * 0.09 + fee)) > tol * max(1, abs(c)):
                    res.fail("arcdata:g1", f"G1 arc {o}->{d} has time/cost {float(t)},{float(c)}; expected {dist / 665.0},{dist * 0.09 + fee}")
                    break
        return res
    if case["mode"] == "random":
        import numpy as np
        from vrpqubo.examples.mirp_random import get_generator
        gen_ = get_generator(case["ns"], case["nd"], case["horizon"])
        gen_.seed = case["seed"]
        try:
            m, calls = record_build(lambda: gen_.get_random_mirp(reset_seed=True))
            correspond_real(res, drv, m, calls, f"(random MIRP seed {case['seed']})")
        except ValueError as e:
            # a sampled capacity below the cargo size gives an inverted window: Node raises (documented guard of C11)
            res.features.append("random:rejected-by-node")
            res.nontrivial = False
            return res
        st = MU.mirp_state(m)
        regular = [nm for p in st["supply"] + st["demand"] for nm in st["mapping"][p]]
        kind_oracle(res, m.vrptw, m.cargo_size, regular, f"(random MIRP seed {case['seed']})")
        res.nontrivial = len(regular) >= 2
        return res

    spec = case["spec"]
    size = Fraction(spec["size"])
    m, results = MU.build_py(spec)
    mres, mstate = MU.parse_reply(drv.ask(MU.request(spec)))
    impl_kinds = [r[0] for r in results]
    model_kinds = [r[0] for r in mres][:len(impl_kinds)]
    if impl_kinds != model_kinds:
        res.disagree("helper call results", impl_kinds, model_kinds)
        if all(r[0] == "ok" for r in mres) and any(k != "ok" for k in impl_kinds):
            bad = next(r for r in results if r[0] != "ok")
            res.fail("build:helper-raises", f"a MIRP helper call raised on a well-formed instance (after the caller modified the list returned by add_nodes): {bad[1]}")
    if any(k != "ok" for k in impl_kinds):
        res.features.append("error-branch:" + next(k for k in impl_kinds if k != "ok"))
        res.nontrivial = False
        return res
    st = MU.mirp_state(m)
    if st != mstate:
        for key in ("supply", "demand", "mapping"):
            if st[key] != mstate[key]:
                res.disagree(key, st[key], mstate[key])
        if st["g"]["nodes"] != mstate["g"]["nodes"]:
            res.disagree("nodes", st["g"]["nodes"], mstate["g"]["nodes"])
        if sorted(st["g"]["arcs"]) != sorted(mstate["g"]["arcs"]):      # the property is about the arc SET
            a, b = st["g"]["arcs"], mstate["g"]["arcs"]
            diff = [x for x in a if x not in b][:3], [x for x in b if x not in a][:3]
            res.disagree("arc set (key, endpoints, time, cost)", diff[0], diff[1])
        if (st["g"]["cap"], st["g"]["init"]) != (mstate["g"]["cap"], mstate["g"]["init"]):
            res.disagree("vessel", (st["g"]["cap"], st["g"]["init"]), (mstate["g"]["cap"], mstate["g"]["init"]))
    # the MIRP's own bookkeeping must not follow what the caller did to the lists add_nodes returned
    for (kind, names), p in zip(results, spec["ports"]):
        if kind == "ok" and names is not None and st["mapping"].get(p["name"]) != names:
            res.fail("build:port-mapping-aliased", f"port_mapping[{p['name']}] = {st['mapping'].get(p['name'])} but add_nodes returned {names} (the caller then modified its copy)")
            return res
    regular = [nm for p in st["supply"] + st["demand"] for nm in st["mapping"][p]]
    label = f"(order {spec['order']})"
    has_exit = "EXIT" in spec["order"]
    kind_oracle(res, m.vrptw, size, regular if has_exit else [], label)
    if st["g"]["cap"] != size or st["g"]["init"] != 0:
        res.fail("vessel", f"vehicle capacity/initial load {st['g']['cap']},{st['g']['init']} != cargo size {size}, 0")
    speed, unit = Fraction(spec["speed"]), Fraction(spec["unit"])
    like = dict(order=spec["order"], time=lambda a, b: Fraction(spec["dist"][f"{a},{b}"]) / speed,
                cost=lambda a, b: Fraction(spec["dist"][f"{a},{b}"]) * unit,
                sfee=lambda s: Fraction(spec["sfee"][s]), dfee=lambda d: Fraction(spec["dfee"][d]),
                exit=tuple(Fraction(x) for x in spec["exit"]), entry=tuple(Fraction(x) for x in spec["entry"]))
    got = {(a[2], a[3]): (a[4], a[5]) for a in st["g"]["arcs"]}
    # the ENTRY-before-TRAVEL orders attach dummy arcs before travel arcs exist: same set, checked all the same
    want = expected_arcs(st, like)
    if got != want:
        missing = sorted(set(want) - set(got))[:4]
        extra = sorted(set(got) - set(want))[:4]
        wrong = [(k, got[k], want[k]) for k in got if k in want and got[k] != want[k]][:3]
        res.fail("arcset", f"arc set/data differs from the specification {label}: missing {missing}, extra {extra}, wrong data {core.jsonable(wrong)}")
    ntravel = sum(1 for (o, d) in got if o != "Depot" and d != "Depot" and not o.startswith("Dum"))
    res.nontrivial = bool(st["supply"]) and bool(st["demand"]) and ntravel >= 1
    res.features += [f"ports:{len(spec['ports'])}", f"order:{'-'.join(x[:2] for x in spec['order'])}", f"nodes:{min(len(st['g']['nodes']) // 4 * 4, 24)}+",
                     f"dummies:{sum(1 for n in st['g']['nodes'] if n[0].startswith('Dum'))>0}"]
    return res
