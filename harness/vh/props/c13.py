"""C13 — Pattern conversions preserve the quadratic form; container is consistent."""
from fractions import Fraction
import numpy as np
import scipy.sparse as sp

from .. import core
from .. import gen as G
from ..core import Result, fs, fl, fmat, F

ID = "C13"
RULE = ("seeded matrices n=1..5 (entries k/4, density classes incl. cancelling and explicit-zero entries) in every container kind, "
        "constants k/4, pattern strings in mixed case plus arbitrary other strings, and non-square shapes; non-trivial = square, n>=2, "
        "M != M^T; distinct = distinct (matrix, constant, kind, pattern)")
ASSUMPTIONS = [
    "quadratic forms are compared through their symmetric parts (U+U^T = M+M^T), which is equality for every real vector",
    "non-ASCII pattern strings (Python str.lower vs ASCII lower-casing in the model) are outside the model",
    "container types / no mutation of inputs: differential test only",
]
PARTIAL = ["container-type and no-mutation half: test (byte-level snapshots), not theorem"]
PATTERNS = ["upper-triangular", "UPPER-TRIANGULAR", "Upper-Triangular", "symmetric", "Symmetric", "SYMMETRIC",
            "none", "", "upper triangular", "sym", "uppertriangular", "Lower-Triangular"]
BUDGET_S = {"quick": 60, "thorough": 600}


def hexs(s):
    return s.encode().hex() or "00"[:0] or "-"


def gen(rng, tier):
    n_cases = 250 if tier == "quick" else 4000
    for k in range(n_cases):
        if k % 15 == 14:
            r = rng.randint(1, 4)
            c = rng.choice([x for x in range(1, 5) if x != r])
            m = G.gen_matrix(rng, r=r, c=c)
            mode = "nonsquare"
        else:
            m = G.gen_matrix(rng, nmax=5 if tier == "quick" else 7)
            r = c = len(m["rows"])
            mode = "square"
        dt = G.typed(m, rng) if mode == "square" else "float64"
        yield dict(mode=mode, r=r, c=c, M=[[fs(x) for x in row] for row in m["rows"]], const=fs(G.q(rng)),
                   kind=rng.choice(G.KINDS), pattern=rng.choice(PATTERNS), cls=m["cls"], dtype=dt)


def shrink(case):
    n = case["r"]
    if case["mode"] == "square" and n > 1:
        for d in range(n):
            M = [[x for j, x in enumerate(row) if j != d] for i, row in enumerate(case["M"]) if i != d]
            yield dict(case, r=n - 1, c=n - 1, M=M)
    for i in range(len(case["M"])):
        for j in range(len(case["M"][i])):
            if case["M"][i][j] != "0":
                M = [list(r) for r in case["M"]]
                M[i][j] = "0"
                yield dict(case, M=M)
    if case["kind"] != "ndarray":
        yield dict(case, kind="ndarray")


def rows_of(groups, k, n):
    return [[Fraction(t) for t in groups[k][i * n:(i + 1) * n]] for i in range(n)]


def run_case(case, drv):
    from vrpqubo.tools import qubo_tools as qt
    res = Result(key=core.case_key(case))
    M = [[F(x) for x in row] for row in case["M"]]
    r, c = case["r"], case["c"]
    const = F(case["const"])
    kind, pat = case["kind"], case["pattern"]
    res.features += [f"dtype:{case.get('dtype', 'float64')}", f"kind:{kind}", f"class:{case.get('cls')}", f"n:{r}", f"mode:{case['mode']}", f"pattern:{pat.lower()!r}"]
    res.nontrivial = case["mode"] == "square" and r >= 2 and any(M[i][j] != M[j][i] for i in range(r) for j in range(r))
    pathex = pat.encode().hex() or "-"
    sym2 = [[M[i][j] + M[j][i] for j in range(r)] for i in range(r)] if case["mode"] == "square" else None

    for fn, cmd, sig in ((qt.to_upper_triangular, "upper", "upper"), (qt.to_symmetric, "sym", "sym")):
        obj = G.to_container(M, kind, dtype=case.get("dtype"))
        before = G.snapshot(obj)
        try:
            out = fn(obj)
            impl = ("ok", G.dense_fr(out))
        except Exception as e:  # noqa
            impl = (core.err_kind(e), repr(e))
        head, groups = core.split_reply(drv.ask(f"{cmd} {fmat(M, r, c)}"))
        if core.err_class(head) != core.err_class(impl[0]):
            res.disagree(f"{cmd} status", impl, head)
            if case["mode"] == "square" and impl[0] != "ok":
                res.fail(f"{sig}:raises", f"{fn.__name__} raised on square {kind} input: {impl[1]}")
            if case["mode"] == "nonsquare" and impl[0] == "ok":
                res.fail(f"{sig}:nonsquare-accepted", f"{fn.__name__} accepted {r}x{c}")
        elif head == "ok":
            mm = rows_of(groups, 0, r)
            if impl[1] != mm:
                res.disagree(cmd, impl[1], mm)
            T = impl[1]
            if [[T[i][j] + T[j][i] for j in range(r)] for i in range(r)] != sym2:
                res.fail(f"{sig}:quadform", f"{fn.__name__} changes the quadratic form (symmetric parts differ)")
            if sig == "upper" and any(T[i][j] != 0 for i in range(r) for j in range(i)):
                res.fail("upper:structure", "result is not upper triangular")
            if sig == "sym" and any(T[i][j] != T[j][i] for i in range(r) for j in range(r)):
                res.fail("sym:structure", "result is not symmetric")
        if G.snapshot(obj) != before:
            res.fail(f"{sig}:mutates-input", f"{fn.__name__} modified its {kind} input")

    # ---------------- container
    obj = G.to_container(M, kind, dtype=case.get("dtype"))
    before = G.snapshot(obj)
    try:
        C = qt.QUBOContainer(obj, float(const), pat)
        impl = ("ok",)
    except Exception as e:  # noqa
        impl = (core.err_kind(e), repr(e))
    head, groups = core.split_reply(drv.ask(f"container {fmat(M, r, c)} {fs(const)} {pathex}"))
    if core.err_class(head) != core.err_class(impl[0]):
        res.disagree("container status", impl, head)
        if case["mode"] == "square" and impl[0] != "ok":
            res.fail("container:raises", f"QUBOContainer raised on square {kind} input, pattern {pat!r}: {impl[1]}")
        if case["mode"] == "nonsquare" and impl[0] == "ok":
            res.fail("container:nonsquare-accepted", f"QUBOContainer accepted {r}x{c}")
    elif head == "ok":
        iQ, iJ, ih = G.dense_fr(C.Q), G.dense_fr(C.J), G.vec_fr(C.h)
        mQ, mcq, mJ, mh, mci = rows_of(groups, 0, r), Fraction(groups[1][0]), rows_of(groups, 2, r), \
            [Fraction(t) for t in groups[3][1:]], Fraction(groups[4][0])
        for nm, a, b in (("container.Q", iQ, mQ), ("container.J", iJ, mJ), ("container.h", ih, mh),
                         ("container.const_qubo", F(C.const_qubo), mcq), ("container.const_ising", F(C.const_ising), mci)):
            if a != b:
                res.disagree(nm, a, b)
        if C.n_vars != r:
            res.fail("container:n_vars", f"n_vars={C.n_vars} for a {r}x{r} matrix")
        if any(iJ[i][i] != 0 for i in range(r)):
            res.fail("container:J-diag", "J has a non-zero diagonal")
        pl = pat.lower()
        if pl == "upper-triangular" and any(iJ[i][j] != 0 or iQ[i][j] != 0 for i in range(r) for j in range(i)):
            res.fail("container:J-pattern", "Q/J not upper triangular for pattern upper-triangular")
        if pl == "symmetric" and any(iJ[i][j] != iJ[j][i] or iQ[i][j] != iQ[j][i] for i in range(r) for j in range(r)):
            res.fail("container:J-pattern", "Q/J not symmetric for pattern symmetric")
        if pl not in ("upper-triangular", "symmetric") and iQ != M:
            res.fail("container:other-pattern", f"pattern {pat!r} changed the matrix")
        # the container is used in its other ways first (export in both forms, report, objective closures): its values must
        # afterwards still be those of the original matrix and constant
        other_use = (sum(len(t) for t in case["M"][0]) + r) % 3 if case.get("M") else 0
        if other_use and r >= 1:
            import tempfile, os
            with tempfile.TemporaryDirectory(prefix="vh_c13_") as d_:
                try:
                    C.export(os.path.join(d_, "a.qubo"), as_ising=False)
                    if other_use == 2:
                        C.export(os.path.join(d_, "a.rudy"), as_ising=True)
                        C.export(os.path.join(d_, "b.qubo"), as_ising=False)
                    if r <= 10:
                        C.report(True)
                except Exception as e:  # noqa
                    res.fail("container:other-use-raises", f"export/report raised {e!r}")
            res.features.append(f"container-used-otherwise-first:{other_use}")
        if r <= 7:
            for x in G.all_binary(r):
                xv = np.array(x)
                want = G.quad_fr(M, x) + const
                eq = F(C.evaluate_QUBO(xv))
                ei = F(C.evaluate_Ising(qt.x_to_s(xv)))
                eq2 = F(C.get_objective_function_QUBO()(xv))
                ei2 = F(C.get_objective_function_Ising()(qt.x_to_s(xv)))
                if eq != want or eq2 != want:
                    res.fail("container:evalQubo", f"container QUBO value {fs(eq)} != {fs(want)} at x={list(x)} pattern {pat!r}")
                    break
                if ei != want or ei2 != want:
                    res.fail("container:evalIsing", f"container Ising value {fs(ei)} != {fs(want)} at x={list(x)} pattern {pat!r}")
                    break
    if G.snapshot(obj) != before:
        res.fail("container:mutates-input", f"QUBOContainer modified its {kind} input")
    return res


EXHAUSTIVE_SCOPE = "all 2x2 matrices with entries in {-1, 0, 1/2, 1} x constants {0, 3/4} x container kinds {ndarray, csr, lil}" + \
    ("" if "c13" == "c01" else " x patterns {upper-triangular, symmetric, none}")


def gen_exhaustive():
    import itertools
    vals = ["-1", "0", "1/2", "1"]
    for a, b, c_, d in itertools.product(vals, repeat=4):
        M = [[a, b], [c_, d]]
        for c in ("0", "3/4"):
            for kind in ("ndarray", "csr", "lil"):
                for pat in (("upper-triangular", "symmetric", "none") if "c13" != "c01" else ("-",)):
                    yield dict(mode="square", r=2, c=2, M=M, const=c, kind=kind, pattern=pat, cls="exhaustive")
