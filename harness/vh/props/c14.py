"""C14 — Queries are pure and never change what later calls return."""
from fractions import Fraction
import numpy as np

from .. import core
from .. import vrp_util as VU
from .. import form_util as FU
from .. import mirp_util as MU
from ..core import Result, fs, fl, F

ID = "C14"
RULE = ("seeded call histories (length 2..10) over the query API of the three formulations (size, tuple<->index lookups, objective, constraints, QUBO "
        "in both modes, route decoding) interleaved with 0..2 runs of the feasibility heuristic, biased to 'query ... heuristic ... query', plus a "
        "systematic stream with every (formulation, query kind) pair as the only query before a heuristic run that must change the instance; each "
        "history is run on a twin object without the queries that precede the heuristic and the full observable state afterwards is compared; "
        "the flag-level model (one function per method, the code's reset sites, partial state after a raise) is stepped through the same history "
        "and compared call by call: reply, the three / four flags after the call, final graph, vehicles, stored solution — including a stream of "
        "histories in which the heuristic raises midway and the half-updated object is used further; "
        "every query is issued twice; non-trivial = history with a query before a heuristic run that changes the instance (adds an arc / node / "
        "vehicle / route); distinct = distinct (instance, history)")
ASSUMPTIONS = [
    "observable state = variable count and list, index maps on a tuple box, objective and constraint data, QUBO (both modes), stored feasible solution, routes decoded from it",
    "the path-based route sampler is re-seeded identically for both twins (its randomness is C17's subject)",
]
PARTIAL = []
TRUSTED = ["C14 sequence-based reset-site theorem assumes unique node names (guaranteed by add_node; refuted in Lean without it)"]
BUDGET_S = {"quick": 150, "thorough": 1500}
QUERIES = ["n", "idx", "tup", "obj", "con", "qubo_o", "qubo_f", "routes"]


def gen(rng, tier):
    n_cases = 200 if tier == "quick" else 3000
    for k in range(n_cases):
        if k % 4 == 1:
            # systematic stream: every (formulation, query kind) pair as the ONLY query before a heuristic run that must change the
            # instance (a customer without an arc from the depot / an empty route pool), followed by every query kind
            q = QUERIES[(k // 4) % len(QUERIES)]
            form = ["arc", "path", "seq"][(k // (4 * len(QUERIES))) % 3]
            # a planted-feasible instance (so that the heuristic can succeed) from which one customer's arcs out of the depot are
            # removed while its arc back to the depot stays (the heuristic then has to add an entry arc but no exit arc)
            spec, info = VU.gen_planted(rng, ncust=rng.randint(2, 3), extra_arc_p=rng.choice([0.0, 0.3]), wide=True)
            dep = spec["nodes"][0]["name"]
            c = rng.choice([nd["name"] for nd in spec["nodes"][1:]])
            spec["arcs"] = [a for a in spec["arcs"] if not (a[0] == dep and a[1] == c)]
            if not any(a[0] == c and a[1] == dep for a in spec["arcs"]):
                spec["arcs"].append([c, dep, "1", "1"])
            if ((k // 4) // (3 * len(QUERIES))) % 3 == 2:
                spec["arcs"] = [a for a in spec["arcs"] if not (a[0] == c and a[1] == dep)]     # every third round: the exit arc is missing too
            case = dict(form=form, spec=spec, seed=rng.randrange(10 ** 6))
            if form == "arc":
                case["grid"] = info["grid"]
            elif form == "path":
                case["routes"] = []
            else:
                case.update(strict=rng.random() < 0.3, V=rng.choice([1, info["V"]]), L=max(3, info["Lmin"] + rng.choice([0, 1])))
            case["hist"] = [[q], ["heur", rng.choice(["10", "1000"])]] + [[x] for x in QUERIES]
            case["systematic"] = True
            yield case
            continue
        if k % 20 == 7:
            # raising stream: instances on which the heuristic is expected to raise midway (a time grid that lacks the arrival times /
            # a strict object whose depot window closes early); the history continues on the half-updated object
            spec, info = VU.gen_planted(rng, ncust=rng.randint(2, 3), extra_arc_p=0.2, wide=True)
            dep = spec["nodes"][0]["name"]
            c = rng.choice([nd["name"] for nd in spec["nodes"][1:]])
            spec["arcs"] = [a for a in spec["arcs"] if not (a[0] == dep and a[1] == c)]
            if (k // 20) % 2 == 0:
                case = dict(form="arc", spec=spec, seed=rng.randrange(10 ** 6), grid=info["grid"][:1])
            else:
                spec["nodes"][0]["hi"] = rng.choice(["0", "1"])
                case = dict(form="seq", spec=spec, seed=rng.randrange(10 ** 6), strict=True, V=1, L=max(3, info["Lmin"]))
            q1, q2 = rng.choice(QUERIES[:7]), rng.choice(QUERIES[:7])
            case["hist"] = [[q1], ["heur", "10"], [q2], ["heur", "10"]] + [[x] for x in QUERIES[:7]]
            yield case
            continue
        if EMPTY_GRID_STREAM and k % 40 == 14:
            # arc-based object WITHOUT time points: the heuristic raises (IndexError) after it may already have added an entry arc;
            # time points are supplied afterwards and the object is used further
            spec = VU.gen_vrptw(rng, nmax=3, dense=rng.choice([0.0, 0.5]))
            if (k // 40) % 2 == 0:
                spec["arcs"] = [a for a in spec["arcs"] if "D" not in (a[0], a[1])]     # no depot arcs: estimate_max_vehicles() = 0
            case = dict(form="arc", spec=spec, grid=[], seed=1, mutators=True,
                        hist=[["n"], ["heur", "100"], ["tp", ["0", "1", "2"]], ["n"], ["obj"], ["heur", "100"], ["n"]])
            yield case
            continue
        if k % 20 == 18:
            # systematic mutator histories of the sequence-based object: (a) the fleet size is set AGAIN to its current value after a
            # heuristic added surcharged dummy vehicles and the objective was built (set_max_vehicles resets the surcharges);
            # (b) the object is assembled through its own API, queried, and only then told which node is the depot (the node that is
            # already first: the graph does not move, but the sequence class installs its depot self-loop)
            if (k // 20) % 2 == 0:
                case = FU.gen_raising_seq_case(rng)
                case.pop("heur", None), case.pop("pre", None)
                case["spec"]["nodes"][0]["hi"] = "inf"
                case["V"] = rng.choice([0, 1])
                case["hist"] = [["heur", rng.choice(["100", "1000"])], ["qubo_o"], ["obj"], ["setL", "same"], ["qubo_o"], ["obj"], ["setV", "same"],
                                ["qubo_o"], ["obj"], ["n"], ["con"]]
            else:
                case = FU.gen_form_case(rng, tier, forms=("seq",), heur_p=0.0, nmax=4)
                case["strict"] = (k // 40) % 3 == 2          # mostly non-strict (the strict set_depot re-adds every arc anyway)
                case["via"], case["skip_set_depot"], case["arcs_before_depot"] = "wrapper", True, len(case["spec"]["arcs"])
                dep = case["spec"]["nodes"][0]["name"]
                case["hist"] = [[rng.choice(["n", "obj", "qubo_f", "idx"])], ["setdepot", dep]] + [[x] for x in QUERIES[:7]]
            case["mutators"] = True
            yield case
            continue
        if k % 10 == 2:
            # mutator stream: the problem data are changed through the object's own API AFTER queries were answered (new time grid,
            # other fleet size / sequence length, another arc, another node); later answers must be those of the changed problem
            case = FU.gen_form_case(rng, tier, heur_p=0.0, nmax=4)
            form = case["form"]
            names = [nd["name"] for nd in case["spec"]["nodes"]]
            muts = []
            if form == "seq" and rng.random() < 0.5:
                # strict mode with a customer whose window never closes: an arc from another customer to it passes the strict rule, is
                # stored by the sequence class itself (not by the base class) and must be seen by later queries
                case["strict"] = True
                if len(case["spec"]["nodes"]) >= 3:
                    case["spec"]["nodes"][-1]["hi"] = "inf"
                    muts.append(["addarc", names[1], names[-1], "1", "2"])
            for _ in range(rng.randint(1, 2)):
                kind = rng.choice(["addarc", "addarc", "addnode", "setdepot"] + (["tp"] if form == "arc" else []) + (["setV", "setL"] if form == "seq" else []))
                if kind == "setdepot":
                    # another node becomes the depot: positions, arc keys (and, for sequences, which tuples are fixed) change, sizes do not
                    muts.append(["setdepot", rng.choice(names[1:]) if len(names) > 1 else names[0]])
                    continue
                if kind == "tp":
                    muts.append(["tp", VU.gen_grid(rng, case["spec"], tier)])
                elif kind == "setV":
                    muts.append(["setV", rng.choice([0, 1, 2, 3])])
                elif kind == "setL":
                    muts.append(["setL", rng.choice([3, 4, 5])])
                elif kind == "addarc":
                    muts.append(["addarc", rng.choice(names), rng.choice(names), fs(Fraction(rng.randint(0, 6), 2)), fs(Fraction(rng.randint(-4, 8), 2))])
                else:
                    nm = f"z{len(muts)}"
                    lo = Fraction(rng.randint(0, 6), 2)
                    muts.append(["addnode", nm, "0", fs(lo), rng.choice(["inf", fs(lo + 2)])])
                    muts.append(["addarc", names[0], nm, "1", "1"])
                    muts.append(["addarc", nm, names[0], "1", "1"])
                    names.append(nm)
            pre = [[rng.choice(QUERIES[:7])] for _ in range(rng.randint(1, 3))]
            case["hist"] = pre + muts + [[x] for x in rng.sample(QUERIES[:7], 3)] + ([["heur", "10"], ["n"]] if rng.random() < 0.4 else [])
            case["mutators"] = True
            yield case
            continue
        if k % 3 == 0:
            spec, info = VU.gen_planted(rng, ncust=rng.randint(1, 3), extra_arc_p=rng.choice([0.0, 0.2, 0.5]), wide=True)
            form = rng.choice(["arc", "path", "seq"])
            case = dict(form=form, spec=spec, seed=rng.randrange(10 ** 6))
            if form == "arc":
                case["grid"] = info["grid"]
            elif form == "path":
                case["routes"] = [r for r in info["routes"] if rng.random() < 0.5]
            else:
                case.update(strict=rng.random() < 0.4, V=rng.choice([0, 1, info["V"]]), L=max(3, info["Lmin"] + rng.choice([0, 1])))
        else:
            case = FU.gen_form_case(rng, tier, heur_p=0.0, nmax=4)
        hist = []
        L = rng.randint(2, 10 if tier == "quick" else 14)
        nheur = 0
        for i in range(L):
            if nheur < 2 and rng.random() < 0.3:
                hist.append(["heur", rng.choice(["0", "1", "10", "1000"])])
                nheur += 1
            else:
                hist.append([rng.choice(QUERIES)])
        if nheur == 0 and rng.random() < 0.8:
            hist.insert(rng.randint(1, len(hist)), ["heur", "10"])
        case["hist"] = hist
        yield case


def shrink(case):
    h = case["hist"]
    for i in range(len(h)):
        yield dict(case, hist=h[:i] + h[i + 1:])
    for c in FU.shrink_form_case(dict(case)):
        yield c


from .props_common import tuple_box, query, full_state, decode  # noqa: E402


def check_decode_first(case, res):
    """route decoding as the FIRST query on an object (fresh, or just reconfigured after an earlier query): a solution obtained
    elsewhere (exhaustive search on a twin) must decode to the same routes as on an object that was queried before, and twice the same"""
    form = case["form"]
    if form == "path":
        return
    ref, _ = FU.build_form(case, with_heur=False)
    try:
        n = int(ref.get_num_variables())
        if n == 0 or n > 12:
            return
        B = VU.Brute(VU.impl_data(ref))
    except Exception:  # noqa
        return
    feas = np.nonzero(B.feasible)[0]
    if len(feas) == 0:
        return
    res.features.append("decode-first:checked")
    for i in list(feas[:2]) + list(feas[-1:]):
        x = [int(t) for t in B.X[int(i)]]
        want = decode(ref, x)
        fresh, _ = FU.build_form(case, with_heur=False)
        first, second = decode(fresh, x), decode(fresh, x)
        if first != want or second != want:
            res.fail(f"{form}:decode-first", f"get_routes({x}) as the first query on a fresh object gives {core._short(first, 120)}, asked again "
                                             f"{core._short(second, 120)}; on an object whose size was asked before: {core._short(want, 120)}")
            return
        # ... and right after a reconfiguration that follows an earlier query
        variants = []
        if form == "seq":
            L, V = int(ref.max_sequence_length), int(ref.max_vehicles)
            variants = [(dict(case, L=L + 1), lambda o: o.set_max_sequence_length(L), f"set_max_sequence_length({L}) after a size query at {L + 1}"),
                        (dict(case, V=V + 1), lambda o: o.set_max_vehicles(V), f"set_max_vehicles({V}) after a size query at {V + 1}")]
        elif form == "arc" and len(case.get("grid", [])) >= 2:
            g = list(case["grid"])
            variants = [(dict(case, grid=g[:-1]), lambda o: o.add_time_points([VU.val(t) for t in g]), "add_time_points(full grid) after a size query on a shorter grid")]     # (add_time_points REPLACES the grid)
        for c2, reconf, what in variants:
            try:
                o2, _ = FU.build_form(c2, with_heur=False)
                o2.get_num_variables()
                reconf(o2)
            except Exception:  # noqa
                continue
            if VU.graph_of(o2) != VU.graph_of(ref):
                continue
            got = decode(o2, x)
            if got != want:
                res.fail(f"{form}:decode-after-reconfiguration", f"get_routes({x}) right after {what} gives {core._short(got, 120)}; on an object "
                                                                 f"configured that way from the start: {core._short(want, 120)}")
                return


MUTATORS = ("tp", "setV", "setL", "addarc", "addnode", "setdepot")
FLAG_MODEL_HAS_MUTATORS = True
EMPTY_GRID_STREAM = True


def apply_mutator(o, op):
    if op[0] == "tp":
        o.add_time_points([VU.val(t) for t in op[1]])
    elif op[0] == "setV":
        o.set_max_vehicles(int(o.max_vehicles) if op[1] == "same" else int(op[1]))
    elif op[0] == "setL":
        o.set_max_sequence_length(int(o.max_sequence_length) if op[1] == "same" else int(op[1]))
    elif op[0] == "addarc":
        o.add_arc(op[1], op[2], VU.val(op[3]), VU.val(op[4]))
    elif op[0] == "addnode":
        o.add_node(op[1], VU.val(op[2]), (VU.val(op[3]), VU.val(op[4])))
    elif op[0] == "setdepot":
        o.set_depot(op[1])


def run_history(case, hist, res=None, check_twice=False):
    o, _ = FU.build_form(case, with_heur=False)
    form = case["form"]
    changed = False
    for step, op in enumerate(hist):
        if op[0] == "heur":
            g0 = (VU.graph_of(o), len(getattr(o, "routes", [])), getattr(o, "max_vehicles", 0))
            np.random.seed(case.get("seed", 0) + step * 0)
            try:
                o.make_feasible(VU.val(op[1]))
            except Exception as e:  # noqa
                return o, "heur-raised:" + core.err_kind(e), changed
            g1 = (VU.graph_of(o), len(getattr(o, "routes", [])), getattr(o, "max_vehicles", 0))
            changed = changed or g0 != g1
        elif op[0] in MUTATORS:
            changed = True
            try:
                apply_mutator(o, op)
            except Exception as e:  # noqa
                return o, "mutator-raised:" + core.err_kind(e), changed
        else:
            a = query(o, form, op[0])
            if check_twice and res is not None:
                b = query(o, form, op[0])
                if a != b:
                    res.fail(f"{form}:not-idempotent", f"query {op[0]} at step {step} returned different results when issued twice")
    return o, "ok", changed


# (the harness' "obj" and "con" queries both go through impl_data, which asks size, objective and constraints)
COPS = {"n": ["n"], "idx": ["n"], "tup": ["n"], "obj": ["n", "obj", "con"], "con": ["n", "obj", "con"], "qubo_o": ["con", "obj"], "qubo_f": ["con"]}


def correspond_cache(res, drv, case):
    """the Lean cache state machine (CObj.run) against the real object on the same call history: heuristic outcomes,
    which caches are filled at the end, final instance and stored solution"""
    form = case["form"]
    if form not in ("arc", "seq"):
        return
    o, _ = FU.build_form(case, with_heur=False)
    inst = FU.inst_tokens(o, form)
    ops, outcomes = [], []
    dead = False
    for op in case["hist"]:
        if dead:
            break
        if op[0] == "heur":
            ops.append(f"heur {op[1]}")
            try:
                o.make_feasible(VU.val(op[1]))
                outcomes.append("done")
            except Exception as e:  # noqa
                outcomes.append("raised " + core.err_kind(e))
                dead = True
        elif op[0] == "routes":
            if o.feasible_solution is not None:
                ops.append("n")
                query(o, form, "routes")
        else:
            ops += COPS[op[0]]
            query(o, form, op[0])
    rep = drv.ask(f"cache.{form} {inst} {len(ops)} {' '.join(ops)}")
    parts = [p.strip() for p in rep[3:].split(" | ")]
    k = next(i for i, p in enumerate(parts) if p.startswith("flags "))
    m_out = [p for p in parts[:k] if p == "done" or p.startswith("raised")]
    if [x.split()[0] for x in m_out] != [x.split()[0] for x in outcomes]:      # done / raised (not which exception)
        res.disagree(f"{form} heuristic outcomes along the history", outcomes, m_out)
        return
    if dead:
        return
    fl = parts[k].split()[1:]
    if form == "arc":
        impl_flags = [o.variables_enumerated, o.objective_built, o.constraints_built]
    else:
        impl_flags = [o.variables_enumerated, o.objective_built, o.lin_con_built and o.quad_con_built]
    if [str(int(bool(x))) for x in impl_flags] != fl[:3]:
        res.disagree(f"{form} cache flags (enumerated, objective, constraints) after the history", impl_flags, fl[:3])
    mg = MU.parse_graph(MU.Toks(parts[k + 1].split()))
    g = VU.graph_of(o)
    if VU.canon_graph(g) != VU.canon_graph(mg):
        res.disagree(f"{form} graph after the history", [a for a in g["arcs"] if a not in mg["arcs"]][:3], [a for a in mg["arcs"] if a not in g["arcs"]][:3])
    msol = parts[-1].split()
    isol = None if o.feasible_solution is None else [F(v) for v in np.asarray(o.feasible_solution).ravel()]
    msolv = None if msol == ["none"] else [Fraction(t) for t in msol[1:]]
    if msolv is not None:
        msolv = FU.vec_to_impl(FU.var_order(drv, o, form), msolv)      # (in the implementation's variable numbering)
    if isol != msolv:
        res.disagree(f"{form} stored solution after the history", isol, msolv)


def _dense(triples, rows, cols):
    M = [[Fraction(0)] * cols for _ in range(rows)]
    for i, j, v in triples:
        if i < rows and j < cols:
            M[i][j] += v
        else:
            return None
    return M


def correspond_path_flags(res, drv, case):
    """the operation-level model of the PATH-based object (VrpModel/PathFlags.lean: no caches; queries compute from the pool and the
    graph; the heuristic's partial effects are kept when it raises) against the real object, call by call, with the route sampler
    scripted identically on both sides"""
    import random
    from vrpqubo.routing_problem.formulations import path_based_rp as pbm
    rnd = random.Random(case.get("seed", 0) + 17)
    o, _ = FU.build_form(case, with_heur=False)
    g0 = VU.graph_of(o)
    if not g0["nodes"]:
        return
    inst = FU.inst_tokens(o, "path")
    choices = [rnd.randrange(6) for _ in range(12)]
    ops, impl = [], []

    def route_tok(r):
        return f"{len(r)} " + " ".join(f"i:{x}" if isinstance(x, int) else f"n:{x}" for x in r)
    hist = list(case["hist"])
    # candidate routes are part of the path object's alphabet: a few checks / offers are woven into the history
    N = len(g0["nodes"])
    for _ in range(rnd.randint(0, 2)):
        k = rnd.sample(range(1, N), min(N - 1, rnd.randint(1, 2))) if N > 1 else []
        hist.insert(rnd.randint(0, len(hist)), [rnd.choice(["chk", "route"]), [0] + k + [0]])
    for op in hist:
        kind = op[0]
        try:
            if kind == "n":
                ops.append("n")
                out = ("n", int(o.get_num_variables()))
            elif kind == "obj":
                ops.append("obj")
                c, Q = o.get_objective_data()
                out = ("obj", [F(x) for x in np.asarray(c).ravel()])
            elif kind == "con":
                ops.append("con")
                A, b, R, r_ = o.get_constraint_data()
                Ad = A.toarray() if hasattr(A, "toarray") else np.asarray(A)
                out = ("con", [[F(x) for x in row] for row in Ad.reshape(len(b), -1)] if len(b) else [], [F(x) for x in np.asarray(b).ravel()], tuple(int(t) for t in Ad.shape))
            elif kind in ("qubo_o", "qubo_f"):
                feas = kind == "qubo_f"
                ops.append(f"qubo {1 if feas else 0} none")
                Q, k, shape = VU.qubo_dense(o, feas, None)
                out = ("qubo", int(shape[0]), k, sum((x for row in Q for x in row), Fraction(0)))
            elif kind == "routes":
                sol = o.feasible_solution
                nn = len(o.route_costs)
                x = [int(round(float(v))) for v in np.asarray(sol).ravel()] if sol is not None and rnd.random() < 0.7 else [rnd.choice([0, 1]) for _ in range(nn)]
                ops.append(f"dec {len(x)} " + " ".join(str(v) for v in x))
                out = ("routes", [[str(VU.dummy_free(t)) for t in r] for r in o.get_routes(np.array(x, dtype=float))])
            elif kind == "chk":
                ops.append("chk " + route_tok(op[1]))
                f_, c_, _v = o.check_route(list(op[1]))
                out = ("chk", bool(f_), F(c_) if f_ else None)      # (the number reported with a rejection is not part of the property)
            elif kind == "route":
                ops.append("route " + route_tok(op[1]))
                f_, a_ = o.add_route(list(op[1]))
                out = ("route", bool(f_), bool(a_))
            elif kind == "heur":
                ops.append(f"heur {op[1]}")
                counter = [0]

                def scripted(key_val, explore):
                    assert key_val, "Dictionary to sample is empty"
                    keys = list(key_val.keys())
                    k_ = keys[choices[counter[0] % len(choices)] % len(keys)]
                    counter[0] += 1
                    return k_, min(key_val, key=key_val.get)
                restore = pbm.get_sampled_key
                pbm.get_sampled_key = scripted
                try:
                    o.make_feasible(VU.val(op[1]))
                finally:
                    pbm.get_sampled_key = restore
                out = ("heur", "ok")
            elif kind == "addarc":
                ops.append(f"addarc {op[1]} {op[2]} {op[3]} {op[4]}")
                r = o.add_arc(op[1], op[2], VU.val(op[3]), VU.val(op[4]))
                out = ("mut", f"done {1 if r else 0}")
            elif kind == "addnode":
                ops.append(f"addnode {op[1]} {op[2]} {op[3]} {op[4]}")
                o.add_node(op[1], VU.val(op[2]), (VU.val(op[3]), VU.val(op[4])))
                out = ("mut", "done")
            elif kind == "setdepot":
                ops.append(f"setdepot {op[1]}")
                o.set_depot(op[1])
                out = ("mut", "done")
            else:
                continue
        except Exception as e:  # noqa
            out = (kind, "raised", core.err_kind(e))
        impl.append(out)
    if not ops:
        return
    rep = drv.ask(f"flags.path {inst} {len(choices)} {' '.join(map(str, choices))} {len(ops)} {' '.join(ops)}")
    if not rep.startswith("ok "):
        res.disagree("flags.path command", "ok", rep[:120])
        return
    parts = [p_.strip() for p_ in rep[3:].split(" | ")]
    for step, (dig, out) in enumerate(zip(parts[:len(ops)], impl)):
        tk = dig.split()
        what = f"path object machine, call #{step} `{ops[step][:40]}`"
        m_raised = "raised" in tk[:2] or any(t.startswith("err:") for t in tk[:3])
        if ops[step].startswith("dec ") and (out[1:2] == ("raised",) or m_raised):
            continue          # decoding a vector that selects nothing storable: raise or not is incidental
        if (out[1:2] == ("raised",)) != m_raised:
            res.disagree(what + ": raised / returned", out[1:], dig[:80])
            return
        if m_raised:
            continue
        if out[0] == "mut" and " ".join(tk) != out[1]:
            res.disagree(what, out[1], " ".join(tk))
        elif out[0] == "n" and int(tk[1]) != out[1]:
            res.disagree(what, out[1], tk[1])
        elif out[0] == "obj":
            t0 = MU.Toks(dig[3:].split(" ; ")[0].split())
            mc = t0.lst(lambda: Fraction(t0.tok()))
            if mc != out[1]:
                res.disagree(what, out[1], mc)
        elif out[0] == "con":
            secs = [x.split() for x in dig[3:].split(" ; ")]
            t0 = MU.Toks(secs[0])
            tri = t0.lst(lambda: (t0.nat(), t0.nat(), Fraction(t0.tok())))
            t1 = MU.Toks(secs[1])
            mb = t1.lst(lambda: Fraction(t1.tok()))
            rows, cols = int(secs[2][0]), int(secs[2][1])
            mA = _dense(tri, rows, cols)
            if mb != out[2] or (mA or []) != (out[1] or []) or ((rows, cols) != out[3] and len(out[2]) > 0):
                res.disagree(what, (out[2], out[3]), (mb, (rows, cols)))
        elif out[0] == "qubo":
            if tk[1] != "ok" or int(tk[2]) != out[1] or Fraction(tk[4]) != out[2] or Fraction(tk[5]) != out[3]:
                res.disagree(what, out[1:], tk[1:])
        elif out[0] == "routes":
            t0 = MU.Toks(tk[1:])
            mr = [[str(VU.dummy_free(t)) for t in r] for r in t0.lst(lambda: t0.lst(t0.tok))]
            if mr != out[1]:
                res.disagree(what, out[1], mr)
        elif out[0] == "chk":
            f_, c_ = tk[1].split(":")[1] == "1", Fraction(tk[1].split(":")[2])
            if f_ != out[1] or (out[1] and c_ != out[2]):
                res.disagree(what, out[1:], tk[1])
        elif out[0] == "route":
            pr = tk[1].split(":")
            if (pr[1] == "1", pr[2] == "1") != (out[1], out[2]):
                res.disagree(what, out[1:], tk[1])
        if res.disagreements:
            return
    k = next(i for i, p_ in enumerate(parts) if p_.startswith("final "))
    mg = MU.parse_graph(MU.Toks(parts[k][6:].split()))
    g = VU.graph_of(o)
    if VU.canon_graph(g) != VU.canon_graph(mg):
        res.disagree("path object machine: graph after the history", [a for a in g["arcs"] if a not in mg["arcs"]][:3], [a for a in mg["arcs"] if a not in g["arcs"]][:3])
    tr = MU.Toks(parts[k + 1].split())
    mroutes = tr.lst(lambda: tr.lst(tr.nat))
    if [[int(i) for i in r] for r in o.routes] != mroutes:
        res.disagree("path object machine: route pool after the history", [[int(i) for i in r] for r in o.routes][:4], mroutes[:4])
    mcosts = [Fraction(t) for t in parts[k + 2].split()[1:]]
    if [F(c) for c in o.route_costs] != mcosts:
        res.disagree("path object machine: route costs after the history", [fs(F(c)) for c in o.route_costs][:6], [fs(c) for c in mcosts][:6])
    msol = parts[-1].split()
    isol = None if o.feasible_solution is None else [F(v) for v in np.asarray(o.feasible_solution).ravel()]
    msolv = None if msol == ["none"] else [Fraction(t) for t in msol[1:]]
    if isol != msolv:
        res.disagree("path object machine: stored solution after the history", isol, msolv)
    res.features.append("path-machine:compared")
    if any(x[1:2] == ("raised",) for x in impl):
        res.features.append("path-machine:some-call-raised")


def correspond_flags(res, drv, case):
    """the flag-level model (VrpModel/CacheFlags.lean: one function per Python method, reset sites at the code's program points,
    partial state after a raise) against the real object, operation by operation: reply, the flags after every call, and at the end
    graph, vehicles and stored solution.  The history continues after a raising heuristic."""
    form = case["form"]
    if form == "path":
        return correspond_path_flags(res, drv, case)
    if form not in ("arc", "seq"):
        return
    if case.get("mutators") and not FLAG_MODEL_HAS_MUTATORS:
        return
    import random
    rnd = random.Random(case.get("seed", 0))
    o, _ = FU.build_form(case, with_heur=False)
    inst = FU.inst_tokens(o, form)
    ops, impl = [], []
    relabelled = False

    def flags():
        if form == "arc":
            return [o.variables_enumerated, o.objective_built, o.constraints_built]
        return [o.variables_enumerated, o.objective_built, o.lin_con_built, o.quad_con_built]
    for op in case["hist"]:
        kind = op[0]
        try:
            if kind == "n":
                ops.append("n")
                out = ("n", int(o.get_num_variables()))
            elif kind == "idx":
                vm = list(o.var_mapping) if o.variables_enumerated and len(o.var_mapping) and rnd.random() < 0.6 else None
                box = tuple_box(o, form)
                if not vm and not box:
                    continue        # no tuple inside the index ranges exists (out-of-range arguments are outside the lookup model)
                u = tuple(rnd.choice(vm)) if vm else rnd.choice(box)
                if form == "arc":
                    ops.append(f"idx {int(u[0])} {fs(F(u[1]))} {int(u[2])} {fs(F(u[3]))}")
                else:
                    ops.append(f"idx {int(u[0])} {int(u[1])} {int(u[2])}")
                r = o.get_var_index(*u)
                out = ("idx", None if r is None else int(r))
            elif kind == "tup":
                n_now = int(o.num_variables) if o.variables_enumerated else 0
                k = rnd.choice([0, max(n_now - 1, 0), n_now, n_now + 2])
                ops.append(f"tup {k}")
                r = o.get_var_tuple_index(k)
                out = ("tup", None if r is None else tuple(F(t) if isinstance(t, float) else int(t) for t in r))
            elif kind == "obj":
                ops.append("obj")
                c, Q = o.get_objective_data()
                Qd = Q.toarray() if hasattr(Q, "toarray") else np.asarray(Q)
                out = ("obj", [F(x) for x in np.asarray(c).ravel()], [[F(x) for x in row] for row in Qd])
            elif kind == "con":
                ops.append("con")
                A, b, R, r_ = o.get_constraint_data()
                Ad = A.toarray() if hasattr(A, "toarray") else np.asarray(A)
                Rd = R.toarray() if hasattr(R, "toarray") else np.asarray(R)
                out = ("con", [[F(x) for x in row] for row in Ad.reshape(len(b), -1)] if len(b) else [], [F(x) for x in np.asarray(b).ravel()],
                       [[F(x) for x in row] for row in Rd], tuple(int(t) for t in Ad.shape))
            elif kind in ("qubo_o", "qubo_f"):
                feas = kind == "qubo_f"
                ops.append(f"qubo {1 if feas else 0} none")
                Q, k, shape = VU.qubo_dense(o, feas, None)
                out = ("qubo", int(shape[0]), k, sum((x for row in Q for x in row), Fraction(0)))
            elif kind == "heur":
                ops.append(f"heur {op[1]}")
                np.random.seed(case.get("seed", 0))
                o.make_feasible(VU.val(op[1]))
                out = ("heur", "ok")
            elif kind == "routes":
                # route decoding is an operation of the flag machine: it enumerates lazily and (sequence) reads the cached fixed values.
                # Vector: the stored solution (possibly stale after a mutator), or a 0/1 vector of the current / another length
                sol = o.feasible_solution
                n_now = int(o.num_variables) if o.variables_enumerated else rnd.randint(0, 6)
                if sol is not None and rnd.random() < 0.7:
                    x = [int(round(float(v))) for v in np.asarray(sol).ravel()]
                else:
                    x = [rnd.choice([0, 0, 1]) for _ in range(rnd.choice([n_now, n_now, max(n_now - 1, 0), n_now + 1]))]
                ops.append(f"dec {len(x)} " + " ".join(str(v) for v in x))
                r = o.get_routes(np.array(x, dtype=float))
                if form == "seq":
                    out = ("routes", [[int(t) for t in route] for route in r])
                else:
                    out = ("routes", [[(int(st[0]), F(st[1])) for st in route] for route in r])
            elif kind == "tp":
                ops.append(f"tp {len(op[1])} " + " ".join(op[1]))
                o.add_time_points([VU.val(t) for t in op[1]])
                out = ("mut", "done")
            elif kind == "setV":
                v_ = int(o.max_vehicles) if op[1] == "same" else int(op[1])
                ops.append(f"setV {v_}")
                o.set_max_vehicles(v_)
                out = ("mut", "done")
            elif kind == "setL":
                l_ = int(o.max_sequence_length) if op[1] == "same" else int(op[1])
                ops.append(f"setL {l_}")
                o.set_max_sequence_length(l_)
                out = ("mut", "done")
            elif kind == "addarc":
                ops.append(f"addarc {op[1]} {op[2]} {op[3]} {op[4]}")
                r = o.add_arc(op[1], op[2], VU.val(op[3]), VU.val(op[4]))
                out = ("mut", f"done {1 if r else 0}")
            elif kind == "addnode":
                ops.append(f"addnode {op[1]} {op[2]} {op[3]} {op[4]}")
                o.add_node(op[1], VU.val(op[2]), (VU.val(op[3]), VU.val(op[4])))
                out = ("mut", "done")
            elif kind == "setdepot":
                ops.append(f"setdepot {op[1]}")
                o.set_depot(op[1])
                out = ("mut", "done")
            else:
                continue
        except Exception as e:  # noqa
            out = (kind if kind not in ("qubo_o", "qubo_f") else "qubo", "raised", core.err_kind(e))
            if kind in MUTATORS:
                out = ("mutraise", "raised", core.err_kind(e))
        impl.append((out, [int(bool(x)) for x in flags()]))
        if not relabelled and FU.enumerated(o) and FU.var_order(drv, o, form) is not None:
            # the implementation numbers its variables in another order than the model (no property fixes the order): replies that
            # are indexed by variable number are then not compared call by call (flags, raise / return, sizes, QUBO digests, mutator
            # replies, final graph / vehicles / stored solution still are)
            relabelled = True
    if not ops:
        return
    rep = drv.ask(f"flags.{form} {inst} {len(ops)} {' '.join(ops)}")
    if not rep.startswith("ok "):
        res.disagree("flags command", "ok", rep[:120])
        return
    parts = [p.strip() for p in rep[3:].split(" | ")]
    groups = parts[:len(ops)]
    for step, (g_, (out, fl_)) in enumerate(zip(groups, impl)):
        dig, _, mfl = g_.partition(" ; flags ")
        tk = dig.split()
        what = f"{form} flag machine, call #{step} `{ops[step]}`"
        if [int(t) for t in mfl.split()] != fl_:
            res.disagree(what + ": flags after the call", fl_, mfl)
            return
        if ops[step].startswith("dec ") and (out[1:2] == ("raised",) or "raised" in tk[:3] or any(t.startswith("err:") for t in tk[:3])):
            # decoding a vector that is not a solution: whether the decoder raises (assertion) or returns something is not part of the
            # property; the flags after the call were compared above
            continue
        if out[1:2] == ("raised",):
            # (the model and the code must both raise; which exception is not part of the property)
            if not ("raised" in tk[:3] or any(t.startswith("err:") for t in tk[:3])):
                res.disagree(what + ": raised", out[2], dig[:80])
                return
            continue
        if "raised" in tk[:2] or (len(tk) > 1 and tk[1].startswith("err:")):
            res.disagree(what + ": status", "normal return", dig[:80])
            return
        if relabelled and out[0] in ("idx", "tup", "obj", "con", "routes"):
            continue
        if out[0] == "mut":
            if " ".join(tk) != out[1]:
                res.disagree(what, out[1], " ".join(tk))
        elif out[0] == "n" and int(tk[1]) != out[1]:
            res.disagree(what, out[1], tk[1])
        elif out[0] == "idx" and (None if tk[1] == "none" else int(tk[1])) != out[1]:
            res.disagree(what, out[1], tk[1])
        elif out[0] == "tup":
            m = None if tk[1] == "none" else tuple(Fraction(t) for t in tk[1:])
            if m != (None if out[1] is None else tuple(Fraction(t) for t in out[1])):
                res.disagree(what, out[1], tk[1:])
        elif out[0] in ("obj", "con"):
            secs = [x.split() for x in dig[len(out[0]):].split(" ; ")]
            t0 = MU.Toks(secs[0])
            if out[0] == "obj":
                mc = t0.lst(lambda: Fraction(t0.tok()))
                if form == "seq":
                    t1 = MU.Toks(secs[1])
                    tri = t1.lst(lambda: (t1.nat(), t1.nat(), Fraction(t1.tok())))
                    side = int(secs[2][0])
                    mQ = _dense(tri, side, side)
                else:
                    side = int(secs[1][0])
                    mQ = [[Fraction(0)] * side for _ in range(side)]
                if mc != out[1] or mQ != out[2]:
                    res.disagree(what, (out[1], len(out[2])), (mc, side))
            else:
                tri = t0.lst(lambda: (t0.nat(), t0.nat(), Fraction(t0.tok())))
                t1 = MU.Toks(secs[1])
                mb = t1.lst(lambda: Fraction(t1.tok()))
                if form == "seq":
                    t2 = MU.Toks(secs[2])
                    pairs = t2.lst(lambda: (t2.nat(), t2.nat(), Fraction(1)))
                    rows, cols, side = (int(t) for t in secs[3][:3])
                    mR = _dense(pairs, side, side)
                else:
                    rows, cols, side = (int(t) for t in secs[2][:3])
                    mR = [[Fraction(0)] * side for _ in range(side)]
                mA = _dense(tri, rows, cols)
                iA = out[1] if out[1] else []
                same_lin = (mb == out[2] and (mA or []) == iA) or \
                    (len(mb) == len(out[2]) and len(mA or []) == len(iA) == len(mb) and VU.canon_rows(mA or [], mb) == VU.canon_rows(iA, out[2]))
                if not same_lin or mR != out[3] or ((rows, cols) != out[4] and len(out[2]) > 0):
                    res.disagree(what, (out[2], out[4]), (mb, (rows, cols)))
        elif out[0] == "routes":
            t0 = MU.Toks(tk[1:])
            if form == "seq":
                mr = t0.lst(lambda: t0.lst(t0.nat))
            else:
                mr = t0.lst(lambda: t0.lst(lambda: (t0.nat(), Fraction(t0.tok()))))
            if mr != out[1]:
                res.disagree(what, out[1], mr)
        elif out[0] == "qubo":
            if tk[1] != "ok" or int(tk[2]) != out[1] or Fraction(tk[4]) != out[2] or Fraction(tk[5]) != out[3]:
                res.disagree(what, out[1:], tk[1:])
        if res.disagreements:
            return
    k = next(i for i, p in enumerate(parts) if p.startswith("final "))
    mg = MU.parse_graph(MU.Toks(parts[k][6:].split()))
    g = VU.graph_of(o)
    if VU.canon_graph(g) != VU.canon_graph(mg):
        res.disagree(f"{form} flag machine: graph after the history", [a for a in g["arcs"] if a not in mg["arcs"]][:3], [a for a in mg["arcs"] if a not in g["arcs"]][:3])
    if form == "seq":
        tv = parts[k + 1].split()
        if int(tv[0]) != int(o.max_vehicles) or [Fraction(t) for t in tv[2:]] != [F(c) for c in o.vehicle_cost]:
            res.disagree("seq flag machine: vehicles after the history", (int(o.max_vehicles), [fs(F(c)) for c in o.vehicle_cost]), tv)
    msol = parts[-1].split()
    isol = None if o.feasible_solution is None else [F(v) for v in np.asarray(o.feasible_solution).ravel()]
    msolv = None if msol == ["none"] else [Fraction(t) for t in msol[1:]]
    if relabelled and msolv is not None:
        msolv = FU.vec_to_impl(FU.var_order(drv, o, form), msolv) if FU.enumerated(o) else None
        isol = isol if msolv is not None else None      # (a stale solution of an object that is not enumerated cannot be relabelled)
    if isol != msolv:
        res.disagree(f"{form} flag machine: stored solution after the history", isol, msolv)
    res.features.append("flag-machine:compared" + ("(modulo variable numbering)" if relabelled else ""))
    for x in impl:
        if x[0][0] == "routes":
            res.features.append("flag-machine:decode-" + ("raised" if x[0][1:2] == ("raised",) else "returned"))
    if any(x[0][1:2] == ("raised",) for x in impl):
        res.features.append("flag-machine:some-call-raised")
        if impl[-1][0][1:2] != ("raised",):
            res.features.append("flag-machine:history-continued-after-raise")


def run_case(case, drv):
    res = Result(key=core.case_key(case))
    form = case["form"]
    hist = case["hist"]
    res.features.append(f"form:{form}")
    # index of the last heuristic run: queries before it are dropped in the twin
    last = max([i for i, op in enumerate(hist) if op[0] == "heur" or op[0] in MUTATORS], default=-1)
    twin_hist = [op for i, op in enumerate(hist) if op[0] == "heur" or op[0] in MUTATORS or i > last]
    oa, sa, changed = run_history(case, hist, res, check_twice=True)
    ob, sb, _ = run_history(case, twin_hist)
    query_before = any(op[0] != "heur" and op[0] not in MUTATORS for op in hist[:max(last, 0)])
    res.features += [f"heur_runs:{sum(1 for op in hist if op[0] == 'heur')}", f"query_before_heur:{query_before}", f"instance_changed:{changed}"]
    if sa != sb:
        res.fail(f"{form}:heuristic-outcome-depends-on-queries", f"with the earlier queries the heuristic ended '{sa}', without them '{sb}'")
        return res
    if sa != "ok":
        res.nontrivial = False
        correspond_flags(res, drv, case)      # the flag-level model follows the object through a raising heuristic
        return res
    A, Bst = full_state(oa, form), full_state(ob, form)
    for key in A:
        if A[key] != Bst[key]:
            res.fail(f"{form}:state-depends-on-queries:{key}", f"'{key}' after the history differs from the run without the earlier queries: "
                                                              f"{core._short(A[key], 200)} vs {core._short(Bst[key], 200)}")
            break
    # unchanged data: the battery in another order gives the same answers
    order2 = ["qubo_f", "routes", "con", "idx", "obj", "tup", "qubo_o", "n"]
    again = {q: query(oa, form, q) for q in order2}
    for q in order2:
        if again[q] != A[q]:
            res.fail(f"{form}:order-dependent:{q}", f"query {q} returns a different result after other queries on unchanged data")
            break
    # any order from a fresh object: the index maps asked FIRST must answer like they do after the size was asked
    fresh_ref, _ = FU.build_form(case, with_heur=False)
    ref = {q: query(fresh_ref, form, q) for q in ["n", "tup", "idx", "obj", "con", "qubo_o", "qubo_f"]}
    for first in (["idx", "tup"], ["tup", "idx"], ["con", "idx"], ["qubo_f", "tup"]):
        fresh, _ = FU.build_form(case, with_heur=False)
        for q in first + ["n", "obj", "qubo_o"]:
            got = query(fresh, form, q)
            if got != ref[q]:
                res.fail(f"{form}:order-dependent-fresh:{q}", f"on a fresh object, query '{q}' issued in the order {first + ['n', 'obj', 'qubo_o']} returns "
                                                              f"{core._short(got, 150)} but {core._short(ref[q], 150)} when the size is asked first")
                break
        if res.failures:
            break
    check_decode_first(case, res)
    res.nontrivial = query_before and changed
    if not case.get("mutators"):
        correspond_cache(res, drv, case)
    correspond_flags(res, drv, case)
    return res
