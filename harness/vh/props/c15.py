"""C15 — VRPTW graph stays self-consistent under any construction order."""
from fractions import Fraction
import numpy as np

from .. import core
from .. import gen as G
from ..core import Result, fs, F

ID = "C15"
RULE = ("seeded call histories (length 3..14) of add_node / add_arc / set_depot on VRPTW (and on the sequence-based overrides, strict and "
        "non-strict) over a small name pool with deliberate duplicates/unknown names, windows with integer/quarter ends incl. inf and inverted "
        "ones, travel times 0..3, costs -3..5; biased towards 'arcs ... set_depot(non-first node)'; non-trivial = history contains a "
        "successful add_arc and a later set_depot of a node that is not first; distinct = distinct history")
ASSUMPTIONS = [
    "node objects are immutable after creation (the code never mutates a Node), so an arc is modelled by the names of its endpoint objects",
    "the oracle checks object identity (arc.origin is nodes[i]) on the real graph; the model checks names",
]
PARTIAL = []
BUDGET_S = {"quick": 60, "thorough": 600}
NAMES = ["a", "b", "c", "d", "e"]


def gen_op(rng, have):
    r = rng.random()
    if r < 0.35 or len(have) < 2:
        nm = rng.choice(NAMES) if rng.random() < 0.8 else rng.choice(have or NAMES)
        lo = Fraction(rng.randint(0, 12), 4)
        hi = rng.choice(["inf", "inf", None, None, None, "inv"])
        if hi is None:
            hi = fs(lo + Fraction(rng.randint(0, 12), 4))
        elif hi == "inv":
            hi = fs(lo - Fraction(rng.randint(1, 4), 4))
        return ["N", nm, fs(Fraction(rng.randint(-8, 8), 4)), fs(lo), hi]
    if r < 0.8:
        pool = have if rng.random() < 0.92 else NAMES + ["zz"]
        return ["A", rng.choice(pool), rng.choice(pool), fs(Fraction(rng.randint(0, 12), 4)), fs(Fraction(rng.randint(-12, 20), 4))]
    pool = have if rng.random() < 0.9 else NAMES + ["zz"]
    return ["D", rng.choice(pool)]


def gen(rng, tier):
    n_cases = 400 if tier == "quick" else 6000
    for k in range(n_cases):
        flavor = rng.choice(["base", "base", "seqS", "seqN", "arc"])
        ops, have = [], []
        L = rng.randint(3, 14 if tier == "quick" else 22)
        for _ in range(L):
            op = gen_op(rng, have)
            if op[0] == "N" and op[1] not in have and (op[4] == "inf" or Fraction(op[4]) >= Fraction(op[3])):
                have.append(op[1])
            ops.append(op)
        if have and rng.random() < 0.5:
            ops.append(["D", rng.choice(have)])
            if len(have) >= 2 and rng.random() < 0.5:
                ops.append(["A", rng.choice(have), rng.choice(have), "0", "1"])
        yield dict(flavor=flavor, ops=ops)


def shrink(case):
    ops = case["ops"]
    for i in range(len(ops)):
        yield dict(case, ops=ops[:i] + ops[i + 1:])
    if case["flavor"] != "base":
        yield dict(case, flavor="base")


def make_obj(flavor):
    from vrpqubo.routing_problem import VRPTW, ArcBasedRoutingProblem, SequenceBasedRoutingProblem
    if flavor == "base":
        o = VRPTW()
        return o, o
    if flavor == "arc":
        o = ArcBasedRoutingProblem()
        return o, o.vrptw
    o = SequenceBasedRoutingProblem(None, strict=(flavor == "seqS"))
    return o, o.vrptw


def val(t):
    return float("inf") if t == "inf" else float(Fraction(t))


def state_of(v):
    nodes = [(n.name, F(n.demand), F(n.time_window[0]), "inf" if n.time_window[1] == float("inf") else F(n.time_window[1]))
             for n in v.nodes]
    # (the arc table is a mapping: the order in which it lists its arcs is not part of the property)
    arcs = sorted((k[0], k[1], a.origin.name, a.destination.name, F(a.travel_time), F(a.cost)) for k, a in v.arcs.items())
    return nodes, arcs, list(v.node_names)


def state_str(nodes, arcs):
    toks = [str(len(nodes))]
    for n in nodes:
        toks += [n[0], fs(n[1]), fs(n[2]), fs(n[3])]
    toks.append(str(len(arcs)))
    for a in arcs:
        toks += [str(a[0]), str(a[1]), a[2], a[3], fs(a[4]), fs(a[5])]
    return " ".join(toks)


def invariant(v, res, where):
    names = v.node_names
    if len(set(names)) != len(names):
        res.fail("inv:names-unique", f"duplicate node names {names} {where}")
    if len(names) != len(v.nodes) or any(n.name != nm for n, nm in zip(v.nodes, names)):
        res.fail("inv:names-aligned", f"node_names {names} not aligned with nodes {[n.name for n in v.nodes]} {where}")
    for (i, j), a in v.arcs.items():
        if not (0 <= i < len(v.nodes) and 0 <= j < len(v.nodes)) or v.nodes[i] is not a.origin or v.nodes[j] is not a.destination:
            res.fail("inv:arc-key", f"arc {a.origin.name}->{a.destination.name} filed under key {(i, j)} = "
                                    f"({names[i] if i < len(names) else '?'},{names[j] if j < len(names) else '?'}) {where}")
            break


def run_case(case, drv):
    flavor = case["flavor"]
    res = Result(key=core.case_key(case))
    obj, v = make_obj(flavor)
    mflavor = "base" if flavor in ("base", "arc") else flavor
    toks = []
    for op in case["ops"]:
        toks += op
    rep = drv.ask(f"vrptw {mflavor} {len(case['ops'])} " + " ".join(toks))
    head, _ = core.split_reply(rep)
    mparts = [p.strip() for p in rep[3:].split("|")] if case["ops"] else []
    seen_arc = False
    for idx, op in enumerate(case["ops"]):
        before = state_of(v)
        where = f"after call #{idx} {op}"
        try:
            if op[0] == "N":
                hi = val(op[4])
                obj.add_node(op[1], val(op[2]), (val(op[3]), hi))
                out = "ok"
            elif op[0] == "D":
                obj.set_depot(op[1])
                out = "ok"
            else:
                r = obj.add_arc(op[1], op[2], val(op[3]), val(op[4]))
                out = f"ok:{1 if r else 0}"
        except Exception as e:  # noqa
            out = core.err_kind(e)
        after = state_of(v)
        impl_line = f"{out} {state_str(after[0], after[1])} none none"
        def _canon(line):      # the property says "raise an error", not which one; arcs are compared as a set
            tk = line.split()
            try:
                nn = int(tk[1])
                pos = 2 + 4 * nn
                na = int(tk[pos])
                arcs_ = sorted((int(tk[pos + 1 + 6 * q]), int(tk[pos + 2 + 6 * q])) + tuple(tk[pos + 3 + 6 * q: pos + 7 + 6 * q]) for q in range(na))
                tk = tk[:pos + 1] + [str(t) for a_ in arcs_ for t in a_] + tk[pos + 1 + 6 * na:]
            except (ValueError, IndexError):
                pass
            return core.err_class(tk[0]) + " " + " ".join(tk[1:])
        if idx < len(mparts) and _canon(impl_line) != _canon(mparts[idx]):
            res.disagree(f"call #{idx} {op}", impl_line, mparts[idx])
        # ---------- oracle: the property stated on the real object
        invariant(v, res, where)
        names_b = before[2]
        if out.startswith("err"):
            if after != before:
                res.fail("err:state-changed", f"call raised but changed the graph {where}")
        if op[0] == "N":
            dup = op[1] in names_b
            inverted = op[4] != "inf" and Fraction(op[4]) < Fraction(op[3])
            if (dup or inverted) and not out.startswith("err"):
                res.fail("add_node:accepted-bad", f"add_node accepted {'duplicate name' if dup else 'inverted window'} {where}")
            if not dup and not inverted and out != "ok":
                res.fail("add_node:rejected-good", f"add_node raised on a valid node {where}: {out}")
        if op[0] == "D":
            if op[1] not in names_b:
                if not out.startswith("err"):
                    res.fail("set_depot:unknown-accepted", f"set_depot accepted unknown name {where}")
            else:
                if out != "ok":
                    res.fail("set_depot:raises", f"set_depot raised {out} {where}")
                elif v.node_names[0] != op[1]:
                    res.fail("set_depot:not-first", f"depot {op[1]} is not first {where}")
                if names_b.index(op[1]) != 0 and seen_arc:
                    res.features.append("set_depot_after_arcs_nonfirst")
        if op[0] == "A":
            if op[1] not in names_b or op[2] not in names_b:
                if not out.startswith("err"):
                    res.fail("add_arc:unknown-accepted", f"add_arc accepted unknown name {where}")
            elif out.startswith("err"):
                res.fail("add_arc:raises", f"add_arc raised {out} {where}")
            else:
                i, j = names_b.index(op[1]), names_b.index(op[2])
                ni, nj = before[0][i], before[0][j]
                t = Fraction(op[3])
                if flavor == "seqS" and i != 0:
                    ok = (nj[3] == "inf") if ni[3] == "inf" else (nj[3] == "inf" or ni[3] + t <= nj[3])
                else:
                    ok = nj[3] == "inf" or ni[2] + t <= nj[3]
                stored = (i, j) in v.arcs and v.arcs[(i, j)].origin is v.nodes[i] and v.arcs[(i, j)].destination is v.nodes[j] \
                    and F(v.arcs[(i, j)].travel_time) == t and F(v.arcs[(i, j)].cost) == Fraction(op[4])
                changed = after[1] != before[1]
                if (out == "ok:1") != ok:
                    res.fail("add_arc:result-vs-timing", f"add_arc returned {out} but timing rule says {ok} {where}")
                if (out == "ok:1") != stored and not (out == "ok:0" and not changed):
                    res.fail("add_arc:result-vs-stored", f"add_arc returned {out} but stored={stored} {where}")
                if out == "ok:0" and changed:
                    res.fail("add_arc:result-vs-stored", f"add_arc returned False but changed the arc set {where}")
                if out == "ok:1":
                    seen_arc = True
    res.features += [f"flavor:{flavor}", f"len:{min(len(case['ops']) // 4 * 4, 20)}+"]
    res.nontrivial = "set_depot_after_arcs_nonfirst" in res.features
    return res


EXHAUSTIVE_SCOPE = "all call histories of length <= 4 over the alphabet {add_node a/b (window [0,2] / [3,inf) / inverted), add_arc a->b / b->a / a->zz (t = 1, 4), set_depot a / b / zz} x flavours {base, seqS}"


def gen_exhaustive():
    import itertools
    alphabet = [["N", "a", "0", "0", "2"], ["N", "b", "1", "3", "inf"], ["N", "a", "0", "2", "1"],
                ["A", "a", "b", "1", "1"], ["A", "b", "a", "1", "2"], ["A", "b", "a", "4", "2"], ["A", "a", "zz", "1", "0"],
                ["D", "a"], ["D", "b"], ["D", "zz"]]
    for L in range(1, 5):
        for hist in itertools.product(alphabet, repeat=L):
            for flavor in ("base", "seqS"):
                yield dict(flavor=flavor, ops=[list(op) for op in hist])
