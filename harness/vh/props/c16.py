"""C16 — Formulations are isolated from their source graph and from each other."""
from fractions import Fraction
import itertools
import numpy as np

from .. import core
from .. import vrp_util as VU
from .. import form_util as FU
from .. import mirp_util as MU
from .props_common import light_state
from ..core import Result, fs, fl, F

ID = "C16"
RULE = ("seeded sources: dyadic MIRPs (all three getters, with the feasibility heuristic) requested in all 6 orders, each getter twice; and VRPTW "
        "graphs from which the three formulations (sequence strict and non-strict) are constructed directly, made feasible and queried in seeded "
        "orders; deep value snapshots of the source before/after every step, object-identity disjointness of nodes/arcs/containers, and "
        "fingerprints of every formulation compared across orders; non-trivial = a heuristic run changed some formulation's graph; distinct = "
        "distinct (source, order)")
ASSUMPTIONS = [
    "that copy.deepcopy yields disjoint objects is Python runtime behaviour: carried by the identity-disjointness test on real objects (test, not theorem)",
    "the model's granularity is the graph cell of an explicit object store",
]
PARTIAL = ["that copy.deepcopy yields disjoint Python objects: identity-disjointness test on real objects, not a theorem (the object-store theorems certify which cell each call reads and writes)"]
BUDGET_S = {"quick": 150, "thorough": 1500}
ORDERS = list(itertools.permutations(["arc", "path", "seq"]))


def gen(rng, tier):
    n_cases = 40 if tier == "quick" else 400
    for k in range(n_cases):
        if k % 2 == 0:
            if k % 4 == 0:
                spec = small_mirp(rng)      # mostly integer data: all three getters (incl. the arc heuristic) succeed
            else:
                spec = MU.gen_mirp(rng, "quick")
                spec["order"] = ["TRAVEL", "EXIT", "ENTRY"]
                spec["horizon"] = fs(min(Fraction(spec["horizon"]), Fraction(10)))
            yield dict(mode="mirp", spec=spec, strict=rng.random() < 0.5,
                       plain_first=[f for f in ("arc", "path", "seq") if rng.random() < 0.4])
        else:
            yield dict(mode="vrptw", spec=VU.gen_vrptw(rng, nmax=4), grid=None, seed=rng.randrange(10 ** 6),
                       order=rng.sample(["arc", "path", "seqS", "seqN"], 4), heur=rng.choice(["1", "10", "1000"]))


def small_mirp(rng):
    """a MIRP small enough that all three formulations (incl. the sequence-based one) stay below ~1000 variables; integer data in two of
    three cases, so that every arrival time is on the arc-based integer grid and the arc heuristic can succeed"""
    size = Fraction(rng.choice([1, 2]))
    integral = rng.random() < 0.67
    ports = []
    for kind in ("S", "D"):
        rate = Fraction(1) if integral else Fraction(rng.choice([1, 1, 2]), 2)
        cap = size + (Fraction(rng.randint(0, 2)) if integral else Fraction(rng.randint(0, 4), 2))
        init = Fraction(rng.randint(0, int(cap))) if integral else Fraction(rng.randint(0, int(cap * 2)), 2)
        ports.append(dict(name=f"{kind}1", init=fs(init), rate=fs(rate if kind == "S" else -rate), cap=fs(cap)))
    if rng.random() < 0.5:
        ports.reverse()
    hor = Fraction(rng.randint(3, 5)) if integral else Fraction(rng.randint(6, 11), 2)
    return dict(size=fs(size), horizon=fs(hor), ports=ports, dist={"S1,D1": fs(Fraction(rng.choice([1, 2])))},
                speed="1", unit=fs(Fraction(rng.randint(0, 4), 2)), sfee={"S1": fs(Fraction(rng.randint(0, 4), 2))},
                dfee={"D1": fs(Fraction(rng.randint(5, 9), 2))}, exit=["0", "0"],
                entry=[fs(Fraction(rng.randint(1, 4)) if integral else Fraction(rng.randint(2, 8), 2)), "0", "0"],
                order=["TRAVEL", "EXIT", "ENTRY"])


def vrptw_snapshot(v):
    return dict(g=MU.graph_state(v), names=list(v.node_names), depot=v.depot_index)


def mirp_snapshot(m):
    return dict(size=F(m.cargo_size), horizon=F(m.time_horizon), supply=list(m.supply_ports), demand=list(m.demand_ports),
                mapping={k: list(v) for k, v in m.port_mapping.items()}, freq={k: F(v) for k, v in m.port_frequency.items()},
                v=vrptw_snapshot(m.vrptw))


def identities(v):
    """the mutable containers of a graph (node / arc objects are never modified in place by the package, so two graphs may share them
    without being able to influence each other; actual interference is caught by the value snapshots)"""
    return {id(v), id(v.nodes), id(v.node_names), id(v.arcs)}


def fingerprint(o, form):
    return light_state(o, form), None


def run_case(case, drv):
    res = Result(key=core.case_key(case))
    res.features.append(f"mode:{case['mode']}")
    changed_any = False
    if case["mode"] == "mirp":
        prints = {}
        for order in ORDERS:
            m, results = MU.build_py(case["spec"])
            if any(r[0] != "ok" for r in results):
                res.nontrivial = False
                res.features.append("source-construction-raised")
                return res
            snap0 = mirp_snapshot(m)
            src_ids = identities(m.vrptw)
            objs = {}
            outcome = {}
            for form in order:
                returned = False
                try:
                    np.random.seed(7)
                    getter = {"arc": m.get_arc_based, "path": m.get_path_based,
                              "seq": lambda **kw: m.get_sequence_based(strict=case["strict"], **kw)}[form]
                    # first request with or without the heuristic (non-default argument), then again in every way
                    first_plain = form in case.get("plain_first", [])
                    o = getter(make_feasible=False) if first_plain else getter()
                    returned = True
                    if first_plain:
                        again0 = getter(make_feasible=False)
                        if again0 is not o:
                            res.fail("getter:not-idempotent", f"requesting the {form} formulation twice (make_feasible=False) returned two objects (order {order})")
                        # (same generator flow as the default getter: the heuristic runs right after the pool was sampled)
                        o.make_feasible(m.estimate_high_cost())
                    objs[form] = o
                    outcome[form] = "ok"
                    again = getter()
                    if again is not o:
                        res.fail("getter:not-idempotent", f"requesting the {form} formulation twice returned two objects (order {order})")
                except Exception as e:  # noqa
                    outcome[form] = core.err_kind(e)
                    if not returned:
                        # a request that raised must not leave a half-configured formulation in the MIRP: the same request again
                        # fails the same way instead of silently returning what the failed one left behind
                        try:
                            np.random.seed(7)
                            left = getter(make_feasible=False) if form in case.get("plain_first", []) else getter()
                            res.fail("getter:failed-request-leaves-object",
                                     f"requesting the {form} formulation raised {e!r}; the same request again returned an object "
                                     f"({type(left).__name__}, {left.get_num_variables()} variables, feasible_solution "
                                     f"{'set' if left.feasible_solution is not None else 'None'}) (order {order})")
                            return res
                        except Exception:  # noqa
                            pass
                if mirp_snapshot(m) != snap0:
                    res.fail("source:mirp-changed", f"MIRP data changed after requesting {form} (order {order})")
                    return res
                if form in objs and identities(objs[form].vrptw) & src_ids:
                    res.fail("alias:source", f"{form} formulation shares objects with the MIRP's graph (order {order})")
                    return res
            for a, b in itertools.combinations(objs, 2):
                if identities(objs[a].vrptw) & identities(objs[b].vrptw):
                    res.fail("alias:formulations", f"{a} and {b} formulations share graph objects (order {order})")
                    return res
            for form in ("arc", "path", "seq"):
                fp = (outcome[form], fingerprint(objs[form], form)[0] if form in objs else None)
                if form in prints and prints[form][0] != fp:
                    res.fail(f"order:{form}", f"the {form} formulation differs between request orders {prints[form][1]} and {order}")
                    return res
                prints.setdefault(form, (fp, order))
                if form in objs and MU.graph_state(objs[form].vrptw) != snap0["v"]["g"]:
                    changed_any = True
        res.features.append(f"outcomes:{'-'.join(sorted(set(p[0][0] for p in prints.values())))}")
        for f_, p_ in prints.items():
            res.features.append(f"getter-{f_}:{'ok' if p_[0][0] == 'ok' else 'raised'}")
        res.nontrivial = changed_any
        return res

    # ---- formulations constructed directly from one VRPTW graph
    from vrpqubo.routing_problem import ArcBasedRoutingProblem, PathBasedRoutingProblem, SequenceBasedRoutingProblem
    v = VU.build_vrptw(case["spec"])
    snap0 = vrptw_snapshot(v)
    src_ids = identities(v)
    import random
    rnd = random.Random(case["seed"])
    grid = VU.gen_grid(rnd, case["spec"])
    objs = {}
    recipe = {"arc": grid, "path": FU.gen_routes(rnd, case["spec"], 3)}
    for f in ("seqS", "seqN"):
        # (None = the setter is never called: the object keeps its constructor default)
        recipe[f] = (rnd.choice([None, 0, 1, 2]), rnd.choice([3, 4]))

    def construct(form):
        if form == "arc":
            o = ArcBasedRoutingProblem(v)
            o.add_time_points([VU.val(t) for t in recipe["arc"]])
        elif form == "path":
            o = PathBasedRoutingProblem(v)
            for r in recipe["path"]:
                try:
                    o.add_route(list(r))
                except ValueError:
                    pass
        else:
            o = SequenceBasedRoutingProblem(v, strict=(form == "seqS"))
            if recipe[form][0] is not None:
                o.set_max_vehicles(recipe[form][0])
            o.set_max_sequence_length(recipe[form][1])
        return o
    for form in case["order"]:
        o = construct(form)
        objs[form] = o
        if vrptw_snapshot(v) != snap0:
            res.fail("source:graph-changed", f"constructing the {form} formulation changed the source graph")
            return res
        if identities(o.vrptw) & src_ids:
            res.fail("alias:source", f"{form} formulation shares objects with the source graph")
            return res
    prints = {f: fingerprint(o, f[:3])[0] for f, o in objs.items()}
    initial = dict(prints)
    for form in case["order"]:
        o = objs[form]
        g0 = MU.graph_state(o.vrptw)
        try:
            np.random.seed(3)
            o.make_feasible(VU.val(case["heur"]))
        except Exception:  # noqa
            pass
        if MU.graph_state(o.vrptw) != g0:
            changed_any = True
        prints[form] = fingerprint(o, form[:3])[0]
        if vrptw_snapshot(v) != snap0:
            res.fail("source:graph-changed", f"make_feasible of the {form} formulation changed the source graph")
            return res
        for other, oo in objs.items():
            if other != form and fingerprint(oo, other[:3])[0] != prints[other]:
                res.fail("interference", f"make_feasible of the {form} formulation changed the {other} formulation built from the same graph")
                return res
    for a, b in itertools.combinations(objs, 2):
        if identities(objs[a].vrptw) & identities(objs[b].vrptw):
            res.fail("alias:formulations", f"{a} and {b} formulations share graph objects")
            return res
    # a formulation constructed NOW from the same source in the same way equals the one constructed before anything else ran
    # (no state shared through class attributes / module globals / default arguments)
    for form in case["order"]:
        try:
            fresh = fingerprint(construct(form), form[:3])[0]
        except Exception as e:  # noqa
            res.fail("leak:fresh-object-raises", f"constructing a second {form} formulation after the others ran raised {e!r}")
            return res
        if fresh != initial[form]:
            res.fail("leak:fresh-object", f"a {form} formulation constructed after the others ran differs from the one constructed first from the same graph")
            return res
    res.nontrivial = changed_any
    return res
