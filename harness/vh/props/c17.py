"""C17 — Model construction is reproducible."""
from fractions import Fraction
import json
import os
import subprocess
import sys
from concurrent.futures import ThreadPoolExecutor

from .. import core
from .. import mirp_util as MU
from ..core import Result, fs, F
from .c16 import small_mirp

ID = "C17"
RULE = ("instances: the G1 example at horizons 15.5 / 20 (thorough: 25, 31), seeded small dyadic MIRPs, seeded random-generator MIRPs; each built "
        "in separate interpreter processes under PYTHONHASHSEED in {0, 1, 4242, 977} and after 0 / 5 / 50 prior draws from numpy's global generator, "
        "and twice in one process; fingerprints = hashes of variable order, constraint / objective / QUBO data (both modes), stored feasible "
        "solution, decoded routes, graph after the heuristic, exported Ising coefficient lines; random MIRP: instance hash for equal explicit seeds; "
        "non-trivial = instance on which at least the path-based pool is sampled (non-empty pool); distinct = distinct instance")
ASSUMPTIONS = [
    "hash randomisation, dict/set iteration order, numpy's Mersenne Twister and scipy.stats are runtime behaviour: this half of the property is a differential test over interpreter runs, not a theorem",
    "the Lean model certifies the dataflow only: the time grid is a sorted de-duplicated list (iteration-order independent), the path-based getter re-seeds before sampling",
]
PARTIAL = ["runtime half (hash randomisation, numpy generator, scipy.stats, separate interpreter processes): subprocess differential test, labelled as test; the Lean theorems certify the dataflow (sorted de-duplicated grid, re-seeding, explicit seeds)"]
BUDGET_S = {"quick": 200, "thorough": 1800}
# (numeric hash seeds only, so that a reported difference reproduces from its replay; 4242 / 977 stand for "some other seed")
CONFIGS = [("0", 0), ("1", 5), ("4242", 50), ("1", 0), ("977", 5), ("0", 50)]


def gen(rng, tier):
    hs = [15.5, 20] if tier == "quick" else [15.5, 20, 25, 31]
    for h in hs:
        yield dict(kind="g1", horizon=h, forms=["arc", "path", "seq"] if h <= 20 else ["arc", "path"])
    for _ in range(3 if tier == "quick" else 20):
        yield dict(kind="mirp", spec=small_mirp(rng), strict=rng.random() < 0.5)
    # formulations built directly from a VRPTW with interchangeable customers (equal costs: every choice the heuristics make is a tie),
    # made feasible by the caller: the result must not depend on the generator state either
    for i in range(2 if tier == "quick" else 8):
        n = rng.randint(2, 3)
        names = [f"c{j}" for j in range(n)]
        t = fs(Fraction(rng.choice([1, 2])))
        spec = dict(nodes=[dict(name="D", demand="0", lo="0", hi="inf")] + [dict(name=x, demand="1", lo="0", hi="inf") for x in names],
                    arcs=[["D", x, t, "1"] for x in names] + [[x, "D", t, "1"] for x in names] +
                         [[x, y, t, "1"] for x in names for y in names if x != y and rng.random() < 0.8],
                    cap=fs(Fraction(rng.choice([1, 2, n]))), init=fs(Fraction(rng.choice([1, 2, n]))))
        if Fraction(spec["init"]) > Fraction(spec["cap"]):
            spec["init"] = spec["cap"]
        yield dict(kind="direct", high=rng.choice(["10", "100"]), forms=["arc", "path", "seq"],
                   cases=dict(arc=dict(form="arc", spec=spec, grid=[fs(Fraction(k)) for k in range(0, 2 * n * int(Fraction(t)) + 2)], seed=1),
                              path=dict(form="path", spec=spec, routes=[], seed=1),
                              seq=dict(form="seq", spec=spec, strict=False, V=rng.choice([1, 2]), L=n + 2, seed=1)))
    # explicit seeds incl. the boundary value 0 (a falsy seed must still be honoured)
    for idx_, sd in enumerate([0, rng.randrange(1, 10 ** 4), 0] + ([rng.randrange(10 ** 4) for _ in range(10)] if tier != "quick" else [])):
        # (an explicit seed may be a Python int or a numpy integer, e.g. an element of np.arange or of rng.integers)
        yield dict(kind="random", seed=sd, seed_type=["int", "npint64", "npint32", "npuint32"][idx_ % 4], ns=1, nd=rng.randint(1, 2),
                   horizon=rng.choice([25, 30]), forms=["arc", "path"])


def run_worker(job, hashseed):
    env = dict(os.environ)
    env["PYTHONHASHSEED"] = hashseed
    env["VERIF_ROOT"] = str(core.VERIF)
    env["VERIF_REPO"] = str(core.REPO)
    env["PYTHONPATH"] = str(core.REPO / "src")
    try:
        p = subprocess.run([sys.executable, "-m", "harness.vh.fp_worker", json.dumps(job)], cwd=str(core.VERIF), env=env,
                           stdout=subprocess.PIPE, stderr=subprocess.PIPE, text=True, timeout=1500)
    except subprocess.TimeoutExpired:
        raise core.Infra("fingerprint worker did not finish within 1500 s (machine overloaded?)")
    for ln in p.stdout.splitlines():
        if ln.startswith("FP "):
            return json.loads(ln[3:])
    raise core.Infra(f"fingerprint worker failed: {p.stderr[-800:]}")


def run_case(case, drv):
    res = Result(key=core.case_key(case))
    res.features.append(f"kind:{case['kind']}")
    configs = CONFIGS if case["kind"] != "g1" or case.get("horizon", 0) <= 20 else CONFIGS[:3]
    jobs = [(dict(case, prior_draws=draws, prior_seed=11 + i), hs) for i, (hs, draws) in enumerate(configs)]
    with ThreadPoolExecutor(max_workers=8) as ex:
        outs = list(ex.map(lambda jh: run_worker(*jh), jobs))
    base = outs[0]
    for (hs, draws), out in zip(configs[1:], outs[1:]):
        for key in base:
            if out.get(key) != base[key]:
                res.fail(f"reproducibility:{key}", f"{case['kind']} instance: '{key}' fingerprint differs between a run with PYTHONHASHSEED={configs[0][0]}, "
                                                   f"{configs[0][1]} prior draws and one with PYTHONHASHSEED={hs}, {draws} prior draws")
                break
    res.features += [f"{k}:{'raise' if str(v).startswith('raise') else 'ok'}" for k, v in base.items() if k != "instance"]
    if case["kind"] == "direct":
        res.nontrivial = any(str(v).startswith("ok") for v in base.values())
        return res
    # in-process: build twice, compare
    import numpy as np
    from .props_common import light_state
    fps = []
    for rep in range(2):
        np.random.seed(1000 + rep)
        np.random.rand(rep * 7)
        if case["kind"] == "g1":
            from vrpqubo.examples.mirp_g1 import get_mirp
            m = get_mirp(case["horizon"])
        elif case["kind"] == "mirp":
            m, _ = MU.build_py(case["spec"])
        else:
            from vrpqubo.examples.mirp_random import get_generator
            g = get_generator(case["ns"], case["nd"], case["horizon"])
            g.seed = {"npint64": np.int64, "npint32": np.int32, "npuint32": np.uint32}.get(case.get("seed_type"), int)(case["seed"])
            m = g.get_random_mirp(reset_seed=True)
        fp = {}
        for form in ["path"]:
            try:
                o = m.get_path_based()
                fp[form] = light_state(o, form)
                if rep == 0:
                    res.nontrivial = len(o.routes) > 0
            except Exception as e:  # noqa
                fp[form] = "raise:" + type(e).__name__
        fps.append(fp)
    if case["kind"] == "random":
        # a scalar field of the generator given as a (degenerate) sampler instead of a number: the class declares both; the instance
        # must be the one the plain number gives (the field is sampled after every other random field, so the stream is the same)
        import dataclasses
        from scipy.stats import uniform as _uniform
        from vrpqubo.examples.mirp_random import get_generator
        from vrpqubo.tools.sampling import WrapperSampler
        try:
            seed_ = {"npint64": np.int64, "npint32": np.int32, "npuint32": np.uint32}.get(case.get("seed_type"), int)(case["seed"])
            g1 = dataclasses.replace(get_generator(case["ns"], case["nd"], case["horizon"]), seed=seed_, travel_cost_per_unit_time=1.0)
            g2 = dataclasses.replace(g1, travel_cost_per_unit_time=WrapperSampler(_uniform(loc=1, scale=0)))
            m1 = g1.get_random_mirp(reset_seed=True)
            m2 = g2.get_random_mirp(reset_seed=True)
            s1, s2 = MU.mirp_state(m1), MU.mirp_state(m2)
            if s1 != s2:
                a1, a2 = s1["g"]["arcs"], s2["g"]["arcs"]
                res.fail("generator:sampler-valued-scalar", f"unit travel cost given as a sampler that always draws 1 instead of the number 1: the instance differs "
                                                            f"(first differing arc {next(((x, y) for x, y in zip(a1, a2) if x != y), None)})")
            else:
                o2 = m2.get_path_based()
                Q2, k2 = o2.get_qubo(feasibility=False)
                if np.asarray(o2.get_objective_data()[0]).shape != (o2.get_num_variables(),):
                    res.fail("generator:sampler-valued-scalar", "objective vector of the path-based model has the wrong shape when a scalar field was sampled")
            res.features.append("sampler-valued-scalar:checked")
        except Exception as e:  # noqa
            res.fail("generator:sampler-valued-scalar", f"a generator whose unit travel cost is a sampler (declared Union[Real, Sampleable]) raised {e!r}")
    if fps[0] != fps[1]:
        res.fail("reproducibility:in-process", f"{case['kind']} instance: path-based model differs between two builds in one process with different prior generator states")
    return res
