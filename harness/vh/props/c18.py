"""C18 — Variable index maps enumerate exactly the admissible decisions."""
from fractions import Fraction
import itertools

from .. import core
from .. import vrp_util as VU
from .. import form_util as FU
from .. import mirp_util as MU
from ..core import Result, fs, fl, F

ID = "C18"
RULE = ("seeded VRPTW instances x (arc-based with grids given in any order: integer / quarter / sparse / window-end grids; sequence-based with "
        "V in 0..3, L in 2..5, strict and non-strict); the whole enumerated variable list, both lookups on every tuple of a box around the "
        "admissible ranges (incl. off-grid times, non-arcs, out-of-window times) and on indices 0..n+2; non-trivial = n >= 2 and at least one "
        "inadmissible tuple in the box; distinct = distinct instance")
ASSUMPTIONS = [
    "time grids with repeated values are generated (add_time_points keeps each value once since fix 3a58a20; proved in C18b.addTimePoints_wf)",
    "the Lean lookups take natural-number arguments; tuples with negative components and negative indices are checked on the real code by the oracle only (they map to nothing since fixes 2b6bbc0 and the negative-index fix)",
]
PARTIAL = []
BUDGET_S = {"quick": 90, "thorough": 900}


def gen(rng, tier):
    n_cases = 260 if tier == "quick" else 4000
    for _ in range(n_cases):
        case = FU.gen_form_case(rng, tier, forms=("arc", "seq"), heur_p=0.0, nmax=5)
        if case["form"] == "seq":
            case["L"] = rng.choice([2, 3, 3, 4, 5])
        if rng.random() < 0.3:
            # the index maps of the instance as it is after: size asked, then the feasibility heuristic changed the problem
            case["heur_after_enumeration"] = rng.choice(["1", "10", "100"])
            if case["form"] == "seq":
                case["L"] = max(3, case["L"])
        yield case


def shrink(case):
    yield from FU.shrink_form_case(case)


def run_case(case, drv):
    res = Result(key=core.case_key(case))
    form = case["form"]
    o, _ = FU.build_form(case, with_heur=False)
    if case.get("heur_after_enumeration"):
        o.get_num_variables()
        if form == "seq":
            o.get_var_index(0, 0, 0) if int(o.max_vehicles) and int(o.max_sequence_length) and len(o.nodes) else None
        try:
            import numpy as _np
            _np.random.seed(1)
            o.make_feasible(VU.val(case["heur_after_enumeration"]))
            res.features.append("after-heuristic")
        except Exception:  # noqa
            res.features.append("heuristic-raised")
            res.nontrivial = False
            return res
    n = o.get_num_variables()
    g = VU.graph_of(o)
    N = len(g["nodes"])
    res.features += [f"form:{form}", f"n:{min(n, 40) // 5 * 5}+"]
    inst = FU.inst_tokens(o, form)
    if form == "arc":
        T = [F(t) for t in o.time_points]
        impl_vars = [(int(i), F(s), int(j), F(t)) for (i, s, j, t) in o.var_mapping]
        if sorted(T) != T:
            res.fail("arc:grid-unsorted", f"time_points not sorted: {T}")
        arcs = {(a[0], a[1]): a for a in g["arcs"]}
        win = [(nd[2], nd[3]) for nd in g["nodes"]]

        def inwin(k, s):
            return win[k][0] <= s and (win[k][1] == core.INF or s <= win[k][1])
        adm = set()
        for (i, j), a in arcs.items():
            for s in set(T):
                for t in set(T):
                    if inwin(i, s) and inwin(j, t) and s + a[4] <= t:
                        adm.add((i, s, j, t))
        times = sorted(set(T + [T[0] - 1, T[-1] + 1] + [t + Fraction(1, 8) for t in T[:2]]))
        if len(times) > 9:
            times = times[:4] + times[-5:]
        box = [(i, s, j, t) for i in range(N + 1) for j in range(N + 1) for s in times for t in times]
        if len(box) > 1500:
            import random
            box = random.Random(case["seed"]).sample(box, 1500) + sorted(adm)[:200]
        # node positions outside 0..N-1 (negative ones must not wrap around to an existing node)
        outside = []
        for (i_, s_, j_, t_) in sorted(adm)[:4]:
            outside += [(i_ - N, s_, j_, t_), (i_, s_, j_ - N, t_), (i_ - N, s_, j_ - N, t_), (i_ + N, s_, j_, t_)]
        V = L = None
        lookup = lambda u: o.get_var_index(u[0], float(u[1]), u[2], float(u[3]))                    # noqa: E731
        tup = lambda k: o.get_var_tuple_index(k)                                                       # noqa: E731
        norm = lambda u: None if u is None else (int(u[0]), F(u[1]), int(u[2]), F(u[3]))               # noqa: E731
        tstr = lambda u: f"{u[0]} {fs(u[1])} {u[2]} {fs(u[3])}"                                        # noqa: E731
    else:
        V, L = int(o.max_vehicles), int(o.max_sequence_length)
        impl_vars = [(int(v), int(p), int(k)) for (v, p, k) in o.var_mapping]
        has = {(a[0], a[1]) for a in g["arcs"]}

        def fixed(p, k):
            if p == 0 or p == L - 1:
                return True
            if p == 1 and (0, k) not in has:
                return True
            if p == L - 2 and (k, 0) not in has:
                return True
            return False
        adm = {(v, p, k) for v in range(V) for p in range(L) for k in range(N) if not fixed(p, k)}
        box = [(v, p, k) for v in range(V) for p in range(L) for k in range(N)]
        # tuples outside the index ranges are inadmissible as well (a loud IndexError is tolerated, an index is not)
        outside = [(V, 1, 0), (0, L, 0), (0, 1, N), (V + 1, L + 2, N + 1)]
        if V and L and N:
            outside += [(-1, 1, min(1, N - 1)), (0, -1, 0), (0, 1, -1), (-V, -L, -N)]
        lookup = lambda u: o.get_var_index(*u)                                                         # noqa: E731
        tup = lambda k: o.get_var_tuple_index(k)                                                       # noqa: E731
        norm = lambda u: None if u is None else (int(u[0]), int(u[1]), int(u[2]))                       # noqa: E731
        tstr = lambda u: f"{u[0]} {u[1]} {u[2]}"                                                       # noqa: E731
    idxs = list(range(n + 3))
    # ---------------- implementation lookups
    impl_idx, impl_tup = [], []
    for u in box:
        try:
            r = lookup(u)
            impl_idx.append(None if r is None else int(r))
        except Exception as e:  # noqa
            impl_idx.append("raise:" + type(e).__name__)
    for k in idxs:
        try:
            impl_tup.append(norm(tup(k)))
        except Exception as e:  # noqa
            impl_tup.append("raise:" + type(e).__name__)
    # ---------------- model
    st, md = FU.model_data(drv, o, form)
    # (the property fixes no enumeration ORDER: a model whose variables are the same tuples in another order is compared through the
    #  relabelling to_model[k_impl] = k_model, see form_util "enumeration order")
    tm = md.get("order") if st == "ok" else None
    if tm is not None:
        res.features.append("enumeration-order:differs-from-model(relabelled)")
    if st == "ok" and md["vars"] != impl_vars:
        res.disagree(f"{form} variable list", impl_vars[:12], md["vars"][:12])
    idxs_model = idxs if tm is None else [tm[k] if k < len(tm) else k for k in idxs]
    rep = drv.ask(f"{form}.lookup {inst} {len(box)} {' '.join(tstr(u) for u in box)} {len(idxs)} {' '.join(map(str, idxs_model))}")
    head, groups = core.split_reply(rep)
    m_idx = [None if t == "none" else int(t) for t in groups[0][1:]]
    if tm is not None:
        inv = {km: k for k, km in enumerate(tm)}
        m_idx = [None if v is None else inv.get(v, v) for v in m_idx]
    if m_idx != impl_idx:
        bad = [(u, a, b) for u, a, b in zip(box, impl_idx, m_idx) if a != b][:3]
        res.disagree(f"{form} tuple->index lookups", [b[1] for b in bad], [(b[0], b[2]) for b in bad])
    # model index->tuple
    toks = groups[1][1:]
    m_tup, i = [], 0
    width = 4 if form == "arc" else 3
    while i < len(toks):
        if toks[i] == "none":
            m_tup.append(None)
            i += 1
        else:
            t = toks[i:i + width]
            m_tup.append((int(t[0]), Fraction(t[1]), int(t[2]), Fraction(t[3])) if form == "arc" else (int(t[0]), int(t[1]), int(t[2])))
            i += width
    if m_tup != impl_tup:
        res.disagree(f"{form} index->tuple lookups", impl_tup[-4:], m_tup[-4:])
    m_adm = [t == "1" for t in groups[2][1:]]
    # ---------------- oracle: the property on the real code
    if len(impl_vars) != n:
        res.fail(f"{form}:count", f"get_num_variables()={n} but the variable list has {len(impl_vars)} entries")
    if len(set(impl_vars)) != len(impl_vars):
        res.fail(f"{form}:duplicate", "a decision tuple is enumerated twice")
    if set(impl_vars) != adm:
        miss, extra = sorted(adm - set(impl_vars))[:3], sorted(set(impl_vars) - adm)[:3]
        res.fail(f"{form}:enumeration", f"enumerated set != admissible set: missing {core.jsonable(miss)}, extra {core.jsonable(extra)}")
    ninadm = 0
    for u, r, ma in zip(box, impl_idx, m_adm):
        if u in adm:
            if not isinstance(r, int) or not (0 <= r < n) or norm(tup(r)) != u:
                res.fail(f"{form}:lookup-admissible", f"admissible tuple {core.jsonable(u)} maps to {r}, which maps back to {core.jsonable(norm(tup(r)) if isinstance(r, int) else None)}")
                break
        else:
            ninadm += 1
            if r is not None and not (isinstance(r, str) and form == "seq"):
                res.fail(f"{form}:lookup-inadmissible", f"inadmissible tuple {core.jsonable(u)} maps to index {r}")
                break
        if (u in adm) != ma:
            res.disagree(f"{form} admissibility predicate of the model", u in adm, ma)
    if True:
        for u in outside:
            try:
                r = lookup(u)
            except IndexError:
                res.features.append("outside-tuple:IndexError")
                continue
            except Exception as e:  # noqa
                res.fail(f"{form}:lookup-outside-raises", f"tuple {core.jsonable(u)} outside the index ranges raised {e!r}")
                break
            res.features.append("outside-tuple:" + ("none" if r is None else "index"))
            if r is not None:
                res.fail(f"{form}:lookup-inadmissible", f"tuple {core.jsonable(u)} lies outside the index ranges (V={V}, L={L}, N={N}) but maps to index {int(r)}")
                break
    for k, u in zip(idxs, impl_tup):
        if k < n:
            if u is None or isinstance(u, str) or lookup(u) != k:
                res.fail(f"{form}:index-roundtrip", f"index {k} -> {core.jsonable(u)} -> {lookup(u) if u and not isinstance(u, str) else None}")
                break
        elif u is not None:
            res.fail(f"{form}:index-beyond-n", f"index {k} >= n={n} maps to {core.jsonable(u)}")
            break
    # negative indices are no variable indices either (Python's negative indexing must not wrap around to variable n + k)
    for k in (-1, -max(n, 1), -n - 1):
        try:
            u = tup(k)
        except Exception as e:  # noqa
            res.fail(f"{form}:index-negative-raises", f"get_var_tuple_index({k}) raised {e!r}")
            break
        if u is not None:
            res.fail(f"{form}:index-negative", f"index {k} < 0 maps to {core.jsonable(tuple(u))} (n={n})")
            break
    res.nontrivial = n >= 2 and ninadm >= 1
    # ---------------- second phase (sequence-based): the problem is changed through the object (another node becomes the depot; sizes
    # stay the same, which tuples are fixed does not) and the index maps are asked again
    if form == "seq" and N >= 3 and V >= 1 and not res.failures and not res.disagreements:
        new_depot = g["nodes"][1 + (case.get("seed", 0) % (N - 1))][0]
        try:
            o.set_depot(new_depot)
            n2 = int(o.get_num_variables())
            g2 = VU.graph_of(o)
            has2 = {(a[0], a[1]) for a in g2["arcs"]}

            def fixed2(p, k):
                return p == 0 or p == L - 1 or (p == 1 and (0, k) not in has2) or (p == L - 2 and (k, 0) not in has2)
            adm2 = {(v, p, k) for v in range(V) for p in range(L) for k in range(N) if not fixed2(p, k)}
            vars2 = [(int(v), int(p), int(k)) for (v, p, k) in o.var_mapping]
            if set(vars2) != adm2 or len(vars2) != n2 or len(set(vars2)) != len(vars2):
                res.fail("seq:enumeration-after-set_depot", f"after set_depot({new_depot!r}) the enumerated set differs from the admissible set: missing "
                                                            f"{sorted(adm2 - set(vars2))[:3]}, extra {sorted(set(vars2) - adm2)[:3]}")
            for u in [(v, p, k) for v in range(V) for p in range(L) for k in range(N)]:
                r = o.get_var_index(*u)
                if u in adm2:
                    if r is None or tuple(int(t) for t in o.get_var_tuple_index(int(r))) != u:
                        res.fail("seq:lookup-after-set_depot", f"after set_depot({new_depot!r}) admissible tuple {u} maps to {r}")
                        break
                elif r is not None:
                    res.fail("seq:lookup-after-set_depot", f"after set_depot({new_depot!r}) the fixed tuple {u} still maps to index {int(r)}")
                    break
            res.features.append("second-phase:set_depot")
        except Exception as e:  # noqa
            res.fail("seq:second-phase-raises", f"set_depot({new_depot!r}) + lookups raised {e!r}")
    return res


EXHAUSTIVE_SCOPE = FU.EXHAUSTIVE_FORMS_SCOPE


def gen_exhaustive():
    yield from FU.gen_exhaustive_forms(("arc", "seq"))
