"""C19 — Sampler expressions evaluate the expression on the leaf draws."""
from fractions import Fraction
import numpy as np

from .. import core
from ..core import Result, fs, fl, F

ID = "C19"
RULE = ("seeded expression trees (depth <= 5) over 1..3 counting stub leaves with scripted dyadic draws and real constants (int, float, "
        "numpy float) on either side of + - * / and unary minus, sample sizes 1..5; plus the non-random sample() helper on scalars / "
        "sequences of matching and non-matching length; plus trees over seeded scipy.stats leaves compared with the same numpy "
        "operations applied to re-drawn arrays; 1..3 successive draws from the same expression object (each must equal the expression on its own leaf draws, earlier results unchanged); non-trivial = tree with >= 2 operators incl. a non-commutative one with a constant "
        "or two leaf occurrences; distinct = distinct (tree, draws, size)")
ASSUMPTIONS = [
    "denominators are non-zero at every element (numpy gives inf/nan with a warning; excluded explicitly, the model driver refuses such inputs)",
    "cases whose exact value is not representable in binary floating point (a division that does not terminate) are skipped and counted",
    "leaves are deterministic stubs; that scipy.stats draws are independent is outside the property",
]
PARTIAL = []
BUDGET_S = {"quick": 60, "thorough": 600}
BIN = ["ADD", "SUB", "MUL", "DIV"]


def gen_expr(rng, depth, nleaves):
    if depth == 0 or rng.random() < 0.2:
        return ["L", rng.randrange(nleaves)]
    r = rng.random()
    if r < 0.12:
        return ["NEG", gen_expr(rng, depth - 1, nleaves)]
    op = rng.choice(BIN)
    shape = rng.choice(["SS", "SC", "CS"])
    if shape == "SS":
        return [op + "SS", gen_expr(rng, depth - 1, nleaves), gen_expr(rng, depth - 1, nleaves)]
    c = Fraction(rng.choice([-8, -4, -3, -2, -1, 1, 2, 3, 4, 5, 8, 0]), rng.choice([1, 1, 2, 4]))
    if op == "DIV" and shape == "SC":
        c = Fraction(rng.choice([-4, -2, -1, 1, 2, 4, 8]), rng.choice([1, 2, 4, 8]))  # power of two: exact in floats
    ctype = rng.choice(["int", "float", "npfloat"]) if c.denominator == 1 else rng.choice(["float", "npfloat"])
    if c.denominator == 1 and c >= 0 and rng.random() < 0.3:
        ctype = rng.choice(["npuint8", "npuint16", "npuint64"])       # unsigned numpy scalars are real constants too
    elif c.denominator == 1 and rng.random() < 0.1:
        ctype = rng.choice(["npint8", "npint64"])
    if shape == "SC":
        return [op + "SC", gen_expr(rng, depth - 1, nleaves), [fs(c), ctype]]
    return [op + "CS", [fs(c), ctype], gen_expr(rng, depth - 1, nleaves)]


def occ(e, out):
    if e[0] == "L":
        out[e[1]] = out.get(e[1], 0) + 1
    else:
        for s in e[1:]:
            if isinstance(s, list) and s and isinstance(s[0], str) and s[0].isupper():
                occ(s, out)
    return out


def gen(rng, tier):
    n_cases = 400 if tier == "quick" else 6000
    for k in range(n_cases):
        if k % 8 == 7:
            v = rng.choice(["scalar", "list", "array"])
            size = rng.randint(1, 4)
            if v == "scalar":
                yield dict(mode="plain", kind="scalar", x=fs(Fraction(rng.randint(-9, 9), rng.choice([1, 2, 4]))),
                           ctype=rng.choice(["int", "float", "npfloat"]), size=size)
            else:
                n = rng.randint(0, 4)
                yield dict(mode="plain", kind=v, xs=[fs(Fraction(rng.randint(-9, 9), 2)) for _ in range(n)], size=size)
            continue
        if k % 8 == 6:
            nleaves = rng.randint(1, 3)
            yield dict(mode="real", expr=gen_expr(rng, rng.randint(1, 4), nleaves), nleaves=nleaves, m=rng.randint(1, 5),
                       seed=rng.randrange(10 ** 6))
            continue
        nleaves = rng.randint(1, 3)
        e = gen_expr(rng, rng.randint(1, 5), nleaves)
        m = rng.randint(1, 5)
        o = occ(e, {})
        rounds = rng.choice([1, 1, 2, 3])   # repeated draws from the same expression object
        draws = []
        for i in range(nleaves):
            calls = []
            for _ in range(o.get(i, 0) * rounds + 1):
                # mostly powers of two (so that leaf denominators stay exact), some other dyadics
                calls.append([fs(Fraction(rng.choice([1, 2, 4, -1, -2, 8]) if rng.random() < 0.6 else rng.randint(-12, 12),
                                          rng.choice([1, 2, 4]))) for _ in range(m)])
            draws.append(calls)
        yield dict(mode="stub", expr=e, nleaves=nleaves, m=m, draws=draws, rounds=rounds)


def shrink(case):
    if case["mode"] != "stub":
        return
    e = case["expr"]

    def subs(e):
        if e[0] == "L":
            return
        for s in e[1:]:
            if isinstance(s, list) and s and isinstance(s[0], str) and s[0].isupper():
                yield s
                yield from subs(s)
    if case.get("rounds", 1) > 1:
        return   # the scripted draws are laid out per round for this tree; keep the case as generated
    for s in subs(e):
        yield dict(case, expr=s)
    if case["m"] > 1:
        yield dict(case, m=1, draws=[[c[:1] for c in calls] for calls in case["draws"]])


def tokens(e):
    if e[0] == "L":
        return ["L", str(e[1])]
    if e[0] == "NEG":
        return ["NEG"] + tokens(e[1])
    if e[0].endswith("SS"):
        return [e[0]] + tokens(e[1]) + tokens(e[2])
    if e[0].endswith("SC"):
        return [e[0]] + tokens(e[1]) + [e[2][0]]
    return [e[0], e[1][0]] + tokens(e[2])


def pyconst(c):
    v = Fraction(c[0])
    if c[1] == "int":
        return int(v)
    if c[1] == "npfloat":
        return np.float64(float(v))
    if c[1].startswith("np"):
        return getattr(np, c[1][2:])(int(v))
    return float(v)


def build_py(e, leaves):
    if e[0] == "L":
        return leaves[e[1]]
    if e[0] == "NEG":
        return -build_py(e[1], leaves)
    op, shape = e[0][:3], e[0][3:]
    if shape == "SS":
        a, b = build_py(e[1], leaves), build_py(e[2], leaves)
    elif shape == "SC":
        a, b = build_py(e[1], leaves), pyconst(e[2])
    else:
        a, b = pyconst(e[1]), build_py(e[2], leaves)
    return {"ADD": lambda: a + b, "SUB": lambda: a - b, "MUL": lambda: a * b, "DIV": lambda: a / b}[op]()


class ZeroDiv(Exception):
    pass


def eval_exact(e, draws, cnt, m):
    """expression applied elementwise to the leaf draws, leaves left to right (Fractions)"""
    if e[0] == "L":
        k = cnt.get(e[1], 0)
        cnt[e[1]] = k + 1
        return [Fraction(x) for x in draws[e[1]][k]]
    if e[0] == "NEG":
        return [-x for x in eval_exact(e[1], draws, cnt, m)]
    op, shape = e[0][:3], e[0][3:]
    if shape == "SS":
        a = eval_exact(e[1], draws, cnt, m)
        b = eval_exact(e[2], draws, cnt, m)
    elif shape == "SC":
        a = eval_exact(e[1], draws, cnt, m)
        b = [Fraction(e[2][0])] * m
    else:
        a = [Fraction(e[1][0])] * m
        b = eval_exact(e[2], draws, cnt, m)
    if op == "DIV" and any(y == 0 for y in b):
        raise ZeroDiv()
    f = {"ADD": lambda x, y: x + y, "SUB": lambda x, y: x - y, "MUL": lambda x, y: x * y, "DIV": lambda x, y: x / y}[op]
    out = [f(x, y) for x, y in zip(a, b)]
    for v in out:
        d = v.denominator
        if d & (d - 1) or d > 2 ** 30 or abs(v.numerator) > 2 ** 50:
            raise OverflowError("not float-exact")
    return out


def eval_np(e, dists, m):
    """the same numpy operations the expression denotes, on arrays drawn left to right"""
    if e[0] == "L":
        return dists[e[1]].rvs(size=m)
    if e[0] == "NEG":
        return -eval_np(e[1], dists, m)
    op, shape = e[0][:3], e[0][3:]
    if shape == "SS":
        a = eval_np(e[1], dists, m)
        b = eval_np(e[2], dists, m)
    elif shape == "SC":
        a = eval_np(e[1], dists, m)
        b = pyconst(e[2]) * np.ones(m)
    else:
        a = pyconst(e[1]) * np.ones(m)
        b = eval_np(e[2], dists, m)
    return {"ADD": lambda: a + b, "SUB": lambda: a + (-b), "MUL": lambda: a * b, "DIV": lambda: a / b}[op]()


def complexity(e):
    if e[0] == "L":
        return 0, False
    if e[0] == "NEG":
        n, nc = complexity(e[1])
        return n + 1, nc
    n, nc = 0, e[0][:3] in ("SUB", "DIV")
    for s in e[1:]:
        if isinstance(s, list) and s and isinstance(s[0], str) and s[0].isupper():
            a, b = complexity(s)
            n += a
            nc = nc or b
    return n + 1, nc


def run_case(case, drv):
    from vrpqubo.tools import sampling
    from vrpqubo.examples import mirp_random
    res = Result(key=core.case_key(case))
    res.features.append(f"mode:{case['mode']}")

    if case["mode"] == "plain":
        if case["kind"] == "scalar":
            obj = pyconst([case["x"], case["ctype"]])
            req = f"sampleplain S {case['x']} {case['size']}"
            good = case["size"] == 1
        else:
            xs = [float(Fraction(t)) for t in case["xs"]]
            obj = xs if case["kind"] == "list" else np.array(xs)
            req = f"sampleplain L {fl(case['xs'])} {case['size']}"
            good = len(xs) == case["size"]
        try:
            out = mirp_random.sample(obj, size=case["size"])
            impl = "ok"
        except ValueError:
            out, impl = None, "err:value"
        except Exception as e:  # noqa
            out, impl = None, core.err_kind(e)
        rep = drv.ask(req)
        if core.err_class(rep.split()[0]) != core.err_class(impl):
            res.disagree("sample() status", impl, rep)
        same = out is obj or (impl == "ok" and type(out) is type(obj) and np.shape(out) == np.shape(obj) and bool(np.all(np.asarray(out) == np.asarray(obj))))
        if good and (impl != "ok" or not same):     # ("returned unchanged": the same values; an equal copy is as good)
            res.fail("sample:plain-changed", f"sample({obj!r}, {case['size']}) did not return the object unchanged ({impl})")
        if not good and impl == "ok":
            res.fail("sample:plain-accepted", f"sample({obj!r}, {case['size']}) accepted a wrong length")
        res.nontrivial = False
        return res

    e, m = case["expr"], case["m"]
    nops, noncomm = complexity(e)
    res.nontrivial = nops >= 2 and noncomm
    res.features += [f"ops:{min(nops, 6)}", f"m:{m}"]

    if case["mode"] == "real":
        from scipy.stats import uniform, randint, rv_discrete
        # frozen and UNFROZEN distributions (both are members of the package's Sampleable type): for an unfrozen one a positional
        # argument of rvs is a shape / location parameter, not the size
        kinds = [lambda i: uniform(loc=2 + i, scale=2), lambda i: uniform, lambda i: rv_discrete(values=([1, 2, 3], [0.25, 0.5, 0.25])),
                 lambda i: randint(1 + i, 5 + i)]
        dists = [kinds[(case["seed"] + i) % 4](i) for i in range(case["nleaves"])]
        res.features += [f"leaf-kind:{(case['seed'] + i) % 4}" for i in range(case["nleaves"])]
        # the generic helper on a bare distribution
        from vrpqubo.examples import mirp_random as _mr
        np.random.seed(case["seed"])
        try:
            got0 = _mr.sample(dists[0], size=m)
        except Exception as ex:  # noqa
            got0 = ex
        np.random.seed(case["seed"])
        want0 = dists[0].rvs(size=m)
        if isinstance(got0, Exception) or np.shape(got0) != (m,) or not np.array_equal(np.asarray(got0), want0):
            res.fail("sample:distribution", f"sample(<distribution kind {(case['seed']) % 4}>, size={m}) = {got0!r}, a draw of size {m} is {want0!r}")
        leaves = [sampling.WrapperSampler(d) for d in dists]
        try:
            smp = build_py(e, leaves)
            np.random.seed(case["seed"])
            got = smp.rvs(m) if isinstance(smp, sampling.SimpleSampler) else None
            got_again = smp.rvs(m) if got is not None else None
        except Exception as ex:  # noqa
            res.fail("rvs:raises", f"building/sampling {tokens(e)} raised {ex!r}")
            return res
        if got is None:
            res.nontrivial = False
            return res
        np.random.seed(case["seed"])
        with np.errstate(all="ignore"):
            want = eval_np(e, dists, m)
            want_again = eval_np(e, dists, m)
        if np.shape(got_again) != (m,) or not np.allclose(np.asarray(got_again, dtype=float), want_again, rtol=1e-12, atol=0, equal_nan=True):
            res.fail("rvs:value-real-second-draw", f"{tokens(e)} seed {case['seed']}: second draw from the same object {got_again} != {want_again}")
        if np.shape(got) != (m,):
            res.fail("rvs:shape", f"shape {np.shape(got)} != ({m},)")
        elif not np.allclose(np.asarray(got, dtype=float), want, rtol=1e-12, atol=0, equal_nan=True):      # (re-association of a sum is harmless)
            res.fail("rvs:value-real", f"{tokens(e)} seed {case['seed']}: {got} != {want}")
        return res

    draws = case["draws"]

    class Stub(sampling.SimpleSampler):
        def __init__(self, i):
            self.i = i
            self.calls = 0

        def rvs(self, size=1):
            arr = np.array([float(Fraction(t)) for t in draws[self.i][self.calls]])
            self.calls += 1
            assert size == m
            return arr

    o = occ(e, {})
    rounds = case.get("rounds", 1)

    def round_draws(r):
        return [calls[r * o.get(i, 0):(r + 1) * o.get(i, 0)] + calls[-1:] for i, calls in enumerate(draws)]

    def request(dr):
        return f"rvs {m} {' '.join(tokens(e))} {len(dr)} " + " ".join(
            str(len(calls)) + " " + " ".join(" ".join(c) for c in calls) for calls in dr)
    wants = []
    try:
        for r in range(rounds):
            wants.append(eval_exact(e, round_draws(r), {}, m))
    except ZeroDiv:
        res.features.append("zero-denominator:numpy-semantics")
        rep = drv.ask(request(round_draws(len(wants))))
        if rep != "err:zerodiv":
            res.disagree("zero-denominator guard", "zero-div", rep)
        # the rational model stops here; the property still says "the expression applied to the arrays drawn from the leaves", and for
        # arrays x / 0 is inf or nan: the real sampler is compared with the same numpy operations on the same draws (first round)
        class _Replay:
            def __init__(self, arrs):
                self.arrs, self.k = arrs, 0

            def rvs(self, size=1):
                a = np.array([float(Fraction(t)) for t in self.arrs[min(self.k, len(self.arrs) - 1)]])
                self.k += 1
                return a
        rd0 = round_draws(0)
        with np.errstate(all="ignore"):
            want_np = eval_np(e, [_Replay(rd0[i]) for i in range(case["nleaves"])], m)
            try:
                got_np = build_py(e, [Stub(i) for i in range(case["nleaves"])]).rvs(m)
            except Exception as ex:  # noqa
                res.fail("rvs:raises", f"sampling {tokens(e)} with a zero in a denominator raised {ex!r}")
                return res
        ga, wa = np.asarray(got_np, dtype=float), np.asarray(want_np, dtype=float)
        # (finite entries must agree exactly; where a zero was divided by, both sides must be non-finite — the SIGN of an infinity
        # depends on the sign of a floating-point zero, which numpy's own reductions do not preserve (x - 0 for x = -0.0), and nan / inf
        # depend on it in turn: not part of the property)
        same = np.shape(got_np) == (m,) and ga.shape == wa.shape and bool(np.all(np.where(np.isfinite(wa) & np.isfinite(ga), ga == wa, ~np.isfinite(wa) & ~np.isfinite(ga))))
        if not same:
            res.fail("rvs:value-zero-denominator", f"{tokens(e)}: got {list(np.asarray(got_np).ravel())}, the expression on the leaf arrays gives {list(np.asarray(want_np).ravel())} "
                                                   "(division by a zero draw is inf / nan, as for any numpy array)")
        res.nontrivial = False
        return res
    except OverflowError:
        res.features.append("skipped:not-float-exact")
        res.nontrivial = False
        return res
    want = wants[0]
    res.features.append(f"rounds:{rounds}")
    leaves = [Stub(i) for i in range(case["nleaves"])]
    try:
        smp = build_py(e, leaves)
        if isinstance(smp, sampling.SimpleSampler):
            # an expression object may be re-used as an operand of further expressions; building those must not change it
            extra = Stub(0)
            _derived = [smp + 3, smp + extra, extra + smp, 2 * smp, smp * extra, smp - extra, smp / 2, -smp, smp + smp]  # noqa: F841
            res.features.append("derived-expressions-built-first")
    except Exception as ex:  # noqa
        res.fail("rvs:raises", f"building {tokens(e)} raised {ex!r}")
        return res
    kept = []
    for r in range(rounds):
        before = [lf.calls for lf in leaves]
        try:
            got = smp.rvs(m)
            impl = ("ok", [F(x) for x in np.asarray(got).ravel()], [lf.calls - b for lf, b in zip(leaves, before)], np.shape(got))
            kept.append((got, impl[1]))
        except Exception as ex:  # noqa
            impl = (core.err_kind(ex), repr(ex))
            res.fail("rvs:raises", f"sampling {tokens(e)} (draw #{r + 1}) raised {ex!r}")
        rep = drv.ask(request(round_draws(r)))
        head, groups = core.split_reply(rep)
        if core.err_class(head) != core.err_class(impl[0]):
            res.disagree("rvs status", impl, head)
            return res
        marr = [Fraction(t) for t in groups[0][1:]]
        mcnt = [int(t) for t in groups[1][1:]]
        if groups[2][0] != "1":
            res.disagree("model self-check rvs(build e) = evalE e", "-", rep)
        if impl[1] != marr:
            res.disagree(f"rvs array (draw #{r + 1} from the same object)", impl[1], marr)
        if impl[2] != mcnt:
            res.disagree("leaf draw counts", impl[2], mcnt)
        if impl[3] != (m,):
            res.fail("rvs:shape", f"shape {impl[3]} != ({m},)")
        if impl[1] != wants[r]:
            # the property fixes no order in which the occurrences of one leaf are drawn: any assignment of that leaf's draws of this
            # round to its occurrences is accepted (the model draws left to right; a different order shows up as a disagreement only)
            import itertools as _it
            rd = round_draws(r)
            ks = [o.get(i, 0) for i in range(case["nleaves"])]
            nperm = 1
            for k_ in ks:
                for t_ in range(2, k_ + 1):
                    nperm *= t_
            matched = False
            if nperm <= 720:
                for perms in _it.product(*[_it.permutations(range(k_)) for k_ in ks]):
                    dp = [[rd[i][j] for j in perms[i]] + rd[i][ks[i]:] for i in range(case["nleaves"])]
                    try:
                        if eval_exact(e, dp, {}, m) == impl[1]:
                            matched = True
                            break
                    except (ZeroDiv, OverflowError):
                        continue
            if matched:
                res.features.append("draw-order:not-left-to-right")
            else:
                res.fail("rvs:value", f"{tokens(e)} draw #{r + 1} from the same expression object: got {[fs(x) for x in impl[1]]}, "
                                      f"expression on the leaf draws gives {[fs(x) for x in wants[r]]}")
        if impl[2] != [o.get(i, 0) for i in range(case["nleaves"])]:
            res.fail("rvs:draw-count", f"leaf draw counts {impl[2]} != occurrences {[o.get(i, 0) for i in range(case['nleaves'])]}")
    for r, (arr, vals) in enumerate(kept):
        if [F(x) for x in np.asarray(arr).ravel()] != vals:
            res.fail("rvs:returned-array-changed", f"{tokens(e)}: the array returned by draw #{r + 1} was changed by a later draw")
    # generic helper on a sampler
    draws = round_draws(0)
    leaves2 = [Stub(i) for i in range(case["nleaves"])]
    smp2 = build_py(e, leaves2)
    try:
        got2 = mirp_random.sample(smp2, size=m)
        if [F(x) for x in np.asarray(got2).ravel()] != want:
            res.fail("sample:sampler", "sample(sampler, m) differs from rvs(m)")
    except Exception as ex:  # noqa
        res.fail("sample:sampler-raises", f"sample(sampler) raised {ex!r}")
    return res


EXHAUSTIVE_SCOPE = "all expression trees of depth <= 2 over leaves {0, 1}, constants {2 (int), -1/2 (float)} on either side of + - * /, and unary minus; sample size 2"


def gen_exhaustive():
    def trees(depth):
        if depth == 0:
            yield ["L", 0]
            yield ["L", 1]
            return
        subs = list(trees(depth - 1))
        if depth > 1:
            yield from subs
        for a in subs:
            yield ["NEG", a]
            for op in BIN:
                for c in (["2", "int"], ["-1/2", "float"]):
                    yield [op + "SC", a, c]
                    yield [op + "CS", c, a]
                for b in subs[:3]:
                    yield [op + "SS", a, b]
    for e in trees(2):
        o = occ(e, {})
        draws = [[["4", "-2"] for _ in range(o.get(0, 0) + 1)], [["1/2", "8"] for _ in range(o.get(1, 0) + 1)]]
        yield dict(mode="stub", expr=e, nleaves=2, m=2, draws=draws)
