"""C20 — QUBO report statistics equal brute-force values."""
from fractions import Fraction
import numpy as np

from .. import core
from .. import gen as G
from ..core import Result, fs, fmat, F

ID = "C20"
RULE = ("seeded matrices n=1..6 (entries k/4; density classes incl. cancelling entries, ties between assignments, all-equal values) "
        "x container kind x pattern x obj_stats on/off; non-trivial = n>=2 with at least two distinct objective values; distinct = "
        "distinct (matrix, constant, kind, pattern)")
ASSUMPTIONS = [
    "the tolerance 1e-16 of report() is modelled as exact equality (inputs are dyadic, all values exact in floating point)",
    "field 'distinct_eigenvalues' of the report is not part of the property and is not compared",
]
PARTIAL = []
PATTERNS = ["upper-triangular", "symmetric", "none", "Upper-Triangular"]
BUDGET_S = {"quick": 60, "thorough": 900}


def gen(rng, tier):
    n_cases = 200 if tier == "quick" else 3000
    nmax = 6 if tier == "quick" else 9
    for k in range(n_cases):
        m = G.gen_matrix(rng, nmax=min(nmax, 5))
        rows = m["rows"]
        n = len(rows)
        style = rng.choice(["plain", "ties", "between", "flat", "big"])
        if style == "big" and tier == "thorough":
            n = rng.randint(6, nmax)
            rows = [[G.q(rng, 6) if rng.random() < 0.4 else Fraction(0) for _ in range(n)] for _ in range(n)]
        if style == "ties":
            rows = [[Fraction(int(x)) % 2 for x in row] for row in rows]   # many equal objective values
        if style == "flat":
            rows = [[Fraction(0)] * n for _ in range(n)]
        if style == "between":
            # diagonal with decreasing-then-between values: exercises the runner-up update order
            rows = [[Fraction(0)] * n for _ in range(n)]
            vals = sorted([G.q(rng, 12) for _ in range(n)], reverse=rng.random() < 0.5)
            for i in range(n):
                rows[i][i] = vals[i]
        mm = dict(rows=rows)
        dt = G.typed(mm, rng) if style in ("plain", "ties", "flat") else G.pick_dtype(rows, rng)
        rows = mm["rows"]
        # the constant is sometimes a large offset (2^20 …): objective values are then huge compared with their spacing, which a
        # RELATIVE tolerance would blur
        const_ = G.q(rng) if rng.random() < 0.8 else Fraction(rng.choice([2 ** 20, -2 ** 21, 10 ** 6, 3 * 10 ** 6])) + G.q(rng)
        yield dict(n=n, M=[[fs(x) for x in row] for row in rows], const=fs(const_), kind=rng.choice(G.KINDS),
                   pattern=rng.choice(PATTERNS), style=style, obj_stats=rng.random() < 0.85, dtype=dt)


def shrink(case):
    n = case["n"]
    if n > 1:
        for d in range(n):
            M = [[x for j, x in enumerate(row) if j != d] for i, row in enumerate(case["M"]) if i != d]
            yield dict(case, n=n - 1, M=M)
    for i in range(n):
        for j in range(n):
            if case["M"][i][j] != "0":
                M = [list(r) for r in case["M"]]
                M[i][j] = "0"
                yield dict(case, M=M)
    if case["kind"] != "ndarray":
        yield dict(case, kind="ndarray")
    if case["pattern"] != "none":
        yield dict(case, pattern="none")


def run_case(case, drv):
    from vrpqubo.tools import qubo_tools as qt
    res = Result(key=core.case_key(case))
    M = [[F(x) for x in row] for row in case["M"]]
    n = case["n"]
    const = F(case["const"])
    kind, pat = case["kind"], case["pattern"]
    # brute force (independent, exact)
    vals = [G.quad_fr(M, x) + const for x in G.all_binary(n)]
    opt = min(vals)
    cnt = sum(1 for v in vals if v == opt)
    mean = sum(vals) / len(vals)
    above = sorted(set(v for v in vals if v > opt))
    gap = (above[0] - opt) if above else None
    U = [[(M[i][j] + M[j][i]) if i < j else (M[i][i] if i == j else Fraction(0)) for j in range(n)] for i in range(n)]
    nnz = sum(1 for i in range(n) for j in range(n) if U[i][j] != 0)
    dens = Fraction(2 * nnz, (n + 1) * n)
    res.features += [f"kind:{kind}", f"n:{n}", f"style:{case['style']}", f"obj_stats:{case['obj_stats']}",
                     f"gap:{'none' if gap is None else 'some'}", f"multiple_optima:{cnt > 1}"]
    res.nontrivial = n >= 2 and len(set(vals)) >= 2

    obj = G.to_container(M, kind, dtype=case.get("dtype"))
    try:
        C = qt.QUBOContainer(obj, float(const), pat)
        rep = C.report(obj_stats=case["obj_stats"])
    except Exception as e:  # noqa
        res.fail("report:raises", f"report() raised {e!r}")
        res.disagree("report status", core.err_kind(e), "ok")
        return res
    head, groups = core.split_reply(drv.ask(f"report {fmat(M, n, n)} {fs(const)} {pat.encode().hex() or '-'}"))
    t = groups[0]
    model = dict(size=int(t[0]), num_observables=int(t[1]), density=Fraction(t[2]), optimal_value=Fraction(t[3]),
                 num_solutions=int(t[4]), expected_value=Fraction(t[5]), optimality_gap=None if t[6] == "none" else Fraction(t[6]))
    want = dict(size=n, num_observables=nnz, density=dens, optimal_value=opt, num_solutions=cnt, expected_value=mean,
                optimality_gap=gap)
    keys = ["size", "num_observables", "density"] + (["optimal_value", "num_solutions", "expected_value", "optimality_gap"]
                                                     if case["obj_stats"] else [])
    for k in keys:
        if k == "optimality_gap":
            # absent, None or infinite = "there is no second value"
            raw = rep.get(k)
            got = None if raw is None or (isinstance(raw, float) and (raw != raw or raw in (float("inf"), float("-inf")))) else F(raw)
        else:
            if k not in rep:
                res.fail(f"report:{k}", f"report lacks field {k}")
                continue
            got = F(rep[k])
            if k == "density":
                # the one report field that is not a dyadic rational: a single correctly-rounded float
                # division of exact integers, compared with the correctly-rounded value of the exact quotient
                if float(rep[k]) != float(model[k]):
                    res.disagree("report.density", rep[k], model[k])
                if float(rep[k]) != float(want[k]):
                    res.fail("report:density", f"report density={rep[k]} but definition gives {fs(want[k])}")
                continue
        if k == "expected_value" and got is not None and want[k] is not None:
            # a mean may be accumulated in another order: equal up to a relative 1e-12 (the data are dyadic, any exact order gives equality)
            close = abs(got - want[k]) <= Fraction(1, 10 ** 12) * max(1, abs(want[k]))
            if not close:
                res.fail(f"report:{k}", f"report {k}={fs(got)} but brute force gives {fs(want[k])}")
            if abs(got - model[k]) > Fraction(1, 10 ** 12) * max(1, abs(model[k])):
                res.disagree(f"report.{k}", got, model[k])
            continue
        if got != model[k]:
            res.disagree(f"report.{k}", got, model[k])
        if got != want[k]:
            res.fail(f"report:{k}", f"report {k}={got if got is None else fs(got)} but brute force gives "
                                    f"{want[k] if want[k] is None else fs(want[k])}")
    if not case["obj_stats"] and any(k in rep for k in ("optimal_value", "num_solutions", "expected_value", "optimality_gap")):
        res.fail("report:unrequested-stats", "objective statistics present although obj_stats=False")
    return res


EXHAUSTIVE_SCOPE = "all 2x2 matrices with entries in {-1, 0, 1/2, 1} x constants {0, 3/4} x container kinds {ndarray, csr, lil}" + \
    ("" if "c20" == "c01" else " x patterns {upper-triangular, symmetric, none}")


def gen_exhaustive():
    import itertools
    vals = ["-1", "0", "1/2", "1"]
    for a, b, c_, d in itertools.product(vals, repeat=4):
        M = [[a, b], [c_, d]]
        for c in ("0", "3/4"):
            for kind in ("ndarray", "csr", "lil"):
                for pat in (("upper-triangular", "symmetric", "none") if "c20" != "c01" else ("-",)):
                    yield dict(n=2, M=M, const=c, kind=kind, pattern=pat, style="exhaustive", obj_stats=True)
