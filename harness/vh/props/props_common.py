"""Observable state of a formulation object (shared by C14, C16, C17)."""
from fractions import Fraction
import numpy as np

from .. import core
from .. import vrp_util as VU
from ..core import F

def tuple_box(o, form):
    g = VU.graph_of(o)
    N = len(g["nodes"])
    if form == "arc":
        T = [float(t) for t in o.time_points][:4]
        return [(i, s, j, t) for i in range(N) for j in range(N) for s in T for t in T][:300]
    if form == "seq":
        return [(v, p, k) for v in range(int(o.max_vehicles)) for p in range(int(o.max_sequence_length)) for k in range(N)][:300]
    return []


def query(o, form, q):
    """one query; returns a canonical, comparable value (or an error kind)"""
    try:
        if q == "n":
            return int(o.get_num_variables())
        if q == "idx":
            if form == "path":
                return "n/a"
            out = []
            for u in tuple_box(o, form):
                try:
                    r = o.get_var_index(*u)
                    out.append(None if r is None else int(r))
                except IndexError:
                    out.append("IndexError")
            return out
        if q == "tup":
            if form == "path":
                return "n/a"
            n = o.get_num_variables()
            return [core.jsonable(tuple(F(t) if isinstance(t, float) else int(t) for t in o.get_var_tuple_index(k))) for k in range(n)]
        if q in ("obj", "con"):
            d = VU.impl_data(o)
            return (d["c"], d["Q"]) if q == "obj" else (d["A"], d["b"], d["R"], d["Ashape"])
        if q in ("qubo_o", "qubo_f"):
            Q, k, shape = VU.qubo_dense(o, q == "qubo_f", None)
            return (Q, k, shape)
        if q == "routes":
            sol = o.feasible_solution
            if sol is None:
                return "no-solution"
            r = o.get_routes(np.asarray(sol))
            return core.jsonable([[tuple(F(y) if isinstance(y, float) else (int(y) if not isinstance(y, str) else y) for y in (st if isinstance(st, tuple) else (st,))) for st in route] for route in r])
    except Exception as e:  # noqa
        return "raise:" + core.err_kind(e)
    raise ValueError(q)


def decode(o, x):
    """get_routes(x) in canonical form (or an error kind)"""
    try:
        r = o.get_routes(np.asarray(x, dtype=float))
        return core.jsonable([[tuple(F(y) if isinstance(y, float) else (int(y) if not isinstance(y, str) else y) for y in (st if isinstance(st, tuple) else (st,))) for st in route] for route in r])
    except Exception as e:  # noqa
        return "raise:" + core.err_kind(e)


def full_state(o, form):
    st = {}
    for q in ["n", "tup", "idx", "obj", "con", "qubo_o", "qubo_f", "routes"]:
        st[q] = query(o, form, q)
    sol = o.feasible_solution
    st["solution"] = None if sol is None else [F(v) for v in np.asarray(sol).ravel()]
    st["graph"] = VU.graph_of(o)
    if form == "seq":
        st["V"] = int(o.max_vehicles)
        st["vcost"] = [F(c) for c in o.vehicle_cost]
    if form == "path":
        st["pool"] = [[int(i) for i in r] for r in o.routes]
    return st




def _canon_sparse(M):
    """canonical (shape, sorted non-zero triples as bytes) of a dense or sparse matrix / vector"""
    import scipy.sparse as sp
    if sp.issparse(M):
        C = sp.coo_array(M, copy=True)
        C.sum_duplicates()
        C.eliminate_zeros()
        order = np.lexsort((C.col, C.row))
        return (tuple(C.shape), C.row[order].astype(np.int64).tobytes(), C.col[order].astype(np.int64).tobytes(),
                np.asarray(C.data[order], dtype=float).tobytes())
    A = np.asarray(M, dtype=float)
    return (tuple(A.shape), A.tobytes())


def light_state(o, form):
    """cheap but complete fingerprint of a formulation object (no dense Fraction matrices)"""
    st = {}
    try:
        st["n"] = int(o.get_num_variables())
        if st["n"] > 1500:
            raise OverflowError("instance too large for the fingerprint")
        if form != "path":
            st["vars"] = repr([tuple(float(t) for t in u) for u in o.var_mapping])
        c, Q = o.get_objective_data()
        A, b, R, r = o.get_constraint_data()
        st["obj"] = (_canon_sparse(c), _canon_sparse(Q))
        st["con"] = (_canon_sparse(A), _canon_sparse(b), _canon_sparse(R), float(r))
        for feas in (False, True):
            Qq, k = o.get_qubo(feasibility=feas)
            st[f"qubo{int(feas)}"] = (_canon_sparse(Qq), float(k))
    except Exception as e:  # noqa
        st["error"] = core.err_kind(e)
    sol = o.feasible_solution
    st["solution"] = None if sol is None else np.asarray(sol, dtype=float).tobytes()
    if sol is not None and "error" not in st:
        try:
            st["routes"] = repr(o.get_routes(np.asarray(sol)))
        except Exception as e:  # noqa
            st["routes"] = "raise:" + core.err_kind(e)
    g = o.vrptw
    st["graph"] = repr(([(n.name, float(n.demand), tuple(float(t) for t in n.time_window)) for n in g.nodes],
                        [(k, a.origin.name, a.destination.name, float(a.travel_time), float(a.cost)) for k, a in g.arcs.items()],
                        g.vehicle_cap, g.initial_loading))
    if form == "seq":
        st["V"] = (int(o.max_vehicles), int(o.max_sequence_length), repr([float(c) for c in o.vehicle_cost]))
    if form == "path":
        st["pool"] = repr([[int(i) for i in r] for r in o.routes])
    import hashlib
    return hashlib.sha1(repr(sorted(st.items())).encode()).hexdigest()
