"""`python -m harness.vh.run --prop C01 --tier quick|thorough [--replay file]`

Verdict logic (DESIGN.md §3.4):
 1. build the property's theorem module + the model driver;  2. axiom / sorry audit;
 3. corpus, then generated cases: correspondence (model vs implementation) and the property
    oracle on the real code;  4. when a proof or the correspondence broke: failing-input search;
 5. known findings.  exit 0 held / 1 violation / 2 infrastructure.
"""
import argparse
import importlib
import json
import os
import random
import sys
import time
import traceback
from pathlib import Path

from . import core
from .core import Infra, Result


def load_prop(pid):
    return importlib.import_module(f"harness.vh.props.{pid.lower()}")


def corpus_cases(pid):
    d = core.CORPUS / pid
    out = []
    if d.is_dir():
        for f in sorted(d.glob("*.json")):
            out.append((f.name, json.loads(f.read_text())))
    return out


def write_replay(pid, case, info):
    core.REPLAYS.mkdir(parents=True, exist_ok=True)
    body = dict(property=pid, case=core.jsonable(case), **info)
    h = core.case_key(body)
    p = core.REPLAYS / f"{pid}-{h}.json"
    p.write_text(json.dumps(body, indent=1, sort_keys=True))
    return p


def shrink(mod, case, pred, budget=150):
    """greedy shrinking with the property module's `shrink` candidates"""
    if not hasattr(mod, "shrink"):
        return case
    cur = case
    improved = True
    while improved and budget > 0:
        improved = False
        for cand in mod.shrink(cur):
            budget -= 1
            if budget <= 0:
                break
            try:
                if pred(cand):
                    cur = cand
                    improved = True
                    break
            except Infra:
                raise
            except Exception:
                continue
    return cur


def describe_build_errors(log):
    """names the theorems in which `lake build` reported errors (file:line -> enclosing theorem)"""
    import re
    out = []
    for m in re.finditer(r"error: (\S+\.lean):(\d+):(\d+): (.*)", log):
        f, line, msg = m.group(1), int(m.group(2)), m.group(4)
        name = "?"
        try:
            src = (core.LEAN / f).read_text().splitlines()
            for k in range(min(line, len(src)) - 1, -1, -1):
                mm = re.match(r"\s*(?:private |protected )?(?:theorem|lemma|def|example)\s+([^\s\(\{\[:]+)?", src[k])
                if mm:
                    name = mm.group(1) or "example"
                    break
        except OSError:
            pass
        out.append(f"{f}:{line} in `{name}`: {msg[:160]}")
    return "; ".join(out[:6]) if out else log[-800:]


def main(argv=None):
    ap = argparse.ArgumentParser()
    ap.add_argument("--prop", required=True)
    ap.add_argument("--tier", default=os.environ.get("VERIF_TIER", "quick"), choices=["quick", "thorough"])
    ap.add_argument("--replay")
    ap.add_argument("--seed", type=int, default=None)
    args = ap.parse_args(argv)
    pid = args.prop.upper()
    seed = args.seed if args.seed is not None else int(os.environ.get("VERIF_SEED", "20260930"))
    t0 = time.time()
    try:
        rc = run(pid, args.tier, seed, args.replay, t0)
    except Infra as e:
        print(f"INFRA-ERROR property={pid}: {e}")
        rc = 2
    except Exception:
        traceback.print_exc()
        print(f"INFRA-ERROR property={pid}: unexpected exception in the harness")
        rc = 2
    sys.exit(rc)


def run(pid, tier, seed, replay, t0):
    core.use_repo()
    mod = load_prop(pid)

    # ---- 1. build
    proof_broken = None
    ok, log = core.lake_build(["VrpModel", "vrpdriver"])
    if not ok:
        raise Infra("model/driver does not build:\n" + log[-3000:])
    mods = [f"VrpProofs.Props.{m.stem}" for m in core.prop_modules(pid)]
    if not mods:
        raise Infra(f"no theorem module for {pid}")
    ok, log = core.lake_build(mods)
    if not ok:
        proof_broken = "theorem module(s) of %s no longer check: %s" % (pid, describe_build_errors(log))

    # ---- 2. audit
    theorems = []
    if proof_broken is None:
        hits = core.forbidden_tokens()
        if hits:
            raise Infra("forbidden tokens in the Lean sources: " + "; ".join(hits))
        names, axioms, missing, out = core.audit_axioms(pid)
        if missing:
            raise Infra(f"axiom audit did not report {missing}: {out[-1500:]}")
        for n in names:
            bad = [a for a in axioms[n] if a not in core.ALLOWED_AXIOMS]
            if bad:
                raise Infra(f"theorem {n} depends on unexpected axioms {bad}")
            theorems.append(dict(name=n, axioms=axioms[n]))
        if tier == "thorough":
            p = core._run(["lake", "env", "leanchecker"] + mods, core.LEAN)
            if p.returncode != 0:
                raise Infra("leanchecker rejected the compiled theorem module: " + p.stdout[-1500:])

    drv = core.Driver()
    rng = random.Random(seed)
    findings, fixed = core.load_known()
    known = [k for k in findings if k["prop"] == pid]
    known_sigs = {k["signature"] for k in known}

    def run_case(case):
        try:
            return mod.run_case(case, drv)
        except Infra:
            raise
        except core.SkipCase as e:
            res = core.Result(key=core.case_key(case))
            res.nontrivial = False
            res.features.append("skipped:" + str(e)[:60])
            return res
        except Exception as e:  # noqa
            # an exception that escapes from the code under test at a place where the model (and the unchanged code) return
            # normally is a broken correspondence, not a harness fault; anything else is an infrastructure error
            tb = traceback.extract_tb(e.__traceback__)
            src = str(core.REPO / "src")
            frames = [f for f in tb if f.filename.startswith(src)]
            res = core.Result(key=core.case_key(case))
            if frames:
                last = frames[-1]
                res.features.append("implementation-raised-unexpectedly")
                res.disagree("the implementation raised where the model returns normally",
                             f"{type(e).__name__}: {str(e)[:120]} at {os.path.relpath(last.filename, src)}:{last.lineno} in {last.name}", "normal return")
            else:
                # the comparison code itself could not digest what the implementation returned (wrong shapes, missing entries …):
                # the correspondence is not established for this input
                last = tb[-1]
                res.features.append("implementation-output-not-interpretable")
                res.disagree("the implementation's output could not be compared with the model",
                             f"{type(e).__name__}: {str(e)[:120]} at {os.path.basename(last.filename)}:{last.lineno}", "comparable output")
            return res

    if replay:
        body = json.loads(Path(replay).read_text())
        res = run_case(body["case"])
        print(json.dumps(dict(disagreements=res.disagreements, failures=res.failures), indent=1))
        drv.close()
        return 1 if (res.failures or res.disagreements) else 0

    stats = dict(evaluations=0, keys=set(), features={}, disagreements=[], failures=[], known_hits={}, samples=[])

    def account(case, res, origin, known_sig=None):
        # (a listed finding is identified by its witness input: the same signature on any other input is a new violation)
        stats["evaluations"] += 1
        if res.nontrivial:
            stats["keys"].add(res.key or core.case_key(case))
        for f in res.features:
            stats["features"][f] = stats["features"].get(f, 0) + 1
        if len(stats["samples"]) < 3 and res.nontrivial:
            stats["samples"].append(core.jsonable(case))
        for d in res.disagreements:
            stats["disagreements"].append((case, d, origin))
        for sig, msg in res.failures:
            if known_sig is not None and sig == known_sig:
                stats["known_hits"][sig] = stats["known_hits"].get(sig, 0) + 1
            else:
                stats["failures"].append((case, sig, msg, origin))

    # ---- 5a. witnesses of known findings are replayed first
    for k in known:
        w = core.VERIF / k["witness"]
        case = json.loads(w.read_text())
        res = run_case(case)
        if any(sig == k["signature"] for sig, _ in res.failures):
            print(f"KNOWN-FINDING: property={pid} {k['what']} [signature {k['signature']}, witness {k['witness']}]")
        else:
            print(f"note: known finding {k['signature']} no longer reproduces on its witness")
        account(case, res, "known:" + k["witness"], known_sig=k["signature"])

    # ---- 3. corpus then generated cases
    for name, case in corpus_cases(pid):
        account(case, run_case(case), "corpus:" + name)
    budget_s = getattr(mod, "BUDGET_S", {}).get(tier, 120 if tier == "quick" else 900)
    tgen = time.time()
    import itertools as _it
    exhaustive_scope = None
    gens = [mod.gen(rng, tier)]
    if tier == "thorough" and hasattr(mod, "gen_exhaustive"):
        # a finite scope enumerated completely (reported in the evidence), before the seeded stream
        exhaustive_scope = mod.EXHAUSTIVE_SCOPE
        gens.insert(0, mod.gen_exhaustive())
    for case in _it.chain(*gens):
        account(case, run_case(case), "gen")
        if len(stats["failures"]) >= 3:
            break
        if time.time() - tgen > budget_s:
            stats["features"]["stopped_by_time_budget"] = 1
            break

    # ---- 4. failing-input search when the proof or the correspondence broke
    searched = 0
    if (proof_broken or stats["disagreements"]) and not stats["failures"]:
        srng = random.Random(seed + 1)
        tsearch = time.time()
        for case in mod.gen(srng, "thorough"):
            res = run_case(case)
            searched += 1
            for sig, msg in res.failures:
                stats["failures"].append((case, sig, msg, "search"))
            if stats["failures"] or time.time() - tsearch > (120 if tier == "quick" else 600):
                break

    rc = 0
    lines = []
    if stats["failures"]:
        case, sig, msg, origin = stats["failures"][0]

        def pred(c):
            r = run_case(c)
            return any(s == sig for s, _ in r.failures)
        small = shrink(mod, case, pred)
        res = run_case(small)
        msgs = [m for s, m in res.failures if s == sig] or [msg]
        p = write_replay(pid, small, dict(kind="failing-input", signature=sig, message=msgs[0], origin=origin,
                                          replay_cmd=f"cd /verif && /venv/bin/python -m harness.vh.run --prop {pid} --replay <this file>"))
        lines.append(f"VIOLATION property={pid} replay={p}")
        print(f"failing input ({sig}): {msgs[0]}")
        rc = 1
    elif proof_broken or stats["disagreements"]:
        what = proof_broken or ("correspondence model/implementation: " + stats["disagreements"][0][1])
        case = stats["disagreements"][0][0] if stats["disagreements"] else None
        p = write_replay(pid, case, dict(kind="no-failing-input-found", no_longer_checks=what,
                                         searched_cases=searched + stats["evaluations"]))
        print(f"broken obligation: {what[:600]}")
        lines.append(f"VIOLATION property={pid} replay={p} no-failing-input-found")
        rc = 1

    # ---- evidence
    wall = time.time() - t0
    cov = dict(
        obligations=len(theorems) if theorems else len(core.theorem_names(pid)),
        discharged=len(theorems),
        checker_cmd=f"cd /verif/lean && lake build VrpProofs.Props.{pid} && lake env lean <generated '#print axioms' file for every theorem of VrpProofs/Props/{pid}.lean>"
                    + (f" && lake env leanchecker VrpProofs.Props.{pid}" if tier == "thorough" else ""),
        trusted_base=TRUSTED_BASE + list(getattr(mod, "TRUSTED", [])),
        theorems=theorems,
        partial=list(getattr(mod, "PARTIAL", [])),
        evaluations=stats["evaluations"],
        distinct_nontrivial=len(stats["keys"]),
        rule=mod.RULE,
        samples=stats["samples"],
        input_distribution=dict(sorted(stats["features"].items())),
        correspondence_disagreements=len(stats["disagreements"]),
        oracle_failures=len(stats["failures"]),
        known_finding_hits=stats["known_hits"],
        search_cases=searched,
        model_requests=drv.requests,
        repo=str(core.REPO),
    )
    try:
        from . import form_util as _FU
        if sum(_FU.ORDER_STATS.values()):
            # how often the implementation numbered its variables as the model does / differently (then compared through the relabelling)
            cov["variable_numbering_vs_model"] = dict(_FU.ORDER_STATS)
    except Exception:  # noqa
        pass
    if tier == "thorough" and exhaustive_scope and not stats["features"].get("stopped_by_time_budget"):
        cov["exhaustive"] = True
        cov["exhaustive_scope"] = exhaustive_scope
    ev = dict(property_id=pid, tier=tier, seed=seed, level="proof", coverage=cov,
              assumptions=list(mod.ASSUMPTIONS), wall_s=round(wall, 2), violations=1 if rc == 1 else 0)
    core.EVIDENCE.mkdir(exist_ok=True)
    (core.EVIDENCE / f"{pid}.json").write_text(json.dumps(core.jsonable(ev), indent=1))
    drv.close()
    for ln in lines:
        print(ln)
    print(f"{pid} {tier}: theorems={len(theorems)} cases={stats['evaluations']} distinct_nontrivial={len(stats['keys'])} "
          f"disagreements={len(stats['disagreements'])} failures={len(stats['failures'])} wall={wall:.1f}s rc={rc}")
    return rc


TRUSTED_BASE = [
    "Lean 4.33.0 kernel (thorough tier: compiled theorem module re-checked by leanchecker)",
    "axioms: every property theorem depends only on a subset of {propext, Classical.choice, Quot.sound} (audited on this run with #print axioms); no sorry/admit/native_decide/bv_decide/own axioms (grep on this run)",
    "Mathlib v4.33.0 and Lean core as shipped in /opt/veriftools",
    "the hand-written Lean model (lean/VrpModel) and the correspondence check tying it to /repo's working tree: generators, canonicalisation, driver parser/printer, Python Fraction arithmetic",
    "modelled, not verified: CPython, numpy, scipy.sparse container semantics, IEEE-754 (inputs are small dyadic rationals on which every float operation of the code is exact)",
]

if __name__ == "__main__":
    main()
