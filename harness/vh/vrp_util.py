"""Shared helpers for the three routing formulations: generators, real-object builders, model requests, canonical forms."""
from fractions import Fraction
import itertools

from . import core
from . import mirp_util as MU
from .core import fs, fl, F

NAMES = ["D", "n1", "n2", "n3", "n4", "n5"]


# ------------------------------------------------------------------ generators

def gen_vrptw(rng, nmax=4, zero_times=False, neg_costs=True, dense=None):
    """a small VRPTW spec; depot is the first node; windows in quarters incl. inf / zero width; unreachable customers possible"""
    n = rng.randint(2, nmax)
    nodes = [dict(name="D", demand="0", lo="0", hi="inf")]
    for k in range(1, n):
        lo = Fraction(rng.randint(0, 12), 4) if rng.random() < 0.8 else Fraction(rng.randint(0, 3))
        w = rng.choice([0, 1, 2, 4, 8, 12, None])
        hi = "inf" if w is None else fs(lo + Fraction(w, 4) * rng.choice([1, 1, 2]))
        nodes.append(dict(name=NAMES[k], demand=fs(Fraction(rng.randint(-4, 8), 4)), lo=fs(lo), hi=hi))
    p = dense if dense is not None else rng.choice([0.35, 0.6, 0.85, 1.0])
    arcs = []
    for i in range(n):
        for j in range(n):
            if i == j and rng.random() < 0.95:
                continue
            if rng.random() < p:
                tmin = 0 if (zero_times or i == 0 or j == 0) else 1
                t = Fraction(rng.randint(tmin, 8), 4) if rng.random() < 0.7 else Fraction(rng.randint(tmin and 1, 3))
                c = Fraction(rng.randint(-12 if neg_costs else 0, 20), 4)
                arcs.append([nodes[i]["name"], nodes[j]["name"], fs(t), fs(c)])
    rng.shuffle(arcs)
    cap = Fraction(rng.randint(4, 24), 4)
    init = Fraction(rng.randint(0, int(cap * 4)), 4)
    return dict(nodes=nodes, arcs=arcs, cap=fs(cap), init=fs(init))


def gen_grid(rng, spec, tier="quick", complete=False):
    hi_all = [Fraction(n["lo"]) for n in spec["nodes"]] + [Fraction(n["hi"]) for n in spec["nodes"] if n["hi"] != "inf"]
    top = int(max(hi_all)) + 2
    style = "complete" if complete else rng.choice(["ints", "quarters", "sparse", "ends", "early"])
    if style == "complete":
        pts = [Fraction(k, 4) for k in range(0, 4 * top + 1)]
    elif style == "ints":
        pts = [Fraction(k) for k in range(0, top + 1)]
    elif style == "quarters":
        pts = [Fraction(k, 4) for k in range(0, 4 * top + 1) if rng.random() < 0.5]
    elif style == "sparse":
        pts = [Fraction(rng.randint(0, 4 * top), 4) for _ in range(rng.randint(1, 5))]
    elif style == "early":
        # a short grid: every point lies before the window start of some node (that node then has no admissible arrival time)
        los = sorted(Fraction(n["lo"]) for n in spec["nodes"][1:] if Fraction(n["lo"]) > 0)
        cut = rng.choice(los) if los else Fraction(1)
        pts = [Fraction(k, 4) for k in range(0, int(4 * cut)) if rng.random() < 0.6] or [Fraction(0)]
    else:
        pts = sorted(set(hi_all + [Fraction(0)]))
    pts = sorted(set(pts)) or [Fraction(0)]
    limit = 7 if tier == "quick" else 9
    if len(pts) > limit and not complete:
        pts = sorted(rng.sample(pts, limit))
    if not complete and rng.random() < 0.25 and pts:
        pts = pts + [rng.choice(pts) for _ in range(rng.randint(1, 2))]     # a time point given more than once
    # grids may be given in any order: shuffled, already increasing (a repeated point then sits next to its twin), or decreasing
    order = rng.random()
    if order < 0.5:
        rng.shuffle(pts)
    elif order < 0.8:
        pts = sorted(pts)
    else:
        pts = sorted(pts, reverse=True)
    return [fs(p) for p in pts]


# ------------------------------------------------------------------ real objects

def val(t):
    return float("inf") if t == "inf" else float(Fraction(t))


def build_vrptw(spec):
    from vrpqubo.routing_problem import VRPTW
    v = VRPTW()
    if spec.get("cap") is not None:
        v.set_vehicle_cap(val(spec["cap"]))
    if spec.get("init") is not None:
        v.set_initial_loading(val(spec["init"]))
    for n in spec["nodes"]:
        v.add_node(n["name"], val(n["demand"]), (val(n["lo"]), val(n["hi"])))
    v.set_depot(spec["nodes"][0]["name"])
    added = []
    for a in spec["arcs"]:
        added.append(v.add_arc(a[0], a[1], val(a[2]), val(a[3])))
    return v


def graph_tokens(st):
    """protocol literal of a graph state (MU.graph_state format)"""
    toks = [str(len(st["nodes"]))]
    for n in st["nodes"]:
        toks += [n[0], fs(n[1]), fs(n[2]), fs(n[3])]
    toks.append(str(len(st["arcs"])))
    for a in st["arcs"]:
        toks += [str(a[0]), str(a[1]), a[2], a[3], fs(a[4]), fs(a[5])]
    toks.append("none" if st["cap"] is None else fs(st["cap"]))
    toks.append("none" if st["init"] is None else fs(st["init"]))
    return " ".join(toks)


def graph_of(obj):
    return MU.graph_state(obj.vrptw if hasattr(obj, "vrptw") else obj)


def dummy_free(name):
    """the path-based heuristic invents names for the dummy nodes it adds (`mf_Dum…`); which name it picks is not part of any property"""
    return "mf_Dum" if str(name).startswith("mf_Dum") else name


def canon_graph(g):
    """(nodes, arcs) for a comparison of two graph states: arcs as a sorted list (the arc table is a mapping), invented dummy-node
    names replaced by the node's position"""
    ren = {n[0]: f"mf_Dum@{i}" for i, n in enumerate(g["nodes"]) if str(n[0]).startswith("mf_Dum")}
    nodes = [tuple([ren.get(n[0], n[0])] + list(n[1:])) for n in g["nodes"]]
    arcs = sorted(tuple([a[0], a[1], ren.get(a[2], a[2]), ren.get(a[3], a[3])] + list(a[4:])) for a in g["arcs"])
    return nodes, arcs


# ------------------------------------------------------------------ model reply parsing

def parse_mp(groups, k):
    """showMP occupies 6 groups starting at index k"""
    n, m = int(groups[k][0]), int(groups[k][1])
    tk = MU.Toks(groups[k + 1])
    A = tk.lst(lambda: (tk.nat(), tk.nat(), Fraction(tk.tok())))
    b = [Fraction(t) for t in groups[k + 2][1:]]
    tk = MU.Toks(groups[k + 3])
    R = tk.lst(lambda: (tk.nat(), tk.nat()))
    c = [Fraction(t) for t in groups[k + 4][1:]]
    tk = MU.Toks(groups[k + 5])
    Q = tk.lst(lambda: (tk.nat(), tk.nat(), Fraction(tk.tok())))
    return dict(n=n, m=m, A=A, b=b, R=R, c=c, Q=Q)


def dense_from_triples(tr, r, c):
    M = [[Fraction(0)] * c for _ in range(r)]
    for (i, j, v) in tr:
        M[i][j] += v
    return M


def impl_data(obj):
    """exact (A, b, R, c, Qobj) as dense Fraction matrices from the real object's getters (raises what the code raises)"""
    import numpy as np
    import scipy.sparse as sp
    n = obj.get_num_variables()
    c, Qo = obj.get_objective_data()
    A, b, R, r = obj.get_constraint_data()

    def dense(M):
        if sp.issparse(M):
            M = M.toarray()
        M = np.asarray(M)
        return [[F(x) for x in row] for row in M], M.shape
    Ad, As = dense(A)
    Rd, Rs = dense(R)
    Qd, Qs = dense(Qo)
    return dict(n=n, A=Ad, Ashape=tuple(As), b=[F(x) for x in np.asarray(b).ravel()], R=Rd, Rshape=tuple(Rs),
                c=[F(x) for x in np.asarray(c).ravel()], Q=Qd, Qshape=tuple(Qs), r=r)


def model_dense(mp):
    return dict(n=mp["n"], A=dense_from_triples(mp["A"], mp["m"], mp["n"]), b=mp["b"],
                R=dense_from_triples([(i, j, Fraction(1)) for i, j in mp["R"]], mp["n"], mp["n"]),
                c=mp["c"], Q=dense_from_triples(mp["Q"], mp["n"], mp["n"]))


def canon_rows(A, b):
    """the linear constraints `A x = b` as a sorted list of rows `(coefficients…, rhs)`, each with its first non-zero entry positive:
    the properties speak about the SET of equations (and about |Ax-b|², which neither the order of the rows nor the sign of a row
    changes), not about how the object lists them"""
    out = []
    for row, rhs in zip(A, b):
        r = list(row) + [rhs]
        lead = next((v for v in r if v != 0), 0)
        out.append(tuple(-v for v in r) if lead < 0 else tuple(r))
    return sorted(out)


def compare_data(res, impl, md, label):
    if impl["n"] != md["n"]:
        res.disagree(f"{label} num variables", impl["n"], md["n"])
        return False
    ok = True
    if len(impl["A"]) == len(impl["b"]) and len(md["A"]) == len(md["b"]) and len(impl["b"]) == len(md["b"]):
        if canon_rows(impl["A"], impl["b"]) != canon_rows(md["A"], md["b"]):
            res.disagree(f"{label} linear constraints (set of rows up to sign)", (impl["A"], impl["b"]), (md["A"], md["b"]))
            ok = False
        keys = ("R", "c", "Q")
    else:
        keys = ("A", "b", "R", "c", "Q")
    for key in keys:
        a, b = impl[key], md[key]
        if key in ("A", "R", "Q"):
            # an empty dense matrix has no rows to compare
            a = [row for row in a]
            if len(a) == 0 and len(b) == 0:
                continue
        if a != b:
            res.disagree(f"{label} {key}", a, b)
            ok = False
    return ok


# ------------------------------------------------------------------ brute force on the real object's data

def feasible(d, x):
    n = len(x)
    for row, rhs in zip(d["A"], d["b"]):
        if sum(row[j] * x[j] for j in range(n)) != rhs:
            return False
    return sum(d["R"][i][j] * x[i] * x[j] for i in range(n) for j in range(n) if d["R"][i][j] != 0) == 0


def objective(d, x):
    n = len(x)
    return sum(d["c"][j] * x[j] for j in range(n)) + sum(d["Q"][i][j] * x[i] * x[j] for i in range(n) for j in range(n) if d["Q"][i][j] != 0)


def penalty(d, x):
    n = len(x)
    lin = sum((sum(row[j] * x[j] for j in range(n)) - rhs) ** 2 for row, rhs in zip(d["A"], d["b"]))
    quad = sum(d["R"][i][j] * x[i] * x[j] for i in range(n) for j in range(n) if d["R"][i][j] != 0)
    return lin + quad


def qubo_value(Q, k, x):
    n = len(x)
    nz = [i for i in range(n) if x[i]]
    return sum(Q[i][j] for i in nz for j in nz) + k


def qubo_dense(obj, feas, rho):
    import numpy as np
    import scipy.sparse as sp
    Q, k = obj.get_qubo(feasibility=feas, penalty_parameter=rho)
    if sp.issparse(Q):
        Q = Q.toarray()
    Q = np.asarray(Q)
    return [[F(x) for x in row] for row in Q], F(k), Q.shape


# ------------------------------------------------------------------ vectorised exact brute force (integers after scaling)

def _lcm(a, b):
    from math import gcd
    return a * b // gcd(a, b)


def scale_int(fracs):
    """(int64 array of fracs*d, d) with d the lcm of the denominators"""
    import numpy as np
    flat = [x for x in _flatten(fracs)]
    d = 1
    for x in flat:
        d = _lcm(d, Fraction(x).denominator)
    arr = np.array([[int(Fraction(x) * d) for x in row] for row in fracs], dtype=np.int64) if fracs and isinstance(fracs[0], (list, tuple)) \
        else np.array([int(Fraction(x) * d) for x in fracs], dtype=np.int64)
    return arr, d


def _flatten(x):
    for a in x:
        if isinstance(a, (list, tuple)):
            yield from _flatten(a)
        else:
            yield a


def all_x(n):
    import numpy as np
    idx = np.arange(2 ** n, dtype=np.int64)
    return ((idx[:, None] >> np.arange(n - 1, -1, -1, dtype=np.int64)) & 1).astype(np.int64)


class Brute:
    """exact values over a set of binary vectors X (default: all 2^n) of the program data `d` (impl_data format)"""

    def __init__(self, d, X=None):
        import numpy as np
        n = d["n"]
        self.n = n
        self.X = all_x(n) if X is None else np.asarray(X, dtype=np.int64)
        X = self.X
        m = len(d["b"])
        A, self.dA = scale_int(d["A"]) if m and n else (np.zeros((m, n), dtype=np.int64), 1)
        b, db = scale_int(d["b"]) if m else (np.zeros((0,), dtype=np.int64), 1)
        dd = _lcm(self.dA, db)
        A = A.reshape((m, n)) * (dd // self.dA)
        b = b * (dd // db)
        R, dR = scale_int(d["R"]) if n else (np.zeros((0, 0), dtype=np.int64), 1)
        resid = X @ A.T - b[None, :]                       # scale dd
        self.rows_ok = (resid == 0).all(axis=1)
        quadR = ((X @ R.reshape((n, n))) * X).sum(axis=1)  # scale dR
        self.feasible = self.rows_ok & (quadR == 0)
        # penalty = sum resid^2 / dd^2 + quadR / dR
        self.dP = dd * dd * dR
        self.pen = (resid * resid).sum(axis=1) * dR + quadR * dd * dd
        c, dc = scale_int(d["c"]) if n else (np.zeros((0,), dtype=np.int64), 1)
        Qo, dq = scale_int(d["Q"]) if n else (np.zeros((0, 0), dtype=np.int64), 1)
        self.dO = _lcm(dc, dq)
        self.obj = (X @ c) * (self.dO // dc) + ((X @ Qo.reshape((n, n))) * X).sum(axis=1) * (self.dO // dq)

    def qubo(self, Q, k):
        """values of x'Qx + k as (int array, scale)"""
        n = self.n
        Qi, dq = scale_int(Q)
        kf = Fraction(k)
        d = _lcm(dq, kf.denominator)
        vals = ((self.X @ Qi.reshape((n, n))) * self.X).sum(axis=1) * (d // dq) + int(kf * d)
        return vals, d

    def frac(self, arr, scale, i):
        return Fraction(int(arr[i]), scale)


# ------------------------------------------------------------------ planted-feasible generator

def gen_planted(rng, ncust=None, extra_arc_p=0.25, wide=False):
    """VRPTW with a planted feasible route partition on integer times; returns (spec, info)
    info: routes (lists of node names incl. depots), grid (integer times used + a few extras), V (number of routes), Lmin"""
    ncust = ncust or rng.randint(1, 3)
    names = ["D"] + NAMES[1:ncust + 1]
    cust = names[1:]
    rng.shuffle(cust)
    # partition customers into routes
    routes, i = [], 0
    while i < len(cust):
        k = rng.randint(1, len(cust) - i)
        routes.append(cust[i:i + k])
        i += k
    times, arcs, used_times = {}, {}, {0}
    for r in routes:
        t = 0
        prev = "D"
        for c in r:
            tt = rng.randint(1, 2)
            t += tt
            times[c] = t
            used_times.add(t)
            arcs[(prev, c)] = (tt, Fraction(rng.randint(-4, 12), 4))
            prev = c
        tt = rng.randint(0, 2)
        arcs[(prev, "D")] = (tt, Fraction(rng.randint(0, 12), 4))
        used_times.add(t + tt)
    nodes = [dict(name="D", demand="0", lo="0", hi="inf")]
    for c in names[1:]:
        w0 = rng.choice([0, 0, 1]) if not wide else rng.randint(0, 2)
        w1 = rng.choice([0, 0, 1, 2]) if not wide else rng.randint(0, 3)
        nodes.append(dict(name=c, demand=fs(Fraction(rng.randint(0, 4), 4)), lo=fs(max(0, times[c] - w0)), hi=fs(times[c] + w1)))
    for a in names:
        for b in names:
            if a != b and (a, b) not in arcs and rng.random() < extra_arc_p:
                arcs[(a, b)] = (rng.randint(0 if "D" in (a, b) else 1, 2), Fraction(rng.randint(-4, 12), 4))
    arc_list = [[a, b, fs(t), fs(c)] for (a, b), (t, c) in arcs.items()]
    rng.shuffle(arc_list)
    grid = sorted(used_times | {rng.randint(0, max(used_times) + 1) for _ in range(rng.randint(0, 2))})
    grid = [fs(t) for t in grid]
    rng.shuffle(grid)
    spec = dict(nodes=nodes, arcs=arc_list, cap="8", init="8")
    info = dict(routes=[["D"] + r + ["D"] for r in routes], grid=grid, V=len(routes), Lmin=max(len(r) for r in routes) + 2)
    return spec, info
