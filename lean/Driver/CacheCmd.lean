import VrpModel.Cache
import Driver.Proto
import Driver.GraphCmd
import Driver.FormCmd
/-! driver commands for the cached-object state machines (C14) -/
namespace Vrp.Drv
open Vrp Vrp.Proto

def pCOp : P COp := do
  let t ← tok
  match t with
  | "n" => pure .numVars
  | "obj" => pure .objective
  | "con" => pure .constraints
  | "heur" => do let h ← pRat; pure (.heur h)
  | _ => throw s!"bad cache op {t}"

def showSeqOut (o : COut SeqSpec) : String :=
  match o with
  | .vars v => s!"vars {showList showSTup v}"
  | .obj (c, q) => s!"obj {showRats c} ; {showList showTriple q}"
  | .con none => "con err:assert"
  | .con (some (a, b, r)) => s!"con {showList showTriple a} ; {showRats b} ; {showList showPair r}"
  | .done => "done"
  | .raised e => s!"raised {showErr e}"

def showArcOut (o : COut ArcSpec) : String :=
  match o with
  | .vars v => s!"vars {showList showATup v}"
  | .obj c => s!"obj {showRats c}"
  | .con (a, b) => s!"con {showList showTriple a} ; {showRats b}"
  | .done => "done"
  | .raised e => s!"raised {showErr e}"

/-- `cache.seq <inst> <k> ops` → replies joined by ` | `, then the cache flags and the final instance -/
def cmdCacheSeq : P String := do
  let I ← pSeqInst; let ops ← pList pCOp; pEnd
  let r := CObj.run ({ inst := I } : CObj SeqSpec) ops
  let s := r.1
  pure s!"ok {" | ".intercalate (r.2.map showSeqOut)} | flags {showBool s.vars.isSome} {showBool s.obj.isSome} {showBool s.con.isSome} {showBool s.dead} | {showGraph s.inst.g} | {s.inst.V} {showRats s.inst.vcost} | {showOpt showRats s.sol}"

def cmdCacheArc : P String := do
  let I ← pArcInst; let ops ← pList pCOp; pEnd
  let r := CObj.run ({ inst := I } : CObj ArcSpec) ops
  let s := r.1
  pure s!"ok {" | ".intercalate (r.2.map showArcOut)} | flags {showBool s.vars.isSome} {showBool s.obj.isSome} {showBool s.con.isSome} {showBool s.dead} | {showGraph s.inst.g} | {showOpt showRats s.sol}"

def cacheCmds : List (String × P String) := [("cache.seq", cmdCacheSeq), ("cache.arc", cmdCacheArc)]

end Vrp.Drv
