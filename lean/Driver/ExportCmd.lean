import VrpModel.Export
import Driver.Proto
import Driver.Tools
/-! driver commands for export / load (C10): text layout lives here -/
namespace Vrp.Drv
open Vrp Vrp.Proto

def pad2 (n : Nat) : String := if n < 10 then s!"0{n}" else toString n

/-- `.2f` text of a value given in hundredths with the sign of the exact value; `space` = the `{: .2f}` flag -/
def fmt2 (h : Int) (neg : Bool) (space : Bool) : String :=
  let a := h.natAbs
  let body := s!"{a / 100}.{pad2 (a % 100)}"
  if neg then "-" ++ body else if space then " " ++ body else body

def renderLines (cchar : String) (f : ExportFile) : List String :=
  [s!"{cchar} Constant term of objective = {fmt2 f.const f.constNeg false}", s!"{cchar} Diagonal terms"]
  ++ f.diag.map (fun r => s!"{r.i} {r.j} {fmt2 r.h r.neg true}")
  ++ [s!"{cchar} Off-Diagonal terms"]
  ++ f.off.map (fun r => s!"{r.i} {r.j} {fmt2 r.h r.neg true}")

/-- `export <r> <c> <M..> <const> <pattern-hex> <ising 0/1>` → lines joined by `\n` encoded as ` ~ ` -/
def cmdExport : P String := do
  let (r, c, rows) ← pMatRC; let const ← pRat; let pat ← tok; let ising ← pBool; pEnd
  match squareGuard r c with
  | none => pure "err:value"
  | some n =>
    let C := Container.mk' n (matOf rows) const (unhex pat)
    let f := if ising then C.exportIsing else C.exportQubo
    let cchar := if ising then "#" else "c"
    let L := loadFile f
    let ent := " ".intercalate (L.entries.map fun e => s!"{e.1} {e.2.1} {e.2.2}")
    pure s!"ok {" ~ ".intercalate (renderLines cchar f)} | {L.dim} {L.const} {L.entries.length} {ent} | {showBool (loadPinnedAccepts f)}"

def exportCmds : List (String × P String) := [("export", cmdExport)]

end Vrp.Drv
