import VrpModel.Export
import VrpModel.ExportText
import Driver.Proto
import Driver.Tools
/-! driver commands for export / load (C10): text layout lives in VrpModel/ExportText.lean -/
namespace Vrp.Drv
open Vrp Vrp.Proto

/-- the text layer is `VrpModel/ExportText.lean` (the object of the round-trip theorem); the driver only converts to `String` -/
def renderLines (cchar : String) (f : ExportFile) : List String :=
  (Text.renderLines (cchar.toList.headD '#') f).map String.ofList

def splitLines (cs : List Char) : List (List Char) := Text.splitOn '\n' cs

/-- `loadtext <cc-hex> <text-hex>`: the model of `load_matrix` run on the lines of a real file -/
def cmdLoadText : P String := do
  let cc ← tok; let txt ← tok; pEnd
  let lines := splitLines (unhex txt).toList
  -- `readlines()` yields no line after a final newline
  let lines := if lines.getLast? = some [] then lines.dropLast else lines
  match Text.loadText ((unhex cc).toList.headD '#') lines with
  | none => pure "err:raises"
  | some L =>
    let ent := " ".intercalate (L.entries.map fun e => s!"{e.1} {e.2.1} {e.2.2}")
    pure s!"ok {L.dim} {L.const} {L.entries.length} {ent}"

/-- `export <r> <c> <M..> <const> <pattern-hex> <ising 0/1>` → lines joined by `\n` encoded as ` ~ ` -/
def cmdExport : P String := do
  let (r, c, rows) ← pMatRC; let const ← pRat; let pat ← tok; let ising ← pBool; pEnd
  match squareGuard r c with
  | none => pure "err:value"
  | some n =>
    let C := Container.mk' n (matOf rows) const (unhex pat)
    let f := if ising then C.exportIsing else C.exportQubo
    let cchar := if ising then "#" else "c"
    let L := loadFile f
    let ent := " ".intercalate (L.entries.map fun e => s!"{e.1} {e.2.1} {e.2.2}")
    pure s!"ok {" ~ ".intercalate (renderLines cchar f)} | {L.dim} {L.const} {L.entries.length} {ent} | {showBool (loadPinnedAccepts f)}"

def exportCmds : List (String × P String) := [("export", cmdExport), ("loadtext", cmdLoadText)]

end Vrp.Drv
