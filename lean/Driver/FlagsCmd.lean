import VrpModel.CacheFlags
import VrpModel.PathFlags
import Driver.Proto
import Driver.GraphCmd
import Driver.FormCmd
/-!
# driver commands for the flag-level cache model (`VrpModel/CacheFlags.lean`, C14) and for the operation-level model
# of the cache-free path object (`VrpModel/PathFlags.lean`, C14; section "`flags.path`" at the end of this header)

## requests

    flags.arc <arc instance> <ops>
    flags.seq <seq instance> <ops>
    flags.path <pool literal> <choices> <ops>          (described in its own section below)

* `<arc instance>` is what `pArcInst` parses: `<graph> <k> t1 … tk` (the time points; they are sorted on entry),
  `<graph>` as parsed by `pGraph`:
  `<#nodes> {name demand lo hi}* <#arcs> {i j origname destname time cost}* <cap|none> <init|none>`.
* `<seq instance>` is what `pSeqInst` parses: `new <graph> <strict 0/1> <V> <L>` (constructor + `set_max_vehicles` +
  `set_max_sequence_length`) or `lit <graph> <strict 0/1> <V> <L> <k> c1 … ck` (literal state with `vehicle_cost`).
* `<ops>` is a length-prefixed list `<k> op1 … opk`, each `op` one of

      n                          get_num_variables()
      idx <tuple>                get_var_index(*tuple)      arc tuple: `i s j t`; seq tuple: `v p n`
      tup <k>                    get_var_tuple_index(k)     (k ≥ 0)
      obj                        get_objective_data()
      con                        get_constraint_data()
      qubo <feas 0/1> <rho|none> get_qubo(feasibility, penalty_parameter)
      dec <k> x1 … xk            get_routes([x1, …, xk])    (a QUERY; the vector is a length-prefixed list of rationals,
                                                            the selected indices are the positions with xk ≠ 0)
      heur <high>                make_feasible(high)

  and the public MUTATORS (each runs the hook `_problem_changed()` first, i.e. unsets all flags, also when it raises):

      tp <k> t1 … tk                         add_time_points([t1 … tk])                 (arc only)
      setV <v>                               set_max_vehicles(v)                        (seq only)
      setL <l>                               set_max_sequence_length(l)                 (seq only)
      addarc <orig> <dest> <time> <cost>     add_arc(orig, dest, time, cost)            (seq: the overriding add_arc)
      addnode <name> <demand> <lo> <hi|inf>  add_node(name, demand, (lo, hi))
      setdepot <name>                        set_depot(name)                            (seq: the overriding set_depot)
      setcap <c>                             set_vehicle_cap(c)
      setinit <l>                            set_initial_loading(l)

  Rationals are `p` or `p/q`, `inf` is `+∞` (window ends only).  Node names are single tokens.

## reply

    ok <group> | <group> | … | final <graph> | tp <time points> | <solution>            (arc)
    ok <group> | <group> | … | final <graph> | <V> <vcost> | L <l> | <solution>         (seq)

one `<group>` per operation, in order (with zero operations the reply is `ok final …`):

    <digest> ; flags <b> <b> <b>          arc: variables_enumerated objective_built constraints_built
    <digest> ; flags <b> <b> <b> <b>      seq: variables_enumerated objective_built lin_con_built quad_con_built

the flags are those AFTER the operation (`0`/`1`).  `<graph>` is printed by `showGraph`
(`<#nodes> {name demand lo hi}* <#arcs> {i j orig dest time cost}* <cap|none> <init|none>`), `<vcost>` is a
length-prefixed list of rationals, `<time points>` is the length-prefixed list `time_points`, `<l>` is
`max_sequence_length`, `<solution>` (always the LAST part) is `none` or a length-prefixed list of rationals
(`feasible_solution`).

Digests (all lists length-prefixed: `<k> x1 … xk`; a COO triple is `row col value`, a pair `row col`):

    n <num>
    idx <k>            |  idx none
    tup <tuple>        |  tup none
    obj <c> ; <n>                                      arc: linear objective, side length of the (zero) quadratic part
    obj <c> ; <Q triples> ; <n>                        seq: linear part, bilinear COO triples, side length of Q
    con <A triples> ; <b> ; <rows> <cols> <n>          arc: A, rhs, shape of A, side length of the (zero) Q_eq
    con <A triples> ; <b> ; <R pairs> ; <rows> <cols> <n>   seq: A, rhs, entries of Q_eq (value 1 each), shape of A, side of Q_eq
    qubo ok <n> <rho> <k> <sum of all entries of Q>    (`rho` = penalty weight used, `k` = constant)
    qubo err:shape | qubo err:assert
    con err:assert                                     seq only: a consistency assertion of build_quadratic_constraints
    routes <k> <route>*k                               `get_routes` returned: length-prefixed list of routes;
                                                       seq `<route>` = `<m> n1 … nm` (node positions of one vehicle),
                                                       arc `<route>` = `<m> {node time}*m` (the stops of one route)
    routes <err>                                       `get_routes` raised: arc `err:type` (an index beyond the
                                                       variables) / `err:assert` (window or visit-count assertion; in
                                                       particular the EMPTY selection on a problem with a customer —
                                                       on a depot-only problem the empty selection gives `routes 0`;
                                                       in both cases nothing is enumerated); seq `err:type` (index beyond the variables) /
                                                       `err:index` (`pop(0)` from an exhausted tuple list)
    heur ok
    heur raised <err>                                  <err> ∈ err:value err:index err:assert err:type err:shape
    done                                               normal return of a void mutator
    done 1 | done 0                                    `add_arc` returned True / False
    raised <err>                                       the mutator raised (unknown / duplicate name, inverted window:
                                                       `raised err:value`); the flags are unset, the data unchanged

`;` inside a digest and the ` ; flags` separator are literal tokens.

## `flags.path`: the path-based object (`PathObj`, no caches, no flags)

    flags.path <pool literal> <choices> <ops>

* `<pool literal>` is what `pPathLit` parses (as for `path.heur` / `path.data`):
  `<graph> <routes> <costs> <visited>` with `<graph>` as above, `<routes>` = `<k> {<m> i1 … im}*k` (the stored routes
  as lists of node positions), `<costs>` = `<k> c1 … ck` (`route_costs`), `<visited>` = `<k> {<m> i1 … im}*k`
  (`route_node_visited`).  A fresh object has the three lists empty: `<graph> 0 0 0`.  The object starts with
  `feasible_solution = None`.
* `<choices>` = `<k> c1 … ck` scripts the sampler of `generate_route` exactly as in `path.heur`: the `j`-th call of the
  sampler within ONE heuristic run (j = 0, 1, …) that is offered the candidate list `cands` (in the order of the
  unvisited list) returns `cands[c_(j mod k) mod len(cands)]`; with `k = 0` the first candidate.  Every `heur` operation
  restarts the script at `j = 0`.
* `<ops>` is a length-prefixed list `<k> op1 … opk`, each `op` one of the QUERIES

      n                          get_num_variables()
      obj                        get_objective_data()
      con                        get_constraint_data()
      qubo <feas 0/1> <rho|none> get_qubo(feasibility, penalty_parameter)
      dec <k> x1 … xk            get_routes([x1, …, xk])    (selected = positions with xk ≠ 0)
      chk <route>                check_route(route)

  or of the STATE-CHANGING calls

      route <route>                          add_route(route)
      heur <high>                            make_feasible(high)
      addarc <orig> <dest> <time> <cost>     add_arc(orig, dest, time, cost)       (base class; no-op hook)
      addnode <name> <demand> <lo> <hi|inf>  add_node(name, demand, (lo, hi))
      setdepot <name>                        set_depot(name)
      setcap <c>                             set_vehicle_cap(c)
      setinit <l>                            set_initial_loading(l)

  `<route>` is a length-prefixed list of stops as in `path.hist`: `<k> {i:<idx> | n:<name>}*k` (`i:2` = node position 2,
  `n:a` = node name `a`).  The mutators do not revalidate or re-index the stored routes.

### reply

    ok <group> | <group> | … | final <graph> | <routes> | <costs> | <solution>

one `<group>` (= one digest, no flags) per operation, in order (with zero operations the reply is `ok final …`);
`<routes>` is the pool as a length-prefixed list of length-prefixed index lists, `<costs>` the length-prefixed list
`route_costs`, `<solution>` (the LAST part) `none` or the length-prefixed `feasible_solution`.  When `heur` raises, the
final state is the PARTIAL one the code leaves behind (greedy routes already added, dummy node and arcs of the failing
customer), and `<solution>` is what it was before.

Digests:

    n <num>
    obj <c> ; <n>                                      linear objective (= route costs), side of the zero quadratic part
    con <A triples> ; <b> ; <rows> <cols> <n>          A (COO `row col value`), rhs, shape of A, side of the zero Q_eq
    qubo ok <n> <rho> <k> <sum of all entries of Q>    as for `flags.arc`
    qubo err:shape                                     the pieces do not fit (only for a literal pool that `add_route`
                                                       cannot have produced)
    routes <k> {<m> name1 … namem}*k                   `get_routes` returned: node NAMES of each selected route
    routes err:index                                   a selected position beyond the pool (`IndexError`)
    chk ok:<feas 0/1>:<cost>                           `check_route` returned `(feasible, cost, …)`; for an infeasible route
                                                       `<cost>` is the amount accumulated when the walk stopped
    chk err:value | chk err:type                       unknown node name / load arithmetic on unset vehicle data
    route ok:<feas 0/1>:<added 0/1>                    `add_route` returned `(feas, added)`
    route err:value | route err:type
    heur ok
    heur raised <err>                                  err:assert (dummy route rejected), err:type (vehicle data unset),
                                                       err:value
    done                                               normal return of a void mutator
    done 1 | done 0                                    `add_arc` returned True / False
    raised <err>                                       the mutator raised (`raised err:value`); the data are unchanged
-/
namespace Vrp.Drv
open Vrp Vrp.Proto

def showQuboOut (q : QuboOut) : String :=
  let total : Rat := sumList (q.2.2.1.map sumList)
  s!"qubo ok {q.1} {showRat q.2.1} {showRat q.2.2.2} {showRat total}"

def pArcFOp : P ArcFOp := do
  let t ← tok
  match t with
  | "n" => pure .numVars
  | "idx" => do let u ← pATup; pure (.varIndex u)
  | "tup" => do let k ← pNat; pure (.varTuple k)
  | "obj" => pure .objective
  | "con" => pure .constraints
  | "qubo" => do let f ← pBool; let r ← pRho; pure (.qubo f r)
  | "heur" => do let h ← pRat; pure (.heur h)
  | "dec" => do let x ← pList pRat; pure (.decode x)
  | "tp" => do let pts ← pList pRat; pure (.addTimePoints pts)
  | "addarc" => do let o ← tok; let d ← tok; let tm ← pRat; let c ← pRat; pure (.addArc o d tm c)
  | "addnode" => do let nm ← tok; let d ← pRat; let lo ← pRat; let hi ← pERat; pure (.addNode nm d lo hi)
  | "setdepot" => do let nm ← tok; pure (.setDepot nm)
  | "setcap" => do let c ← pRat; pure (.setVehicleCap c)
  | "setinit" => do let l ← pRat; pure (.setInitialLoading l)
  | _ => throw s!"bad flags op {t}"

def pSeqFOp : P SeqFOp := do
  let t ← tok
  match t with
  | "n" => pure .numVars
  | "idx" => do let u ← pSTup; pure (.varIndex u)
  | "tup" => do let k ← pNat; pure (.varTuple k)
  | "obj" => pure .objective
  | "con" => pure .constraints
  | "qubo" => do let f ← pBool; let r ← pRho; pure (.qubo f r)
  | "heur" => do let h ← pRat; pure (.heur h)
  | "dec" => do let x ← pList pRat; pure (.decode x)
  | "setV" => do let v ← pNat; pure (.setMaxVehicles v)
  | "setL" => do let l ← pNat; pure (.setMaxSeqLen l)
  | "addarc" => do let o ← tok; let d ← tok; let tm ← pRat; let c ← pRat; pure (.addArc o d tm c)
  | "addnode" => do let nm ← tok; let d ← pRat; let lo ← pRat; let hi ← pERat; pure (.addNode nm d lo hi)
  | "setdepot" => do let nm ← tok; pure (.setDepot nm)
  | "setcap" => do let c ← pRat; pure (.setVehicleCap c)
  | "setinit" => do let l ← pRat; pure (.setInitialLoading l)
  | _ => throw s!"bad flags op {t}"

/-- one stop `node time` of an arc route -/
def showStop (e : Nat × Rat) : String := s!"{e.1} {showRat e.2}"

/-- digest of a reply; `op` disambiguates what raised -/
def showArcReply (op : ArcFOp) (r : ArcReply) : String :=
  match r with
  | .num n => s!"n {n}"
  | .idx k => s!"idx {showOpt toString k}"
  | .tup u => s!"tup {showOpt showATup u}"
  | .obj c n => s!"obj {showRats c} ; {n}"
  | .con A sh b n => s!"con {showList showTriple A} ; {showRats b} ; {sh.1} {sh.2} {n}"
  | .qubo q => showQuboOut q
  | .routesA r => s!"routes {showList (showList showStop) r}"
  | .done =>
    match op with
    | .heur _ => "heur ok"
    | _ => "done"
  | .added b => s!"done {showBool b}"
  | .raised e =>
    match op with
    | .heur _ => s!"heur raised {showErr e}"
    | .qubo _ _ => s!"qubo {showErr e}"
    | .constraints => s!"con {showErr e}"
    | .decode _ => s!"routes {showErr e}"
    | _ => s!"raised {showErr e}"

def showSeqReply (op : SeqFOp) (r : SeqReply) : String :=
  match r with
  | .num n => s!"n {n}"
  | .idx k => s!"idx {showOpt toString k}"
  | .tup u => s!"tup {showOpt showSTup u}"
  | .obj c Q n => s!"obj {showRats c} ; {showList showTriple Q} ; {n}"
  | .con A sh b R n => s!"con {showList showTriple A} ; {showRats b} ; {showList showPair R} ; {sh.1} {sh.2} {n}"
  | .qubo q => showQuboOut q
  | .routesS r => s!"routes {showList (showList toString) r}"
  | .done =>
    match op with
    | .heur _ => "heur ok"
    | _ => "done"
  | .added b => s!"done {showBool b}"
  | .raised e =>
    match op with
    | .heur _ => s!"heur raised {showErr e}"
    | .qubo _ _ => s!"qubo {showErr e}"
    | .constraints => s!"con {showErr e}"
    | .decode _ => s!"routes {showErr e}"
    | _ => s!"raised {showErr e}"

def arcFlags (o : ArcObj) : String :=
  s!"flags {showBool o.variablesEnumerated} {showBool o.objectiveBuilt} {showBool o.constraintsBuilt}"

def seqFlags (o : SeqObj) : String :=
  s!"flags {showBool o.variablesEnumerated} {showBool o.objectiveBuilt} {showBool o.linConBuilt} {showBool o.quadConBuilt}"

def runArcShow : ArcObj → List ArcFOp → List String → ArcObj × List String
  | o, [], acc => (o, acc.reverse)
  | o, op :: rest, acc =>
    let r := o.step op
    runArcShow r.1 rest (s!"{showArcReply op r.2} ; {arcFlags r.1}" :: acc)

def runSeqShow : SeqObj → List SeqFOp → List String → SeqObj × List String
  | o, [], acc => (o, acc.reverse)
  | o, op :: rest, acc =>
    let r := o.step op
    runSeqShow r.1 rest (s!"{showSeqReply op r.2} ; {seqFlags r.1}" :: acc)

def cmdFlagsArc : P String := do
  let I ← pArcInst; let ops ← pList pArcFOp; pEnd
  let r := runArcShow (ArcObj.init I) ops []
  let o := r.1
  pure ("ok " ++ " | ".intercalate (r.2 ++ [s!"final {showGraph o.inst.g}", s!"tp {showRats o.inst.T}",
    showOpt showRats o.sol]))

def cmdFlagsSeq : P String := do
  let I ← pSeqInst; let ops ← pList pSeqFOp; pEnd
  let r := runSeqShow (SeqObj.init I) ops []
  let o := r.1
  pure ("ok " ++ " | ".intercalate (r.2 ++ [s!"final {showGraph o.inst.g}", s!"{o.inst.V} {showRats o.inst.vcost}",
    s!"L {o.inst.L}", showOpt showRats o.sol]))

/-! ### `flags.path` -/

def pPathFOp : P PathFOp := do
  let t ← tok
  match t with
  | "n" => pure .numVars
  | "obj" => pure .objective
  | "con" => pure .constraints
  | "qubo" => do let f ← pBool; let r ← pRho; pure (.qubo f r)
  | "dec" => do let x ← pList pRat; pure (.decode x)
  | "chk" => do let r ← pList pStop; pure (.checkRoute r)
  | "route" => do let r ← pList pStop; pure (.addRoute r)
  | "heur" => do let h ← pRat; pure (.heur h)
  | "addarc" => do let o ← tok; let d ← tok; let tm ← pRat; let c ← pRat; pure (.addArc o d tm c)
  | "addnode" => do let nm ← tok; let d ← pRat; let lo ← pRat; let hi ← pERat; pure (.addNode nm d lo hi)
  | "setdepot" => do let nm ← tok; pure (.setDepot nm)
  | "setcap" => do let c ← pRat; pure (.setVehicleCap c)
  | "setinit" => do let l ← pRat; pure (.setInitialLoading l)
  | _ => throw s!"bad flags op {t}"

def showPathReply (op : PathFOp) (r : PathReply) : String :=
  match r with
  | .num n => s!"n {n}"
  | .obj c n => s!"obj {showRats c} ; {n}"
  | .con A sh b n => s!"con {showList showTriple A} ; {showRats b} ; {sh.1} {sh.2} {n}"
  | .qubo q => showQuboOut q
  | .routes rs => s!"routes {showList (showList id) rs}"
  | .chk f c => s!"chk ok:{showBool f}:{showRat c}"
  | .added f a => s!"route ok:{showBool f}:{showBool a}"
  | .done =>
    match op with
    | .heur _ => "heur ok"
    | _ => "done"
  | .arcAdded b => s!"done {showBool b}"
  | .raised e =>
    match op with
    | .heur _ => s!"heur raised {showErr e}"
    | .qubo _ _ => s!"qubo {showErr e}"
    | .constraints => s!"con {showErr e}"
    | .decode _ => s!"routes {showErr e}"
    | .checkRoute _ => s!"chk {showErr e}"
    | .addRoute _ => s!"route {showErr e}"
    | _ => s!"raised {showErr e}"

def runPathShow (pick : Nat → List Nat → Nat) : PathObj → List PathFOp → List String → PathObj × List String
  | o, [], acc => (o, acc.reverse)
  | o, op :: rest, acc =>
    let r := o.step pick op
    runPathShow pick r.1 rest (showPathReply op r.2 :: acc)

def cmdFlagsPath : P String := do
  let Pp ← pPathLit; let choices ← pList pNat; let ops ← pList pPathFOp; pEnd
  let pick : Nat → List Nat → Nat := fun c cands =>
    cands.getD ((choices.getD (c % (max choices.length 1)) 0) % (max cands.length 1)) 0
  let r := runPathShow pick (PathObj.init Pp) ops []
  let o := r.1
  pure ("ok " ++ " | ".intercalate (r.2 ++ [s!"final {showGraph o.inst.g}",
    showList (fun rt => showList toString rt) o.inst.routes, showRats o.inst.costs, showOpt showRats o.sol]))

def flagsCmds : List (String × P String) :=
  [("flags.arc", cmdFlagsArc), ("flags.seq", cmdFlagsSeq), ("flags.path", cmdFlagsPath)]

end Vrp.Drv
