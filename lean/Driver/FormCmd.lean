import VrpModel.ArcBased
import VrpModel.PathBased
import VrpModel.SeqBased
import VrpModel.Heuristics
import Driver.Proto
import Driver.GraphCmd
/-! driver commands for the three formulations (C02–C09, C18) -/
namespace Vrp.Drv
open Vrp Vrp.Proto

def showTriple (e : Nat × Nat × Rat) : String := s!"{e.1} {e.2.1} {showRat e.2.2}"
def showPair (e : Nat × Nat) : String := s!"{e.1} {e.2}"

/-- `n m | A | b | R | c | Qobj` -/
def showMP (d : MPData) : String :=
  s!"{d.n} {d.m} | {showList showTriple d.A} | {showRats d.b} | {showList showPair d.R} | {showRats d.c} | {showList showTriple d.Qobj}"

def pRho : P (Option Rat) := pOpt pRat

def showQubo (d : MPData) (suff : Rat) (feas : Bool) (rho? : Option Rat) : String :=
  let rho := rho?.getD (defaultRho suff feas)
  match d.getQubo suff feas rho? with
  | .error _ => "err:shape"
  | .ok (Q, k) => s!"ok {d.n} {showRat rho} | {showMat (tabulate2 d.n d.n Q)} | {showRat k}"

/-- `test_feasibility` on a list of vectors: `viol-rows | vio_q | nnz` per vector -/
def showTF (d : MPData) (xs : List (List Rat)) : String :=
  " | ".intercalate (xs.map fun x =>
    let r := d.testFeasibility (vecOf x)
    s!"{showList showBool r.1} | {showRat r.2.1} | {r.2.2}")

/-! ### arc-based -/
def showATup (u : ATup) : String := s!"{u.1} {showRat u.2.1} {u.2.2.1} {showRat u.2.2.2}"
def pATup : P ATup := do let i ← pNat; let s ← pRat; let j ← pNat; let t ← pRat; pure (i, s, j, t)

def pArcInst : P ArcInst := do
  let g ← pGraph
  let pts ← pList pRat
  pure (({ g := g, T := [] } : ArcInst).addTimePoints pts)

def cmdArcData : P String := do
  let I ← pArcInst; pEnd
  pure s!"ok {showList showATup I.vars} | {showRats I.T} | {showRat I.suffPenalty} | {showMP I.data}"

def cmdArcTF : P String := do
  let I ← pArcInst; let xs ← pList (pList pRat); pEnd
  pure s!"ok {showTF I.data xs}"

def cmdArcQubo : P String := do
  let I ← pArcInst; let feas ← pBool; let rho ← pRho; pEnd
  pure (showQubo I.data I.suffPenalty feas rho)

/-- lookups: tuples → index, indices → tuple, tuples → admissible? -/
def cmdArcLookup : P String := do
  let I ← pArcInst
  let tups ← pList pATup
  let idxs ← pList pNat
  pEnd
  pure s!"ok {showList (fun u => showOpt toString (I.varIndex u)) tups} | {showList (fun k => showOpt showATup (I.varTuple k)) idxs} | {showList (fun u => showBool (I.admissible u)) tups}"

/-! ### path-based -/
def pStop : P Stop := do
  let t ← tok
  if t.startsWith "i:" then
    match (t.drop 2).toString.toNat? with
    | some i => pure (.idx i)
    | none => throw s!"bad stop {t}"
  else if t.startsWith "n:" then pure (.name (t.drop 2).toString)
  else throw s!"bad stop {t}"

def showRC (r : Except Err RouteCheck) : String :=
  match r with
  | .error e => showErr e
  | .ok rc => s!"ok:{showBool rc.feas}:{showRat rc.cost}"

inductive PathOp where
  | route (r : List Stop)
  | graph (op : GOp)

def pPathOp : P PathOp := do
  let t ← tok
  if t = "R" then do let r ← pList pStop; pure (.route r)
  else do modify (t :: ·); let op ← pGOp; pure (.graph op)

/-- `path.hist <graph> <k> {R route | N … | A … | D …}` → per op result, then pool and data;
    routes go through `checkRouteO` / `addRouteO` (vehicle data as they are: `none none` at the end of the graph
    = capacity / initial loading unset, `err:type` only when a leg reaches the load arithmetic) -/
def cmdPathHist : P String := do
  let g ← pGraph
  let ops ← pList pPathOp
  pEnd
  let rec go (P : PathInst) (ops : List PathOp) (acc : List String) : PathInst × List String :=
    match ops with
    | [] => (P, acc.reverse)
    | .route r :: rest =>
      let chk := checkRouteO P.g r
      let a := P.addRouteO r
      let s := match a.2 with
        | .error e => showErr e
        | .ok (f, ad) => s!"ok:{showBool f}:{showBool ad}"
      go a.1 rest (s!"{showRC chk} {s}" :: acc)
    | .graph op :: rest =>
      let r := gstep .base P.g op
      go { P with g := r.1 } rest (showGOut r.2 :: acc)
  let r := go { g := g } ops []
  let P := r.1
  pure s!"ok {" ; ".intercalate r.2} | {showList (fun rt => showList toString rt) P.routes} | {showRat P.suffPenalty} | {showMP P.data}"

/-- `path.lit <graph> <routes as index lists> <costs> <visited>`: literal pool -/
def pPathLit : P PathInst := do
  let g ← pGraph
  let routes ← pList (pList pNat)
  let costs ← pList pRat
  let visited ← pList (pList pNat)
  pure { g := g, routes := routes, costs := costs, visited := visited }

def cmdPathData : P String := do
  let P ← pPathLit; pEnd
  pure s!"ok {showRat P.suffPenalty} | {showMP P.data}"

def cmdPathTF : P String := do
  let P ← pPathLit; let xs ← pList (pList pRat); pEnd
  pure s!"ok {showTF P.data xs}"

def cmdPathQubo : P String := do
  let P ← pPathLit; let feas ← pBool; let rho ← pRho; pEnd
  pure (showQubo P.data P.suffPenalty feas rho)

/-! ### sequence-based -/
def showSTup (u : STup) : String := s!"{u.1} {u.2.1} {u.2.2}"
def pSTup : P STup := do let v ← pNat; let p ← pNat; let n ← pNat; pure (v, p, n)

/-- `new <srcgraph> strict V L` (constructor + setters) or `lit <graph> strict V L <vcost>` (literal state) -/
def pSeqInst : P SeqInst := do
  let mode ← tok
  let g ← pGraph
  let strict ← pBool
  let v ← pNat; let l ← pNat
  match mode with
  | "new" => pure (((SeqInst.new g strict).setMaxVehicles v).setMaxSeqLen l)
  | "lit" => do
      let vc ← pList pRat
      pure { g := g, strict := strict, V := v, L := l, vcost := vc }
  | _ => throw s!"bad seq mode {mode}"

def cmdSeqData : P String := do
  let I ← pSeqInst; pEnd
  let fixedTab := (List.range I.L).flatMap fun p => (List.range I.g.nodes.length).map fun n => showOpt showRat (I.fixed p n)
  match I.data with
  | none => pure s!"err:assert {showGraph I.g}"
  | some d =>
    pure s!"ok {showList showSTup I.vars} | {showGraph I.g} | {showRat I.suffPenalty} | {" ".intercalate fixedTab} | {showMP d}"

def cmdSeqTF : P String := do
  let I ← pSeqInst; let xs ← pList (pList pRat); pEnd
  match I.data with
  | none => pure "err:assert"
  | some d => pure s!"ok {showTF d xs}"

def cmdSeqQubo : P String := do
  let I ← pSeqInst; let feas ← pBool; let rho ← pRho; pEnd
  match I.data with
  | none => pure "err:assert"
  | some d => pure (showQubo d I.suffPenalty feas rho)

def cmdSeqLookup : P String := do
  let I ← pSeqInst
  let tups ← pList pSTup
  let idxs ← pList pNat
  pEnd
  pure s!"ok {showList (fun u => showOpt toString (I.varIndex u)) tups} | {showList (fun k => showOpt showSTup (I.varTuple k)) idxs} | {showList (fun (u : STup) => showBool (I.fixed u.2.1 u.2.2).isNone) tups}"

def cmdSeqDecode : P String := do
  let I ← pSeqInst; let x ← pList pRat; pEnd
  match I.decode x with
  | .error e => pure (showErr e)
  | .ok rs => pure s!"ok {showList (fun r => showList toString r) rs}"

def cmdArcDecode : P String := do
  let I ← pArcInst; let x ← pList pRat; pEnd
  if !I.decodeAsserts x then pure "err:assert" else
  pure s!"ok {showList (fun r => showList (fun (st : Nat × Rat) => s!"{st.1} {showRat st.2}") r) (I.decode x)}"

/-- `seq.heur <inst> <high>` → new instance state + stored solution -/
def cmdSeqHeur : P String := do
  let I ← pSeqInst; let high ← pRat; pEnd
  match I.makeFeasible high with
  | .error e => pure (showErr e)
  | .ok (J, sol) => pure s!"ok {showGraph J.g} | {J.V} {J.L} {showRats J.vcost} | {showRats sol}"

def cmdArcHeur : P String := do
  let I ← pArcInst; let high ← pRat; pEnd
  match I.makeFeasible high with
  | .error e => pure (showErr e)
  | .ok (J, sol) => pure s!"ok {showGraph J.g} | {showRats J.T} | {showRats sol}"

/-- `path.heur <pool literal> <high> <choices>`: the sampler's choices are scripted -/
def cmdPathHeur : P String := do
  let Pp ← pPathLit; let high ← pRat; let choices ← pList pNat; pEnd
  let pick : Nat → List Nat → Nat := fun c cands =>
    cands.getD ((choices.getD (c % (max choices.length 1)) 0) % (max cands.length 1)) 0
  match Pp.makeFeasible high pick with
  | .error e => pure (showErr e)
  | .ok (Q, sol) =>
    pure s!"ok {showGraph Q.g} | {showList (fun rt => showList toString rt) Q.routes} | {showRats Q.costs} | {showRats sol}"

def formCmds : List (String × P String) :=
  [("arc.tf", cmdArcTF), ("path.tf", cmdPathTF), ("seq.tf", cmdSeqTF), ("arc.data", cmdArcData), ("arc.qubo", cmdArcQubo), ("arc.lookup", cmdArcLookup),
   ("path.hist", cmdPathHist), ("path.data", cmdPathData), ("path.qubo", cmdPathQubo),
   ("seq.decode", cmdSeqDecode), ("arc.decode", cmdArcDecode), ("seq.heur", cmdSeqHeur), ("arc.heur", cmdArcHeur), ("path.heur", cmdPathHeur), ("seq.data", cmdSeqData), ("seq.qubo", cmdSeqQubo), ("seq.lookup", cmdSeqLookup)]

end Vrp.Drv
