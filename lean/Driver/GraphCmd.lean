import VrpModel.Graph
import Driver.Proto
/-! driver commands for the VRPTW graph state machine (C15) and shared graph parsing -/
namespace Vrp.Drv
open Vrp Vrp.Proto

def pGOp : P GOp := do
  let t ← tok
  match t with
  | "N" => do
      let nm ← tok; let d ← pRat; let lo ← pRat; let hi ← pERat
      pure (.addNode nm d lo hi)
  | "D" => do let nm ← tok; pure (.setDepot nm)
  | "A" => do
      let o ← tok; let d ← tok; let t ← pRat; let c ← pRat
      pure (.addArc o d t c)
  | _ => throw s!"bad graph op '{t}'"

def pFlavor : P Flavor := do
  let t ← tok
  match t with
  | "base" => pure .base
  | "seqS" => pure (.seq true)
  | "seqN" => pure (.seq false)
  | _ => throw s!"bad flavor '{t}'"

def showErr (e : Err) : String :=
  match e with
  | .value => "err:value" | .index => "err:index" | .assert => "err:assert"
  | .type => "err:type" | .shape => "err:shape"

def showGOut (o : GOut) : String :=
  match o with
  | .error e => showErr e
  | .ok none => "ok"
  | .ok (some b) => s!"ok:{showBool b}"

def showNode (n : Node) : String := s!"{n.name} {showRat n.demand} {showRat n.lo} {showERat n.hi}"
def showArcE (e : Key × Arc) : String :=
  s!"{e.1.1} {e.1.2} {e.2.orig} {e.2.dest} {showRat e.2.time} {showRat e.2.cost}"
def showGraph (g : Graph) : String :=
  s!"{showList showNode g.nodes} {showList showArcE g.arcs} {showOpt showRat g.cap} {showOpt showRat g.init}"

/-- a graph given literally: nodes, arcs (with keys), capacity, initial loading -/
def pGraph : P Graph := do
  let nodes ← pList (do let nm ← tok; let d ← pRat; let lo ← pRat; let hi ← pERat; pure (⟨nm, d, lo, hi⟩ : Node))
  let arcs ← pList (do
    let i ← pNat; let j ← pNat; let o ← tok; let d ← tok; let t ← pRat; let c ← pRat
    pure (((i, j), ⟨o, d, t, c⟩) : Key × Arc))
  let cap ← pOpt pRat; let init ← pOpt pRat
  pure { nodes := nodes, arcs := arcs, cap := cap, init := init }

/-- `vrptw <flavor> <k> op…` → per-op `out S state`, joined by ` | ` -/
def cmdVrptw : P String := do
  let fl ← pFlavor
  let ops ← pList pGOp
  pEnd
  let rec go (g : Graph) (ops : List GOp) (acc : List String) : List String :=
    match ops with
    | [] => acc.reverse
    | op :: rest =>
      let r := gstep fl g op
      go r.1 rest (s!"{showGOut r.2} {showGraph r.1}" :: acc)
  pure ("ok " ++ " | ".intercalate (go {} ops []))

def graphCmds : List (String × P String) := [("vrptw", cmdVrptw)]

end Vrp.Drv
