import Driver.Proto
import Driver.Tools
import Driver.GraphCmd
import Driver.SamplerCmd
import Driver.MirpCmd
import Driver.FormCmd
import Driver.ExportCmd
import Driver.CacheCmd
import Driver.FlagsCmd
/-! `vrpdriver`: reads request lines from stdin, writes one reply line each -/
open Vrp Vrp.Proto Vrp.Drv

def allCmds : List (String × P String) := toolCmds ++ graphCmds ++ samplerCmds ++ mirpCmds ++ formCmds ++ exportCmds ++ cacheCmds ++ flagsCmds

def handle (line : String) : String :=
  let toks := (line.splitOn " ").filter (· ≠ "")
  match toks with
  | [] => "bad-request: empty"
  | cmd :: args =>
    match allCmds.lookup cmd with
    | none => s!"bad-request: unknown command {cmd}"
    | some p =>
      match (p.run args) with
      | .ok (s, _) => s
      | .error e => s!"bad-request: {e}"

partial def loop (hin : IO.FS.Stream) (hout : IO.FS.Stream) : IO Unit := do
  let line ← hin.getLine
  if line.isEmpty then return ()
  let l := ((line.replace "\n" "").replace "\r" "")
  hout.putStrLn (handle l)
  hout.flush
  loop hin hout

def main : IO Unit := do
  loop (← IO.getStdin) (← IO.getStdout)
