import VrpModel.Mirp
import VrpModel.MirpGetters
import Driver.Proto
import Driver.GraphCmd
/-! driver commands for the MIRP builder (C11, C12) -/
namespace Vrp.Drv
open Vrp Vrp.Proto

def cmdTw : P String := do
  let size ← pRat; let k ← pNat; let init ← pRat; let rate ← pRat; let cap ← pRat; pEnd
  if rate = 0 then pure "err:zerodiv" else
  let w := getTimeWindow size k init rate cap
  pure s!"ok {showRat w.1} {showRat w.2}"

def pMOp : P MOp := do
  let t ← tok
  match t with
  | "PORT" => do let nm ← tok; let i ← pRat; let r ← pRat; let c ← pRat; pure (.port nm i r c)
  | "TRAVEL" => do
      let sp ← pRat; let u ← pRat
      let dist ← pList (do let a ← tok; let b ← tok; let d ← pRat; pure (a, b, d))
      let sf ← pList (do let a ← tok; let f ← pRat; pure (a, f))
      let df ← pList (do let a ← tok; let f ← pRat; pure (a, f))
      pure (.travel sp u dist sf df)
  | "EXIT" => do let t ← pRat; let c ← pRat; pure (.exit t c)
  | "ENTRY" => do let l ← pRat; let t ← pRat; let c ← pRat; pure (.entry l t c)
  | _ => throw s!"bad mirp op '{t}'"

def showMirp (m : Mirp) : String :=
  s!"{showList id m.supply} {showList id m.demand} {showList (fun (e : String × List String) => e.1 ++ " " ++ showList id e.2) m.mapping} {showGraph m.g}"

def mstep (m : Mirp) (op : MOp) : Mirp × String :=
  let r := m.step 100000 op
  (r.1, match r.2 with
    | .ok names => (match op with | .port .. => "ok " ++ showList id names | _ => "ok")
    | .err e => showErr e
    | .zerodiv => "err:zerodiv"
    | .nonterm => "err:nontermination")

/-- `mirp <size> <horizon> <k> op…` → per-op result, then the final state -/
def cmdMirp : P String := do
  let size ← pRat; let hor ← pRat
  let ops ← pList pMOp
  pEnd
  let rec go (m : Mirp) (ops : List MOp) (acc : List String) : Mirp × List String :=
    match ops with
    | [] => (m, acc.reverse)
    | op :: rest => let r := mstep m op; go r.1 rest (r.2 :: acc)
  match Mirp.create size hor with
  | .error e => pure (showErr e)          -- the constructor raises
  | .ok m0 =>
    let r := go m0 ops []
    pure ("ok " ++ " ; ".intercalate r.2 ++ " | " ++ showMirp r.1)

/-- `mirp.getters <size> <horizon> <k> op… <strict> <choices>` → grid | high cost | seq V L | path pool -/
def cmdMirpGetters : P String := do
  let size ← pRat; let hor ← pRat
  let ops ← pList pMOp
  let strict ← pBool
  let choices ← pList pNat
  pEnd
  let rec go (m : Mirp) (ops : List MOp) : Option Mirp :=
    match ops with
    | [] => some m
    | op :: rest => match (m.step 100000 op).2 with
      | .ok _ => go (m.step 100000 op).1 rest
      | _ => none
  match go (Mirp.new size hor) ops with
  | none => pure "err:build"
  | some m =>
    let freqs := ops.filterMap fun op => match op with
      | .port _ _ r c => some (absR (c / r))
      | _ => none
    let pick : Nat → List Nat → Nat := fun c cands =>
      cands.getD ((choices.getD (c % (max choices.length 1)) 0) % (max cands.length 1)) 0
    let seqS := match m.getSeqBased strict with
      | none => "none"
      | some I => s!"{I.V} {I.L} {showGraph I.g}"
    let pathS := match m.getPathBased freqs pick with
      | none => "none | none"
      | some Pp => s!"{showList (fun rt => showList toString rt) Pp.routes} | {showRats Pp.costs}"
    pure s!"ok {showRats m.arcGrid} | {showOpt showRat (m.highCost freqs)} | {seqS} | {pathS}"

def mirpCmds : List (String × P String) := [("tw", cmdTw), ("mirp", cmdMirp), ("mirp.getters", cmdMirpGetters)]

end Vrp.Drv
