import VrpModel.Num
/-!
# Line protocol of the model driver

One request per line, space-separated tokens; one reply line per request.  Rationals are `p` or
`p/q`, `inf` is `+∞`, lists are length-prefixed.  A malformed request yields `bad-request: …`
(an infrastructure fault for the harness, never a verdict).
-/
namespace Vrp.Proto
open Vrp

abbrev P := StateT (List String) (Except String)

def tok : P String := do
  match (← get) with
  | [] => throw "unexpected end of request"
  | t :: ts => set ts; pure t

def pNat : P Nat := do
  let t ← tok
  match t.toNat? with
  | some n => pure n
  | none => throw s!"expected nat, got '{t}'"

def pInt : P Int := do
  let t ← tok
  match t.toInt? with
  | some n => pure n
  | none => throw s!"expected int, got '{t}'"

def parseRat (t : String) : Option Rat :=
  match t.splitOn "/" with
  | [a] => a.toInt?.map fun (n : Int) => (n : Rat)
  | [a, b] => do
      let n ← a.toInt?
      let d ← b.toNat?
      if d = 0 then none else some (mkRat n d)
  | _ => none

def pRat : P Rat := do
  let t ← tok
  match parseRat t with
  | some r => pure r
  | none => throw s!"expected rat, got '{t}'"

def pERat : P ERat := do
  let t ← tok
  if t = "inf" then pure none else
  match parseRat t with
  | some r => pure (some r)
  | none => throw s!"expected rat or inf, got '{t}'"

def pBool : P Bool := do
  let t ← tok
  if t = "1" ∨ t = "T" then pure true
  else if t = "0" ∨ t = "F" then pure false
  else throw s!"expected bool, got '{t}'"

def pRep (n : Nat) (p : P α) : P (List α) :=
  match n with
  | 0 => pure []
  | k + 1 => do let a ← p; let r ← pRep k p; pure (a :: r)

/-- length-prefixed list -/
def pList (p : P α) : P (List α) := do let n ← pNat; pRep n p

/-- `r c` then `r*c` rationals, row-major -/
def pMatRC : P (Nat × Nat × List (List Rat)) := do
  let r ← pNat; let c ← pNat
  let rows ← pRep r (pRep c pRat)
  pure (r, c, rows)

def pOpt (p : P α) : P (Option α) := do
  let t ← tok
  if t = "none" then pure none
  else do modify (t :: ·); let a ← p; pure (some a)

def pEnd : P Unit := do
  match (← get) with
  | [] => pure ()
  | t :: _ => throw s!"trailing token '{t}'"

/-! printers -/
def showRat (r : Rat) : String :=
  if r.den = 1 then toString r.num else s!"{r.num}/{r.den}"
def showERat (e : ERat) : String := match e with | none => "inf" | some r => showRat r
def showBool (b : Bool) : String := if b then "1" else "0"
def showList (f : α → String) (l : List α) : String :=
  " ".intercalate (toString l.length :: l.map f)
def showRats (l : List Rat) : String := showList showRat l
def showMat (rows : List (List Rat)) : String :=
  " ".intercalate (rows.map fun r => " ".intercalate (r.map showRat))
def showOpt (f : α → String) (o : Option α) : String := match o with | none => "none" | some a => f a

end Vrp.Proto
