import VrpModel.Sampler
import Driver.Proto
/-! driver command for the sampler algebra (C19) -/
namespace Vrp.Drv
open Vrp Vrp.Proto

/-- prefix encoding; fuel bounds recursion depth by the token count -/
def pE : Nat → P E
  | 0 => throw "expression too deep"
  | f + 1 => do
    let t ← tok
    match t with
    | "L" => do let i ← pNat; pure (.leaf i)
    | "NEG" => do let a ← pE f; pure (.neg a)
    | "ADDSS" => do let a ← pE f; let b ← pE f; pure (.addSS a b)
    | "SUBSS" => do let a ← pE f; let b ← pE f; pure (.subSS a b)
    | "MULSS" => do let a ← pE f; let b ← pE f; pure (.mulSS a b)
    | "DIVSS" => do let a ← pE f; let b ← pE f; pure (.divSS a b)
    | "ADDSC" => do let a ← pE f; let c ← pRat; pure (.addSC a c)
    | "SUBSC" => do let a ← pE f; let c ← pRat; pure (.subSC a c)
    | "MULSC" => do let a ← pE f; let c ← pRat; pure (.mulSC a c)
    | "DIVSC" => do let a ← pE f; let c ← pRat; pure (.divSC a c)
    | "ADDCS" => do let c ← pRat; let a ← pE f; pure (.addCS c a)
    | "SUBCS" => do let c ← pRat; let a ← pE f; pure (.subCS c a)
    | "MULCS" => do let c ← pRat; let a ← pE f; pure (.mulCS c a)
    | "DIVCS" => do let c ← pRat; let a ← pE f; pure (.divCS c a)
    | _ => throw s!"bad expression token '{t}'"

/-- `rvs <m> <expr> <nleaves> {<ncalls> {<m rats>}}` → `ok|err:zerodiv  array | counts` -/
def cmdRvs : P String := do
  let m ← pNat
  let e ← pE 64
  let draws ← pList (pList (pRep m pRat))
  pEnd
  let d : Nat → Nat → List Rat := fun i k => (draws.getD i []).getD k []
  let σ0 : Cnt := fun _ => 0
  if !denomOK d m e σ0 then pure "err:zerodiv" else
  let r := rvs d m (build e) σ0
  let r' := evalE d m e σ0
  let cnts := (List.range draws.length).map r.2
  let same := r.1 == r'.1 && cnts == (List.range draws.length).map r'.2
  pure s!"ok {showRats r.1} | {showList toString cnts} | {showBool same}"

def cmdSamplePlain : P String := do
  let t ← tok
  let v : Plain ← (match t with
    | "S" => do let x ← pRat; pure (Plain.scalar x)
    | _ => do let xs ← pList pRat; pure (Plain.seq xs))
  let size ← pNat; pEnd
  match samplePlain v size with
  | .error _ => pure "err:value"
  | .ok (.scalar x) => pure s!"ok S {showRat x}"
  | .ok (.seq xs) => pure s!"ok L {showRats xs}"

def samplerCmds : List (String × P String) := [("rvs", cmdRvs), ("sampleplain", cmdSamplePlain)]

end Vrp.Drv
