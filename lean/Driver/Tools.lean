import VrpModel.Qubo
import Driver.Proto
/-! driver commands for the QUBO tools (C01, C13, C20) -/
namespace Vrp.Drv
open Vrp Vrp.Proto

def cmdQ2I : P String := do
  let (r, c, rows) ← pMatRC; let const ← pRat; pEnd
  match squareGuard r c with
  | none => pure "err:value"
  | some n =>
    let Q := matOf rows
    pure s!"ok {showMat (tabulate2 n n (isingJ Q))} | {showRats (tabulate n (isingH n Q))} | {showRat (isingC n Q const)}"

def cmdI2Q : P String := do
  let (r, c, rows) ← pMatRC; let h ← pList pRat; let const ← pRat; pEnd
  match squareGuard r c with
  | none => pure "err:value"
  | some n =>
    if h.length ≠ n then pure "err:value" else
    let J := matOf rows; let hv := vecOf h
    pure s!"ok {showMat (tabulate2 n n (quboOfIsingQ n J hv))} | {showRat (quboOfIsingC n J hv const)}"

def cmdEvalQ : P String := do
  let (r, _, rows) ← pMatRC; let const ← pRat; let x ← pList pRat; pEnd
  pure s!"ok {showRat (evalQubo r (matOf rows) const (vecOf x))}"

def cmdEvalI : P String := do
  let (r, _, rows) ← pMatRC; let h ← pList pRat; let const ← pRat; let s ← pList pRat; pEnd
  pure s!"ok {showRat (evalIsing r (matOf rows) (vecOf h) const (vecOf s))}"

def cmdX2S : P String := do
  let x ← pList pRat; pEnd
  pure s!"ok {showRats (tabulate x.length (xToS (vecOf x)))}"
def cmdS2X : P String := do
  let x ← pList pRat; pEnd
  pure s!"ok {showRats (tabulate x.length (sToX (vecOf x)))}"

def cmdUpper : P String := do
  let (r, c, rows) ← pMatRC; pEnd
  match squareGuard r c with
  | none => pure "err:value"
  | some n => pure s!"ok {showMat (tabulate2 n n (toUpper (matOf rows)))}"
def cmdSym : P String := do
  let (r, c, rows) ← pMatRC; pEnd
  match squareGuard r c with
  | none => pure "err:value"
  | some n => pure s!"ok {showMat (tabulate2 n n (toSym (matOf rows)))}"

/-- pattern string is hex-encoded by the harness so that it may contain spaces -/
def unhex (s : String) : String :=
  let cs := s.toList
  let rec go : List Char → List Char
    | a :: b :: rest =>
      let v (c : Char) : Nat := if c.isDigit then c.toNat - 48 else c.toNat - 87
      Char.ofNat (v a * 16 + v b) :: go rest
    | _ => []
  String.ofList (go cs)

def cmdContainer : P String := do
  let (r, c, rows) ← pMatRC; let const ← pRat; let pat ← tok; pEnd
  match squareGuard r c with
  | none => pure "err:value"
  | some n =>
    let C := Container.mk' n (matOf rows) const (unhex pat)
    pure s!"ok {showMat (tabulate2 n n C.Q)} | {showRat C.cq} | {showMat (tabulate2 n n C.J)} | {showRats (tabulate n C.h)} | {showRat C.ci}"

def cmdReport : P String := do
  let (r, _, rows) ← pMatRC; let const ← pRat; let pat ← tok; pEnd
  let C := Container.mk' r (matOf rows) const (unhex pat)
  let R := report C.n C.Q C.cq
  pure s!"ok {R.size} {R.nnzU} {showRat R.density} {showRat R.opt} {R.count} {showRat R.mean} {showOpt showRat R.gap}"

def toolCmds : List (String × P String) :=
  [("q2i", cmdQ2I), ("i2q", cmdI2Q), ("evalq", cmdEvalQ), ("evali", cmdEvalI),
   ("x2s", cmdX2S), ("s2x", cmdS2X), ("upper", cmdUpper), ("sym", cmdSym),
   ("container", cmdContainer), ("report", cmdReport)]

end Vrp.Drv
