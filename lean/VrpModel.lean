import VrpModel.Num
import VrpModel.Qubo
import VrpModel.Graph
import VrpModel.Sampler
import VrpModel.Mirp
