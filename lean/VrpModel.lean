import VrpModel.Num
import VrpModel.Qubo
