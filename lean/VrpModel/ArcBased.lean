import VrpModel.Graph
import VrpModel.Program
/-!
# Model of `formulations/arc_based_rp.py`
-/
namespace Vrp

/-- decision tuple `(i, s, j, t)`: leave node `i` at time `s`, arrive at node `j` at time `t` -/
abbrev ATup := Nat × Rat × Nat × Rat

structure ArcInst where
  g : Graph
  T : List Rat      -- `time_points` after `add_time_points` (sorted)
deriving Repr

/-- insertion into a sorted list / insertion sort: `np.sort` (stable, duplicates kept) -/
def insertSorted (x : Rat) : List Rat → List Rat
  | [] => [x]
  | y :: ys => if x ≤ y then x :: y :: ys else y :: insertSorted x ys
def sortRat (l : List Rat) : List Rat := l.foldr insertSorted []

/-- adjacent repeats of a sorted list removed (`np.unique` after sorting) -/
def dedupSorted : List Rat → List Rat
  | [] => []
  | [a] => [a]
  | a :: b :: rest => if a = b then dedupSorted (b :: rest) else a :: dedupSorted (b :: rest)

/-- `add_time_points` (repaired: `np.unique` — sorted, each point once; the pinned code only sorted) -/
def ArcInst.addTimePoints (I : ArcInst) (pts : List Rat) : ArcInst := { I with T := dedupSorted (sortRat pts) }

/-- the pinned `add_time_points`: repeats are kept -/
def ArcInst.addTimePointsPinned (I : ArcInst) (pts : List Rat) : ArcInst := { I with T := sortRat pts }

/-- the `continue` / `break` scan of the (sorted) grid against a window:
    skip while `s < lo`, stop at the first `s > hi` -/
def winLoop (T : List Rat) (lo : Rat) (hi : ERat) : List Rat :=
  match T with
  | [] => []
  | s :: rest =>
    if s < lo then winLoop rest lo hi
    else if ltE hi s then []
    else s :: winLoop rest lo hi

/-- `enumerate_variables_quicker`: loop over the arc dict, then `s`, then `t` -/
def ArcInst.vars (I : ArcInst) : List ATup :=
  I.g.arcs.flatMap fun e =>
    let i := e.1.1; let j := e.1.2
    (winLoop I.T (I.g.lo i) (I.g.hi i)).flatMap fun s =>
      (winLoop I.T (I.g.lo j) (I.g.hi j)).filterMap fun t =>
        if t < s + e.2.time then none else some (i, s, j, t)

def ArcInst.numVars (I : ArcInst) : Nat := I.vars.length

/-- `get_var_index`: first position of the tuple, `none` when it is not a variable -/
def ArcInst.varIndex (I : ArcInst) (u : ATup) : Option Nat :=
  let k := I.vars.idxOf u
  if k < I.vars.length then some k else none

/-- `get_var_tuple_index` for a non-negative index -/
def ArcInst.varTuple (I : ArcInst) (k : Nat) : Option ATup := I.vars[k]?

/-- admissibility of a decision tuple, stated directly -/
def ArcInst.admissible (I : ArcInst) (u : ATup) : Bool :=
  match I.g.arc? u.1 u.2.2.1 with
  | none => false
  | some a =>
    u.2.1 ∈ I.T && u.2.2.2 ∈ I.T &&
    decide (I.g.lo u.1 ≤ u.2.1) && leE u.2.1 (I.g.hi u.1) &&
    decide (I.g.lo u.2.2.1 ≤ u.2.2.2) && leE u.2.2.2 (I.g.hi u.2.2.1) &&
    decide (u.2.1 + a.time ≤ u.2.2.2)

/-- `(node, time)` pairs that get a flow-conservation row, in row order -/
def ArcInst.flowKeys (I : ArcInst) : List (Nat × Rat) :=
  (List.range (I.g.nodes.length - 1)).flatMap fun k =>
    (winLoop I.T (I.g.lo (k + 1)) (I.g.hi (k + 1))).map fun s => (k + 1, s)

def idxOf? [BEq α] (l : List α) (a : α) : Option Nat :=
  let k := l.idxOf a
  if k < l.length then some k else none

/-- `build_constraints_quicker` + `build_objective` + `get_*_data` -/
def ArcInst.data (I : ArcInst) : MPData :=
  let vars := I.vars
  let fk := I.flowKeys
  let nflow := fk.length
  let nvisit := I.g.nodes.length - 1
  let idx := (List.range vars.length).zip vars
  let flowTriples : List (Nat × Nat × Rat) := idx.flatMap fun (col, u) =>
    (match idxOf? fk (u.1, u.2.1) with | some r => [(r, col, (-1 : Rat))] | none => []) ++
    (match idxOf? fk (u.2.2.1, u.2.2.2) with | some r => [(r, col, (1 : Rat))] | none => [])
  let visitTriples : List (Nat × Nat × Rat) := idx.filterMap fun (col, u) =>
    if u.2.2.1 = 0 then none else some (nflow + (u.2.2.1 - 1), col, (1 : Rat))
  { n := vars.length, m := nflow + nvisit,
    A := flowTriples ++ visitTriples,
    b := List.replicate nflow 0 ++ List.replicate nvisit 1,
    R := [],
    c := vars.map fun u => ((I.g.arc? u.1 u.2.2.1).map (·.cost)).getD 0,
    Qobj := [] }

/-- `get_sufficient_penalty(False)`: `Σ_arcs |cost| · |T|²` -/
def ArcInst.suffPenalty (I : ArcInst) : Rat :=
  sumList (I.g.arcs.map fun e => absR e.2.cost) * ((I.T.length : Rat) * (I.T.length : Rat))

end Vrp

namespace Vrp

/-- lexicographic order on `(i, s, j, t)` -/
def atupLe (a b : ATup) : Bool :=
  a.1 < b.1 || (a.1 == b.1 && (a.2.1 < b.2.1 || (a.2.1 == b.2.1 &&
    (a.2.2.1 < b.2.2.1 || (a.2.2.1 == b.2.2.1 && a.2.2.2 ≤ b.2.2.2)))))
def insertA (x : ATup) : List ATup → List ATup
  | [] => [x]
  | y :: ys => if atupLe x y then x :: y :: ys else y :: insertA x ys
def sortA (l : List ATup) : List ATup := l.foldr insertA []

def ArcInst.selected (I : ArcInst) (x : List Rat) : List ATup :=
  ((List.range x.length).zip x).filterMap fun (k, v) => if v = 0 then none else I.varTuple k

/-- remove the first element satisfying `p` -/
def popFirst (p : α → Bool) : List α → Option (α × List α)
  | [] => none
  | a :: l => if p a then some (a, l) else (popFirst p l).map fun (b, l') => (b, a :: l')

/-- follow continuations from `arc`: returns the stops of the route and the remaining tuples -/
def followArc : Nat → ATup → List ATup → List (Nat × Rat) → List (Nat × Rat) × List ATup
  | 0, arc, ts, acc => (acc ++ [(arc.1, arc.2.1), (arc.2.2.1, arc.2.2.2)], ts)
  | fuel + 1, arc, ts, acc =>
    let acc' := acc ++ [(arc.1, arc.2.1)]
    -- a route ends when it is back at the depot (repaired rule; the pinned code kept following a
    -- move that leaves the depot at the same time, merging two vehicles' routes)
    if arc.2.2.1 = 0 then (acc' ++ [(arc.2.2.1, arc.2.2.2)], ts) else
    match popFirst (fun a => a.1 == arc.2.2.1 && a.2.1 == arc.2.2.2) ts with
    | none => (acc' ++ [(arc.2.2.1, arc.2.2.2)], ts)
    | some (nxt, ts') => followArc fuel nxt ts' acc'

/-- `get_routes(x)` (route construction part; the code's two consistency assertions are reported
    separately by `decodeAsserts`) -/
def ArcInst.decode (I : ArcInst) (x : List Rat) : List (List (Nat × Rat)) :=
  let ts := sortA (I.selected x)
  let rec go (fuel : Nat) (ts : List ATup) (acc : List (List (Nat × Rat))) : List (List (Nat × Rat)) :=
    match fuel, ts with
    | 0, _ => acc
    | _, [] => acc
    | fuel + 1, arc :: rest =>
      let r := followArc rest.length arc rest []
      go fuel r.2 (acc ++ [r.1])
  go ts.length ts []

/-- the assertions of `get_routes`: every arrival inside its node's window, every customer arrived at once -/
def ArcInst.decodeAsserts (I : ArcInst) (x : List Rat) : Bool :=
  let sel := I.selected x
  sel.all (fun u => decide (I.g.lo u.2.2.1 ≤ u.2.2.2) && leE u.2.2.2 (I.g.hi u.2.2.1)) &&
  (List.range (I.g.nodes.length - 1)).all fun k => (sel.filter fun u => u.2.2.1 = k + 1).length = 1

/-! ### list-parameterised decoder

The same loops as `ArcInst.decode` / `ArcInst.decodeAsserts`, but on an explicitly given list of selected tuples (so
that a caller can supply tuples read from a CACHE).  The two existing functions are unchanged;
`VrpProofs/Lemmas/CacheFlags.lean` proves `I.decode x = arcDecodeTuples (I.selected x)` and
`I.decodeAsserts x = arcAssertsTuples I.g (I.selected x)`. -/

/-- `while len(tuples_ordered) > 0:` on an already sorted tuple list (the loop `go` of `ArcInst.decode`) -/
def arcDecodeGo : Nat → List ATup → List (List (Nat × Rat)) → List (List (Nat × Rat))
  | 0, _, acc => acc
  | _ + 1, [], acc => acc
  | fuel + 1, arc :: rest, acc =>
    let r := followArc rest.length arc rest []
    arcDecodeGo fuel r.2 (acc ++ [r.1])

/-- `get_routes` from the point where `soln_var_tuples` is complete: lexicographic sort, then route construction -/
def arcDecodeTuples (sel : List ATup) : List (List (Nat × Rat)) :=
  let ts := sortA sel
  arcDecodeGo ts.length ts []

/-- the assertions of `get_routes` on a given list of selected tuples -/
def arcAssertsTuples (g : Graph) (sel : List ATup) : Bool :=
  sel.all (fun u => decide (g.lo u.2.2.1 ≤ u.2.2.2) && leE u.2.2.2 (g.hi u.2.2.1)) &&
  (List.range (g.nodes.length - 1)).all fun k => (sel.filter fun u => u.2.2.1 = k + 1).length = 1

end Vrp
