import VrpModel.Heuristics
/-!
# Formulation objects as state machines with lazily built caches (C14)

The real arc- and sequence-based objects keep `variables_enumerated` / `objective_built` /
`constraints_built` (… `lin_con_built`, `quad_con_built`) flags and the cached lists / matrices behind them.
Queries fill the caches; the feasibility heuristic changes the instance and resets the flags at the sites
modelled by `heurReset`.  The machine below is generic in the instance type; `ArcSpec` and `SeqSpec`
instantiate it with the model's enumeration / data builders and heuristics.
-/
namespace Vrp

/-- what a formulation computes from its instance state; `vars` is cached, `obj`/`con` are built from the
    CACHED variable list and the CURRENT instance (as the code does) -/
structure CacheSpec (Inst : Type) where
  Vars : Type
  Obj : Type
  Con : Type
  vars : Inst → Vars
  obj : Inst → Vars → Obj
  con : Inst → Vars → Con
  /-- the heuristic: new instance and stored solution, or an error -/
  heur : Inst → Rat → Except Err (Inst × List Rat)
  /-- whether the heuristic run passes one of the code's flag-reset sites -/
  reset : Inst → Rat → Bool

structure CObj {Inst : Type} (S : CacheSpec Inst) where
  inst : Inst
  vars : Option S.Vars := none
  obj : Option S.Obj := none
  con : Option S.Con := none
  sol : Option (List Rat) := none
  dead : Bool := false          -- the heuristic raised: the object is not used any further

inductive COp where
  | numVars
  | objective
  | constraints
  | heur (high : Rat)
deriving Repr

/-- observable reply of a call -/
inductive COut {Inst : Type} (S : CacheSpec Inst) where
  | vars (v : S.Vars)
  | obj (o : S.Obj)
  | con (c : S.Con)
  | done
  | raised (e : Err)

variable {Inst : Type} {S : CacheSpec Inst}

def CObj.ensureVars (s : CObj S) : CObj S × S.Vars :=
  match s.vars with
  | some v => (s, v)
  | none => let v := S.vars s.inst; ({ s with vars := some v }, v)

/-- one call on the real object -/
def CObj.step (s : CObj S) (op : COp) : CObj S × COut S :=
  if s.dead then (s, .raised .assert) else
  match op with
  | .numVars => let r := s.ensureVars; (r.1, .vars r.2)
  | .objective =>
    match s.obj with
    | some o => (s, .obj o)
    | none => let r := s.ensureVars; let o := S.obj r.1.inst r.2; ({ r.1 with obj := some o }, .obj o)
  | .constraints =>
    match s.con with
    | some c => (s, .con c)
    | none => let r := s.ensureVars; let c := S.con r.1.inst r.2; ({ r.1 with con := some c }, .con c)
  | .heur h =>
    match S.heur s.inst h with
    | .error e => ({ s with dead := true }, .raised e)
    | .ok (J, sol) =>
      let s1 : CObj S := if S.reset s.inst h then { s with inst := J, vars := none, obj := none, con := none }
                         else { s with inst := J }
      -- the heuristic ends with `enumerate_variables()` before it writes the solution
      let r := s1.ensureVars
      ({ r.1 with sol := some sol }, .done)

/-- the cache-free specification: the same calls answered from the instance state alone -/
structure SObj {Inst : Type} (S : CacheSpec Inst) where
  inst : Inst
  sol : Option (List Rat) := none
  dead : Bool := false

def SObj.step (s : SObj S) (op : COp) : SObj S × COut S :=
  if s.dead then (s, .raised .assert) else
  match op with
  | .numVars => (s, .vars (S.vars s.inst))
  | .objective => (s, .obj (S.obj s.inst (S.vars s.inst)))
  | .constraints => (s, .con (S.con s.inst (S.vars s.inst)))
  | .heur h =>
    match S.heur s.inst h with
    | .error e => ({ s with dead := true }, .raised e)
    | .ok (J, sol) => ({ s with inst := J, sol := some sol }, .done)

def CObj.run (s : CObj S) : List COp → CObj S × List (COut S)
  | [] => (s, [])
  | op :: rest => let r := s.step op; let q := CObj.run r.1 rest; (q.1, r.2 :: q.2)

def SObj.run (s : SObj S) : List COp → SObj S × List (COut S)
  | [] => (s, [])
  | op :: rest => let r := s.step op; let q := SObj.run r.1 rest; (q.1, r.2 :: q.2)

/-! ## the two cached formulations -/

/-- regular-vehicle phase of the sequence heuristic (the same expression `SeqInst.makeFeasible` folds) -/
def SeqInst.greedy (I : SeqInst) : Option (Graph × List Nat × List STup) :=
  let fl := Flavor.seq I.strict
  let N := I.g.nodes.length
  let unv0 := sortByHi I.g ((List.range (N - 1)).map (· + 1))
  (List.range I.V).foldl (fun (st : Option (Graph × List Nat × List STup)) v =>
      st.bind fun st => seqFill fl I.L v (I.L - 2) 1 0 st.1 st.2.1 st.2.2) (some (I.g, unv0, []))

/-- reset sites of the sequence heuristic: `_ensure_exit_arc` added an arc, or the dummy-vehicle loop ran -/
def SeqInst.heurReset (I : SeqInst) : Bool :=
  match I.greedy with
  | none => true
  | some st => st.1.arcs.length != I.g.arcs.length || !st.2.1.isEmpty

def SeqSpec : CacheSpec SeqInst where
  Vars := List STup
  Obj := List Rat × List (Nat × Nat × Rat)
  Con := Option (List (Nat × Nat × Rat) × List Rat × List (Nat × Nat))
  vars := fun I => I.vars
  obj := fun I _ => I.objective
  con := fun I _ => I.quadCons.map fun R => (I.linCons.1, I.linCons.2, R)
  heur := fun I h => I.makeFeasible h
  reset := fun I _ => I.heurReset

/-- greedy phase of the arc heuristic -/
def ArcInst.greedy (I : ArcInst) : Except Err (List Nat × List ATup) :=
  match I.T.head? with
  | none => .error .index
  | some t0 =>
    let N := I.g.nodes.length
    let unv0 := (List.range (N - 1)).map (· + 1)
    (List.range I.g.estimateMaxVehicles).foldl (fun (acc : Except Err (List Nat × List ATup)) _ =>
      match acc with
      | .error e => .error e
      | .ok (unv, used) => arcRoute I (N + 1) 0 t0 unv used) (.ok (unv0, []))

/-- reset site of the arc heuristic: the dummy-arc loop runs iff a node is still unvisited -/
def ArcInst.heurReset (I : ArcInst) : Bool :=
  match I.greedy with
  | .error _ => true
  | .ok (unv, _) => !unv.isEmpty

def ArcSpec : CacheSpec ArcInst where
  Vars := List ATup
  Obj := List Rat
  Con := List (Nat × Nat × Rat) × List Rat
  vars := fun I => I.vars
  obj := fun I v => v.map fun u => ((I.g.arc? u.1 u.2.2.1).map (·.cost)).getD 0
  con := fun I _ => (I.data.A, I.data.b)
  heur := fun I h => I.makeFeasible h
  reset := fun I _ => I.heurReset

end Vrp
