import VrpModel.Cache
/-!
# Flag-level model of the lazily built caches of the arc- and sequence-based formulation objects (C14)

`VrpModel/Cache.lean` models the caches with ONE all-or-nothing reset predicate.  This file keeps every boolean
flag and every cached attribute of the Python objects as a separate field and has one Lean function per Python
method; each function performs the method's reads and writes of flags and caches in program order.  The
cache-free SPECIFICATION (`ArcAbs` / `SeqAbs`, `specStep`, `specRun`) answers the same operations from the
instance state alone.  `VrpProofs/Props/C14c.lean` proves that the objects refine the specification.

## `ArcBasedRoutingProblem` (`formulations/arc_based_rp.py`): Python statement → model clause

| Python statement                                                        | model clause                                              |
|-------------------------------------------------------------------------|-----------------------------------------------------------|
| `__init__`: flags `False`, `var_mapping=[]`, `num_variables=0`, …       | field defaults of `ArcObj` (`ArcObj.init`)                |
| `enumerate_variables`: `if self.variables_enumerated: return`           | `enumerateVariables`: `if o.variablesEnumerated then o`   |
| `enumerate_variables_quicker`: `self.var_mapping = []` … `.append`      | `varMapping := o.inst.vars` (rebuilt, not appended)       |
|   `self.num_variables = num_vars`                                       | `numVariables := (o.inst.vars).length`                    |
|   `self.variables_enumerated = True`                                    | `variablesEnumerated := true`                             |
| `get_num_variables`: `if not self.variables_enumerated: enumerate…`     | `getNumVariables`: `if !o.variablesEnumerated then …`     |
|   `return self.num_variables`                                           | reads the CACHED `numVariables`                           |
| `get_var_index`: `self.enumerate_variables()`                           | `getVarIndex`: `o.enumerateVariables`                     |
|   `self.var_mapping.index(tuple)` / `ValueError → None`                 | `idxOf? o1.varMapping u` (search of the CACHED list)      |
| `get_var_tuple_index`: `self.enumerate_variables()`; `var_mapping[k]`   | `getVarTupleIndex`: `o1.varMapping[k]?`                   |
| `build_objective`: `if self.objective_built: return`                    | `buildObjective`: `if o.objectiveBuilt then o`            |
|   `self.enumerate_variables()`                                          | `o.enumerateVariables`                                    |
|   `np.zeros(self.get_num_variables())`, `range(self.get_num_variables())` | `getNumVariables` (flag read again), cached count       |
|   `i,_,j,_ = self.var_mapping[k]`; `self.arcs[(i,j)].get_cost()`        | zip of `range n` with the CACHED `varMapping`, `arcTupCost` from the CURRENT arcs |
|   `self.objective_built = True`                                         | `objectiveBuilt := true`                                  |
| `build_constraints`: `if self.constraints_built: return`                | `buildConstraints`: `if o.constraintsBuilt then o`        |
| `build_constraints_quicker`: `self.enumerate_variables()`               | `buildConstraintsQuicker`: `o.enumerateVariables` (re-enumerates only if the flag is unset) |
|   rows from `self.nodes`, `self.time_points`                            | `arcConsOf`: `I.flowKeys`, `I.g.nodes.length` (CURRENT instance) |
|   `for col in range(self.get_num_variables()): self.get_var_tuple_index(col)` | `getNumVariables`; zip of `range n` with the CACHED `varMapping` (the `enumerate_variables()` inside each lookup is a no-op: the flag has just been set) |
|   `self.constraints_matrix = coo((aval,(arow,acol)), shape=(len(brhs), n))` | `consMatrix`, `consShape := (b.length, n)`            |
|   `self.constraints_rhs = …`; `self.constraints_built = True`           | `consRhs`, `constraintsBuilt := true`                     |
| `get_objective_data`: `build_objective()`; `n = get_num_variables()`    | `getObjectiveData` (same order)                           |
| `get_constraint_data`: `build_constraints()`; `n = get_num_variables()` | `getConstraintData` (same order)                          |
| `get_sufficient_penalty(feas)`                                          | `getSufficientPenalty` (no flag, no cache)                |
| `RoutingProblem.get_qubo`: `get_sufficient_penalty`, `get_constraint_data`, [`get_objective_data` unless `feasibility`] | `getQubo` (same order; the objective is NOT built in feasibility mode) |
| `make_feasible`: greedy phase (no cache access)                         | `ArcInst.greedy` (`VrpModel/Cache.lean`)                  |
|   `for n in unvisited_indices:` head: three flags `= False`             | `dummyStep`: `head o` (= `resetAll` in the real code)     |
|   `assert not check_arc`, `add_arc`, `assert added`, `get_arrival_time` | `dummyStep` (object keeps the arcs added so far on error) |
|   `check_and_add_exit_arc`: `if not check_arc: add_arc …; assert added; three flags = False` | `checkAndAddExitArc`: `exit` (= `resetAll`) applied ONLY when the arc is added |
|   `self.enumerate_variables()` (honours the flag)                       | `storeSolution`: `o.enumerateVariables`                   |
|   `self.feasible_solution = np.zeros(self.num_variables)`               | reads the CACHED `numVariables`                           |
|   `self.get_var_index(*a)` per used arc                                 | `lookupAll` (each lookup = `getVarIndex`, object threaded) |
|   `feasible_solution = None; raise ValueError`                          | `sol := none`, `.error .value`                            |

When `make_feasible` raises midway the object keeps the state reached so far (`makeFeasibleWith` returns the
partial object together with the error; the stored solution is untouched unless the final lookup fails).

`makeFeasibleWith head exit` is parametric in the two reset actions so that defective variants (a forgotten flag,
a reset at only one site) are expressible; `makeFeasible = makeFeasibleWith resetAll resetAll` is the code.
(`Props/C14c.lean`: with the loop-head reset intact the reset inside `check_and_add_exit_arc` is redundant for
`make_feasible` — `v1_equivalent`; dropping a flag at the loop head, or the whole loop-head reset, breaks refinement —
`v1b_not_refines`, `v1c_not_refines`, `v2_not_refines`.)

## `SequenceBasedRoutingProblem` (`formulations/sequence_based_rp.py`)

Flags: `variables_enumerated`, `objective_built`, `lin_con_built`, `quad_con_built`.

| Python statement                                                        | model clause                                              |
|-------------------------------------------------------------------------|-----------------------------------------------------------|
| `enumerate_variables`: flag test; `var_mapping = []`, `var_mapping_inverse`, `fixed_values`, `num_variables`, flag `= True` | `SeqObj.enumerateVariables`: `varMapping := inst.vars`, `numVariables`, flag |
| `get_num_variables`, `get_var_index`, `get_var_tuple_index`             | as for the arc object (`var_mapping_inverse[v,s,n]` = position in the cached `varMapping`, `-1` ↦ `none`) |
| `build_objective`: flag test, `enumerate_variables()`, body, `objective_built = True` | `buildObjective`; body = `inst.objective`, shape from `getNumVariables` |
| `build_linear_constraints`: flag test, `enumerate_variables()`, body, `lin_con_built = True` | `buildLinearConstraints`; body = `inst.linCons` |
| `build_quadratic_constraints`: flag test, `enumerate_variables()`, body (may `assert`), `quad_con_built = True` | `buildQuadraticConstraints`; body = `inst.quadCons`, `none` ↦ `.error .assert` with the flag left unset |
| `get_objective_data`: `build_objective()`                               | `getObjectiveData`                                        |
| `get_constraint_data`: `build_linear_constraints(); build_quadratic_constraints()` | `getConstraintData` (linear part stays built when the quadratic part raises) |
| `get_qubo`                                                              | `getQubo` (base-class composition, as for arc)            |
| `make_feasible`: vehicle loop, `_ensure_exit_arc(current_node)`         | `vehLoop` / `fill` / `ensureExitArc`                      |
| `_ensure_exit_arc`: `if check_arc: return`; `add_arc` refused → `raise ValueError`; four flags `= False` | `ensureExitArc`: `exit` (= `resetAll`) applied ONLY when the arc is added |
| `for ni in unvisited_indices:` head: four flags `= False`               | `dummyStep`: `head o` (= `resetAll`)                      |
|   `vi = self.max_vehicles; self.max_vehicles += 1; self.vehicle_cost.append(high_cost)` | `V := v + 1`, `vcost := vcost ++ [high]` (kept when a later `add_arc` is refused) |
|   entry / exit arc: `if not check_arc: if not add_arc: raise ValueError` (no flag write here) | `dummyStep` (no reset at these two add sites, as in the code) |
|   `enumerate_variables()`, `np.zeros(self.num_variables)`, `get_var_index` lookups, `feasible_solution = None; raise` | `storeSolution` |

## What is not mirrored

* Container types (numpy / scipy COO / CSR, `toarray()` of an empty matrix), logging and timing.
* `constraint_names` / `lin_con_names` (rewritten by the constraint builders, read only by the CPLEX export).
* `objective`, `constraints_matrix`, … start as `None`; here they start as empty lists.  Not observable: every
  reader calls the builder first.
* Arc object: `IndexError`/`TypeError` when `num_variables > len(var_mapping)` and `KeyError` for a cached tuple whose
  arc is gone cannot happen (the two attributes are only written together, arcs are never deleted); the zip /
  default cost `0` stands for them.  Negative indices of `get_var_tuple_index` (Python wrap-around) are not modelled.
* Sequence object: `var_mapping_inverse` and `fixed_values` are implicit.  The builder bodies are the instance-level
  functions `SeqInst.objective / linCons / quadCons`, which recompute the enumeration from the current instance instead
  of reading the two cached tables.  This is exact whenever the cached enumeration is fresh at the time a builder runs
  (every builder calls `enumerate_variables()` first, and the coherence invariant gives freshness when the flag is set);
  a defect that leaves `variables_enumerated` set on changed data is therefore visible through `get_var_index`,
  `get_var_tuple_index`, `get_num_variables` and the shapes, but not inside the three seq builder bodies.
  `get_var_index` for tuples outside the array bounds (numpy `IndexError` / wrap-around) returns `none` here.
* Greedy phase of the arc heuristic = `ArcInst.greedy`, which reports `.error .index` up front for an empty time grid
  (the code reaches `self.time_points[0]` only inside a loop) — inherited from `VrpModel/Heuristics.lean`.
-/
namespace Vrp

abbrev Coo := List (Nat × Nat × Rat)

/-- digestible QUBO result: `n`, the penalty weight used, the dense `n × n` matrix, the constant -/
abbrev QuboOut := Nat × Rat × List (List Rat) × Rat

/-- `get_qubo` on assembled program data -/
def quboReply (d : MPData) (suff : Rat) (feas : Bool) (rho? : Option Rat) : Except Err QuboOut :=
  match d.getQubo suff feas rho? with
  | .error e => .error e
  | .ok (Q, k) => .ok (d.n, rho?.getD (defaultRho suff feas), tabulate2 d.n d.n Q, k)

/-- what a heuristic run does to the stored solution -/
inductive HeurRes where
  | ok (sol : List Rat)      -- `feasible_solution` = the new vector
  | lookupFailed             -- `feasible_solution = None; raise ValueError`
  | raised (e : Err)         -- raised before the solution is touched
deriving Repr, DecidableEq

/-- `feasible_solution[var_index] = 1` for every found index -/
def solVec (n : Nat) (idxs : List Nat) : List Rat := (List.range n).map fun k => if k ∈ idxs then 1 else 0

/-! ## arc-based object -/

structure ArcObj where
  inst : ArcInst
  variablesEnumerated : Bool := false
  constraintsBuilt : Bool := false
  objectiveBuilt : Bool := false
  varMapping : List ATup := []
  numVariables : Nat := 0
  objective : List Rat := []
  consMatrix : Coo := []
  consShape : Nat × Nat := (0, 0)
  consRhs : List Rat := []
  sol : Option (List Rat) := none        -- `feasible_solution`

/-- `ArcBasedRoutingProblem.__init__` (after the graph and the time points have been supplied) -/
def ArcObj.init (I : ArcInst) : ArcObj := { inst := I }

/-- `enumerate_variables` -/
def ArcObj.enumerateVariables (o : ArcObj) : ArcObj :=
  if o.variablesEnumerated then o
  else
    let vm := o.inst.vars
    { o with varMapping := vm, numVariables := vm.length, variablesEnumerated := true }

/-- `get_num_variables` -/
def ArcObj.getNumVariables (o : ArcObj) : ArcObj × Nat :=
  let o1 := if !o.variablesEnumerated then o.enumerateVariables else o
  (o1, o1.numVariables)

/-- `get_var_index` -/
def ArcObj.getVarIndex (o : ArcObj) (u : ATup) : ArcObj × Option Nat :=
  let o1 := o.enumerateVariables
  (o1, idxOf? o1.varMapping u)

/-- `get_var_tuple_index` (non-negative index) -/
def ArcObj.getVarTupleIndex (o : ArcObj) (k : Nat) : ArcObj × Option ATup :=
  let o1 := o.enumerateVariables
  (o1, o1.varMapping[k]?)

/-- `self.arcs[(i,j)].get_cost()` for a decision tuple -/
def arcTupCost (I : ArcInst) (u : ATup) : Rat := ((I.g.arc? u.1 u.2.2.1).map (·.cost)).getD 0

/-- `build_objective` -/
def ArcObj.buildObjective (o : ArcObj) : ArcObj :=
  if o.objectiveBuilt then o
  else
    let o1 := o.enumerateVariables
    let r := o1.getNumVariables
    let o2 := r.1
    let c := ((List.range r.2).zip o2.varMapping).map fun e => arcTupCost o2.inst e.2
    { o2 with objective := c, objectiveBuilt := true }

/-- body of `build_constraints_quicker` for a given (cached) variable list and count: rows from the current nodes and
    time points, columns from the list -/
def arcConsOf (I : ArcInst) (vm : List ATup) (nv : Nat) : Coo × (Nat × Nat) × List Rat :=
  let fk := I.flowKeys
  let nflow := fk.length
  let nvisit := I.g.nodes.length - 1
  let idx := (List.range nv).zip vm
  let flowTriples : Coo := idx.flatMap fun (col, u) =>
    (match idxOf? fk (u.1, u.2.1) with | some r => [(r, col, (-1 : Rat))] | none => []) ++
    (match idxOf? fk (u.2.2.1, u.2.2.2) with | some r => [(r, col, (1 : Rat))] | none => [])
  let visitTriples : Coo := idx.filterMap fun (col, u) =>
    if u.2.2.1 = 0 then none else some (nflow + (u.2.2.1 - 1), col, (1 : Rat))
  let b : List Rat := List.replicate nflow 0 ++ List.replicate nvisit 1
  (flowTriples ++ visitTriples, (b.length, nv), b)

/-- `build_constraints_quicker` -/
def ArcObj.buildConstraintsQuicker (o : ArcObj) : ArcObj :=
  let o1 := o.enumerateVariables
  let r := o1.getNumVariables
  let o2 := r.1
  let d := arcConsOf o2.inst o2.varMapping r.2
  { o2 with consMatrix := d.1, consShape := d.2.1, consRhs := d.2.2, constraintsBuilt := true }

/-- `build_constraints` -/
def ArcObj.buildConstraints (o : ArcObj) : ArcObj :=
  if o.constraintsBuilt then o else o.buildConstraintsQuicker

/-- `get_objective_data`: `(c, n)` where `n × n` is the shape of the (zero) quadratic part -/
def ArcObj.getObjectiveData (o : ArcObj) : ArcObj × List Rat × Nat :=
  let o1 := o.buildObjective
  let r := o1.getNumVariables
  (r.1, r.1.objective, r.2)

/-- `get_constraint_data`: `(A, shape of A, b, n)` -/
def ArcObj.getConstraintData (o : ArcObj) : ArcObj × Coo × (Nat × Nat) × List Rat × Nat :=
  let o1 := o.buildConstraints
  let r := o1.getNumVariables
  (r.1, r.1.consMatrix, r.1.consShape, r.1.consRhs, r.2)

/-- `get_sufficient_penalty` -/
def ArcObj.getSufficientPenalty (o : ArcObj) (feas : Bool) : Rat := if feas then 0 else o.inst.suffPenalty

/-- `RoutingProblem.get_qubo(feasibility, penalty_parameter)`: the sparse sums raise (`.shape`) when the pieces do not
    fit; the objective is only requested when `feasibility` is false -/
def ArcObj.getQubo (o : ArcObj) (feas : Bool) (rho? : Option Rat) : ArcObj × Except Err QuboOut :=
  let suff := o.inst.suffPenalty
  let r := o.getConstraintData
  let o1 := r.1
  let A := r.2.1; let shape := r.2.2.1; let b := r.2.2.2.1; let n := r.2.2.2.2
  -- `Q_eq + A.T @ A + diags(...)`: `(n,n)` against `(shape.2, shape.2)`
  if shape.2 ≠ n then (o1, .error .shape) else
  if feas then
    (o1, quboReply { n := n, m := shape.1, A := A, b := b, R := [], c := List.replicate n 0, Qobj := [] } suff feas rho?)
  else
    let q := o1.getObjectiveData
    let o2 := q.1
    -- `Q += Q_obj + diags(c_obj)`
    if q.2.2 ≠ n then (o2, .error .shape) else
    (o2, quboReply { n := n, m := shape.1, A := A, b := b, R := [], c := q.2.1, Qobj := [] } suff feas rho?)

/-- the three assignments `self.variables_enumerated = False; self.constraints_built = False;
    self.objective_built = False` -/
def ArcObj.resetAll (o : ArcObj) : ArcObj :=
  { o with variablesEnumerated := false, constraintsBuilt := false, objectiveBuilt := false }

/-- `check_and_add_exit_arc(node_index, cost)`; `exit` is the flag action after a successful `add_arc` -/
def ArcObj.checkAndAddExitArc (exit : ArcObj → ArcObj) (o : ArcObj) (n : Nat) (cost : Rat) : ArcObj × Except Err Unit :=
  if o.inst.g.hasArc n 0 then (o, .ok ())
  else
    let a := gstep .base o.inst.g (.addArc (nameOf o.inst.g n) (nameOf o.inst.g 0) 0 cost)
    match a.2 with
    | .ok (some true) => (exit { o with inst := { o.inst with g := a.1 } }, .ok ())
    | _ => (o, .error .assert)

/-- one iteration of `for n in unvisited_indices:`; `head` is the flag action at the loop head -/
def ArcObj.dummyStep (head exit : ArcObj → ArcObj) (t0 high : Rat) (o : ArcObj) (used : List ATup) (n : Nat) :
    ArcObj × Except Err (List ATup) :=
  let o0 := head o
  if o0.inst.g.hasArc 0 n then (o0, .error .assert)
  else
    let a := gstep .base o0.inst.g (.addArc (nameOf o0.inst.g 0) (nameOf o0.inst.g n) 0 high)
    match a.2 with
    | .ok (some true) =>
      let o1 : ArcObj := { o0 with inst := { o0.inst with g := a.1 } }
      match o1.inst.arrival t0 0 n with
      | none => (o1, .error .assert)
      | some arr =>
        let x := o1.checkAndAddExitArc exit n high
        match x.2 with
        | .error e => (x.1, .error e)
        | .ok _ =>
          match x.1.inst.arrival arr n 0 with
          | none => (x.1, .error .assert)
          | some arr2 => (x.1, .ok (used ++ [(0, t0, n, arr), (n, arr, 0, arr2)]))
    | _ => (o0, .error .assert)

/-- the loop over the still unvisited nodes; stops at the first failing iteration and keeps the object as it is -/
def ArcObj.dummyLoop (head exit : ArcObj → ArcObj) (t0 high : Rat) :
    ArcObj → List ATup → List Nat → ArcObj × Except Err (List ATup)
  | o, used, [] => (o, .ok used)
  | o, used, n :: rest =>
    let r := ArcObj.dummyStep head exit t0 high o used n
    match r.2 with
    | .ok used' => ArcObj.dummyLoop head exit t0 high r.1 used' rest
    | .error e => (r.1, .error e)

/-- `for a in used_arcs: var_index = self.get_var_index(*a)`: `none` at the first miss -/
def ArcObj.lookupAll : ArcObj → List ATup → List Nat → ArcObj × Option (List Nat)
  | o, [], acc => (o, some acc)
  | o, a :: rest, acc =>
    let r := o.getVarIndex a
    match r.2 with
    | none => (r.1, none)
    | some k => ArcObj.lookupAll r.1 rest (acc ++ [k])

/-- "construct and save feasible solution" -/
def ArcObj.storeSolution (o : ArcObj) (used : List ATup) : ArcObj × Except Err Unit :=
  let o1 := o.enumerateVariables
  let n := o1.numVariables
  let r := o1.lookupAll used []
  match r.2 with
  | none => ({ r.1 with sol := none }, .error .value)
  | some idxs => ({ r.1 with sol := some (solVec n idxs) }, .ok ())

/-- `make_feasible(high_cost)` with the two flag actions as parameters -/
def ArcObj.makeFeasibleWith (head exit : ArcObj → ArcObj) (o : ArcObj) (high : Rat) : ArcObj × Except Err Unit :=
  match o.inst.greedy with
  | .error e => (o, .error e)
  | .ok (unv, used) =>
    match o.inst.T.head? with
    | none => (o, .error .index)
    | some t0 =>
      let r := ArcObj.dummyLoop head exit t0 high o used unv
      match r.2 with
      | .error e => (r.1, .error e)
      | .ok used1 => r.1.storeSolution used1

/-- `ArcBasedRoutingProblem.make_feasible(high_cost)` -/
def ArcObj.makeFeasible (o : ArcObj) (high : Rat) : ArcObj × Except Err Unit :=
  o.makeFeasibleWith ArcObj.resetAll ArcObj.resetAll high

inductive ArcFOp where
  | numVars
  | varIndex (u : ATup)
  | varTuple (k : Nat)
  | objective
  | constraints
  | qubo (feas : Bool) (rho? : Option Rat)
  | heur (high : Rat)
deriving Repr, DecidableEq

inductive ArcReply where
  | num (n : Nat)
  | idx (k : Option Nat)
  | tup (u : Option ATup)
  | obj (c : List Rat) (n : Nat)
  | con (A : Coo) (shape : Nat × Nat) (b : List Rat) (n : Nat)
  | qubo (q : QuboOut)
  | done
  | raised (e : Err)
deriving Repr, DecidableEq

def ArcFOp.isHeur : ArcFOp → Bool
  | .heur _ => true
  | _ => false

/-- one call on the object, with the two flag actions of the heuristic as parameters -/
def ArcObj.stepWith (head exit : ArcObj → ArcObj) (o : ArcObj) : ArcFOp → ArcObj × ArcReply
  | .numVars => let r := o.getNumVariables; (r.1, .num r.2)
  | .varIndex u => let r := o.getVarIndex u; (r.1, .idx r.2)
  | .varTuple k => let r := o.getVarTupleIndex k; (r.1, .tup r.2)
  | .objective => let r := o.getObjectiveData; (r.1, .obj r.2.1 r.2.2)
  | .constraints => let r := o.getConstraintData; (r.1, .con r.2.1 r.2.2.1 r.2.2.2.1 r.2.2.2.2)
  | .qubo feas rho? =>
    let r := o.getQubo feas rho?
    (r.1, match r.2 with | .ok q => .qubo q | .error e => .raised e)
  | .heur high =>
    let r := o.makeFeasibleWith head exit high
    (r.1, match r.2 with | .ok _ => .done | .error e => .raised e)

/-- one call on the real object -/
def ArcObj.step (o : ArcObj) (op : ArcFOp) : ArcObj × ArcReply := o.stepWith ArcObj.resetAll ArcObj.resetAll op

def ArcObj.runWith (head exit : ArcObj → ArcObj) (o : ArcObj) : List ArcFOp → ArcObj × List ArcReply
  | [] => (o, [])
  | op :: rest =>
    let r := o.stepWith head exit op
    let q := ArcObj.runWith head exit r.1 rest
    (q.1, r.2 :: q.2)

def ArcObj.run (o : ArcObj) (ops : List ArcFOp) : ArcObj × List ArcReply :=
  o.runWith ArcObj.resetAll ArcObj.resetAll ops

/-! ### cache-free specification of the arc object -/

/-- instance-level `check_and_add_exit_arc` (no flags) -/
def arcExitI (J : ArcInst) (n : Nat) (cost : Rat) : ArcInst × Except Err Unit :=
  if J.g.hasArc n 0 then (J, .ok ())
  else
    let a := gstep .base J.g (.addArc (nameOf J.g n) (nameOf J.g 0) 0 cost)
    match a.2 with
    | .ok (some true) => ({ J with g := a.1 }, .ok ())
    | _ => (J, .error .assert)

/-- instance-level loop body (no flags, no caches) -/
def arcDummyStepI (t0 high : Rat) (J : ArcInst) (used : List ATup) (n : Nat) : ArcInst × Except Err (List ATup) :=
  if J.g.hasArc 0 n then (J, .error .assert)
  else
    let a := gstep .base J.g (.addArc (nameOf J.g 0) (nameOf J.g n) 0 high)
    match a.2 with
    | .ok (some true) =>
      let J1 : ArcInst := { J with g := a.1 }
      match J1.arrival t0 0 n with
      | none => (J1, .error .assert)
      | some arr =>
        let x := arcExitI J1 n high
        match x.2 with
        | .error e => (x.1, .error e)
        | .ok _ =>
          match x.1.arrival arr n 0 with
          | none => (x.1, .error .assert)
          | some arr2 => (x.1, .ok (used ++ [(0, t0, n, arr), (n, arr, 0, arr2)]))
    | _ => (J, .error .assert)

def arcDummyLoopI (t0 high : Rat) : ArcInst → List ATup → List Nat → ArcInst × Except Err (List ATup)
  | J, used, [] => (J, .ok used)
  | J, used, n :: rest =>
    let r := arcDummyStepI t0 high J used n
    match r.2 with
    | .ok used' => arcDummyLoopI t0 high r.1 used' rest
    | .error e => (r.1, .error e)

/-- indices of the used tuples, `none` at the first tuple that is not a variable -/
def lookupAllI (varIndex : α → Option Nat) : List α → List Nat → Option (List Nat)
  | [], acc => some acc
  | a :: rest, acc =>
    match varIndex a with
    | none => none
    | some k => lookupAllI varIndex rest (acc ++ [k])

/-- the instance-level heuristic INCLUDING its partial effects when it raises -/
def ArcInst.heurP (I : ArcInst) (high : Rat) : ArcInst × HeurRes :=
  match I.greedy with
  | .error e => (I, .raised e)
  | .ok (unv, used) =>
    match I.T.head? with
    | none => (I, .raised .index)
    | some t0 =>
      let r := arcDummyLoopI t0 high I used unv
      match r.2 with
      | .error e => (r.1, .raised e)
      | .ok used1 =>
        match lookupAllI r.1.varIndex used1 [] with
        | none => (r.1, .lookupFailed)
        | some idxs => (r.1, .ok (solVec r.1.vars.length idxs))

/-- abstract state: the problem data and the stored solution -/
structure ArcAbs where
  inst : ArcInst
  sol : Option (List Rat) := none

def ArcObj.abs (o : ArcObj) : ArcAbs := { inst := o.inst, sol := o.sol }

/-- the same calls answered from the instance state alone -/
def ArcAbs.specStep (s : ArcAbs) : ArcFOp → ArcAbs × ArcReply
  | .numVars => (s, .num s.inst.vars.length)
  | .varIndex u => (s, .idx (s.inst.varIndex u))
  | .varTuple k => (s, .tup (s.inst.varTuple k))
  | .objective => (s, .obj s.inst.data.c s.inst.data.n)
  | .constraints => (s, .con s.inst.data.A (s.inst.data.m, s.inst.data.n) s.inst.data.b s.inst.data.n)
  | .qubo feas rho? =>
    (s, match quboReply s.inst.data s.inst.suffPenalty feas rho? with | .ok q => .qubo q | .error e => .raised e)
  | .heur high =>
    let r := s.inst.heurP high
    match r.2 with
    | .ok sol => ({ inst := r.1, sol := some sol }, .done)
    | .lookupFailed => ({ inst := r.1, sol := none }, .raised .value)
    | .raised e => ({ inst := r.1, sol := s.sol }, .raised e)

def ArcAbs.specRun (s : ArcAbs) : List ArcFOp → ArcAbs × List ArcReply
  | [] => (s, [])
  | op :: rest =>
    let r := s.specStep op
    let q := ArcAbs.specRun r.1 rest
    (q.1, r.2 :: q.2)

/-! ## sequence-based object -/

structure SeqObj where
  inst : SeqInst
  variablesEnumerated : Bool := false
  objectiveBuilt : Bool := false
  linConBuilt : Bool := false
  quadConBuilt : Bool := false
  varMapping : List STup := []
  numVariables : Nat := 0
  objectiveC : List Rat := []
  objectiveQ : Coo := []
  objQShape : Nat := 0
  linMatrix : Coo := []
  linShape : Nat × Nat := (0, 0)
  linRhs : List Rat := []
  quadMatrix : List (Nat × Nat) := []
  quadShape : Nat := 0
  sol : Option (List Rat) := none

/-- `SequenceBasedRoutingProblem.__init__` + `set_max_vehicles` + `set_max_sequence_length` (the two setters write no
    flag in the code either, they are part of the initial problem data here) -/
def SeqObj.init (I : SeqInst) : SeqObj := { inst := I }

/-- `enumerate_variables` -/
def SeqObj.enumerateVariables (o : SeqObj) : SeqObj :=
  if o.variablesEnumerated then o
  else
    let vm := o.inst.vars
    { o with varMapping := vm, numVariables := vm.length, variablesEnumerated := true }

/-- `get_num_variables` -/
def SeqObj.getNumVariables (o : SeqObj) : SeqObj × Nat :=
  let o1 := if !o.variablesEnumerated then o.enumerateVariables else o
  (o1, o1.numVariables)

/-- `get_var_index` (tuple inside the array bounds) -/
def SeqObj.getVarIndex (o : SeqObj) (u : STup) : SeqObj × Option Nat :=
  let o1 := o.enumerateVariables
  (o1, idxOf? o1.varMapping u)

/-- `get_var_tuple_index` -/
def SeqObj.getVarTupleIndex (o : SeqObj) (k : Nat) : SeqObj × Option STup :=
  let o1 := o.enumerateVariables
  (o1, o1.varMapping[k]?)

/-- `build_objective` -/
def SeqObj.buildObjective (o : SeqObj) : SeqObj :=
  if o.objectiveBuilt then o
  else
    let o1 := o.enumerateVariables
    let r := o1.getNumVariables
    let o2 := r.1
    let ob := o2.inst.objective
    { o2 with objectiveC := ob.1, objectiveQ := ob.2, objQShape := r.2, objectiveBuilt := true }

/-- `build_linear_constraints` -/
def SeqObj.buildLinearConstraints (o : SeqObj) : SeqObj :=
  if o.linConBuilt then o
  else
    let o1 := o.enumerateVariables
    let r := o1.getNumVariables
    let o2 := r.1
    let lc := o2.inst.linCons
    { o2 with linMatrix := lc.1, linRhs := lc.2, linShape := (lc.2.length, r.2), linConBuilt := true }

/-- `build_quadratic_constraints`; a failing consistency assertion leaves `quad_con_built` unset -/
def SeqObj.buildQuadraticConstraints (o : SeqObj) : SeqObj × Except Err Unit :=
  if o.quadConBuilt then (o, .ok ())
  else
    let o1 := o.enumerateVariables
    match o1.inst.quadCons with
    | none => (o1, .error .assert)
    | some R =>
      let r := o1.getNumVariables
      ({ r.1 with quadMatrix := R, quadShape := r.2, quadConBuilt := true }, .ok ())

/-- `get_objective_data`: `(c, Q triples, shape of Q)` -/
def SeqObj.getObjectiveData (o : SeqObj) : SeqObj × List Rat × Coo × Nat :=
  let o1 := o.buildObjective
  (o1, o1.objectiveC, o1.objectiveQ, o1.objQShape)

/-- `get_constraint_data`: `(A, shape of A, b, R, shape of R)` -/
def SeqObj.getConstraintData (o : SeqObj) :
    SeqObj × Except Err (Coo × (Nat × Nat) × List Rat × List (Nat × Nat) × Nat) :=
  let o1 := o.buildLinearConstraints
  let r := o1.buildQuadraticConstraints
  match r.2 with
  | .error e => (r.1, .error e)
  | .ok _ => (r.1, .ok (r.1.linMatrix, r.1.linShape, r.1.linRhs, r.1.quadMatrix, r.1.quadShape))

/-- `get_sufficient_penalty` -/
def SeqObj.getSufficientPenalty (o : SeqObj) (feas : Bool) : Rat := if feas then 0 else o.inst.suffPenalty

/-- `RoutingProblem.get_qubo` on the sequence object -/
def SeqObj.getQubo (o : SeqObj) (feas : Bool) (rho? : Option Rat) : SeqObj × Except Err QuboOut :=
  let suff := o.inst.suffPenalty
  let r := o.getConstraintData
  let o1 := r.1
  match r.2 with
  | .error e => (o1, .error e)
  | .ok (A, shape, b, R, n) =>
    if shape.2 ≠ n then (o1, .error .shape) else
    if feas then
      (o1, quboReply { n := n, m := shape.1, A := A, b := b, R := R, c := List.replicate n 0, Qobj := [] } suff feas rho?)
    else
      let q := o1.getObjectiveData
      let o2 := q.1
      if q.2.2.2 ≠ n then (o2, .error .shape) else
      (o2, quboReply { n := n, m := shape.1, A := A, b := b, R := R, c := q.2.1, Qobj := q.2.2.1 } suff feas rho?)

/-- the four assignments `… = False` -/
def SeqObj.resetAll (o : SeqObj) : SeqObj :=
  { o with variablesEnumerated := false, objectiveBuilt := false, linConBuilt := false, quadConBuilt := false }

/-- `_ensure_exit_arc(node_index)`; `exit` is the flag action after a successful `add_arc` -/
def SeqObj.ensureExitArc (exit : SeqObj → SeqObj) (o : SeqObj) (cur : Nat) : SeqObj × Except Err Unit :=
  if o.inst.g.hasArc cur 0 then (o, .ok ())
  else
    match addArcOrFail (.seq o.inst.strict) o.inst.g cur 0 0 0 with
    | none => (o, .error .value)
    | some g' => (exit { o with inst := { o.inst with g := g' } }, .ok ())

/-- the position loop of one regular vehicle (mirrors `seqFill`) -/
def SeqObj.fill (exit : SeqObj → SeqObj) (v : Nat) :
    Nat → Nat → Nat → SeqObj → List Nat → List STup → SeqObj × Except Err (List Nat × List STup)
  | 0, _, cur, o, unv, used =>
    let x := o.ensureExitArc exit cur
    match x.2 with
    | .error e => (x.1, .error e)
    | .ok _ => (x.1, .ok (unv, used))
  | k + 1, p, cur, o, unv, used =>
    match unv.find? (fun n => o.inst.g.hasArc cur n) with
    | some n => SeqObj.fill exit v k (p + 1) n o (unv.erase n) (used ++ [(v, p, n)])
    | none =>
      let x := o.ensureExitArc exit cur
      match x.2 with
      | .error e => (x.1, .error e)
      | .ok _ => (x.1, .ok (unv, used ++ (List.range (k + 1)).map fun q => (v, p + q, 0)))

/-- `for vi in range(self.max_vehicles):` -/
def SeqObj.vehLoop (exit : SeqObj → SeqObj) :
    List Nat → SeqObj → List Nat → List STup → SeqObj × Except Err (List Nat × List STup)
  | [], o, unv, used => (o, .ok (unv, used))
  | v :: vs, o, unv, used =>
    let r := SeqObj.fill exit v (o.inst.L - 2) 1 0 o unv used
    match r.2 with
    | .error e => (r.1, .error e)
    | .ok p => SeqObj.vehLoop exit vs r.1 p.1 p.2

/-- one iteration of `for ni in unvisited_indices:` (one dummy vehicle) -/
def SeqObj.dummyStep (head : SeqObj → SeqObj) (high : Rat) (o : SeqObj) (used : List STup) (ni : Nat) :
    SeqObj × Except Err (List STup) :=
  let o0 := head o
  let v := o0.inst.V
  let o1 : SeqObj := { o0 with inst := { o0.inst with V := v + 1, vcost := o0.inst.vcost ++ [high] } }
  let fl := Flavor.seq o1.inst.strict
  match (if o1.inst.g.hasArc 0 ni then some o1.inst.g else addArcOrFail fl o1.inst.g 0 ni 0 high) with
  | none => (o1, .error .value)
  | some g1 =>
    let o2 : SeqObj := { o1 with inst := { o1.inst with g := g1 } }
    match (if g1.hasArc ni 0 then some g1 else addArcOrFail fl g1 ni 0 0 high) with
    | none => (o2, .error .value)
    | some g2 =>
      let o3 : SeqObj := { o2 with inst := { o2.inst with g := g2 } }
      (o3, .ok (used ++ [(v, 1, ni)] ++ (List.range (o3.inst.L - 3)).map fun q => (v, q + 2, 0)))

def SeqObj.dummyLoop (head : SeqObj → SeqObj) (high : Rat) :
    SeqObj → List STup → List Nat → SeqObj × Except Err (List STup)
  | o, used, [] => (o, .ok used)
  | o, used, n :: rest =>
    let r := SeqObj.dummyStep head high o used n
    match r.2 with
    | .ok used' => SeqObj.dummyLoop head high r.1 used' rest
    | .error e => (r.1, .error e)

def SeqObj.lookupAll : SeqObj → List STup → List Nat → SeqObj × Option (List Nat)
  | o, [], acc => (o, some acc)
  | o, a :: rest, acc =>
    let r := o.getVarIndex a
    match r.2 with
    | none => (r.1, none)
    | some k => SeqObj.lookupAll r.1 rest (acc ++ [k])

def SeqObj.storeSolution (o : SeqObj) (used : List STup) : SeqObj × Except Err Unit :=
  let o1 := o.enumerateVariables
  let n := o1.numVariables
  let r := o1.lookupAll used []
  match r.2 with
  | none => ({ r.1 with sol := none }, .error .value)
  | some idxs => ({ r.1 with sol := some (solVec n idxs) }, .ok ())

/-- `make_feasible(high_cost)`; `head` = flag action at the head of the dummy-vehicle loop, `exit` = flag action of
    `_ensure_exit_arc` -/
def SeqObj.makeFeasibleWith (head exit : SeqObj → SeqObj) (o : SeqObj) (high : Rat) : SeqObj × Except Err Unit :=
  let N := o.inst.g.nodes.length
  let unv0 := sortByHi o.inst.g ((List.range (N - 1)).map (· + 1))
  let r := SeqObj.vehLoop exit (List.range o.inst.V) o unv0 []
  match r.2 with
  | .error e => (r.1, .error e)
  | .ok p =>
    let r2 := SeqObj.dummyLoop head high r.1 p.2 p.1
    match r2.2 with
    | .error e => (r2.1, .error e)
    | .ok used => r2.1.storeSolution used

def SeqObj.makeFeasible (o : SeqObj) (high : Rat) : SeqObj × Except Err Unit :=
  o.makeFeasibleWith SeqObj.resetAll SeqObj.resetAll high

inductive SeqFOp where
  | numVars
  | varIndex (u : STup)
  | varTuple (k : Nat)
  | objective
  | constraints
  | qubo (feas : Bool) (rho? : Option Rat)
  | heur (high : Rat)
deriving Repr, DecidableEq

inductive SeqReply where
  | num (n : Nat)
  | idx (k : Option Nat)
  | tup (u : Option STup)
  | obj (c : List Rat) (Q : Coo) (n : Nat)
  | con (A : Coo) (shape : Nat × Nat) (b : List Rat) (R : List (Nat × Nat)) (n : Nat)
  | qubo (q : QuboOut)
  | done
  | raised (e : Err)
deriving Repr, DecidableEq

def SeqFOp.isHeur : SeqFOp → Bool
  | .heur _ => true
  | _ => false

def SeqObj.stepWith (head exit : SeqObj → SeqObj) (o : SeqObj) : SeqFOp → SeqObj × SeqReply
  | .numVars => let r := o.getNumVariables; (r.1, .num r.2)
  | .varIndex u => let r := o.getVarIndex u; (r.1, .idx r.2)
  | .varTuple k => let r := o.getVarTupleIndex k; (r.1, .tup r.2)
  | .objective => let r := o.getObjectiveData; (r.1, .obj r.2.1 r.2.2.1 r.2.2.2)
  | .constraints =>
    let r := o.getConstraintData
    (r.1, match r.2 with
          | .ok d => .con d.1 d.2.1 d.2.2.1 d.2.2.2.1 d.2.2.2.2
          | .error e => .raised e)
  | .qubo feas rho? =>
    let r := o.getQubo feas rho?
    (r.1, match r.2 with | .ok q => .qubo q | .error e => .raised e)
  | .heur high =>
    let r := o.makeFeasibleWith head exit high
    (r.1, match r.2 with | .ok _ => .done | .error e => .raised e)

def SeqObj.step (o : SeqObj) (op : SeqFOp) : SeqObj × SeqReply := o.stepWith SeqObj.resetAll SeqObj.resetAll op

def SeqObj.runWith (head exit : SeqObj → SeqObj) (o : SeqObj) : List SeqFOp → SeqObj × List SeqReply
  | [] => (o, [])
  | op :: rest =>
    let r := o.stepWith head exit op
    let q := SeqObj.runWith head exit r.1 rest
    (q.1, r.2 :: q.2)

def SeqObj.run (o : SeqObj) (ops : List SeqFOp) : SeqObj × List SeqReply :=
  o.runWith SeqObj.resetAll SeqObj.resetAll ops

/-! ### cache-free specification of the sequence object -/

/-- regular vehicles at instance level; a refused exit arc stops the loop, the graph keeps the arcs added for the
    earlier vehicles -/
def seqVehLoopI (fl : Flavor) (L : Nat) : List Nat → Graph → List Nat → List STup → Graph × Option (List Nat × List STup)
  | [], g, unv, used => (g, some (unv, used))
  | v :: vs, g, unv, used =>
    match seqFill fl L v (L - 2) 1 0 g unv used with
    | none => (g, none)
    | some st => seqVehLoopI fl L vs st.1 st.2.1 st.2.2

def seqDummyStepI (high : Rat) (J : SeqInst) (used : List STup) (ni : Nat) : SeqInst × Option (List STup) :=
  let v := J.V
  let J1 : SeqInst := { J with V := v + 1, vcost := J.vcost ++ [high] }
  let fl := Flavor.seq J1.strict
  match (if J1.g.hasArc 0 ni then some J1.g else addArcOrFail fl J1.g 0 ni 0 high) with
  | none => (J1, none)
  | some g1 =>
    match (if g1.hasArc ni 0 then some g1 else addArcOrFail fl g1 ni 0 0 high) with
    | none => ({ J1 with g := g1 }, none)
    | some g2 =>
      ({ J1 with g := g2 }, some (used ++ [(v, 1, ni)] ++ (List.range (J1.L - 3)).map fun q => (v, q + 2, 0)))

def seqDummyLoopI (high : Rat) : SeqInst → List STup → List Nat → SeqInst × Option (List STup)
  | J, used, [] => (J, some used)
  | J, used, n :: rest =>
    let r := seqDummyStepI high J used n
    match r.2 with
    | some used' => seqDummyLoopI high r.1 used' rest
    | none => (r.1, none)

/-- the instance-level heuristic INCLUDING its partial effects when it raises -/
def SeqInst.heurP (I : SeqInst) (high : Rat) : SeqInst × HeurRes :=
  let N := I.g.nodes.length
  let unv0 := sortByHi I.g ((List.range (N - 1)).map (· + 1))
  let r := seqVehLoopI (.seq I.strict) I.L (List.range I.V) I.g unv0 []
  match r.2 with
  | none => ({ I with g := r.1 }, .raised .value)
  | some p =>
    let r2 := seqDummyLoopI high { I with g := r.1 } p.2 p.1
    match r2.2 with
    | none => (r2.1, .raised .value)
    | some used =>
      match lookupAllI r2.1.varIndex used [] with
      | none => (r2.1, .lookupFailed)
      | some idxs => (r2.1, .ok (solVec r2.1.vars.length idxs))

structure SeqAbs where
  inst : SeqInst
  sol : Option (List Rat) := none

def SeqObj.abs (o : SeqObj) : SeqAbs := { inst := o.inst, sol := o.sol }

def SeqAbs.specStep (s : SeqAbs) : SeqFOp → SeqAbs × SeqReply
  | .numVars => (s, .num s.inst.vars.length)
  | .varIndex u => (s, .idx (s.inst.varIndex u))
  | .varTuple k => (s, .tup (s.inst.varTuple k))
  | .objective => (s, .obj s.inst.objective.1 s.inst.objective.2 s.inst.vars.length)
  | .constraints =>
    (s, match s.inst.quadCons with
        | none => .raised .assert
        | some R => .con s.inst.linCons.1 (s.inst.linCons.2.length, s.inst.vars.length) s.inst.linCons.2 R
                      s.inst.vars.length)
  | .qubo feas rho? =>
    (s, match s.inst.data with
        | none => .raised .assert
        | some d =>
          match quboReply d s.inst.suffPenalty feas rho? with
          | .ok q => .qubo q
          | .error e => .raised e)
  | .heur high =>
    let r := s.inst.heurP high
    match r.2 with
    | .ok sol => ({ inst := r.1, sol := some sol }, .done)
    | .lookupFailed => ({ inst := r.1, sol := none }, .raised .value)
    | .raised e => ({ inst := r.1, sol := s.sol }, .raised e)

def SeqAbs.specRun (s : SeqAbs) : List SeqFOp → SeqAbs × List SeqReply
  | [] => (s, [])
  | op :: rest =>
    let r := s.specStep op
    let q := SeqAbs.specRun r.1 rest
    (q.1, r.2 :: q.2)

end Vrp
