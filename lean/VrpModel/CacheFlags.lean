import VrpModel.Cache
/-!
# Flag-level model of the lazily built caches of the arc- and sequence-based formulation objects (C14)

`VrpModel/Cache.lean` models the caches with ONE all-or-nothing reset predicate.  This file keeps every boolean
flag and every cached attribute of the Python objects as a separate field and has one Lean function per Python
method; each function performs the method's reads and writes of flags and caches in program order.  The
cache-free SPECIFICATION (`ArcAbs` / `SeqAbs`, `specStep`, `specRun`) answers the same operations from the
instance state alone.  Operations: the queries (including route decoding `get_routes`, operation `decode`), the heuristic
`make_feasible`, and (D19) the public MUTATORS of the formulation objects, every one of which calls the hook `_problem_changed()` before it touches the problem data.  `VrpProofs/Props/C14c.lean` proves that the objects refine the specification.

## `ArcBasedRoutingProblem` (`formulations/arc_based_rp.py`): Python statement → model clause

| Python statement                                                        | model clause                                              |
|-------------------------------------------------------------------------|-----------------------------------------------------------|
| `__init__`: flags `False`, `var_mapping=[]`, `num_variables=0`, …       | field defaults of `ArcObj` (`ArcObj.init`)                |
| `enumerate_variables`: `if self.variables_enumerated: return`           | `enumerateVariables`: `if o.variablesEnumerated then o`   |
| `enumerate_variables_quicker`: `self.var_mapping = []` … `.append`      | `varMapping := o.inst.vars` (rebuilt, not appended)       |
|   `self.num_variables = num_vars`                                       | `numVariables := (o.inst.vars).length`                    |
|   `self.variables_enumerated = True`                                    | `variablesEnumerated := true`                             |
| `get_num_variables`: `if not self.variables_enumerated: enumerate…`     | `getNumVariables`: `if !o.variablesEnumerated then …`     |
|   `return self.num_variables`                                           | reads the CACHED `numVariables`                           |
| `get_var_index`: `self.enumerate_variables()`                           | `getVarIndex`: `o.enumerateVariables`                     |
|   `self.var_mapping.index(tuple)` / `ValueError → None`                 | `idxOf? o1.varMapping u` (search of the CACHED list)      |
| `get_var_tuple_index`: `self.enumerate_variables()`; `var_mapping[k]`   | `getVarTupleIndex`: `o1.varMapping[k]?`                   |
| `get_routes(x)`: `np.nonzero(solution)[0]`                              | `ArcObj.getRoutes`: `selectedIdx x` (positions with `x[k] ≠ 0`) |
|   `[self.get_var_tuple_index(k) for k in …]`, nothing selected          | no lookup, no enumeration; `tuples_ordered = []`, the `while` loop is skipped and `assert all(visited[1:] == 1)` decides: `(o, if arcAssertsTuples o.inst.g [] then .ok [] else .error .assert)` — `[]` for a depot-only problem, `AssertionError` as soon as there is a customer |
|   … something selected: each lookup calls `enumerate_variables()`       | `o1 := o.enumerateVariables` (flag honoured), tuples `o1.varMapping[k]?` from the CACHE |
|   an index `≥ len(var_mapping)`: lookup gives `None`, the array calls raise | `arcRoutesFrom`: `.error .type` (object stays enumerated) |
|   `np.lexsort`, the `while` loop                                        | `arcDecodeTuples` (`sortA`, `arcDecodeGo` / `followArc`, `VrpModel/ArcBased.lean`) |
|   `assert self.check_node_time_compat`, `assert all(visited[1:] == 1)`  | `arcAssertsTuples o1.inst.g` (current nodes / windows): `.error .assert` |
| `build_objective`: `if self.objective_built: return`                    | `buildObjective`: `if o.objectiveBuilt then o`            |
|   `self.enumerate_variables()`                                          | `o.enumerateVariables`                                    |
|   `np.zeros(self.get_num_variables())`, `range(self.get_num_variables())` | `getNumVariables` (flag read again), cached count       |
|   `i,_,j,_ = self.var_mapping[k]`; `self.arcs[(i,j)].get_cost()`        | zip of `range n` with the CACHED `varMapping`, `arcTupCost` from the CURRENT arcs |
|   `self.objective_built = True`                                         | `objectiveBuilt := true`                                  |
| `build_constraints`: `if self.constraints_built: return`                | `buildConstraints`: `if o.constraintsBuilt then o`        |
| `build_constraints_quicker`: `self.enumerate_variables()`               | `buildConstraintsQuicker`: `o.enumerateVariables` (re-enumerates only if the flag is unset) |
|   rows from `self.nodes`, `self.time_points`                            | `arcConsOf`: `I.flowKeys`, `I.g.nodes.length` (CURRENT instance) |
|   `for col in range(self.get_num_variables()): self.get_var_tuple_index(col)` | `getNumVariables`; zip of `range n` with the CACHED `varMapping` (the `enumerate_variables()` inside each lookup is a no-op: the flag has just been set) |
|   `self.constraints_matrix = coo((aval,(arow,acol)), shape=(len(brhs), n))` | `consMatrix`, `consShape := (b.length, n)`            |
|   `self.constraints_rhs = …`; `self.constraints_built = True`           | `consRhs`, `constraintsBuilt := true`                     |
| `get_objective_data`: `build_objective()`; `n = get_num_variables()`    | `getObjectiveData` (same order)                           |
| `get_constraint_data`: `build_constraints()`; `n = get_num_variables()` | `getConstraintData` (same order)                          |
| `get_sufficient_penalty(feas)`                                          | `getSufficientPenalty` (no flag, no cache)                |
| `RoutingProblem.get_qubo`: `get_sufficient_penalty`, `get_constraint_data`, [`get_objective_data` unless `feasibility`] | `getQubo` (same order; the objective is NOT built in feasibility mode) |
| `_problem_changed`: three flags `= False` (the hook, D19)                | `ArcObj.problemChanged` (= `resetAll`)                    |
| `add_time_points(pts)`: `self._problem_changed()`; `self.time_points = np.unique(pts)` | `ArcObj.addTimePoints`: hook, then `ArcInst.addTimePoints` (`addTimePointsWith hook` is parametric in the flag action, for the defective variant) |
| `RoutingProblem.add_node / set_depot / add_arc / set_vehicle_cap / set_initial_loading`: `self._problem_changed()`; `return self.vrptw.<same>(…)` | `ArcObj.mutate m`: hook FIRST, then `gmut .base` (`gstep .base` for the three graph calls, `cap` / `init` fields for the two setters); a raising call (`ValueError`: unknown / duplicate name, inverted window) leaves the problem data as they were, with the flags already unset |
| `make_feasible`: `self.time_points[0]` (first read inside the vehicle loop, second read in the dummy-arc loop AFTER `add_arc`) | `makeFeasibleWith`: `match o.inst.T.head?` — `some t0`: the rows below; `none` (EMPTY grid): `emptyGridWith` |
|   empty grid, `max_vehicles ≥ 1`: `IndexError` at the top of the vehicle loop | `emptyGridWith`: `(o, .error .index)`, object untouched |
|   empty grid, `max_vehicles = 0`, no unvisited node: `enumerate_variables()`, `feasible_solution = np.zeros(num_variables)`, return | `emptyGridWith`: `o.storeSolution []` |
|   empty grid, `max_vehicles = 0`, first unvisited `n`: head reset, `assert not check_arc((0,n))`, `self.add_arc(depot, n, 0, high_cost)`, `assert added`, THEN `self.time_points[0]` → `IndexError` | `emptyGridWith`: `head o`, `.error .assert`, `o0.mutate (.op (.addArc …))` (hook, then the arc), `(a.1, .error .index)` — the arc stays, the flags are unset |
|   greedy phase (non-empty grid; no cache access, no write)              | `ArcInst.greedy` (`VrpModel/Cache.lean`)                  |
|   `for n in unvisited_indices:` head: three flags `= False`             | `dummyStep`: `head o` (= `resetAll` in the real code)     |
|   `assert not self.check_arc(arc)`                                      | `dummyStep`: `(o0, .error .assert)` — after the head reset, before any `add_arc` |
|   `added = self.add_arc(depot_nm, node_nm, 0, high_cost)`               | `o0.mutate (.op (.addArc …))`: the PUBLIC mutator — hook (three flags `= False`) at this program point, then the arc |
|   `assert added`, `get_arrival_time`, `assert in_tp`                    | `dummyStep` (object keeps the arcs added so far, and the unset flags, on error) |
|   `check_and_add_exit_arc`: `if not check_arc: added = self.add_arc(…)` | `checkAndAddExitArc`: `o.mutate (.op (.addArc …))` — hook, then the arc; the flags are unset also when the arc is refused |
|     `assert added`                                                      | `(a.1, .error .assert)` with `a.1` the object after the hook |
|     three flags `= False` (explicit, after the `assert`)                | `exit a.1` (= `resetAll`; redundant after the hook)       |
|   `self.enumerate_variables()` (honours the flag)                       | `storeSolution`: `o.enumerateVariables`                   |
|   `self.feasible_solution = np.zeros(self.num_variables)`               | reads the CACHED `numVariables`                           |
|   `self.get_var_index(*a)` per used arc                                 | `lookupAll` (each lookup = `getVarIndex`, object threaded) |
|   `feasible_solution = None; raise ValueError`                          | `sol := none`, `.error .value`                            |

When `make_feasible` raises midway the object keeps the state reached so far (`makeFeasibleWith` returns the
partial object together with the error; the stored solution is untouched unless the final lookup fails).  This
includes the empty time grid: the `IndexError` of `self.time_points[0]` in the dummy-arc loop comes after the entry arc of
the first unvisited node has been added (`ArcObj.emptyGridWith`; specification side `ArcInst.heurEmptyP`, the empty-grid
branch of `ArcInst.heurP`).

`makeFeasibleWith head exit` is parametric in the two EXPLICIT reset actions (loop head, after the `assert` of
`check_and_add_exit_arc`) so that variants are expressible; `makeFeasible = makeFeasibleWith resetAll resetAll` is the
code.  The hook inside `add_arc` is NOT a parameter: it is part of the mutator.  Since every change of the problem data
inside the arc heuristic goes through `add_arc`, the two explicit resets have become redundant for refinement
(`Props/C14c.lean`: `arc_runWith_refines` for any harmless `head` / `exit`, `v1_equivalent`, `v1b_refines`, `v1c_refines`,
`v2_refines`, `arc_no_explicit_reset_refines`); they still show in the flags (`v2_flags_differ`).  A mutator that forgets the
hook breaks refinement (`arc_addTimePoints_nohook_not_refines`).

## `SequenceBasedRoutingProblem` (`formulations/sequence_based_rp.py`)

Flags: `variables_enumerated`, `objective_built`, `lin_con_built`, `quad_con_built`.

| Python statement                                                        | model clause                                              |
|-------------------------------------------------------------------------|-----------------------------------------------------------|
| `enumerate_variables`: flag test; `var_mapping = []`, `var_mapping_inverse`, `fixed_values`, `num_variables`, flag `= True` | `SeqObj.enumerateVariables`: `varMapping := inst.vars`, `numVariables`, `fixedOnes := inst.fixedOnes` (the keys of `fixed_values` with value 1), flag |
| `get_num_variables`, `get_var_index`, `get_var_tuple_index`             | as for the arc object (`var_mapping_inverse[v,s,n]` = position in the cached `varMapping`, `-1` ↦ `none`) |
| `get_routes(x)`: `np.flatnonzero(solution)`; `if size == 0: return []`  | `SeqObj.getRoutes`: `selectedIdx x`; nothing selected: `(o, .ok [])`, no lookup, no enumeration |
|   `[self.get_var_tuple_index(k) for k in …]`                            | `o1 := o.enumerateVariables` (flag honoured), tuples `o1.varMapping[k]?` from the CACHE; an index beyond the list: `.error .type` |
|   `+= [t for t,v in self.fixed_values.items() if v == 1.0]`             | `++ o1.fixedOnes`: the CACHED dict, read AFTER the lookups (`Props/C14c.lean: seq_decode_stale_unsound` for the other order) |
|   `np.lexsort`; `for vi in range(self.max_vehicles): for si in range(self.max_sequence_length): pop(0)`, `check_arc` | `seqDecodeTuples o1.inst.g o1.inst.V o1.inst.L` (`sortS`, `seqDecodeGo` / `decodeVehicle`, `VrpModel/SeqBased.lean`; current problem data); exhausted list: `.error .index` |
| `build_objective`: flag test, `enumerate_variables()`, body, `objective_built = True` | `buildObjective`; body = `inst.objective`, shape from `getNumVariables` |
| `build_linear_constraints`: flag test, `enumerate_variables()`, body, `lin_con_built = True` | `buildLinearConstraints`; body = `inst.linCons` |
| `build_quadratic_constraints`: flag test, `enumerate_variables()`, body (may `assert`), `quad_con_built = True` | `buildQuadraticConstraints`; body = `inst.quadCons`, `none` ↦ `.error .assert` with the flag left unset |
| `get_objective_data`: `build_objective()`                               | `getObjectiveData`                                        |
| `get_constraint_data`: `build_linear_constraints(); build_quadratic_constraints()` | `getConstraintData` (linear part stays built when the quadratic part raises) |
| `get_qubo`                                                              | `getQubo` (base-class composition, as for arc)            |
| `_problem_changed`: four flags `= False` (the hook, D19)                 | `SeqObj.problemChanged` (= `resetAll`)                    |
| `set_max_vehicles(v)`: `self._problem_changed()`; `max_vehicles = v`; `vehicle_cost = [0]*v` | `SeqObj.setMaxVehicles`: hook, then `SeqInst.setMaxVehicles` (`setMaxVehiclesWith hook` parametric, for the defective variant) |
| `set_max_sequence_length(l)`: `self._problem_changed()`; `max_sequence_length = int(l)` | `SeqObj.setMaxSeqLen`: hook, then `SeqInst.setMaxSeqLen` |
| `add_arc` (override): `self._problem_changed()`; strict rule / `super().add_arc` (hook again, flags already unset) | `SeqObj.mutate (.op (.addArc …))`: hook, then `gstep (.seq strict)` |
| `set_depot` (override): `super().set_depot` = `self._problem_changed()`; `vrptw.set_depot`; strict: arcs re-added through `self.add_arc` (hook each time); `arcs[(0,0)] = …` | `SeqObj.mutate (.op (.setDepot nm))`: hook, then `gstep (.seq strict) g (.setDepot nm)`; unknown name: `ValueError`, flags unset, data unchanged |
| `add_node`, `set_vehicle_cap`, `set_initial_loading` (base class): hook, `vrptw` call | `SeqObj.mutate (.op (.addNode …))`, `(.cap c)`, `(.init l)` |
| `make_feasible`: vehicle loop, `_ensure_exit_arc(current_node)`         | `vehLoop` / `fill` / `ensureExitArc`                      |
| `_ensure_exit_arc`: `if check_arc: return` (no flag write)              | `ensureExitArc`: `(o, .ok ())`                            |
|   `if not self.add_arc(node_nm, depot_nm, 0, 0): raise ValueError`      | `o.addArcIdx cur 0 0 0`: the PUBLIC mutator — hook (four flags `= False`), then the arc; refused → `(a.1, .error .value)` with the flags unset |
|   four flags `= False` (explicit, after the arc was added)              | `exit a.1` (= `resetAll`; redundant after the hook)       |
| `for ni in unvisited_indices:` head: four flags `= False`               | `dummyStep`: `head o` (= `resetAll`)                      |
|   `vi = self.max_vehicles; self.max_vehicles += 1; self.vehicle_cost.append(high_cost)` | `V := v + 1`, `vcost := vcost ++ [high]` — direct attribute writes, NO hook (kept when a later `add_arc` is refused) |
|   entry / exit arc: `if not check_arc: if not self.add_arc(…): raise ValueError` | `ensureArc` twice: no flag write when the arc exists; otherwise `addArcIdx` (hook, then the arc; refused → `.error .value` with the flags unset) |
|   `enumerate_variables()`, `np.zeros(self.num_variables)`, `get_var_index` lookups, `feasible_solution = None; raise` | `storeSolution` |

`makeFeasibleWith head exit`: `head` = explicit flag action at the head of the dummy-vehicle loop, `exit` = explicit flag
action at the end of `_ensure_exit_arc`.  After D19 the `exit` reset is redundant (`Props/C14c.lean`:
`seq_exit_noreset_equivalent`), the `head` reset is NOT (`seq_head_noreset_not_refines`: the loop writes `max_vehicles` /
`vehicle_cost` directly and both arcs may already exist, so no `add_arc` need follow).  A mutator that forgets the hook
breaks refinement (`seq_setMaxVehicles_nohook_not_refines`).

## What is not mirrored

* Container types (numpy / scipy COO / CSR, `toarray()` of an empty matrix), logging and timing.
* `constraint_names` / `lin_con_names` (rewritten by the constraint builders, read only by the CPLEX export).
* `objective`, `constraints_matrix`, … start as `None`; here they start as empty lists.  Not observable: every
  reader calls the builder first.
* Arc object: `IndexError`/`TypeError` when `num_variables > len(var_mapping)` and `KeyError` for a cached tuple whose
  arc is gone cannot happen (the two attributes are only written together, arcs are never deleted); the zip /
  default cost `0` stands for them.  Negative indices of `get_var_tuple_index` (Python wrap-around) are not modelled.
* Sequence object: `var_mapping_inverse` and the 0-entries of `fixed_values` are implicit (the 1-entries are the cache
  field `fixedOnes`, read by `get_routes`).  The builder bodies are the instance-level
  functions `SeqInst.objective / linCons / quadCons`, which recompute the enumeration from the current instance instead
  of reading the two cached tables.  This is exact whenever the cached enumeration is fresh at the time a builder runs
  (every builder calls `enumerate_variables()` first, and the coherence invariant gives freshness when the flag is set);
  a defect that leaves `variables_enumerated` set on changed data is therefore visible through `get_var_index`,
  `get_var_tuple_index`, `get_num_variables` and the shapes, but not inside the three seq builder bodies.
  `get_var_index` for tuples outside the array bounds (numpy `IndexError` / wrap-around) returns `none` here.
* Greedy phase of the arc heuristic = `ArcInst.greedy` (`VrpModel/Cache.lean`), used here for NON-EMPTY grids only.  On an
  empty grid `ArcInst.greedy` / `ArcInst.makeFeasible` (`VrpModel/Heuristics.lean`) report `.error .index` up front and
  carry no partial state; the code reaches `self.time_points[0]` only inside its two loops, so the flag-level model and
  its specification take the empty grid apart themselves (`emptyGridWith` / `heurEmptyP`) and do not call `greedy`
  there.  Consequently the connection theorems to `ArcInst.makeFeasible` (`Props/C14c.lean`:
  `arc_makeFeasible_connection`, `…_run`) assume `o.inst.T ≠ []`; refinement (`arc_refines`) does not.
* `unvisited_indices.remove(0)` raises `ValueError` on a problem without any node; here the list of unvisited
  indices is then empty (as in `ArcInst.greedy`).
-/
namespace Vrp

abbrev Coo := List (Nat × Nat × Rat)

/-- digestible QUBO result: `n`, the penalty weight used, the dense `n × n` matrix, the constant -/
abbrev QuboOut := Nat × Rat × List (List Rat) × Rat

/-- `get_qubo` on assembled program data -/
def quboReply (d : MPData) (suff : Rat) (feas : Bool) (rho? : Option Rat) : Except Err QuboOut :=
  match d.getQubo suff feas rho? with
  | .error e => .error e
  | .ok (Q, k) => .ok (d.n, rho?.getD (defaultRho suff feas), tabulate2 d.n d.n Q, k)

/-- what a heuristic run does to the stored solution -/
inductive HeurRes where
  | ok (sol : List Rat)      -- `feasible_solution` = the new vector
  | lookupFailed             -- `feasible_solution = None; raise ValueError`
  | raised (e : Err)         -- raised before the solution is touched
deriving Repr, DecidableEq

/-- `feasible_solution[var_index] = 1` for every found index -/
def solVec (n : Nat) (idxs : List Nat) : List Rat := (List.range n).map fun k => if k ∈ idxs then 1 else 0

/-! ## graph-level mutators of `RoutingProblem` -/

/-- what the public mutators of the base class `RoutingProblem` forward to the `vrptw` object -/
inductive GMut where
  | op (op : GOp)          -- `add_node`, `set_depot`, `add_arc` (the flavour decides which `add_arc` / `set_depot`)
  | cap (c : Rat)          -- `set_vehicle_cap`
  | init (l : Rat)         -- `set_initial_loading`
deriving Repr

/-- the `vrptw` call (for the sequence flavour: the overriding `add_arc` / `set_depot`) -/
def gmut (fl : Flavor) (g : Graph) : GMut → Graph × GOut
  | .op op => gstep fl g op
  | .cap c => ({ g with cap := some c }, .ok none)
  | .init l => ({ g with init := some l }, .ok none)

/-! ## route decoding: what both `get_routes` share -/

/-- `np.flatnonzero(solution)`: the positions `k < len(x)` with `x[k] ≠ 0`, ascending -/
def selectedIdx (x : List Rat) : List Nat :=
  ((List.range x.length).zip x).filterMap fun e => if e.2 = 0 then none else some e.1

/-- arc `get_routes` when at least one index is selected, on a given variable list `vm` (the object passes its CACHED
    `var_mapping`, the specification the enumeration of the instance): `get_var_tuple_index(k)` is `None` for an index
    beyond the list and the array functions then raise (`.type`); otherwise sort, route construction, and the
    assertions of the code (`.assert`) -/
def arcRoutesFrom (g : Graph) (vm : List ATup) (sel : List Nat) : Except Err (List (List (Nat × Rat))) :=
  if sel.any (fun k => decide (vm.length ≤ k)) then .error .type
  else
    let ts := sel.filterMap fun k => vm[k]?
    if arcAssertsTuples g ts then .ok (arcDecodeTuples ts) else .error .assert

/-- sequence `get_routes` once at least one index is selected, on a given variable list `vm` and a given list `fixed`
    of the tuples fixed to 1 (the object passes its CACHES `var_mapping` / `fixed_values`, the specification the values
    computed from the instance); `g`, `V`, `L` are always the CURRENT problem data (`check_arc`, `max_vehicles`,
    `max_sequence_length`) -/
def seqRoutesFrom (g : Graph) (V L : Nat) (vm fixed : List STup) (sel : List Nat) : Except Err (List (List Nat)) :=
  if sel.any (fun k => decide (vm.length ≤ k)) then .error .type
  else seqDecodeTuples g V L ((sel.filterMap fun k => vm[k]?) ++ fixed)

/-! ## arc-based object -/

structure ArcObj where
  inst : ArcInst
  variablesEnumerated : Bool := false
  constraintsBuilt : Bool := false
  objectiveBuilt : Bool := false
  varMapping : List ATup := []
  numVariables : Nat := 0
  objective : List Rat := []
  consMatrix : Coo := []
  consShape : Nat × Nat := (0, 0)
  consRhs : List Rat := []
  sol : Option (List Rat) := none        -- `feasible_solution`

/-- `ArcBasedRoutingProblem.__init__` (after the graph and the time points have been supplied) -/
def ArcObj.init (I : ArcInst) : ArcObj := { inst := I }

/-- `enumerate_variables` -/
def ArcObj.enumerateVariables (o : ArcObj) : ArcObj :=
  if o.variablesEnumerated then o
  else
    let vm := o.inst.vars
    { o with varMapping := vm, numVariables := vm.length, variablesEnumerated := true }

/-- `get_num_variables` -/
def ArcObj.getNumVariables (o : ArcObj) : ArcObj × Nat :=
  let o1 := if !o.variablesEnumerated then o.enumerateVariables else o
  (o1, o1.numVariables)

/-- `get_var_index` -/
def ArcObj.getVarIndex (o : ArcObj) (u : ATup) : ArcObj × Option Nat :=
  let o1 := o.enumerateVariables
  (o1, idxOf? o1.varMapping u)

/-- `get_var_tuple_index` (non-negative index) -/
def ArcObj.getVarTupleIndex (o : ArcObj) (k : Nat) : ArcObj × Option ATup :=
  let o1 := o.enumerateVariables
  (o1, o1.varMapping[k]?)

/-- `get_routes(x)`.  Nothing selected: no lookup happens, so nothing is enumerated and the object is unchanged; the
    route list is empty and the final `assert all(visited[1:] == 1)` decides (it holds exactly when there is no customer:
    `arcAssertsTuples g []`).  Otherwise the first `get_var_tuple_index` enumerates (honouring the flag) and every tuple comes from
    the CACHED `var_mapping`; window test and node count use the current graph. -/
def ArcObj.getRoutes (o : ArcObj) (x : List Rat) : ArcObj × Except Err (List (List (Nat × Rat))) :=
  let sel := selectedIdx x
  if sel.isEmpty then (o, if arcAssertsTuples o.inst.g [] then .ok [] else .error .assert)
  else
    let o1 := o.enumerateVariables
    (o1, arcRoutesFrom o1.inst.g o1.varMapping sel)

/-- `self.arcs[(i,j)].get_cost()` for a decision tuple -/
def arcTupCost (I : ArcInst) (u : ATup) : Rat := ((I.g.arc? u.1 u.2.2.1).map (·.cost)).getD 0

/-- `build_objective` -/
def ArcObj.buildObjective (o : ArcObj) : ArcObj :=
  if o.objectiveBuilt then o
  else
    let o1 := o.enumerateVariables
    let r := o1.getNumVariables
    let o2 := r.1
    let c := ((List.range r.2).zip o2.varMapping).map fun e => arcTupCost o2.inst e.2
    { o2 with objective := c, objectiveBuilt := true }

/-- body of `build_constraints_quicker` for a given (cached) variable list and count: rows from the current nodes and
    time points, columns from the list -/
def arcConsOf (I : ArcInst) (vm : List ATup) (nv : Nat) : Coo × (Nat × Nat) × List Rat :=
  let fk := I.flowKeys
  let nflow := fk.length
  let nvisit := I.g.nodes.length - 1
  let idx := (List.range nv).zip vm
  let flowTriples : Coo := idx.flatMap fun (col, u) =>
    (match idxOf? fk (u.1, u.2.1) with | some r => [(r, col, (-1 : Rat))] | none => []) ++
    (match idxOf? fk (u.2.2.1, u.2.2.2) with | some r => [(r, col, (1 : Rat))] | none => [])
  let visitTriples : Coo := idx.filterMap fun (col, u) =>
    if u.2.2.1 = 0 then none else some (nflow + (u.2.2.1 - 1), col, (1 : Rat))
  let b : List Rat := List.replicate nflow 0 ++ List.replicate nvisit 1
  (flowTriples ++ visitTriples, (b.length, nv), b)

/-- `build_constraints_quicker` -/
def ArcObj.buildConstraintsQuicker (o : ArcObj) : ArcObj :=
  let o1 := o.enumerateVariables
  let r := o1.getNumVariables
  let o2 := r.1
  let d := arcConsOf o2.inst o2.varMapping r.2
  { o2 with consMatrix := d.1, consShape := d.2.1, consRhs := d.2.2, constraintsBuilt := true }

/-- `build_constraints` -/
def ArcObj.buildConstraints (o : ArcObj) : ArcObj :=
  if o.constraintsBuilt then o else o.buildConstraintsQuicker

/-- `get_objective_data`: `(c, n)` where `n × n` is the shape of the (zero) quadratic part -/
def ArcObj.getObjectiveData (o : ArcObj) : ArcObj × List Rat × Nat :=
  let o1 := o.buildObjective
  let r := o1.getNumVariables
  (r.1, r.1.objective, r.2)

/-- `get_constraint_data`: `(A, shape of A, b, n)` -/
def ArcObj.getConstraintData (o : ArcObj) : ArcObj × Coo × (Nat × Nat) × List Rat × Nat :=
  let o1 := o.buildConstraints
  let r := o1.getNumVariables
  (r.1, r.1.consMatrix, r.1.consShape, r.1.consRhs, r.2)

/-- `get_sufficient_penalty` -/
def ArcObj.getSufficientPenalty (o : ArcObj) (feas : Bool) : Rat := if feas then 0 else o.inst.suffPenalty

/-- `RoutingProblem.get_qubo(feasibility, penalty_parameter)`: the sparse sums raise (`.shape`) when the pieces do not
    fit; the objective is only requested when `feasibility` is false -/
def ArcObj.getQubo (o : ArcObj) (feas : Bool) (rho? : Option Rat) : ArcObj × Except Err QuboOut :=
  let suff := o.inst.suffPenalty
  let r := o.getConstraintData
  let o1 := r.1
  let A := r.2.1; let shape := r.2.2.1; let b := r.2.2.2.1; let n := r.2.2.2.2
  -- `Q_eq + A.T @ A + diags(...)`: `(n,n)` against `(shape.2, shape.2)`
  if shape.2 ≠ n then (o1, .error .shape) else
  if feas then
    (o1, quboReply { n := n, m := shape.1, A := A, b := b, R := [], c := List.replicate n 0, Qobj := [] } suff feas rho?)
  else
    let q := o1.getObjectiveData
    let o2 := q.1
    -- `Q += Q_obj + diags(c_obj)`
    if q.2.2 ≠ n then (o2, .error .shape) else
    (o2, quboReply { n := n, m := shape.1, A := A, b := b, R := [], c := q.2.1, Qobj := [] } suff feas rho?)

/-- the three assignments `self.variables_enumerated = False; self.constraints_built = False;
    self.objective_built = False` -/
def ArcObj.resetAll (o : ArcObj) : ArcObj :=
  { o with variablesEnumerated := false, constraintsBuilt := false, objectiveBuilt := false }

/-- the hook `ArcBasedRoutingProblem._problem_changed()` (the same three assignments) -/
def ArcObj.problemChanged (o : ArcObj) : ArcObj := o.resetAll

/-- a public mutator of the base class `RoutingProblem` called on the arc object (`add_node`, `set_depot`, `add_arc`,
    `set_vehicle_cap`, `set_initial_loading`): `self._problem_changed()`, then the `vrptw` call.  When the call raises,
    the hook has already run and the problem data are untouched (`gmut` returns the graph as it was together with the
    error, `VrpProofs/Lemmas/CacheFlags.lean: gmut_error_fst`). -/
def ArcObj.mutate (o : ArcObj) (m : GMut) : ArcObj × GOut :=
  let o0 := o.problemChanged
  let a := gmut .base o0.inst.g m
  ({ o0 with inst := { o0.inst with g := a.1 } }, a.2)

/-- `add_time_points(pts)`; `hook` is the flag action at the top of the method (`problemChanged` in the code) -/
def ArcObj.addTimePointsWith (hook : ArcObj → ArcObj) (o : ArcObj) (pts : List Rat) : ArcObj :=
  let o0 := hook o
  { o0 with inst := o0.inst.addTimePoints pts }

/-- `ArcBasedRoutingProblem.add_time_points(pts)` -/
def ArcObj.addTimePoints (o : ArcObj) (pts : List Rat) : ArcObj := o.addTimePointsWith ArcObj.problemChanged pts

/-- `check_and_add_exit_arc(node_index, cost)`; `exit` is the explicit flag action after a successful `add_arc`.
    `self.add_arc(...)` is the public mutator: it runs the hook BEFORE the arc is tried, so the flags are reset also
    when the arc is refused and the `assert added` fails. -/
def ArcObj.checkAndAddExitArc (exit : ArcObj → ArcObj) (o : ArcObj) (n : Nat) (cost : Rat) : ArcObj × Except Err Unit :=
  if o.inst.g.hasArc n 0 then (o, .ok ())
  else
    let a := o.mutate (.op (.addArc (nameOf o.inst.g n) (nameOf o.inst.g 0) 0 cost))
    match a.2 with
    | .ok (some true) => (exit a.1, .ok ())
    | _ => (a.1, .error .assert)

/-- one iteration of `for n in unvisited_indices:`; `head` is the explicit flag action at the loop head.  The entry arc
    is added through the public `add_arc` (hook, then the arc). -/
def ArcObj.dummyStep (head exit : ArcObj → ArcObj) (t0 high : Rat) (o : ArcObj) (used : List ATup) (n : Nat) :
    ArcObj × Except Err (List ATup) :=
  let o0 := head o
  if o0.inst.g.hasArc 0 n then (o0, .error .assert)
  else
    let a := o0.mutate (.op (.addArc (nameOf o0.inst.g 0) (nameOf o0.inst.g n) 0 high))
    let o1 := a.1
    match a.2 with
    | .ok (some true) =>
      match o1.inst.arrival t0 0 n with
      | none => (o1, .error .assert)
      | some arr =>
        let x := o1.checkAndAddExitArc exit n high
        match x.2 with
        | .error e => (x.1, .error e)
        | .ok _ =>
          match x.1.inst.arrival arr n 0 with
          | none => (x.1, .error .assert)
          | some arr2 => (x.1, .ok (used ++ [(0, t0, n, arr), (n, arr, 0, arr2)]))
    | _ => (o1, .error .assert)

/-- the loop over the still unvisited nodes; stops at the first failing iteration and keeps the object as it is -/
def ArcObj.dummyLoop (head exit : ArcObj → ArcObj) (t0 high : Rat) :
    ArcObj → List ATup → List Nat → ArcObj × Except Err (List ATup)
  | o, used, [] => (o, .ok used)
  | o, used, n :: rest =>
    let r := ArcObj.dummyStep head exit t0 high o used n
    match r.2 with
    | .ok used' => ArcObj.dummyLoop head exit t0 high r.1 used' rest
    | .error e => (r.1, .error e)

/-- `for a in used_arcs: var_index = self.get_var_index(*a)`: `none` at the first miss -/
def ArcObj.lookupAll : ArcObj → List ATup → List Nat → ArcObj × Option (List Nat)
  | o, [], acc => (o, some acc)
  | o, a :: rest, acc =>
    let r := o.getVarIndex a
    match r.2 with
    | none => (r.1, none)
    | some k => ArcObj.lookupAll r.1 rest (acc ++ [k])

/-- "construct and save feasible solution" -/
def ArcObj.storeSolution (o : ArcObj) (used : List ATup) : ArcObj × Except Err Unit :=
  let o1 := o.enumerateVariables
  let n := o1.numVariables
  let r := o1.lookupAll used []
  match r.2 with
  | none => ({ r.1 with sol := none }, .error .value)
  | some idxs => ({ r.1 with sol := some (solVec n idxs) }, .ok ())

/-- `make_feasible(high_cost)` on an EMPTY time grid (`self.time_points` has no element), in program order.
    * `max_vehicles ≥ 1`: the first statement of the vehicle loop that touches the grid, `current_time =
      self.time_points[0]`, raises `IndexError`; nothing has been written.
    * `max_vehicles = 0`: the vehicle loop is skipped and `unvisited_indices` is still `1 .. N-1`.
      - no unvisited node: `enumerate_variables()` (honours the flag), `feasible_solution = np.zeros(num_variables)`,
        no lookup, normal return (`storeSolution []`);
      - first unvisited node `n`: loop-head reset (`head`), `assert not self.check_arc((0, n))`, the public
        `self.add_arc(depot, node_n, 0, high_cost)` (hook, then the arc), `assert added`, and only THEN
        `current_time = self.time_points[0]` → `IndexError`: the object keeps the new arc and the unset flags. -/
def ArcObj.emptyGridWith (head : ArcObj → ArcObj) (o : ArcObj) (high : Rat) : ArcObj × Except Err Unit :=
  if o.inst.g.estimateMaxVehicles ≠ 0 then (o, .error .index)
  else
    match (List.range (o.inst.g.nodes.length - 1)).map (· + 1) with
    | [] => o.storeSolution []
    | n :: _ =>
      let o0 := head o
      if o0.inst.g.hasArc 0 n then (o0, .error .assert)
      else
        let a := o0.mutate (.op (.addArc (nameOf o0.inst.g 0) (nameOf o0.inst.g n) 0 high))
        match a.2 with
        | .ok (some true) => (a.1, .error .index)
        | _ => (a.1, .error .assert)

/-- `make_feasible(high_cost)` with the two flag actions as parameters.  Empty grid: `emptyGridWith`.  Otherwise
    `t0 = self.time_points[0]` exists, `ArcInst.greedy` is the vehicle loop (no cache access, no write) and the
    dummy-arc loop and the final bookkeeping follow. -/
def ArcObj.makeFeasibleWith (head exit : ArcObj → ArcObj) (o : ArcObj) (high : Rat) : ArcObj × Except Err Unit :=
  match o.inst.T.head? with
  | none => ArcObj.emptyGridWith head o high
  | some t0 =>
    match o.inst.greedy with
    | .error e => (o, .error e)
    | .ok (unv, used) =>
      let r := ArcObj.dummyLoop head exit t0 high o used unv
      match r.2 with
      | .error e => (r.1, .error e)
      | .ok used1 => r.1.storeSolution used1

/-- `ArcBasedRoutingProblem.make_feasible(high_cost)` -/
def ArcObj.makeFeasible (o : ArcObj) (high : Rat) : ArcObj × Except Err Unit :=
  o.makeFeasibleWith ArcObj.resetAll ArcObj.resetAll high

inductive ArcFOp where
  | numVars
  | varIndex (u : ATup)
  | varTuple (k : Nat)
  | objective
  | constraints
  | qubo (feas : Bool) (rho? : Option Rat)
  | decode (x : List Rat)    -- `get_routes(x)` (a query)
  | heur (high : Rat)
  -- public mutators
  | addTimePoints (pts : List Rat)
  | addArc (orig dest : String) (time cost : Rat)
  | addNode (name : String) (demand lo : Rat) (hi : ERat)
  | setDepot (name : String)
  | setVehicleCap (c : Rat)
  | setInitialLoading (l : Rat)
deriving Repr, DecidableEq

inductive ArcReply where
  | num (n : Nat)
  | idx (k : Option Nat)
  | tup (u : Option ATup)
  | obj (c : List Rat) (n : Nat)
  | con (A : Coo) (shape : Nat × Nat) (b : List Rat) (n : Nat)
  | qubo (q : QuboOut)
  | routesA (r : List (List (Nat × Rat)))   -- `get_routes`: per route the stops `(node, time)`
  | done                     -- normal return of the heuristic or of a void mutator
  | added (b : Bool)         -- return value of `add_arc`
  | raised (e : Err)
deriving Repr, DecidableEq

def ArcFOp.isHeur : ArcFOp → Bool
  | .heur _ => true
  | _ => false

/-- the graph-level call behind a mutator of the base class -/
def ArcFOp.gmut? : ArcFOp → Option GMut
  | .addArc o d t c => some (.op (.addArc o d t c))
  | .addNode nm dem lo hi => some (.op (.addNode nm dem lo hi))
  | .setDepot nm => some (.op (.setDepot nm))
  | .setVehicleCap c => some (.cap c)
  | .setInitialLoading l => some (.init l)
  | _ => none

def ArcFOp.isMutator : ArcFOp → Bool
  | .addTimePoints _ => true
  | op => op.gmut?.isSome

/-- a state-changing call: a heuristic run or a mutator -/
def ArcFOp.isChange (op : ArcFOp) : Bool := op.isHeur || op.isMutator

/-- a query: neither a heuristic run nor a mutator -/
def ArcFOp.isQuery (op : ArcFOp) : Bool := !op.isChange

/-- reply of a mutator: `done` for the void ones, the returned boolean for `add_arc`, the exception otherwise -/
def ArcReply.ofGOut : GOut → ArcReply
  | .ok none => .done
  | .ok (some b) => .added b
  | .error e => .raised e

/-- one call on the object, with the two explicit flag actions of the heuristic as parameters -/
def ArcObj.stepWith (head exit : ArcObj → ArcObj) (o : ArcObj) : ArcFOp → ArcObj × ArcReply
  | .numVars => let r := o.getNumVariables; (r.1, .num r.2)
  | .varIndex u => let r := o.getVarIndex u; (r.1, .idx r.2)
  | .varTuple k => let r := o.getVarTupleIndex k; (r.1, .tup r.2)
  | .objective => let r := o.getObjectiveData; (r.1, .obj r.2.1 r.2.2)
  | .constraints => let r := o.getConstraintData; (r.1, .con r.2.1 r.2.2.1 r.2.2.2.1 r.2.2.2.2)
  | .qubo feas rho? =>
    let r := o.getQubo feas rho?
    (r.1, match r.2 with | .ok q => .qubo q | .error e => .raised e)
  | .decode x =>
    let r := o.getRoutes x
    (r.1, match r.2 with | .ok rs => .routesA rs | .error e => .raised e)
  | .heur high =>
    let r := o.makeFeasibleWith head exit high
    (r.1, match r.2 with | .ok _ => .done | .error e => .raised e)
  | .addTimePoints pts => (o.addTimePoints pts, .done)
  | .addArc og d t c => let r := o.mutate (.op (.addArc og d t c)); (r.1, .ofGOut r.2)
  | .addNode nm dem lo hi => let r := o.mutate (.op (.addNode nm dem lo hi)); (r.1, .ofGOut r.2)
  | .setDepot nm => let r := o.mutate (.op (.setDepot nm)); (r.1, .ofGOut r.2)
  | .setVehicleCap c => let r := o.mutate (.cap c); (r.1, .ofGOut r.2)
  | .setInitialLoading l => let r := o.mutate (.init l); (r.1, .ofGOut r.2)

/-- one call on the real object -/
def ArcObj.step (o : ArcObj) (op : ArcFOp) : ArcObj × ArcReply := o.stepWith ArcObj.resetAll ArcObj.resetAll op

def ArcObj.runWith (head exit : ArcObj → ArcObj) (o : ArcObj) : List ArcFOp → ArcObj × List ArcReply
  | [] => (o, [])
  | op :: rest =>
    let r := o.stepWith head exit op
    let q := ArcObj.runWith head exit r.1 rest
    (q.1, r.2 :: q.2)

def ArcObj.run (o : ArcObj) (ops : List ArcFOp) : ArcObj × List ArcReply :=
  o.runWith ArcObj.resetAll ArcObj.resetAll ops

/-! ### cache-free specification of the arc object -/

/-- instance-level `check_and_add_exit_arc` (no flags) -/
def arcExitI (J : ArcInst) (n : Nat) (cost : Rat) : ArcInst × Except Err Unit :=
  if J.g.hasArc n 0 then (J, .ok ())
  else
    let a := gstep .base J.g (.addArc (nameOf J.g n) (nameOf J.g 0) 0 cost)
    match a.2 with
    | .ok (some true) => ({ J with g := a.1 }, .ok ())
    | _ => (J, .error .assert)

/-- instance-level loop body (no flags, no caches) -/
def arcDummyStepI (t0 high : Rat) (J : ArcInst) (used : List ATup) (n : Nat) : ArcInst × Except Err (List ATup) :=
  if J.g.hasArc 0 n then (J, .error .assert)
  else
    let a := gstep .base J.g (.addArc (nameOf J.g 0) (nameOf J.g n) 0 high)
    match a.2 with
    | .ok (some true) =>
      let J1 : ArcInst := { J with g := a.1 }
      match J1.arrival t0 0 n with
      | none => (J1, .error .assert)
      | some arr =>
        let x := arcExitI J1 n high
        match x.2 with
        | .error e => (x.1, .error e)
        | .ok _ =>
          match x.1.arrival arr n 0 with
          | none => (x.1, .error .assert)
          | some arr2 => (x.1, .ok (used ++ [(0, t0, n, arr), (n, arr, 0, arr2)]))
    | _ => (J, .error .assert)

def arcDummyLoopI (t0 high : Rat) : ArcInst → List ATup → List Nat → ArcInst × Except Err (List ATup)
  | J, used, [] => (J, .ok used)
  | J, used, n :: rest =>
    let r := arcDummyStepI t0 high J used n
    match r.2 with
    | .ok used' => arcDummyLoopI t0 high r.1 used' rest
    | .error e => (r.1, .error e)

/-- indices of the used tuples, `none` at the first tuple that is not a variable -/
def lookupAllI (varIndex : α → Option Nat) : List α → List Nat → Option (List Nat)
  | [], acc => some acc
  | a :: rest, acc =>
    match varIndex a with
    | none => none
    | some k => lookupAllI varIndex rest (acc ++ [k])

/-- the instance-level heuristic on an EMPTY time grid, INCLUDING its partial effects (no flags, no caches; see
    `ArcObj.emptyGridWith` for the program points).  `max_vehicles ≥ 1`: `IndexError` in the vehicle loop, nothing
    written.  `max_vehicles = 0` and no unvisited node: the all-zero solution over the (empty) variable list is stored.
    `max_vehicles = 0` and a first unvisited node `n`: the entry arc `(0, n)` is added, then `self.time_points[0]`
    raises `IndexError` and the arc stays. -/
def ArcInst.heurEmptyP (I : ArcInst) (high : Rat) : ArcInst × HeurRes :=
  if I.g.estimateMaxVehicles ≠ 0 then (I, .raised .index)
  else
    match (List.range (I.g.nodes.length - 1)).map (· + 1) with
    | [] => (I, .ok (solVec I.vars.length []))
    | n :: _ =>
      if I.g.hasArc 0 n then (I, .raised .assert)
      else
        let a := gstep .base I.g (.addArc (nameOf I.g 0) (nameOf I.g n) 0 high)
        match a.2 with
        | .ok (some true) => ({ I with g := a.1 }, .raised .index)
        | _ => (I, .raised .assert)

/-- the instance-level heuristic INCLUDING its partial effects when it raises -/
def ArcInst.heurP (I : ArcInst) (high : Rat) : ArcInst × HeurRes :=
  match I.T.head? with
  | none => I.heurEmptyP high
  | some t0 =>
    match I.greedy with
    | .error e => (I, .raised e)
    | .ok (unv, used) =>
      let r := arcDummyLoopI t0 high I used unv
      match r.2 with
      | .error e => (r.1, .raised e)
      | .ok used1 =>
        match lookupAllI r.1.varIndex used1 [] with
        | none => (r.1, .lookupFailed)
        | some idxs => (r.1, .ok (solVec r.1.vars.length idxs))

/-- `get_routes(x)` answered from the instance alone (no cache): the enumeration is recomputed -/
def ArcInst.getRoutes (I : ArcInst) (x : List Rat) : Except Err (List (List (Nat × Rat))) :=
  let sel := selectedIdx x
  if sel.isEmpty then (if arcAssertsTuples I.g [] then .ok [] else .error .assert) else arcRoutesFrom I.g I.vars sel

/-- abstract state: the problem data and the stored solution -/
structure ArcAbs where
  inst : ArcInst
  sol : Option (List Rat) := none

def ArcObj.abs (o : ArcObj) : ArcAbs := { inst := o.inst, sol := o.sol }

/-- a base-class mutator on the abstract state: the `vrptw` call on the problem data -/
def ArcAbs.mutate (s : ArcAbs) (m : GMut) : ArcAbs × ArcReply :=
  let a := gmut .base s.inst.g m
  ({ s with inst := { s.inst with g := a.1 } }, .ofGOut a.2)

/-- the same calls answered from the instance state alone -/
def ArcAbs.specStep (s : ArcAbs) : ArcFOp → ArcAbs × ArcReply
  | .numVars => (s, .num s.inst.vars.length)
  | .varIndex u => (s, .idx (s.inst.varIndex u))
  | .varTuple k => (s, .tup (s.inst.varTuple k))
  | .objective => (s, .obj s.inst.data.c s.inst.data.n)
  | .constraints => (s, .con s.inst.data.A (s.inst.data.m, s.inst.data.n) s.inst.data.b s.inst.data.n)
  | .qubo feas rho? =>
    (s, match quboReply s.inst.data s.inst.suffPenalty feas rho? with | .ok q => .qubo q | .error e => .raised e)
  | .decode x => (s, match s.inst.getRoutes x with | .ok rs => .routesA rs | .error e => .raised e)
  | .heur high =>
    let r := s.inst.heurP high
    match r.2 with
    | .ok sol => ({ inst := r.1, sol := some sol }, .done)
    | .lookupFailed => ({ inst := r.1, sol := none }, .raised .value)
    | .raised e => ({ inst := r.1, sol := s.sol }, .raised e)
  | .addTimePoints pts => ({ s with inst := s.inst.addTimePoints pts }, .done)
  | .addArc og d t c => s.mutate (.op (.addArc og d t c))
  | .addNode nm dem lo hi => s.mutate (.op (.addNode nm dem lo hi))
  | .setDepot nm => s.mutate (.op (.setDepot nm))
  | .setVehicleCap c => s.mutate (.cap c)
  | .setInitialLoading l => s.mutate (.init l)

def ArcAbs.specRun (s : ArcAbs) : List ArcFOp → ArcAbs × List ArcReply
  | [] => (s, [])
  | op :: rest =>
    let r := s.specStep op
    let q := ArcAbs.specRun r.1 rest
    (q.1, r.2 :: q.2)

/-! ## sequence-based object -/

structure SeqObj where
  inst : SeqInst
  variablesEnumerated : Bool := false
  objectiveBuilt : Bool := false
  linConBuilt : Bool := false
  quadConBuilt : Bool := false
  varMapping : List STup := []
  numVariables : Nat := 0
  fixedOnes : List STup := []            -- the tuples `t` with `fixed_values[t] == 1` (rebuilt by `enumerate_variables`)
  objectiveC : List Rat := []
  objectiveQ : Coo := []
  objQShape : Nat := 0
  linMatrix : Coo := []
  linShape : Nat × Nat := (0, 0)
  linRhs : List Rat := []
  quadMatrix : List (Nat × Nat) := []
  quadShape : Nat := 0
  sol : Option (List Rat) := none

/-- `SequenceBasedRoutingProblem.__init__` + `set_max_vehicles` + `set_max_sequence_length` on the fresh object (all
    flags are still unset, so the hook of the two setters changes nothing; later calls of the setters are the
    operations `setMaxVehicles` / `setMaxSeqLen`) -/
def SeqObj.init (I : SeqInst) : SeqObj := { inst := I }

/-- `enumerate_variables`: `var_mapping`, `num_variables` and the dict `fixed_values` (of which `get_routes` reads the
    entries equal to 1: `fixedOnes`) are rebuilt together -/
def SeqObj.enumerateVariables (o : SeqObj) : SeqObj :=
  if o.variablesEnumerated then o
  else
    let vm := o.inst.vars
    { o with varMapping := vm, numVariables := vm.length, fixedOnes := o.inst.fixedOnes, variablesEnumerated := true }

/-- `get_num_variables` -/
def SeqObj.getNumVariables (o : SeqObj) : SeqObj × Nat :=
  let o1 := if !o.variablesEnumerated then o.enumerateVariables else o
  (o1, o1.numVariables)

/-- `get_var_index` (tuple inside the array bounds) -/
def SeqObj.getVarIndex (o : SeqObj) (u : STup) : SeqObj × Option Nat :=
  let o1 := o.enumerateVariables
  (o1, idxOf? o1.varMapping u)

/-- `get_var_tuple_index` -/
def SeqObj.getVarTupleIndex (o : SeqObj) (k : Nat) : SeqObj × Option STup :=
  let o1 := o.enumerateVariables
  (o1, o1.varMapping[k]?)

/-- `get_routes(x)`.  Nothing selected: `return []` BEFORE any lookup, so nothing is enumerated.  Otherwise the first
    `get_var_tuple_index` enumerates (honouring the flag); the selected tuples come from the CACHED `var_mapping`, the
    tuples fixed to 1 from the CACHED `fixed_values` (read AFTER the lookups, i.e. after the enumeration); the loops
    use the current `max_vehicles`, `max_sequence_length` and arcs. -/
def SeqObj.getRoutes (o : SeqObj) (x : List Rat) : SeqObj × Except Err (List (List Nat)) :=
  let sel := selectedIdx x
  if sel.isEmpty then (o, .ok [])
  else
    let o1 := o.enumerateVariables
    (o1, seqRoutesFrom o1.inst.g o1.inst.V o1.inst.L o1.varMapping o1.fixedOnes sel)

/-- `build_objective` -/
def SeqObj.buildObjective (o : SeqObj) : SeqObj :=
  if o.objectiveBuilt then o
  else
    let o1 := o.enumerateVariables
    let r := o1.getNumVariables
    let o2 := r.1
    let ob := o2.inst.objective
    { o2 with objectiveC := ob.1, objectiveQ := ob.2, objQShape := r.2, objectiveBuilt := true }

/-- `build_linear_constraints` -/
def SeqObj.buildLinearConstraints (o : SeqObj) : SeqObj :=
  if o.linConBuilt then o
  else
    let o1 := o.enumerateVariables
    let r := o1.getNumVariables
    let o2 := r.1
    let lc := o2.inst.linCons
    { o2 with linMatrix := lc.1, linRhs := lc.2, linShape := (lc.2.length, r.2), linConBuilt := true }

/-- `build_quadratic_constraints`; a failing consistency assertion leaves `quad_con_built` unset -/
def SeqObj.buildQuadraticConstraints (o : SeqObj) : SeqObj × Except Err Unit :=
  if o.quadConBuilt then (o, .ok ())
  else
    let o1 := o.enumerateVariables
    match o1.inst.quadCons with
    | none => (o1, .error .assert)
    | some R =>
      let r := o1.getNumVariables
      ({ r.1 with quadMatrix := R, quadShape := r.2, quadConBuilt := true }, .ok ())

/-- `get_objective_data`: `(c, Q triples, shape of Q)` -/
def SeqObj.getObjectiveData (o : SeqObj) : SeqObj × List Rat × Coo × Nat :=
  let o1 := o.buildObjective
  (o1, o1.objectiveC, o1.objectiveQ, o1.objQShape)

/-- `get_constraint_data`: `(A, shape of A, b, R, shape of R)` -/
def SeqObj.getConstraintData (o : SeqObj) :
    SeqObj × Except Err (Coo × (Nat × Nat) × List Rat × List (Nat × Nat) × Nat) :=
  let o1 := o.buildLinearConstraints
  let r := o1.buildQuadraticConstraints
  match r.2 with
  | .error e => (r.1, .error e)
  | .ok _ => (r.1, .ok (r.1.linMatrix, r.1.linShape, r.1.linRhs, r.1.quadMatrix, r.1.quadShape))

/-- `get_sufficient_penalty` -/
def SeqObj.getSufficientPenalty (o : SeqObj) (feas : Bool) : Rat := if feas then 0 else o.inst.suffPenalty

/-- `RoutingProblem.get_qubo` on the sequence object -/
def SeqObj.getQubo (o : SeqObj) (feas : Bool) (rho? : Option Rat) : SeqObj × Except Err QuboOut :=
  let suff := o.inst.suffPenalty
  let r := o.getConstraintData
  let o1 := r.1
  match r.2 with
  | .error e => (o1, .error e)
  | .ok (A, shape, b, R, n) =>
    if shape.2 ≠ n then (o1, .error .shape) else
    if feas then
      (o1, quboReply { n := n, m := shape.1, A := A, b := b, R := R, c := List.replicate n 0, Qobj := [] } suff feas rho?)
    else
      let q := o1.getObjectiveData
      let o2 := q.1
      if q.2.2.2 ≠ n then (o2, .error .shape) else
      (o2, quboReply { n := n, m := shape.1, A := A, b := b, R := R, c := q.2.1, Qobj := q.2.2.1 } suff feas rho?)

/-- the four assignments `… = False` -/
def SeqObj.resetAll (o : SeqObj) : SeqObj :=
  { o with variablesEnumerated := false, objectiveBuilt := false, linConBuilt := false, quadConBuilt := false }

/-- the hook `SequenceBasedRoutingProblem._problem_changed()` (the same four assignments) -/
def SeqObj.problemChanged (o : SeqObj) : SeqObj := o.resetAll

/-- a public mutator forwarded to the `vrptw` object, called on the sequence object: `add_node`, `set_vehicle_cap`,
    `set_initial_loading` (base-class methods: hook, then the call), `add_arc` (the override: hook, then the strict /
    base rule) and `set_depot` (the override calls the base-class method — hook, `vrptw.set_depot` — then re-adds the
    arcs through `self.add_arc` in strict mode — hook again, the flags are already unset — and installs the depot
    self-arc).  When the call raises, the hook has already run and the problem data are untouched. -/
def SeqObj.mutate (o : SeqObj) (m : GMut) : SeqObj × GOut :=
  let o0 := o.problemChanged
  let a := gmut (.seq o0.inst.strict) o0.inst.g m
  ({ o0 with inst := { o0.inst with g := a.1 } }, a.2)

/-- `set_max_vehicles(v)`; `hook` is the flag action at the top of the method (`problemChanged` in the code) -/
def SeqObj.setMaxVehiclesWith (hook : SeqObj → SeqObj) (o : SeqObj) (v : Nat) : SeqObj :=
  let o0 := hook o
  { o0 with inst := o0.inst.setMaxVehicles v }

/-- `SequenceBasedRoutingProblem.set_max_vehicles(v)` -/
def SeqObj.setMaxVehicles (o : SeqObj) (v : Nat) : SeqObj := o.setMaxVehiclesWith SeqObj.problemChanged v

/-- `SequenceBasedRoutingProblem.set_max_sequence_length(l)` -/
def SeqObj.setMaxSeqLen (o : SeqObj) (l : Nat) : SeqObj :=
  let o0 := o.problemChanged
  { o0 with inst := o0.inst.setMaxSeqLen l }

/-- `self.add_arc(node_names[i], node_names[j], t, c)` as the heuristic calls it: the public mutator (hook first), and
    whether it returned `True`.  The flags are reset also when the arc is refused. -/
def SeqObj.addArcIdx (o : SeqObj) (i j : Nat) (t c : Rat) : SeqObj × Bool :=
  let a := o.mutate (.op (.addArc (nameOf o.inst.g i) (nameOf o.inst.g j) t c))
  match a.2 with
  | .ok (some true) => (a.1, true)
  | _ => (a.1, false)

/-- `if not self.check_arc((i, j)): if not self.add_arc(...): raise ValueError` of the dummy-vehicle loop: the object
    afterwards and whether the arc is there (`false` = the code raises).  No flag is touched when the arc exists. -/
def SeqObj.ensureArc (o : SeqObj) (i j : Nat) (t c : Rat) : SeqObj × Bool :=
  if o.inst.g.hasArc i j then (o, true) else o.addArcIdx i j t c

/-- `_ensure_exit_arc(node_index)`; `exit` is the explicit flag action after a successful `add_arc` -/
def SeqObj.ensureExitArc (exit : SeqObj → SeqObj) (o : SeqObj) (cur : Nat) : SeqObj × Except Err Unit :=
  if o.inst.g.hasArc cur 0 then (o, .ok ())
  else
    let a := o.addArcIdx cur 0 0 0
    if a.2 then (exit a.1, .ok ()) else (a.1, .error .value)

/-- the position loop of one regular vehicle (mirrors `seqFill`) -/
def SeqObj.fill (exit : SeqObj → SeqObj) (v : Nat) :
    Nat → Nat → Nat → SeqObj → List Nat → List STup → SeqObj × Except Err (List Nat × List STup)
  | 0, _, cur, o, unv, used =>
    let x := o.ensureExitArc exit cur
    match x.2 with
    | .error e => (x.1, .error e)
    | .ok _ => (x.1, .ok (unv, used))
  | k + 1, p, cur, o, unv, used =>
    match unv.find? (fun n => o.inst.g.hasArc cur n) with
    | some n => SeqObj.fill exit v k (p + 1) n o (unv.erase n) (used ++ [(v, p, n)])
    | none =>
      let x := o.ensureExitArc exit cur
      match x.2 with
      | .error e => (x.1, .error e)
      | .ok _ => (x.1, .ok (unv, used ++ (List.range (k + 1)).map fun q => (v, p + q, 0)))

/-- `for vi in range(self.max_vehicles):` -/
def SeqObj.vehLoop (exit : SeqObj → SeqObj) :
    List Nat → SeqObj → List Nat → List STup → SeqObj × Except Err (List Nat × List STup)
  | [], o, unv, used => (o, .ok (unv, used))
  | v :: vs, o, unv, used =>
    let r := SeqObj.fill exit v (o.inst.L - 2) 1 0 o unv used
    match r.2 with
    | .error e => (r.1, .error e)
    | .ok p => SeqObj.vehLoop exit vs r.1 p.1 p.2

/-- one iteration of `for ni in unvisited_indices:` (one dummy vehicle); `head` is the explicit flag action at the loop
    head.  `max_vehicles` and `vehicle_cost` are written directly (no hook); the two arcs, when missing, are added
    through the public `add_arc` (hook, then the arc). -/
def SeqObj.dummyStep (head : SeqObj → SeqObj) (high : Rat) (o : SeqObj) (used : List STup) (ni : Nat) :
    SeqObj × Except Err (List STup) :=
  let o0 := head o
  let v := o0.inst.V
  let o1 : SeqObj := { o0 with inst := { o0.inst with V := v + 1, vcost := o0.inst.vcost ++ [high] } }
  let e := o1.ensureArc 0 ni 0 high
  if e.2 then
    let x := e.1.ensureArc ni 0 0 high
    if x.2 then
      (x.1, .ok (used ++ [(v, 1, ni)] ++ (List.range (x.1.inst.L - 3)).map fun q => (v, q + 2, 0)))
    else (x.1, .error .value)
  else (e.1, .error .value)

def SeqObj.dummyLoop (head : SeqObj → SeqObj) (high : Rat) :
    SeqObj → List STup → List Nat → SeqObj × Except Err (List STup)
  | o, used, [] => (o, .ok used)
  | o, used, n :: rest =>
    let r := SeqObj.dummyStep head high o used n
    match r.2 with
    | .ok used' => SeqObj.dummyLoop head high r.1 used' rest
    | .error e => (r.1, .error e)

def SeqObj.lookupAll : SeqObj → List STup → List Nat → SeqObj × Option (List Nat)
  | o, [], acc => (o, some acc)
  | o, a :: rest, acc =>
    let r := o.getVarIndex a
    match r.2 with
    | none => (r.1, none)
    | some k => SeqObj.lookupAll r.1 rest (acc ++ [k])

def SeqObj.storeSolution (o : SeqObj) (used : List STup) : SeqObj × Except Err Unit :=
  let o1 := o.enumerateVariables
  let n := o1.numVariables
  let r := o1.lookupAll used []
  match r.2 with
  | none => ({ r.1 with sol := none }, .error .value)
  | some idxs => ({ r.1 with sol := some (solVec n idxs) }, .ok ())

/-- `make_feasible(high_cost)`; `head` = flag action at the head of the dummy-vehicle loop, `exit` = flag action of
    `_ensure_exit_arc` -/
def SeqObj.makeFeasibleWith (head exit : SeqObj → SeqObj) (o : SeqObj) (high : Rat) : SeqObj × Except Err Unit :=
  let N := o.inst.g.nodes.length
  let unv0 := sortByHi o.inst.g ((List.range (N - 1)).map (· + 1))
  let r := SeqObj.vehLoop exit (List.range o.inst.V) o unv0 []
  match r.2 with
  | .error e => (r.1, .error e)
  | .ok p =>
    let r2 := SeqObj.dummyLoop head high r.1 p.2 p.1
    match r2.2 with
    | .error e => (r2.1, .error e)
    | .ok used => r2.1.storeSolution used

def SeqObj.makeFeasible (o : SeqObj) (high : Rat) : SeqObj × Except Err Unit :=
  o.makeFeasibleWith SeqObj.resetAll SeqObj.resetAll high

inductive SeqFOp where
  | numVars
  | varIndex (u : STup)
  | varTuple (k : Nat)
  | objective
  | constraints
  | qubo (feas : Bool) (rho? : Option Rat)
  | decode (x : List Rat)    -- `get_routes(x)` (a query)
  | heur (high : Rat)
  -- public mutators
  | setMaxVehicles (v : Nat)
  | setMaxSeqLen (l : Nat)
  | addArc (orig dest : String) (time cost : Rat)
  | addNode (name : String) (demand lo : Rat) (hi : ERat)
  | setDepot (name : String)
  | setVehicleCap (c : Rat)
  | setInitialLoading (l : Rat)
deriving Repr, DecidableEq

inductive SeqReply where
  | num (n : Nat)
  | idx (k : Option Nat)
  | tup (u : Option STup)
  | obj (c : List Rat) (Q : Coo) (n : Nat)
  | con (A : Coo) (shape : Nat × Nat) (b : List Rat) (R : List (Nat × Nat)) (n : Nat)
  | qubo (q : QuboOut)
  | routesS (r : List (List Nat))           -- `get_routes`: per vehicle the node positions
  | done                     -- normal return of the heuristic or of a void mutator
  | added (b : Bool)         -- return value of `add_arc`
  | raised (e : Err)
deriving Repr, DecidableEq

def SeqFOp.isHeur : SeqFOp → Bool
  | .heur _ => true
  | _ => false

/-- the graph-level call behind a mutator that is forwarded to the `vrptw` object -/
def SeqFOp.gmut? : SeqFOp → Option GMut
  | .addArc o d t c => some (.op (.addArc o d t c))
  | .addNode nm dem lo hi => some (.op (.addNode nm dem lo hi))
  | .setDepot nm => some (.op (.setDepot nm))
  | .setVehicleCap c => some (.cap c)
  | .setInitialLoading l => some (.init l)
  | _ => none

def SeqFOp.isMutator : SeqFOp → Bool
  | .setMaxVehicles _ => true
  | .setMaxSeqLen _ => true
  | op => op.gmut?.isSome

/-- a state-changing call: a heuristic run or a mutator -/
def SeqFOp.isChange (op : SeqFOp) : Bool := op.isHeur || op.isMutator

/-- a query: neither a heuristic run nor a mutator -/
def SeqFOp.isQuery (op : SeqFOp) : Bool := !op.isChange

def SeqReply.ofGOut : GOut → SeqReply
  | .ok none => .done
  | .ok (some b) => .added b
  | .error e => .raised e

def SeqObj.stepWith (head exit : SeqObj → SeqObj) (o : SeqObj) : SeqFOp → SeqObj × SeqReply
  | .numVars => let r := o.getNumVariables; (r.1, .num r.2)
  | .varIndex u => let r := o.getVarIndex u; (r.1, .idx r.2)
  | .varTuple k => let r := o.getVarTupleIndex k; (r.1, .tup r.2)
  | .objective => let r := o.getObjectiveData; (r.1, .obj r.2.1 r.2.2.1 r.2.2.2)
  | .constraints =>
    let r := o.getConstraintData
    (r.1, match r.2 with
          | .ok d => .con d.1 d.2.1 d.2.2.1 d.2.2.2.1 d.2.2.2.2
          | .error e => .raised e)
  | .qubo feas rho? =>
    let r := o.getQubo feas rho?
    (r.1, match r.2 with | .ok q => .qubo q | .error e => .raised e)
  | .decode x =>
    let r := o.getRoutes x
    (r.1, match r.2 with | .ok rs => .routesS rs | .error e => .raised e)
  | .heur high =>
    let r := o.makeFeasibleWith head exit high
    (r.1, match r.2 with | .ok _ => .done | .error e => .raised e)
  | .setMaxVehicles v => (o.setMaxVehicles v, .done)
  | .setMaxSeqLen l => (o.setMaxSeqLen l, .done)
  | .addArc og d t c => let r := o.mutate (.op (.addArc og d t c)); (r.1, .ofGOut r.2)
  | .addNode nm dem lo hi => let r := o.mutate (.op (.addNode nm dem lo hi)); (r.1, .ofGOut r.2)
  | .setDepot nm => let r := o.mutate (.op (.setDepot nm)); (r.1, .ofGOut r.2)
  | .setVehicleCap c => let r := o.mutate (.cap c); (r.1, .ofGOut r.2)
  | .setInitialLoading l => let r := o.mutate (.init l); (r.1, .ofGOut r.2)

def SeqObj.step (o : SeqObj) (op : SeqFOp) : SeqObj × SeqReply := o.stepWith SeqObj.resetAll SeqObj.resetAll op

def SeqObj.runWith (head exit : SeqObj → SeqObj) (o : SeqObj) : List SeqFOp → SeqObj × List SeqReply
  | [] => (o, [])
  | op :: rest =>
    let r := o.stepWith head exit op
    let q := SeqObj.runWith head exit r.1 rest
    (q.1, r.2 :: q.2)

def SeqObj.run (o : SeqObj) (ops : List SeqFOp) : SeqObj × List SeqReply :=
  o.runWith SeqObj.resetAll SeqObj.resetAll ops

/-! ### cache-free specification of the sequence object -/

/-- regular vehicles at instance level; a refused exit arc stops the loop, the graph keeps the arcs added for the
    earlier vehicles -/
def seqVehLoopI (fl : Flavor) (L : Nat) : List Nat → Graph → List Nat → List STup → Graph × Option (List Nat × List STup)
  | [], g, unv, used => (g, some (unv, used))
  | v :: vs, g, unv, used =>
    match seqFill fl L v (L - 2) 1 0 g unv used with
    | none => (g, none)
    | some st => seqVehLoopI fl L vs st.1 st.2.1 st.2.2

def seqDummyStepI (high : Rat) (J : SeqInst) (used : List STup) (ni : Nat) : SeqInst × Option (List STup) :=
  let v := J.V
  let J1 : SeqInst := { J with V := v + 1, vcost := J.vcost ++ [high] }
  let fl := Flavor.seq J1.strict
  match (if J1.g.hasArc 0 ni then some J1.g else addArcOrFail fl J1.g 0 ni 0 high) with
  | none => (J1, none)
  | some g1 =>
    match (if g1.hasArc ni 0 then some g1 else addArcOrFail fl g1 ni 0 0 high) with
    | none => ({ J1 with g := g1 }, none)
    | some g2 =>
      ({ J1 with g := g2 }, some (used ++ [(v, 1, ni)] ++ (List.range (J1.L - 3)).map fun q => (v, q + 2, 0)))

def seqDummyLoopI (high : Rat) : SeqInst → List STup → List Nat → SeqInst × Option (List STup)
  | J, used, [] => (J, some used)
  | J, used, n :: rest =>
    let r := seqDummyStepI high J used n
    match r.2 with
    | some used' => seqDummyLoopI high r.1 used' rest
    | none => (r.1, none)

/-- the instance-level heuristic INCLUDING its partial effects when it raises -/
def SeqInst.heurP (I : SeqInst) (high : Rat) : SeqInst × HeurRes :=
  let N := I.g.nodes.length
  let unv0 := sortByHi I.g ((List.range (N - 1)).map (· + 1))
  let r := seqVehLoopI (.seq I.strict) I.L (List.range I.V) I.g unv0 []
  match r.2 with
  | none => ({ I with g := r.1 }, .raised .value)
  | some p =>
    let r2 := seqDummyLoopI high { I with g := r.1 } p.2 p.1
    match r2.2 with
    | none => (r2.1, .raised .value)
    | some used =>
      match lookupAllI r2.1.varIndex used [] with
      | none => (r2.1, .lookupFailed)
      | some idxs => (r2.1, .ok (solVec r2.1.vars.length idxs))

/-- `get_routes(x)` answered from the instance alone (no cache): the enumeration and the tuples fixed to 1 are
    recomputed -/
def SeqInst.getRoutes (I : SeqInst) (x : List Rat) : Except Err (List (List Nat)) :=
  let sel := selectedIdx x
  if sel.isEmpty then .ok [] else seqRoutesFrom I.g I.V I.L I.vars I.fixedOnes sel

structure SeqAbs where
  inst : SeqInst
  sol : Option (List Rat) := none

def SeqObj.abs (o : SeqObj) : SeqAbs := { inst := o.inst, sol := o.sol }

/-- a forwarded mutator on the abstract state: the `vrptw` call (sequence flavour) on the problem data -/
def SeqAbs.mutate (s : SeqAbs) (m : GMut) : SeqAbs × SeqReply :=
  let a := gmut (.seq s.inst.strict) s.inst.g m
  ({ s with inst := { s.inst with g := a.1 } }, .ofGOut a.2)

def SeqAbs.specStep (s : SeqAbs) : SeqFOp → SeqAbs × SeqReply
  | .numVars => (s, .num s.inst.vars.length)
  | .varIndex u => (s, .idx (s.inst.varIndex u))
  | .varTuple k => (s, .tup (s.inst.varTuple k))
  | .objective => (s, .obj s.inst.objective.1 s.inst.objective.2 s.inst.vars.length)
  | .constraints =>
    (s, match s.inst.quadCons with
        | none => .raised .assert
        | some R => .con s.inst.linCons.1 (s.inst.linCons.2.length, s.inst.vars.length) s.inst.linCons.2 R
                      s.inst.vars.length)
  | .qubo feas rho? =>
    (s, match s.inst.data with
        | none => .raised .assert
        | some d =>
          match quboReply d s.inst.suffPenalty feas rho? with
          | .ok q => .qubo q
          | .error e => .raised e)
  | .decode x => (s, match s.inst.getRoutes x with | .ok rs => .routesS rs | .error e => .raised e)
  | .heur high =>
    let r := s.inst.heurP high
    match r.2 with
    | .ok sol => ({ inst := r.1, sol := some sol }, .done)
    | .lookupFailed => ({ inst := r.1, sol := none }, .raised .value)
    | .raised e => ({ inst := r.1, sol := s.sol }, .raised e)
  | .setMaxVehicles v => ({ s with inst := s.inst.setMaxVehicles v }, .done)
  | .setMaxSeqLen l => ({ s with inst := s.inst.setMaxSeqLen l }, .done)
  | .addArc og d t c => s.mutate (.op (.addArc og d t c))
  | .addNode nm dem lo hi => s.mutate (.op (.addNode nm dem lo hi))
  | .setDepot nm => s.mutate (.op (.setDepot nm))
  | .setVehicleCap c => s.mutate (.cap c)
  | .setInitialLoading l => s.mutate (.init l)

def SeqAbs.specRun (s : SeqAbs) : List SeqFOp → SeqAbs × List SeqReply
  | [] => (s, [])
  | op :: rest =>
    let r := s.specStep op
    let q := SeqAbs.specRun r.1 rest
    (q.1, r.2 :: q.2)

end Vrp
