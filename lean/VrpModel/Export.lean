import VrpModel.Qubo
/-!
# Model of `QUBOContainer.export` and `tools/load_tools.load_matrix` at the record level

A file is a list of records; the character-level layout (`{i:d} {i:d} {value: .2f}`, comment
character, float parsing) is produced / consumed by the driver and compared byte-for-byte with the
real file by the correspondence check.  Values are carried in hundredths (`Int`), i.e. after the
`.2f` rounding.
-/
namespace Vrp

/-- round to the nearest hundredth, ties to even (what `format(x, '.2f')` does on the exact value of a
    binary float; the generated data are exact dyadic rationals) -/
def round2 (q : Rat) : Int :=
  let y := q * 100
  let f := y.floor
  let r := y - f
  if r < 1/2 then f
  else if 1/2 < r then f + 1
  else if f % 2 = 0 then f else f + 1

/-- one coefficient record `(row, col, hundredths)`; `neg0` records that the printed text is `-0.00`
    (a negative value that rounds to zero) — it loads as 0 -/
structure Rec where
  i : Nat
  j : Nat
  h : Int
  neg : Bool     -- sign of the exact value (printed `-` vs space)
deriving Repr, DecidableEq

structure ExportFile where
  const : Int        -- constant term, hundredths
  constNeg : Bool
  diag : List Rec
  off : List Rec
deriving Repr

/-- `export`: diagonal records from `d` (`h` for Ising, `diag Q` for QUBO) where the value is non-zero,
    off-diagonal records for the non-zero entries of `M` with `r ≠ c` in row-major order (`sp.find`) -/
def exportFile (n : Nat) (M : Mat) (d : Vec) (const : Rat) : ExportFile :=
  { const := round2 const, constNeg := decide (const < 0),
    diag := (List.range n).filterMap fun i =>
      if d i = 0 then none else some ⟨i, i, round2 (d i), decide (d i < 0)⟩,
    off := (List.range n).flatMap fun r => (List.range n).filterMap fun c =>
      if r = c ∨ M r c = 0 then none else some ⟨r, c, round2 (M r c), decide (M r c < 0)⟩ }

/-- Ising export of a container: couplings `J`, diagonal terms from `h`, constant `const_ising` -/
def Container.exportIsing (C : Container) : ExportFile := exportFile C.n C.J C.h C.ci
/-- QUBO export: matrix `Q`, diagonal terms from `diag Q`, constant `const_qubo` -/
def Container.exportQubo (C : Container) : ExportFile := exportFile C.n C.Q (fun i => C.Q i i) C.cq

/-- `load_matrix` (repaired: square shape `max(max row, max col) + 1`): dimension, summed COO entries
    (hundredths), constant -/
structure Loaded where
  dim : Nat
  entries : List (Nat × Nat × Int)
  const : Int
deriving Repr, DecidableEq

def loadFile (f : ExportFile) : Loaded :=
  let recs := f.diag ++ f.off
  { dim := if recs.isEmpty then 0 else (recs.map fun r => max r.i r.j).foldl max 0 + 1,
    entries := recs.map fun r => (r.i, r.j, r.h),
    const := f.const }

/-- dense entry (hundredths) of the loaded matrix -/
def Loaded.entry (L : Loaded) (i j : Nat) : Int :=
  ((L.entries.filter fun e => e.1 = i ∧ e.2.1 = j).map (·.2.2)).foldr (· + ·) 0

/-- the pinned loader's squareness test `max row == max col` -/
def loadPinnedAccepts (f : ExportFile) : Bool :=
  let recs := f.diag ++ f.off
  (recs.map (·.i)).foldl max 0 = (recs.map (·.j)).foldl max 0

/-- energy (in units of 1/100) of the loaded Ising problem at spins `s` (`get_Ising_J_h` splits the diagonal
    into `h`); variables at or beyond `dim` have no coefficient -/
def Loaded.isingEnergy100 (L : Loaded) (s : Nat → Int) : Int :=
  sumToI L.dim (fun i => sumToI L.dim fun j => if i = j then 0 else L.entry i j * s i * s j)
    + sumToI L.dim (fun i => L.entry i i * s i) + L.const

end Vrp
