import VrpModel.Export
/-!
# Character-level model of `QUBOContainer.export` and `tools/load_tools.load_matrix`

`Export.lean` models a problem file as a list of records.  This file adds the text layer: `renderLines`
produces the lines that `export` writes (without the time-stamp header line, which the loader skips as a
comment) and `loadText` mirrors `load_matrix` line by line (`line[0]`, `split('=')`, `split()`, `int`,
`float`).  Everything is over `List Char`, so that the round trip `loadText (renderLines f)` can be
proved; the driver converts with `String.ofList` / `String.toList`, and the correspondence check compares
`renderLines` byte for byte with the real file and `loadText` with the real loader on real files.

Domain of the number parsers: `int`/`float` of Python accept many more spellings (signs, exponents,
underscores, `inf`); the model accepts exactly what `export` writes — digits for indices, and
`[ws][-]digits.dd[ws]` for values — and answers `none` ("raises, or outside the model") otherwise.
-/
namespace Vrp.Text

def digitChar (d : Nat) : Char := Char.ofNat (48 + d)

/-- decimal digits of a natural number (`{:d}`) -/
def natCharsAux : Nat → Nat → List Char
  | 0, n => [digitChar (n % 10)]
  | fuel + 1, n => if n < 10 then [digitChar n] else natCharsAux fuel (n / 10) ++ [digitChar (n % 10)]
/-- (structural recursion on a fuel argument that is always sufficient, so that the kernel can evaluate it) -/
def natChars (n : Nat) : List Char := natCharsAux n n

/-- `.2f` text of a value given in hundredths `h` with the sign `neg` of the exact value; `space` = the `{: .2f}` flag -/
def fmt2 (h : Int) (neg : Bool) (space : Bool) : List Char :=
  let a := h.natAbs
  let body := natChars (a / 100) ++ '.' :: [digitChar (a % 100 / 10), digitChar (a % 10)]
  if neg then '-' :: body else if space then ' ' :: body else body

def constText : List Char := [' ', 'C', 'o', 'n', 's', 't', 'a', 'n', 't', ' ', 't', 'e', 'r', 'm', ' ', 'o', 'f', ' ', 'o', 'b', 'j', 'e', 'c', 't', 'i', 'v', 'e', ' ', '=', ' ']
def diagText : List Char := [' ', 'D', 'i', 'a', 'g', 'o', 'n', 'a', 'l', ' ', 't', 'e', 'r', 'm', 's']
def offText : List Char := [' ', 'O', 'f', 'f', '-', 'D', 'i', 'a', 'g', 'o', 'n', 'a', 'l', ' ', 't', 'e', 'r', 'm', 's']

/-- `"{:d} {:d} {: .2f}"` -/
def recLine (r : Rec) : List Char := natChars r.i ++ ' ' :: (natChars r.j ++ ' ' :: fmt2 r.h r.neg true)

def constLine (cc : Char) (f : ExportFile) : List Char := cc :: (constText ++ fmt2 f.const f.constNeg false)

/-- the lines of an exported file after the time-stamp line -/
def renderLines (cc : Char) (f : ExportFile) : List (List Char) :=
  [constLine cc f, cc :: diagText] ++ f.diag.map recLine ++ [cc :: offText] ++ f.off.map recLine

/-! ## the loader -/

def isWs (c : Char) : Bool := c == ' ' || c == '\t' || c == '\n' || c == '\r' || c == '\x0b' || c == '\x0c'

/-- `str.split()`: maximal runs of non-whitespace (`cur` = current token, reversed) -/
def splitWsAux : List Char → List Char → List (List Char)
  | [], cur => if cur.isEmpty then [] else [cur.reverse]
  | c :: cs, cur =>
    if isWs c then (if cur.isEmpty then splitWsAux cs [] else cur.reverse :: splitWsAux cs [])
    else splitWsAux cs (c :: cur)
def splitWs (s : List Char) : List (List Char) := splitWsAux s []

/-- `str.split(d)` -/
def splitOnAux (d : Char) : List Char → List Char → List (List Char)
  | [], cur => [cur.reverse]
  | c :: cs, cur => if c = d then cur.reverse :: splitOnAux d cs [] else splitOnAux d cs (c :: cur)
def splitOn (d : Char) (s : List Char) : List (List Char) := splitOnAux d s []

def digitVal (c : Char) : Option Nat := if 48 ≤ c.toNat ∧ c.toNat ≤ 57 then some (c.toNat - 48) else none

/-- `int(tok)` on a token of digits -/
def parseNat (s : List Char) : Option Nat :=
  match s with
  | [] => none
  | _ => s.foldlM (fun acc c => (digitVal c).map (acc * 10 + ·)) 0

def strip (s : List Char) : List Char := ((s.dropWhile isWs).reverse.dropWhile isWs).reverse

/-- `float(tok)` for `[ws][-]digits.dd[ws]`, in hundredths -/
def parseDec (s : List Char) : Option Int :=
  let t := strip s
  let (neg, u) := match t with
    | '-' :: r => (true, r)
    | r => (false, r)
  match splitOn '.' u with
  | [ip, fp] =>
    if fp.length = 2 then
      (parseNat ip).bind fun a => (parseNat fp).map fun b =>
        if neg then -((a * 100 + b : Nat) : Int) else ((a * 100 + b : Nat) : Int)
    else none
  | _ => none

structure LState where
  rows : List Nat := []
  cols : List Nat := []
  data : List Int := []
  const : Int := 0
  matLength : Option Nat := none
deriving Repr

/-- one iteration of the loop over `file_lines`; `none` = the code raises (or the line is outside the number model) -/
def loadLine (cc : Char) (st : LState) (line : List Char) : Option LState :=
  match line with
  | [] => none                                  -- `line[0]` : IndexError
  | c0 :: _ =>
    if c0 = cc then
      match splitOn '=' line with
      | _ :: v :: _ => (parseDec v).map fun k => { st with const := k }
      | _ => some st
    else if c0 = 'p' then
      let toks := splitWs line
      (toks[4]?.bind parseNat).bind fun a => (toks[5]?.bind parseNat).map fun b =>
        { st with matLength := some (a + b) }
    else
      match splitWs line with
      | [_, b] => (parseNat b).map fun k => { st with matLength := some k }
      | a :: b :: v :: _ =>
        (parseNat a).bind fun i => (parseNat b).bind fun j => (parseDec v).map fun x =>
          { st with rows := st.rows ++ [i], cols := st.cols ++ [j], data := st.data ++ [x] }
      | _ => none                               -- `contents[0]` / `contents[2]` : IndexError

def zip3 : List Nat → List Nat → List Int → List (Nat × Nat × Int)
  | i :: is, j :: js, x :: xs => (i, j, x) :: zip3 is js xs
  | _, _, _ => []

/-- `load_matrix` (repaired, square shape): the loop, the length assertion, `size = max(numrows, numcols) + 1` -/
def loadText (cc : Char) (lines : List (List Char)) : Option Loaded :=
  (lines.foldlM (loadLine cc) {}).bind fun st =>
    let out : Loaded := { dim := max (st.rows.foldl max 0) (st.cols.foldl max 0) + 1,
                          entries := zip3 st.rows st.cols st.data, const := st.const }
    match st.matLength with
    | some m => if st.rows.length = m then some out else none
    | none => some out

end Vrp.Text
