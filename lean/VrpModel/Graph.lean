import VrpModel.Num
/-!
# Model of `routing_problem/vrptw.py` (graph construction state machine)

`arcs` is an association list with Python `dict` semantics: assigning to an existing key keeps its
position and replaces the value; a new key is appended.  Node objects are immutable once created, so an
arc records the *names* of the node objects it points to.
-/
namespace Vrp

structure Node where
  name : String
  demand : Rat
  lo : Rat
  hi : ERat
deriving Repr, DecidableEq

structure Arc where
  orig : String
  dest : String
  time : Rat
  cost : Rat
deriving Repr, DecidableEq

abbrev Key := Nat × Nat

/-- Python dict assignment -/
def dictSet (d : List (Key × Arc)) (k : Key) (a : Arc) : List (Key × Arc) :=
  match d with
  | [] => [(k, a)]
  | (k', a') :: rest => if k' = k then (k, a) :: rest else (k', a') :: dictSet rest k a

def dictGet (d : List (Key × Arc)) (k : Key) : Option Arc := (d.find? fun e => e.1 = k).map (·.2)
def dictHas (d : List (Key × Arc)) (k : Key) : Bool := d.any fun e => e.1 = k

structure Graph where
  nodes : List Node := []
  arcs : List (Key × Arc) := []
  cap : Option Rat := none
  init : Option Rat := none
deriving Repr

def Graph.names (g : Graph) : List String := g.nodes.map (·.name)
def Graph.indexOf? (g : Graph) (nm : String) : Option Nat :=
  let i := g.names.idxOf nm
  if i < g.nodes.length then some i else none
def Graph.hasArc (g : Graph) (i j : Nat) : Bool := dictHas g.arcs (i, j)
def Graph.arc? (g : Graph) (i j : Nat) : Option Arc := dictGet g.arcs (i, j)
def Graph.lo (g : Graph) (i : Nat) : Rat := (g.nodes[i]?.map (·.lo)).getD 0
def Graph.hi (g : Graph) (i : Nat) : ERat := (g.nodes[i]?.map (·.hi)).getD none
def Graph.demand (g : Graph) (i : Nat) : Rat := (g.nodes[i]?.map (·.demand)).getD 0

inductive Err where | value | index | assert | type | shape
deriving Repr, DecidableEq

/-- construction calls -/
inductive GOp where
  | addNode (name : String) (demand lo : Rat) (hi : ERat)
  | setDepot (name : String)
  | addArc (orig dest : String) (time cost : Rat)
deriving Repr

/-- reply of a call: `none` for the void calls, `some b` for `add_arc` -/
abbrev GOut := Except Err (Option Bool)

/-- position map of `set_depot(d)`: node `d` moves to the front -/
def remap (d i : Nat) : Nat := if i = d then 0 else if i < d then i + 1 else i

def moveFront (l : List α) (d : Nat) : List α :=
  match l[d]? with
  | some x => x :: l.eraseIdx d
  | none => l

/-- which variant of the class receives the calls -/
inductive Flavor where
  | base          -- VRPTW, arc-based, path-based
  | seq (strict : Bool)   -- SequenceBasedRoutingProblem overrides
deriving Repr, DecidableEq

def addNodeStep (g : Graph) (name : String) (demand lo : Rat) (hi : ERat) : Graph × GOut :=
  if name ∈ g.names then (g, .error .value)
  else if ltE hi lo then (g, .error .value)       -- Node(): t_w[0] > t_w[1]
  else ({ g with nodes := g.nodes ++ [⟨name, demand, lo, hi⟩] }, .ok none)

/-- base `set_depot` (repaired: arc keys are re-mapped to the new positions) -/
def setDepotBase (g : Graph) (name : String) : Graph × GOut :=
  match g.indexOf? name with
  | none => (g, .error .value)
  | some d =>
    if d = 0 then (g, .ok none)
    else ({ g with nodes := moveFront g.nodes d,
                   arcs := g.arcs.map fun e => ((remap d e.1.1, remap d e.1.2), e.2) }, .ok none)

/-- the pinned (defective) `set_depot`: arc keys stay at the old positions -/
def setDepotPinned (g : Graph) (name : String) : Graph × GOut :=
  match g.indexOf? name with
  | none => (g, .error .value)
  | some d =>
    if d = 0 then (g, .ok none)
    else ({ g with nodes := moveFront g.nodes d }, .ok none)

def addArcWith (g : Graph) (orig dest : String) (time cost : Rat) (strictRule : Nat → Bool) : Graph × GOut :=
  match g.indexOf? orig with
  | none => (g, .error .value)
  | some i =>
    match g.indexOf? dest with
    | none => (g, .error .value)
    | some j =>
      let okTiming : Bool :=
        if strictRule i then
          -- origin window END + travel <= destination window end
          (match g.hi i with
           | none => (g.hi j).isNone
           | some b => leE (b + time) (g.hi j))
        else leE (g.lo i + time) (g.hi j)
      if okTiming then
        ({ g with arcs := dictSet g.arcs (i, j) ⟨orig, dest, time, cost⟩ }, .ok (some true))
      else (g, .ok (some false))

/-- strict `set_depot` (repaired): every stored arc is re-added through `add_arc` now that the depot is known
    (`old_arcs = self.arcs; self.vrptw.arcs = dict(); for arc in old_arcs.values(): self.add_arc(...)`) -/
def recheckArcs (g : Graph) (strictRule : Nat → Bool) : Graph :=
  g.arcs.foldl (fun acc e => (addArcWith acc e.2.orig e.2.dest e.2.time e.2.cost strictRule).1) { g with arcs := [] }

def gstep (fl : Flavor) (g : Graph) (op : GOp) : Graph × GOut :=
  match op with
  | .addNode nm d lo hi => addNodeStep g nm d lo hi
  | .addArc o d t c =>
    match fl with
    | .base => addArcWith g o d t c (fun _ => false)
    | .seq strict => addArcWith g o d t c (fun i => strict && i != 0)
  | .setDepot nm =>
    match fl with
    | .base => setDepotBase g nm
    | .seq strict =>
      let r := setDepotBase g nm
      match r.2 with
      | .error e => (g, .error e)
      | .ok _ =>
        -- strict mode: arcs stored so far were checked against whichever node was first at the time
        let g1 := if strict then recheckArcs r.1 (fun i => strict && i != 0) else r.1
        -- the depot self-arc is (re)assigned: arcs[(0,0)] = Arc(nodes[0], nodes[0], 0, 0)
        match g1.nodes.head? with
        | none => (g, .error .index)
        | some n0 => ({ g1 with arcs := dictSet g1.arcs (0, 0) ⟨n0.name, n0.name, 0, 0⟩ }, .ok none)

/-- the pinned strict `set_depot` (arcs admitted under the depot exemption of another node stay) -/
def gstepPinnedStrictDepot (g : Graph) (nm : String) : Graph × GOut :=
  let r := setDepotBase g nm
  match r.2 with
  | .error e => (g, .error e)
  | .ok _ =>
    match r.1.nodes.head? with
    | none => (g, .error .index)
    | some n0 => ({ r.1 with arcs := dictSet r.1.arcs (0, 0) ⟨n0.name, n0.name, 0, 0⟩ }, .ok none)

def grun (fl : Flavor) (g : Graph) (ops : List GOp) : Graph := ops.foldl (fun s op => (gstep fl s op).1) g

/-- `estimate_max_vehicles`: min(#arcs leaving position 0, #arcs entering position 0) -/
def Graph.estimateMaxVehicles (g : Graph) : Nat :=
  min (g.arcs.filter fun e => e.1.1 = 0).length (g.arcs.filter fun e => e.1.2 = 0).length

end Vrp
