import VrpModel.ArcBased
import VrpModel.PathBased
import VrpModel.SeqBased
/-!
# Operational models of the three `make_feasible` construction heuristics
-/
namespace Vrp

def nameOf (g : Graph) (i : Nat) : String := (g.names[i]?).getD "?"

/-! ## sequence-based -/

/-- stable insertion sort of node indices by window end (`+∞` last): `list.sort(key=window end)` -/
def insertByHi (g : Graph) (x : Nat) : List Nat → List Nat
  | [] => [x]
  | y :: ys => if leEE (g.hi y) (g.hi x) then y :: insertByHi g x ys else x :: y :: ys
def sortByHi (g : Graph) (l : List Nat) : List Nat := l.foldl (fun acc x => insertByHi g x acc) []

/-- `add_arc` whose refusal makes the (repaired) heuristic raise `ValueError` -/
def addArcOrFail (fl : Flavor) (g : Graph) (o d : Nat) (t c : Rat) : Option Graph :=
  match gstep fl g (.addArc (nameOf g o) (nameOf g d) t c) with
  | (g', .ok (some true)) => some g'
  | _ => none

/-- `_ensure_exit_arc`: add a zero-cost, zero-time arc back to the depot if none exists; `none` when the
    (strict) `add_arc` refuses it (repaired code: raises; the pinned code ignored the refusal and went on to
    store a vector that uses the missing arc) -/
def ensureExit (fl : Flavor) (g : Graph) (cur : Nat) : Option Graph :=
  if g.hasArc cur 0 then some g else addArcOrFail fl g cur 0 0 0

/-- greedy fill of vehicle `v` from position `p` (positions `p .. L-2` remain, `k` of them):
    returns the graph (an exit arc may have been added), the still unvisited nodes, the used tuples -/
def seqFill (fl : Flavor) (L v : Nat) : Nat → Nat → Nat → Graph → List Nat → List STup → Option (Graph × List Nat × List STup)
  | 0, _, cur, g, unv, used => (ensureExit fl g cur).map fun g' => (g', unv, used)
  | k + 1, p, cur, g, unv, used =>
    match unv.find? (fun n => g.hasArc cur n) with
    | some n => seqFill fl L v k (p + 1) n g (unv.erase n) (used ++ [(v, p, n)])
    | none =>
      (ensureExit fl g cur).map fun g' => (g', unv, used ++ (List.range (k + 1)).map fun q => (v, p + q, 0))

/-- `SequenceBasedRoutingProblem.make_feasible(high_cost)` -/
def SeqInst.makeFeasible (I : SeqInst) (high : Rat) : Except Err (SeqInst × List Rat) :=
  let fl := Flavor.seq I.strict
  let N := I.g.nodes.length
  let unv0 := sortByHi I.g ((List.range (N - 1)).map (· + 1))
  -- regular vehicles
  match (List.range I.V).foldl (fun (st : Option (Graph × List Nat × List STup)) v =>
      st.bind fun st => seqFill fl I.L v (I.L - 2) 1 0 st.1 st.2.1 st.2.2) (some (I.g, unv0, [])) with
  | none => .error .value
  | some st =>
  -- one dummy vehicle per node still unvisited
  match st.2.1.foldl (fun (s : Option (SeqInst × List STup)) ni =>
      s.bind fun s =>
      let J := s.1
      let v := J.V
      (if J.g.hasArc 0 ni then some J.g else addArcOrFail fl J.g 0 ni 0 high).bind fun g1 =>
      (if g1.hasArc ni 0 then some g1 else addArcOrFail fl g1 ni 0 0 high).map fun g2 =>
      ({ J with g := g2, V := v + 1, vcost := J.vcost ++ [high] },
       s.2 ++ [(v, 1, ni)] ++ (List.range (J.L - 3)).map fun q => (v, q + 2, 0)))
    (some ({ I with g := st.1 }, st.2.2)) with
  | none => .error .value
  | some st2 =>
  let J := st2.1
  let n := J.vars.length
  -- write the solution; a used tuple that is not a variable makes the (repaired) code raise
  match st2.2.foldl (fun (acc : Option (List Nat)) u =>
      match acc, J.varIndex u with
      | some l, some k => some (l ++ [k])
      | _, _ => none) (some []) with
  | none => .error .value
  | some idxs => .ok (J, (List.range n).map fun k => if k ∈ idxs then 1 else 0)

/-! ## path-based -/

/-- candidates of one step of `generate_route`: unvisited nodes reachable by a feasible arc -/
def routeCands (g : Graph) (cap : Rat) (cur : Nat) (time load : Rat) (unv : List Nat) : List Nat :=
  unv.filter fun n => (checkArc g cap time load cur n).isSome

/-- `generate_route` with a scripted choice (`pick k cands` chooses one candidate; the real sampler's
    probabilities only decide which one) -/
def genRoute (g : Graph) (cap : Rat) (pick : Nat → List Nat → Nat) :
    Nat → Nat → Nat → Rat → Rat → List Nat → List Nat → Nat → List Nat × Nat
  | 0, _, _, _, _, _, r, c => (r, c)
  | legs + 1, cur, _, time, load, unv, r, c =>
    let cands := routeCands g cap cur time load unv
    if cands.isEmpty then (r, c) else
      let nxt := pick c cands
      match checkArc g cap time load cur nxt with
      | none => (r, c + 1)
      | some (t, l) =>
        if nxt = 0 then (r ++ [0], c + 1)
        else genRoute g cap pick legs nxt 0 t l unv (r ++ [nxt]) (c + 1)

/-- `add_routes_better`: one generated route per estimated vehicle; a valid route removes its customers from
    the unvisited list whether or not it was new -/
def PathInst.addRoutesBetter (P : PathInst) (pick : Nat → List Nat → Nat) (c0 : Nat) :
    PathInst × List Nat × List (List Nat) × Nat :=
  match P.g.cap, P.g.init with
  | some cap, some init =>
    (List.range P.g.estimateMaxVehicles).foldl (fun (s : PathInst × List Nat × List (List Nat) × Nat) _ =>
      let (Q, unv, routes, c) := s
      let (r, c') := genRoute Q.g cap pick (2 + Q.g.nodes.length) 0 0 (Q.g.lo 0) init unv [0] c
      let a := Q.addRoute (r.map Stop.idx)
      match a.2 with
      | .ok (true, _) => (a.1, unv.filter (fun n => n = 0 ∨ n ∉ r), routes ++ [r], c')
      | _ => (Q, unv, routes, c'))
      (P, List.range P.g.nodes.length, [], c0)
  | _, _ => (P, List.range P.g.nodes.length, [], c0)

/-- fresh dummy-node name: `mf_Dum_<u>`, with `_` appended while the name is taken (repaired rule) -/
def freshDummy (g : Graph) (u : Nat) : Nat → String → String
  | 0, nm => nm
  | fuel + 1, nm => if nm ∈ g.names then freshDummy g u fuel (nm ++ "_") else nm

/-- `PathBasedRoutingProblem.make_feasible(high_cost)`; `.error .assert` when the dummy route is rejected -/
def PathInst.makeFeasible (P : PathInst) (high : Rat) (pick : Nat → List Nat → Nat) : Except Err (PathInst × List Rat) :=
  match P.g.cap, P.g.init with
  | some cap, some init =>
    let (Q0, unv, routes0, _) := P.addRoutesBetter pick 0
    let res := (unv.filter (· ≠ 0)).foldl (fun (acc : Except Err (PathInst × List (List Nat))) u =>
      match acc with
      | .error e => .error e
      | .ok (Q, routes) =>
        let loading := init - Q.g.demand u
        let newLoad : Rat := if loading < 0 then -loading else if cap < loading then cap - loading else 0
        let nm := freshDummy Q.g u (Q.g.nodes.length + 1) ("mf_Dum_" ++ toString u)
        -- window `(depot window start, inf)` (repaired; the pinned code used the default `(0, inf)`)
        match addNodeStep Q.g nm (-newLoad) (Q.g.lo 0) none with
        | (_, .error e) => .error e          -- name still taken: `add_node` raises
        | (g1, .ok _) =>
        let k := g1.nodes.length - 1
        let g2 := gAdd g1 (nameOf g1 0) nm 0 high
        let g3 := gAdd g2 nm (nameOf g2 u) 0 high
        let g4 := if g3.hasArc u 0 then g3 else gAdd g3 (nameOf g3 u) (nameOf g3 0) 0 0
        let r := [0, k, u, 0]
        let a := ({ Q with g := g4 } : PathInst).addRoute (r.map Stop.idx)
        match a.2 with
        | .ok (true, _) => .ok (a.1, routes ++ [r])
        | .ok (false, _) => .error .assert
        | .error e => .error e) (.ok (Q0, routes0))
    match res with
    | .error e => .error e
    | .ok (Q, routes) =>
      .ok (Q, (List.range Q.costs.length).map fun i => if (Q.routes[i]?).any (· ∈ routes) then 1 else 0)
  | _, _ => .error .type
where
  gAdd (g : Graph) (o d : String) (t c : Rat) : Graph := (addArcWith g o d t c (fun _ => false)).1

/-! ## arc-based -/

/-- `get_arrival_time(departure, arc)`: first grid point at or after `max(window start, departure + travel)` -/
def ArcInst.arrival (I : ArcInst) (dep : Rat) (i j : Nat) : Option Rat :=
  match I.g.arc? i j with
  | none => none
  | some a =>
    let t := maxR (I.g.lo j) (dep + a.time)
    I.T.find? (fun s => decide (t ≤ s))

/-- one greedy route of the arc-based heuristic; `.error .assert` when the code's assertions fail -/
def arcRoute (I : ArcInst) : Nat → Nat → Rat → List Nat → List ATup → Except Err (List Nat × List ATup)
  | 0, _, _, unv, used => .ok (unv, used)
  | fuel + 1, cur, time, unv, used =>
    -- best = the unvisited node with the earliest valid arrival (ties: the later one in the list wins, `<=`)
    let best := unv.foldl (fun (b : Option (Nat × Rat)) n =>
      if I.g.hasArc cur n then
        match I.arrival time cur n with
        | none => b
        | some arr =>
          let bound : ERat := match b with
            | none => I.g.hi n
            | some (_, ba) => (match I.g.hi n with | none => some ba | some h => some (minR h ba))
          if leE arr bound then some (n, arr) else b
      else b) none
    match best with
    | some (n, arr) => arcRoute I fuel n arr (unv.erase n) (used ++ [(cur, time, n, arr)])
    | none =>
      if cur = 0 then .ok (unv, used)
      else if !I.g.hasArc cur 0 then .error .assert
      else match I.arrival time cur 0 with
        | none => .error .assert
        | some arr => .ok (unv, used ++ [(cur, time, 0, arr)])

/-- `ArcBasedRoutingProblem.make_feasible(high_cost)` -/
def ArcInst.makeFeasible (I : ArcInst) (high : Rat) : Except Err (ArcInst × List Rat) :=
  match I.T.head? with
  | none => .error .index
  | some t0 =>
    let N := I.g.nodes.length
    let unv0 := (List.range (N - 1)).map (· + 1)
    let r1 := (List.range I.g.estimateMaxVehicles).foldl (fun (acc : Except Err (List Nat × List ATup)) _ =>
      match acc with
      | .error e => .error e
      | .ok (unv, used) => arcRoute I (N + 1) 0 t0 unv used) (.ok (unv0, []))
    match r1 with
    | .error e => .error e
    | .ok (unv, used) =>
      let r2 := unv.foldl (fun (acc : Except Err (ArcInst × List ATup)) n =>
        match acc with
        | .error e => .error e
        | .ok (J, used) =>
          if J.g.hasArc 0 n then .error .assert else
          let a := gstep .base J.g (.addArc (nameOf J.g 0) (nameOf J.g n) 0 high)
          match a.2 with
          | .ok (some true) =>
            let J1 : ArcInst := { J with g := a.1 }
            match J1.arrival t0 0 n with
            | none => .error .assert
            | some arr =>
              let g2 : Except Err Graph := if J1.g.hasArc n 0 then Except.ok J1.g else
                (match gstep .base J1.g (.addArc (nameOf J1.g n) (nameOf J1.g 0) 0 high) with
                 | (g', .ok (some true)) => Except.ok g'
                 | _ => Except.error Err.assert)
              match g2 with
              | .error e => .error e
              | .ok g2 =>
                let J2 : ArcInst := { J1 with g := g2 }
                match J2.arrival arr n 0 with
                | none => .error .assert
                | some arr2 => .ok (J2, used ++ [(0, t0, n, arr), (n, arr, 0, arr2)])
          | _ => .error .assert) (.ok (I, used))
      match r2 with
      | .error e => .error e
      | .ok (J, used) =>
        let n := J.vars.length
        match used.foldl (fun (acc : Option (List Nat)) u =>
            match acc, J.varIndex u with
            | some l, some k => some (l ++ [k])
            | _, _ => none) (some []) with
        | none => .error .value
        | some idxs => .ok (J, (List.range n).map fun k => if k ∈ idxs then 1 else 0)

end Vrp
