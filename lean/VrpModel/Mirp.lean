import VrpModel.Graph
/-!
# Model of `applications/mirp.py` (MIRP → VRPTW graph builder)

The MIRP object is a state machine over its helper calls.  The graph inside is the base-flavour
`Graph` of `VrpModel.Graph`; the vessel is a vehicle of capacity `size` that starts empty.
-/
namespace Vrp

/-- `get_time_window(k, init, rate, cap)`: window of the (k+1)-th visit -/
def getTimeWindow (size : Rat) (k : Nat) (init rate cap : Rat) : Rat × Rat :=
  if 0 < rate then
    ((((k : Rat) + 1) * size - init) / rate, (cap + (k : Rat) * size - init) / rate)
  else
    ((cap - ((k : Rat) + 1) * size - init) / rate, (-((k : Rat) * size) - init) / rate)

structure Mirp where
  size : Rat
  horizon : Rat
  supply : List String := []
  demand : List String := []
  /-- port name → names of its visit nodes (Python dict: re-assignment replaces) -/
  mapping : List (String × List String) := []
  g : Graph := {}
deriving Repr

/-- `MIRP.__init__`: depot node `Depot` with window `[0, ∞)`, capacity = cargo size, initial load 0 -/
def Mirp.new (size horizon : Rat) : Mirp :=
  { size := size, horizon := horizon,
    g := { nodes := [⟨"Depot", 0, 0, none⟩], arcs := [], cap := some size, init := some 0 } }

/-- `MIRP(cargo_size, time_horizon)` (repaired: a cargo size that is not positive is rejected — with size ≤ 0 the
    window of the next visit never moves past the horizon and `add_nodes` would not terminate) -/
def Mirp.create (size horizon : Rat) : Except Err Mirp :=
  if size ≤ 0 then .error .value else .ok (Mirp.new size horizon)

def Mirp.nodesOf (m : Mirp) (port : String) : List String :=
  ((m.mapping.find? fun e => e.1 = port).map (·.2)).getD []

def mapSet (d : List (String × List String)) (k : String) (v : List String) : List (String × List String) :=
  match d with
  | [] => [(k, v)]
  | (k', v') :: rest => if k' = k then (k, v) :: rest else (k', v') :: mapSet rest k v

def visitName (port : String) (k : Nat) : String := port ++ "-" ++ toString k

/-- the `while True` loop of `add_nodes`, with fuel; `none` = fuel exhausted (the real loop would not
    have terminated within `fuel` iterations).  An inverted window or a duplicate node name makes
    `add_node` raise: `some (.error _)` with the state reached so far (the code has already appended the
    port to its lists at that point). -/
def addNodesLoop (fuel : Nat) (m : Mirp) (port : String) (demandLevel init rate cap : Rat) (k : Nat)
    (acc : List String) : Option (Mirp × Except Err (List String)) :=
  match fuel with
  | 0 => none
  | fuel + 1 =>
    let tw := getTimeWindow m.size k init rate cap
    if m.horizon < tw.2 then some (m, .ok acc)
    else
      let nm := visitName port k
      let r := addNodeStep m.g nm demandLevel tw.1 (some tw.2)
      match r.2 with
      | .error e => some (m, .error e)
      | .ok _ =>
        let acc' := acc ++ [nm]
        addNodesLoop fuel { m with g := r.1, mapping := mapSet m.mapping port acc' } port demandLevel init rate cap (k + 1) acc'

/-- `add_nodes(name, init, rate, cap)` (`rate ≠ 0`; the code divides by it) -/
def Mirp.addNodes (fuel : Nat) (m : Mirp) (port : String) (init rate cap : Rat) :
    Option (Mirp × Except Err (List String)) :=
  let m1 : Mirp :=
    if 0 < rate then { m with supply := m.supply ++ [port] } else { m with demand := m.demand ++ [port] }
  let m2 := { m1 with mapping := mapSet m1.mapping port [] }
  addNodesLoop fuel m2 port (if 0 < rate then -m.size else m.size) init rate cap 0 []

/-- graph update of one `add_arc` call through the MIRP (errors cannot occur for existing names; an
    unknown name would raise — the model keeps the graph and reports it) -/
def gAddArc (g : Graph) (o d : String) (t c : Rat) : Graph := (addArcWith g o d t c (fun _ => false)).1

/-- `add_travel_arcs(distance, speed, unit_cost, supply_fees, demand_fees)`;
    `dist s d`, `sfee s`, `dfee d` are total functions here (a missing fee raises `KeyError` in the code) -/
def Mirp.addTravelArcs (m : Mirp) (dist : String → String → Rat) (speed unit : Rat)
    (sfee dfee : String → Rat) : Mirp :=
  let g := m.supply.foldl (fun g sp =>
    m.demand.foldl (fun g dp =>
      let distance := dist sp dp
      let time := distance / speed
      let cost := distance * unit
      (m.nodesOf sp).foldl (fun g sn =>
        (m.nodesOf dp).foldl (fun g dn =>
          let g1 := gAddArc g sn dn time (cost + dfee dp)
          gAddArc g1 dn sn time (cost + sfee sp)) g) g) g) m.g
  { m with g := g }

def nodeHiLt (g : Graph) (nm : String) (limit : Rat) : Bool :=
  match g.indexOf? nm with
  | none => false
  | some i => ltE' (g.hi i) limit
where ltE' (e : ERat) (x : Rat) : Bool := match e with | none => false | some b => decide (b < x)

/-- `add_entry_arcs(time_limit, travel_time, cost)`; a dummy name already in use makes `add_node`
    raise (`none` here stands for that `ValueError`) -/
def Mirp.addEntryArcs (m : Mirp) (limit time cost : Rat) : Option Mirp :=
  let g1 := m.supply.foldl (fun g port =>
    (m.nodesOf port).foldl (fun g nm =>
      if nodeHiLt g nm limit then gAddArc g "Depot" nm time cost else g) g) m.g
  let r := m.demand.foldl (fun (st : Option (Graph × Nat)) port =>
    (m.nodesOf port).foldl (fun st nm =>
      match st with
      | none => none
      | some (g, k) =>
        if nodeHiLt g nm limit then
          let dummy := "Dum" ++ toString k
          let a := addNodeStep g dummy (-m.size) 0 none
          match a.2 with
          | .error _ => none
          | .ok _ =>
            let g2 := gAddArc a.1 "Depot" dummy 0 0
            some (gAddArc g2 dummy nm time cost, k + 1)
        else some (g, k)) st) (some (g1, 0))
  r.map fun (g, _) => { m with g := g }

/-- `add_exit_arcs(travel_time, cost)` -/
def Mirp.addExitArcs (m : Mirp) (time cost : Rat) : Mirp :=
  let g := (m.supply ++ m.demand).foldl (fun g port =>
    (m.nodesOf port).foldl (fun g nm => gAddArc g nm "Depot" time cost) g) m.g
  { m with g := g }

/-- kind of a node of a MIRP graph, by construction -/
inductive NodeKind where | depot | loading | discharging
deriving Repr, DecidableEq

/-- loading = picks up a full cargo (demand `-size`: supply visits and dummy pre-loaded vessels) -/
def kindOf (i : Nat) (n : Node) : NodeKind :=
  if i = 0 then .depot else if n.demand < 0 then .loading else .discharging

end Vrp

namespace Vrp

/-- helper calls of the MIRP builder (tables instead of Python callables / dicts; a missing table entry
    reads as 0 here, the harness always supplies complete tables) -/
inductive MOp where
  | port (name : String) (init rate cap : Rat)
  | travel (speed unit : Rat) (dist : List (String × String × Rat)) (sfee dfee : List (String × Rat))
  | exit (time cost : Rat)
  | entry (limit time cost : Rat)
deriving Repr

def lookupD (l : List (String × Rat)) (k : String) : Rat := ((l.find? fun e => e.1 = k).map (·.2)).getD 0
def lookupDist (dist : List (String × String × Rat)) (a b : String) : Rat :=
  ((dist.find? fun e => e.1 = a ∧ e.2.1 = b).map (·.2.2)).getD 0

/-- result of one helper call -/
inductive MRes where
  | ok (names : List String)   -- names returned by `add_nodes`, `[]` for the void calls
  | err (e : Err)
  | zerodiv
  | nonterm
deriving Repr

def Mirp.step (fuel : Nat) (m : Mirp) (op : MOp) : Mirp × MRes :=
  match op with
  | .port nm i r c =>
    if r = 0 then (m, .zerodiv) else
    match m.addNodes fuel nm i r c with
    | none => (m, .nonterm)
    | some (m', .ok names) => (m', .ok names)
    | some (m', .error e) => (m', .err e)
  | .travel sp u dist sf df =>
    -- `distance / vessel_speed` is evaluated for the first (supply port, demand port) pair, before any arc is added
    if sp = 0 ∧ m.supply ≠ [] ∧ m.demand ≠ [] then (m, .zerodiv)
    else (m.addTravelArcs (lookupDist dist) sp u (lookupD sf) (lookupD df), .ok [])
  | .exit t c => (m.addExitArcs t c, .ok [])
  | .entry l t c =>
    match m.addEntryArcs l t c with
    | none => (m, .err .value)
    | some m' => (m', .ok [])

/-- a complete successful build: every helper call returned normally -/
def Mirp.build (fuel : Nat) (m : Mirp) : List MOp → Option Mirp
  | [] => some m
  | op :: rest =>
    match (m.step fuel op).2 with
    | .ok _ => Mirp.build fuel (m.step fuel op).1 rest
    | _ => none

end Vrp
