import VrpModel.Mirp
import VrpModel.Repro
import VrpModel.Heuristics
/-!
# Model of the MIRP getters (`get_arc_based`, `get_sequence_based`, `get_path_based`, `estimate_high_cost`)
-/
namespace Vrp

def ceilR (x : Rat) : Int := -((-x).floor)

/-- integers `⌈lo⌉ .. ⌊hi⌋` (`np.arange(ceil(lo), floor(hi)+1)`) -/
def intsIn (lo hi : Rat) : List Rat :=
  let a := ceilR lo
  let b := hi.floor
  if b < a then [] else (List.range ((b - a).toNat + 1)).map fun (k : Nat) => ((a + Int.ofNat k : Int) : Rat)

/-- time grid of `get_arc_based`: the integers inside every finite window, plus 0, as a sorted set -/
def Mirp.arcGrid (m : Mirp) : List Rat :=
  timeGrid ((m.g.nodes.flatMap fun n => match n.hi with | none => [] | some h => intsIn n.lo h) ++ [0])

/-- `get_arc_based(make_feasible=False)` -/
def Mirp.getArcBased (m : Mirp) : ArcInst := { g := m.g, T := m.arcGrid }

/-- `estimate_high_cost()`: `2 · max arc cost · horizon / min_port |cap / rate|`; `portFreq` lists `|cap/rate|`
    of the declared ports; `none` when there is no port or no arc (the code raises `ValueError`) -/
def Mirp.highCost (m : Mirp) (portFreq : List Rat) : Option Rat :=
  match portFreq, m.g.arcs with
  | [], _ => none
  | _, [] => none
  | f :: fs, a :: as =>
    let mostFreq := fs.foldl minR f
    let maxCost := (as.map (·.2.cost)).foldl maxR a.2.cost
    some (2 * maxCost * (m.horizon / mostFreq))

/-- `get_sequence_based(make_feasible=False, strict)`: `V = estimate_max_vehicles()` of the source graph,
    `L = int(horizon / min positive travel time + 2)`; `none` when no arc has positive travel time -/
def Mirp.getSeqBased (m : Mirp) (strict : Bool) : Option SeqInst :=
  let pos := (m.g.arcs.map (·.2.time)).filter (fun t => decide (0 < t))
  match pos with
  | [] => none
  | t :: ts =>
    let mn := ts.foldl minR t
    let L := (m.horizon / mn + 2).floor.toNat
    some (((SeqInst.new m.g strict).setMaxVehicles m.g.estimateMaxVehicles).setMaxSeqLen L)

/-- `get_path_based(make_feasible=False)` with a scripted sampler: `1 + ⌊h⌋ + ⌊10h⌋` rounds of `add_routes_better`;
    the high cost is computed first even though it is only used as a node cost of the sampler: `none` when
    `estimate_high_cost()` raises -/
def Mirp.getPathBased (m : Mirp) (portFreq : List Rat) (pick : Nat → List Nat → Nat) : Option PathInst :=
  match m.highCost portFreq with
  | none => none
  | some _ =>
    let rounds := 1 + m.horizon.floor.toNat + (10 * m.horizon).floor.toNat
    some ((List.range rounds).foldl (fun (s : PathInst × Nat) _ =>
        let r := s.1.addRoutesBetter pick s.2
        (r.1, r.2.2.2)) (({ g := m.g } : PathInst), 0)).1

end Vrp
