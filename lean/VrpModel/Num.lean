/-!
# Numbers and sums used by the executable model (no Mathlib)

`Rat` is Lean core's exact rational type (Mathlib's `ℚ` is the same type).  Window ends that
may be `+∞` are `ERat := Option Rat` with `none = +∞`.
-/

namespace Vrp

/-- structural sum `f 0 + … + f (n-1)`; `VrpProofs.Lemmas.Sum` proves it equal to the `Finset.range` sum -/
def sumTo (n : Nat) (f : Nat → Rat) : Rat :=
  match n with
  | 0 => 0
  | k + 1 => sumTo k f + f k

/-- integer-valued structural sum -/
def sumToI (n : Nat) (f : Nat → Int) : Int :=
  match n with
  | 0 => 0
  | k + 1 => sumToI k f + f k

def sumList (l : List Rat) : Rat := l.foldr (· + ·) 0

def absR (x : Rat) : Rat := if x < 0 then -x else x
def maxR (a b : Rat) : Rat := if a ≤ b then b else a
def minR (a b : Rat) : Rat := if a ≤ b then a else b

/-- extended rationals: `none` is `+∞` -/
abbrev ERat := Option Rat

/-- `x ≤ e` -/
def leE (x : Rat) (e : ERat) : Bool :=
  match e with
  | none => true
  | some b => decide (x ≤ b)

/-- `e < x` i.e. not `x ≤ e` -/
def ltE (e : ERat) (x : Rat) : Bool := !leE x e

/-- `e₁ ≤ e₂` on extended rationals -/
def leEE (a b : ERat) : Bool :=
  match a, b with
  | _, none => true
  | none, some _ => false
  | some x, some y => decide (x ≤ y)

/-- vector / matrix views of lists (out of range = 0) -/
def vecOf (l : List Rat) : Nat → Rat := fun i => l.getD i 0
def matOf (rows : List (List Rat)) : Nat → Nat → Rat := fun i j => (rows.getD i []).getD j 0

def tabulate (n : Nat) (f : Nat → α) : List α := (List.range n).map f
def tabulate2 (r c : Nat) (f : Nat → Nat → α) : List (List α) :=
  (List.range r).map fun i => (List.range c).map fun j => f i j

end Vrp
