import VrpModel.Graph
import VrpModel.Program
/-!
# Model of `formulations/path_based_rp.py` (route admission, route pool, exact-cover data)
-/
namespace Vrp

/-- a stop of a candidate route as the caller gives it: a node name or a node index -/
inductive Stop where
  | name (s : String)
  | idx (i : Nat)
deriving Repr, DecidableEq

structure PathInst where
  g : Graph
  routes : List (List Nat) := []
  costs : List Rat := []
  visited : List (List Nat) := []     -- `route_node_visited`: sorted node indices covered by each route
deriving Repr

/-- `check_arc(time, load, key)`: `none` = infeasible; vehicle data must be set (else the code raises `TypeError`) -/
def checkArc (g : Graph) (cap : Rat) (time load : Rat) (i j : Nat) : Option (Rat × Rat) :=
  match g.arc? i j with
  | none => none
  | some a =>
    let t := maxR (time + a.time) (g.lo j)
    if ltE (g.hi j) t then none
    else
      let l := load - g.demand j           -- load += dest.get_load() = -demand
      if cap < l ∨ l < 0 then none else some (t, l)

/-- result of `check_route`: feasibility flag, accumulated cost, visit indicator (as the set of indices marked) -/
structure RouteCheck where
  feas : Bool
  cost : Rat
  visits : List Nat
deriving Repr

def resolve (g : Graph) (s : Stop) : Except Err Nat :=
  match s with
  | .idx i => .ok i
  | .name nm => match g.indexOf? nm with | some i => .ok i | none => .error .value

/-- the main loop of `check_route` over the remaining stops; `cur` is the already-resolved current stop -/
def checkLoop (g : Graph) (cap : Rat) : Nat → List Stop → Rat → Rat → Rat → List Nat → Except Err RouteCheck
  | _, [], _, _, cost, vis => .ok ⟨true, cost, vis⟩
  | cur, nxt :: rest, time, load, cost, vis =>
    if cur ∈ vis then .ok ⟨false, cost, vis⟩
    else
      let vis' := vis ++ [cur]
      match resolve g nxt with
      | .error e => .error e
      | .ok j =>
        match checkArc g cap time load cur j with
        | none => .ok ⟨false, cost, vis'⟩
        | some (t, l) =>
          let c := ((g.arc? cur j).map (·.cost)).getD 0
          checkLoop g cap j rest t l (cost + c) vis'

/-- `check_route(candidate)`; `.error .type` when capacity / initial loading are unset;
    names at positions 0, 1 and −1 are resolved first (an unknown one raises even if the route would be
    rejected anyway), the others on the fly -/
def checkRoute (g : Graph) (route : List Stop) : Except Err RouteCheck :=
  if route.length < 2 then .ok ⟨false, 0, []⟩ else
  match route with
  | [] => .ok ⟨false, 0, []⟩
  | first :: rest =>
    match resolve g first with
    | .error e => .error e
    | .ok f =>
      match rest.head?.map (resolve g), rest.getLast?.map (resolve g) with
      | some (.error e), _ => .error e
      | _, some (.error e) => .error e
      | _, some (.ok l) =>
        if f ≠ 0 ∨ l ≠ 0 then .ok ⟨false, 0, []⟩
        else
          match g.cap, g.init with
          | some cap, some init => checkLoop g cap f rest (g.lo 0) init 0 []   -- the clock starts when the depot opens (repaired; pinned: 0)
          | _, _ => .error .type
      | _, none => .ok ⟨false, 0, []⟩

/-- the route with every stop resolved (what the caller's list has become after a successful check) -/
def resolveAll (g : Graph) (route : List Stop) : List Nat :=
  route.filterMap fun s => match resolve g s with | .ok i => some i | .error _ => none

/-- `add_route(route)` → new state and `(feasible, added)` -/
def PathInst.addRoute (P : PathInst) (route : List Stop) : PathInst × Except Err (Bool × Bool) :=
  match checkRoute P.g route with
  | .error e => (P, .error e)
  | .ok rc =>
    let r := resolveAll P.g route
    if rc.feas ∧ r ∉ P.routes then
      ({ P with routes := P.routes ++ [r], costs := P.costs ++ [rc.cost],
                visited := P.visited ++ [sortNat rc.visits] }, .ok (true, true))
    else (P, .ok (rc.feas, false))
where
  sortNat (l : List Nat) : List Nat := l.foldr (fun x acc => insertNat x acc) []
  insertNat (x : Nat) : List Nat → List Nat
    | [] => [x]
    | y :: ys => if x ≤ y then x :: y :: ys else y :: insertNat x ys

/-! ### the same admission with the vehicle data as they are (possibly unset)

`checkRoute` above answers `.error .type` as soon as the preliminary tests pass when capacity / initial loading are
unset.  The code is lazier: `loading = self.initial_loading` may be `None`, and `check_arc` only touches the load
after the arc lookup and the time-window test.  The `…O` versions follow that order exactly. -/

/-- `check_arc(time, load, key)` with optional vehicle data: `.ok none` = infeasible (`False`), `.error .type` =
    `TypeError`.  Order of the code: arc lookup (`KeyError` → `False`), time window (late → `False`), then
    `load += dest.get_load()` (`TypeError` when `load is None`), then `load > self.vehicle_cap or load < 0`
    (`TypeError` when `vehicle_cap is None`: `load > None` is evaluated first) -/
def checkArcO (g : Graph) (cap : Option Rat) (time : Rat) (load : Option Rat) (i j : Nat) :
    Except Err (Option (Rat × Rat)) :=
  match g.arc? i j with
  | none => .ok none
  | some a =>
    let t := maxR (time + a.time) (g.lo j)
    if ltE (g.hi j) t then .ok none
    else
      match load with
      | none => .error .type                 -- None += number
      | some ld =>
        let l := ld - g.demand j             -- load += dest.get_load() = -demand
        match cap with
        | none => .error .type               -- number > None
        | some c => if c < l ∨ l < 0 then .ok none else .ok (some (t, l))

/-- the main loop of `check_route` with optional vehicle data (`checkLoop` with `checkArcO`) -/
def checkLoopO (g : Graph) (cap : Option Rat) :
    Nat → List Stop → Rat → Option Rat → Rat → List Nat → Except Err RouteCheck
  | _, [], _, _, cost, vis => .ok ⟨true, cost, vis⟩
  | cur, nxt :: rest, time, load, cost, vis =>
    if cur ∈ vis then .ok ⟨false, cost, vis⟩
    else
      let vis' := vis ++ [cur]
      match resolve g nxt with
      | .error e => .error e
      | .ok j =>
        match checkArcO g cap time load cur j with
        | .error e => .error e
        | .ok none => .ok ⟨false, cost, vis'⟩
        | .ok (some (t, l)) =>
          let c := ((g.arc? cur j).map (·.cost)).getD 0
          checkLoopO g cap j rest t (some l) (cost + c) vis'

/-- `check_route(candidate)` as the code runs it whatever the vehicle data: same preliminary tests as `checkRoute`,
    then the loop starts with `loading = self.initial_loading` (possibly `None`); `TypeError` is raised only when a
    leg reaches the load arithmetic -/
def checkRouteO (g : Graph) (route : List Stop) : Except Err RouteCheck :=
  if route.length < 2 then .ok ⟨false, 0, []⟩ else
  match route with
  | [] => .ok ⟨false, 0, []⟩
  | first :: rest =>
    match resolve g first with
    | .error e => .error e
    | .ok f =>
      match rest.head?.map (resolve g), rest.getLast?.map (resolve g) with
      | some (.error e), _ => .error e
      | _, some (.error e) => .error e
      | _, some (.ok l) =>
        if f ≠ 0 ∨ l ≠ 0 then .ok ⟨false, 0, []⟩
        else checkLoopO g g.cap f rest (g.lo 0) g.init 0 []
      | _, none => .ok ⟨false, 0, []⟩

/-- `add_route(route)` with `checkRouteO` -/
def PathInst.addRouteO (P : PathInst) (route : List Stop) : PathInst × Except Err (Bool × Bool) :=
  match checkRouteO P.g route with
  | .error e => (P, .error e)
  | .ok rc =>
    let r := resolveAll P.g route
    if rc.feas ∧ r ∉ P.routes then
      ({ P with routes := P.routes ++ [r], costs := P.costs ++ [rc.cost],
                visited := P.visited ++ [PathInst.addRoute.sortNat rc.visits] }, .ok (true, true))
    else (P, .ok (rc.feas, false))

/-- `get_math_program_data` / `get_constraint_data` / `get_objective_data`: exact cover over the pool,
    rows = non-depot nodes of the *current* node list -/
def PathInst.data (P : PathInst) : MPData :=
  let nn := P.g.nodes.length
  let idx := (List.range P.visited.length).zip P.visited
  { n := P.costs.length, m := nn - 1,
    A := idx.flatMap fun (col, vs) => (vs.eraseDups.filterMap fun k => if k = 0 then none else some (k - 1, col, (1 : Rat))),
    b := List.replicate (nn - 1) 1,
    R := [],
    c := P.costs,
    Qobj := [] }

/-- `get_sufficient_penalty(False)`: `Σ_r |route cost|` -/
def PathInst.suffPenalty (P : PathInst) : Rat := sumList (P.costs.map absR)

/-- `get_routes(x)`: names of the selected routes -/
def PathInst.decode (P : PathInst) (x : List Rat) : List (List String) :=
  ((List.range x.length).zip x).filterMap fun (k, v) =>
    if v = 0 then none else (P.routes[k]?).map fun r => r.map fun i => (P.g.names[i]?).getD "?"

end Vrp
