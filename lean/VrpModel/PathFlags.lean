import VrpModel.CacheFlags
/-!
# Operation-level model of the path-based formulation object (C14)

`VrpModel/CacheFlags.lean` gives the arc- and the sequence-based formulation objects a machine with one operation per
public method.  This file does the same for `PathBasedRoutingProblem` (`formulations/path_based_rp.py`).  The path object
keeps NO cache: every query recomputes its answer from `routes`, `route_costs`, `route_node_visited` and the graph, and
the hook `_problem_changed()` of the base class is not overridden (it does nothing).  So there are no flags to model;
the state of the object is its instance data plus `feasible_solution`, and the "specification" of a query is the very
function that answers it.  What `VrpProofs/Props/C14d.lean` proves is PURITY: a query returns the object unchanged, hence
equal answers when repeated, and deleting queries from a history changes nothing that is obtained from the other calls.

## Python statement → model clause

| Python statement                                                        | model clause                                              |
|-------------------------------------------------------------------------|-----------------------------------------------------------|
| `__init__`: `routes = []`, `route_costs = []`, `route_node_visited = []`, `feasible_solution = None` | `PathObj.init P` (`sol := none`); the pool of `P` is empty for a fresh object, the driver also accepts a literal pool |
| `get_num_variables`: `len(self.route_costs)`                            | `.numVars`: `o.inst.costs.length`                         |
| `get_objective_data`: `(np.asarray(route_costs), csr((n, n)))`          | `.objective`: `PathInst.data` — `c`, `n`                  |
| `get_constraint_data` → `get_math_program_data`                         | `.constraints`: `PathInst.data` — `A`, shape `(m, n)`, `b`, `n` (side of the zero `Q_eq`) |
| `RoutingProblem.get_qubo(feasibility, penalty_parameter)` with `get_sufficient_penalty` | `.qubo`: `quboReply o.inst.data o.inst.suffPenalty feas rho?` (the generic `MPData.getQubo`; `.shape` when the pieces do not fit) |
| `get_routes(x)`: `np.flatnonzero`, `self.routes[i]`, `self.node_names[n]` | `.decode x`: `PathInst.getRoutes` — `IndexError` (`.index`) for a selected position beyond the pool (or a stored stop beyond the node list), otherwise `PathInst.decode` (node NAMES of the selected routes) |
| `check_route(r)`                                                        | `.checkRoute r`: `checkRouteO o.inst.g r` (vehicle data as they are; `(feasible, cost)`; the cost is the amount accumulated when the walk stopped, as in the code) |
| `add_route(r)`                                                          | `.addRoute r`: `PathInst.addRouteO`                       |
| `add_arc / add_node / set_depot / set_vehicle_cap / set_initial_loading` (base class: no-op hook, then the `vrptw` call) | `PathObj.mutate`: `gmut .base` on `o.inst.g`; the stored routes are NOT revalidated (nor re-indexed by `set_depot`) |
| `make_feasible(high_cost)`                                              | `.heur high`: `PathInst.makeFeasibleP` (below)            |

### `make_feasible` with its side effects in program order (`PathInst.makeFeasibleP`)

| Python statement                                                        | model clause                                              |
|-------------------------------------------------------------------------|-----------------------------------------------------------|
| `unvisited_indices, routes = self.add_routes_better(0, …)`              | `PathInst.addRoutesBetterP` = `greedyLoopP` over `estimate_max_vehicles()` rounds |
|   `r, _ = self.generate_route(…, unvisited_indices)`                    | `genRouteO` (legs `2 + len(nodes)`, clock from the depot's opening, `load = self.initial_loading` possibly `None`) |
|     `for n in unvisited: feas_arc, … = self.check_arc(time, load, a)`   | `routeCandsO`: `checkArcO` per node, in order; the first `TypeError` (load arithmetic on unset data) is raised, nothing has been written |
|     `get_sampled_key` (`AssertionError` on an empty dict → `break`)     | `if cands.isEmpty then (r, c)`; the choice is `pick c cands` (scripted sampler, `c` counts the calls of one heuristic run) |
|     `self.check_arc(time, load, (currNode, sampledNode))`, `r.append`, depot reached → `break` | `checkArcO` again; `nxt = 0` ends the route |
|   `feas, _ = self.add_route(r)`; `if not feas: continue`                | `Q.addRouteO (r.map .idx)`; a raise keeps the pool reached so far |
|   `routes.append(r)`; `unvisited_indices.remove(n)` for the customers of `r` | `routes ++ [r]`, `unv.filter (n = 0 ∨ n ∉ r)` (as `PathInst.addRoutesBetter`) |
| `unvisited_indices.remove(self.depot_index)`                            | `unv.filter (· ≠ 0)`                                      |
| `for u in unvisited_indices:`                                           | `dummyLoopP`; stops at the first raising iteration and KEEPS the instance reached |
|   `loading = self.initial_loading + self.nodes[u].get_load()`           | `dummyStepP`: `Q.g.init = none` → `(Q, .error .type)`, nothing written |
|   `if loading < 0: … elif loading > self.vehicle_cap: … else: …`        | `loading < 0` is decided first; only otherwise the capacity is read: `Q.g.cap = none` → `(Q, .error .type)` |
|   `new_node = f"mf_Dum_{u}"`; `while new_node in self.node_names: new_node += "_"` | `freshDummy`                                   |
|   `self.add_node(new_node, -new_node_loading, (depot_opens, np.inf))`   | `gstep .base Q.g (.addNode …)`; a raise leaves the graph as it was |
|   `new_node_index = self.node_names.index(new_node)`                    | `g1.nodes.length - 1`                                     |
|   `self.add_arc(depot_name, new_node, 0, high_cost)`, `self.add_arc(new_node, node_names[u], 0, high_cost)` | `gstep .base … (.addArc …)` twice (graph component; all names exist, so the calls cannot raise) |
|   `try: self.arcs[(u, depot)] except KeyError: self.add_arc(node_names[u], depot_name, 0, 0)` | `if g3.hasArc u 0 then g3 else …`               |
|   `feas, _ = self.add_route([depot, new_node_index, u, depot])`         | `({ Q with g := g4 }).addRouteO`; a raise (`TypeError`: capacity unset) returns the instance WITH the dummy node and its arcs |
|   `assert feas`                                                         | `.ok (false, _)` → `.error .assert`, again with the dummy node and its arcs left behind |
| `feas_sol = np.zeros(len(self.route_costs))`; `feas_sol[self.routes.index(r)] = 1` | `solVecP` (as in `PathInst.makeFeasible`) |
| `self.feasible_solution = feas_sol`                                     | `PathObj.step`: `sol := some sol` on `.ok`; on a raise the stored solution is untouched, the instance is the partial one |

`PathInst.makeFeasible` (`VrpModel/Heuristics.lean`, the model of C09) returns `.error` WITHOUT a state and answers
`.error .type` up front when capacity or initial loading is unset.  `VrpProofs/Props/C14d.lean` proves that
`makeFeasibleP` agrees with it: same instance and same solution whenever `makeFeasible` returns `.ok`
(`makeFeasibleP_of_ok`), the same error whenever it returns `.error` and both vehicle data are set
(`makeFeasibleP_of_error`).  With unset vehicle data the code is lazier than `makeFeasible` (the `TypeError` comes from
the first load arithmetic that is executed); `makeFeasibleP` follows the code: it still raises as soon as there is a
customer (`makeFeasibleP_unset_raises`), possibly after a dummy node has been added, but on a depot-only problem
without a usable depot self-arc it returns normally with the all-zero vector (`makeFeasibleP_unset`,
`path_heur_unset`).

## What is not mirrored

* Container types, logging; `check_route` rewriting the caller's list in place (names → indices): an effect on the
  ARGUMENT, not on the object.
* A problem without any node (`node_costs[self.depot_index]` raises `IndexError` in `make_feasible`, negative dimensions
  in `get_math_program_data`): as in `PathInst.makeFeasible` / `PathInst.data` the unvisited list is then empty and the
  data have `m = 0`.
* `get_math_program_data` on a pool that `add_route` cannot have produced (`route_node_visited` longer than
  `route_costs`, visited indices beyond the node list: `IndexError` in the code): `PathInst.data` keeps such triples
  and `get_qubo` then answers `.shape`.  Only a literal pool given to the driver can be like that; every pool reached
  from the empty one by the operations below has three lists of equal length with indices below the node count.
* An illegal answer of the sampler (a node that is not among the candidates): `genRouteO` stops the route as
  `genRoute` does; the real sampler always returns one of the keys it is given.
-/
namespace Vrp

/-! ## `make_feasible` with partial effects, for any vehicle data -/

/-- `for n in unvisited: feas_arc, new_time, _ = self.check_arc(time, load, (currNode, n))` of `generate_route`: the
    feasible destinations in list order; the first `TypeError` (unset vehicle data reached by the load arithmetic) is
    raised -/
def routeCandsO (g : Graph) (cap : Option Rat) (cur : Nat) (time : Rat) (load : Option Rat) :
    List Nat → Except Err (List Nat)
  | [] => .ok []
  | n :: rest =>
    match checkArcO g cap time load cur n with
    | .error e => .error e
    | .ok r =>
      match routeCandsO g cap cur time load rest with
      | .error e => .error e
      | .ok l => .ok (if r.isSome then n :: l else l)

/-- `generate_route` with the vehicle data as they are and a scripted choice (`genRoute` with `checkArcO`) -/
def genRouteO (g : Graph) (cap : Option Rat) (pick : Nat → List Nat → Nat) :
    Nat → Nat → Rat → Option Rat → List Nat → List Nat → Nat → Except Err (List Nat × Nat)
  | 0, _, _, _, _, r, c => .ok (r, c)
  | legs + 1, cur, time, load, unv, r, c =>
    match routeCandsO g cap cur time load unv with
    | .error e => .error e
    | .ok cands =>
      if cands.isEmpty then .ok (r, c) else
        let nxt := pick c cands
        match checkArcO g cap time load cur nxt with
        | .error e => .error e
        | .ok none => .ok (r, c + 1)
        | .ok (some (t, l)) =>
          if nxt = 0 then .ok (r ++ [0], c + 1)
          else genRouteO g cap pick legs nxt t (some l) unv (r ++ [nxt]) (c + 1)

/-- the loop of `add_routes_better` (`k` rounds left): instance reached, and either the exception that ended it or
    `(unvisited_indices, routes, sampler calls so far)` -/
def PathInst.greedyLoopP (pick : Nat → List Nat → Nat) :
    Nat → PathInst → List Nat → List (List Nat) → Nat → PathInst × Except Err (List Nat × List (List Nat) × Nat)
  | 0, Q, unv, routes, c => (Q, .ok (unv, routes, c))
  | k + 1, Q, unv, routes, c =>
    match genRouteO Q.g Q.g.cap pick (2 + Q.g.nodes.length) 0 (Q.g.lo 0) Q.g.init unv [0] c with
    | .error e => (Q, .error e)
    | .ok (r, c') =>
      let a := Q.addRouteO (r.map Stop.idx)
      match a.2 with
      | .error e => (a.1, .error e)
      | .ok (true, _) => PathInst.greedyLoopP pick k a.1 (unv.filter (fun n => n = 0 ∨ n ∉ r)) (routes ++ [r]) c'
      | .ok (false, _) => PathInst.greedyLoopP pick k Q unv routes c'

/-- `add_routes_better(0, node_costs, time_costs)` -/
def PathInst.addRoutesBetterP (P : PathInst) (pick : Nat → List Nat → Nat) (c0 : Nat) :
    PathInst × Except Err (List Nat × List (List Nat) × Nat) :=
  PathInst.greedyLoopP pick P.g.estimateMaxVehicles P (List.range P.g.nodes.length) [] c0

/-- `new_node_loading` of the dummy node for the unvisited customer with `loading = initial_loading − demand`:
    `loading < 0` is tested first and needs no capacity; `loading > self.vehicle_cap` raises `TypeError` when the
    capacity is unset -/
def dummyLoadO (cap : Option Rat) (loading : Rat) : Except Err Rat :=
  if loading < 0 then .ok (-loading)
  else
    match cap with
    | none => .error .type
    | some c => .ok (if c < loading then c - loading else 0)

/-- one iteration of `for u in unvisited_indices:`: the instance reached and either the exception or the extended
    local route list.  `add_node` / the three `add_arc` calls / `add_route` / `assert feas` in program order; whatever was
    added before a raise stays. -/
def PathInst.dummyStepP (high : Rat) (Q : PathInst) (routes : List (List Nat)) (u : Nat) :
    PathInst × Except Err (List (List Nat)) :=
  match Q.g.init with
  | none => (Q, .error .type)
  | some init =>
    match dummyLoadO Q.g.cap (init - Q.g.demand u) with
    | .error e => (Q, .error e)
    | .ok newLoad =>
      let nm := freshDummy Q.g u (Q.g.nodes.length + 1) ("mf_Dum_" ++ toString u)
      let a := gstep .base Q.g (.addNode nm (-newLoad) (Q.g.lo 0) none)
      match a.2 with
      | .error e => (Q, .error e)
      | .ok _ =>
        let g1 := a.1
        let k := g1.nodes.length - 1
        let g2 := (gstep .base g1 (.addArc (nameOf g1 0) nm 0 high)).1
        let g3 := (gstep .base g2 (.addArc nm (nameOf g2 u) 0 high)).1
        let g4 := if g3.hasArc u 0 then g3 else (gstep .base g3 (.addArc (nameOf g3 u) (nameOf g3 0) 0 0)).1
        let r := [0, k, u, 0]
        let x := ({ Q with g := g4 } : PathInst).addRouteO (r.map Stop.idx)
        match x.2 with
        | .error e => (x.1, .error e)
        | .ok (true, _) => (x.1, .ok (routes ++ [r]))
        | .ok (false, _) => (x.1, .error .assert)

/-- the loop over the still unvisited customers; stops at the first raising iteration and keeps the instance -/
def PathInst.dummyLoopP (high : Rat) : PathInst → List (List Nat) → List Nat → PathInst × Except Err (List (List Nat))
  | Q, routes, [] => (Q, .ok routes)
  | Q, routes, u :: rest =>
    let r := Q.dummyStepP high routes u
    match r.2 with
    | .ok routes' => PathInst.dummyLoopP high r.1 routes' rest
    | .error e => (r.1, .error e)

/-- `feas_sol = np.zeros(len(self.route_costs)); for r in routes: feas_sol[self.routes.index(r)] = 1` -/
def PathInst.solVecP (Q : PathInst) (routes : List (List Nat)) : List Rat :=
  (List.range Q.costs.length).map fun i => if (Q.routes[i]?).any (· ∈ routes) then 1 else 0

/-- `PathBasedRoutingProblem.make_feasible(high_cost)` INCLUDING its partial effects: the instance the object is left
    with, and either the exception or the vector that is stored as `feasible_solution` -/
def PathInst.makeFeasibleP (P : PathInst) (high : Rat) (pick : Nat → List Nat → Nat) : PathInst × Except Err (List Rat) :=
  let a := P.addRoutesBetterP pick 0
  match a.2 with
  | .error e => (a.1, .error e)
  | .ok (unv, routes0, _) =>
    let r := PathInst.dummyLoopP high a.1 routes0 (unv.filter (· ≠ 0))
    match r.2 with
    | .error e => (r.1, .error e)
    | .ok routes => (r.1, .ok (r.1.solVecP routes))

/-! ## the object -/

/-- `get_routes(x)`: `self.routes[i]` raises `IndexError` for a selected position beyond the pool,
    `self.node_names[n]` for a stored stop beyond the node list; otherwise the node names of the selected routes -/
def PathInst.getRoutes (P : PathInst) (x : List Rat) : Except Err (List (List String)) :=
  if (selectedIdx x).all (fun k =>
      match P.routes[k]? with
      | none => false
      | some r => r.all fun i => decide (i < P.g.nodes.length)) then .ok (P.decode x)
  else .error .index

/-- the path-based object: its instance data and `feasible_solution` -/
structure PathObj where
  inst : PathInst
  sol : Option (List Rat) := none

/-- `PathBasedRoutingProblem.__init__` (graph supplied; the pool of a fresh object is empty) -/
def PathObj.init (P : PathInst) : PathObj := { inst := P }

inductive PathFOp where
  -- queries
  | numVars
  | objective
  | constraints
  | qubo (feas : Bool) (rho? : Option Rat)
  | decode (x : List Rat)          -- `get_routes(x)`
  | checkRoute (r : List Stop)     -- `check_route(r)`
  -- state-changing calls
  | addRoute (r : List Stop)
  | heur (high : Rat)
  -- public mutators of the base class
  | addArc (orig dest : String) (time cost : Rat)
  | addNode (name : String) (demand lo : Rat) (hi : ERat)
  | setDepot (name : String)
  | setVehicleCap (c : Rat)
  | setInitialLoading (l : Rat)
deriving Repr, DecidableEq

inductive PathReply where
  | num (n : Nat)
  | obj (c : List Rat) (n : Nat)
  | con (A : Coo) (shape : Nat × Nat) (b : List Rat) (n : Nat)
  | qubo (q : QuboOut)
  | routes (r : List (List String))      -- `get_routes`: node names per selected route
  | chk (feas : Bool) (cost : Rat)       -- `check_route`: `(feasible, cost)`
  | added (feas added : Bool)            -- `add_route`: `(feas, added)`
  | done                                 -- normal return of the heuristic or of a void mutator
  | arcAdded (b : Bool)                  -- return value of `add_arc`
  | raised (e : Err)
deriving Repr, DecidableEq

/-- the calls that can change the object: `add_route`, `make_feasible` and the mutators -/
def PathFOp.isChange : PathFOp → Bool
  | .addRoute _ => true
  | .heur _ => true
  | .addArc _ _ _ _ => true
  | .addNode _ _ _ _ => true
  | .setDepot _ => true
  | .setVehicleCap _ => true
  | .setInitialLoading _ => true
  | _ => false

/-- a query: size, objective, constraints, QUBO, route decoding, route check -/
def PathFOp.isQuery (op : PathFOp) : Bool := !op.isChange

def PathReply.ofGOut : GOut → PathReply
  | .ok none => .done
  | .ok (some b) => .arcAdded b
  | .error e => .raised e

/-- a public mutator of the base class `RoutingProblem` called on the path object: the hook `_problem_changed()` is
    the base-class no-op, then the `vrptw` call.  The stored routes, costs and visit lists are left as they are. -/
def PathObj.mutate (o : PathObj) (m : GMut) : PathObj × GOut :=
  let a := gmut .base o.inst.g m
  ({ o with inst := { o.inst with g := a.1 } }, a.2)

/-- one call on the object; `pick` scripts the sampler of `generate_route` (every heuristic run starts the script at
    call number 0) -/
def PathObj.step (pick : Nat → List Nat → Nat) (o : PathObj) : PathFOp → PathObj × PathReply
  | .numVars => (o, .num o.inst.costs.length)
  | .objective => (o, .obj o.inst.data.c o.inst.data.n)
  | .constraints => (o, .con o.inst.data.A (o.inst.data.m, o.inst.data.n) o.inst.data.b o.inst.data.n)
  | .qubo feas rho? =>
    (o, match quboReply o.inst.data o.inst.suffPenalty feas rho? with | .ok q => .qubo q | .error e => .raised e)
  | .decode x => (o, match o.inst.getRoutes x with | .ok rs => .routes rs | .error e => .raised e)
  | .checkRoute r => (o, match checkRouteO o.inst.g r with | .ok rc => .chk rc.feas rc.cost | .error e => .raised e)
  | .addRoute r =>
    let a := o.inst.addRouteO r
    ({ o with inst := a.1 }, match a.2 with | .ok (f, ad) => .added f ad | .error e => .raised e)
  | .heur high =>
    let r := o.inst.makeFeasibleP high pick
    match r.2 with
    | .ok sol => ({ inst := r.1, sol := some sol }, .done)
    | .error e => ({ o with inst := r.1 }, .raised e)
  | .addArc og d t c => let r := o.mutate (.op (.addArc og d t c)); (r.1, .ofGOut r.2)
  | .addNode nm dem lo hi => let r := o.mutate (.op (.addNode nm dem lo hi)); (r.1, .ofGOut r.2)
  | .setDepot nm => let r := o.mutate (.op (.setDepot nm)); (r.1, .ofGOut r.2)
  | .setVehicleCap c => let r := o.mutate (.cap c); (r.1, .ofGOut r.2)
  | .setInitialLoading l => let r := o.mutate (.init l); (r.1, .ofGOut r.2)

def PathObj.run (pick : Nat → List Nat → Nat) (o : PathObj) : List PathFOp → PathObj × List PathReply
  | [] => (o, [])
  | op :: rest =>
    let r := o.step pick op
    let q := PathObj.run pick r.1 rest
    (q.1, r.2 :: q.2)

/-- **specification view.**  The object has no cache, so the cache-free answer to a query is a function of the state
    alone: `o.answer op` is what `op` returns in state `o` (for a state-changing call: the reply it gets there).  The
    theorems of `Props/C14d.lean` say that a query is `(o, o.answer op)`. -/
def PathObj.answer (pick : Nat → List Nat → Nat) (o : PathObj) (op : PathFOp) : PathReply := (o.step pick op).2

end Vrp
