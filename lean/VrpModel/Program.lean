import VrpModel.Qubo
import VrpModel.Graph
/-!
# Constrained 0-1 program data and `RoutingProblem.get_qubo`

`A` is kept as COO triples `(row, col, value)` exactly as the code assembles them (duplicates add),
`R` and the bilinear objective likewise.
-/
namespace Vrp

structure MPData where
  n : Nat                                   -- number of variables
  m : Nat                                   -- number of linear constraints (= len b)
  A : List (Nat × Nat × Rat)                 -- COO triples of the constraint matrix
  b : List Rat
  R : List (Nat × Nat)                       -- entries (weight 1 each) of the quadratic constraint matrix
  c : List Rat                              -- linear objective
  Qobj : List (Nat × Nat × Rat)              -- COO triples of the bilinear objective
deriving Repr

/-- dense entry of a COO triple list (duplicates summed, as scipy does) -/
def cooEntry (t : List (Nat × Nat × Rat)) (i j : Nat) : Rat :=
  sumList ((t.filter fun e => e.1 = i ∧ e.2.1 = j).map (·.2.2))

def MPData.Amat (d : MPData) : Mat := cooEntry d.A
def MPData.bvec (d : MPData) : Vec := vecOf d.b
def MPData.Rmat (d : MPData) : Mat := fun i j => ((d.R.filter fun e => e.1 = i ∧ e.2 = j).length : Rat)
def MPData.cvec (d : MPData) : Vec := vecOf d.c
def MPData.Qmat (d : MPData) : Mat := cooEntry d.Qobj

/-- value of constraint row `r` at `x` -/
def MPData.rowVal (d : MPData) (x : Vec) (r : Nat) : Rat := sumTo d.n fun j => d.Amat r j * x j

/-- `c·x + xᵀ Q_obj x` -/
def MPData.objective (d : MPData) (x : Vec) : Rat := dot d.n d.cvec x + quad d.n d.Qmat x

/-- `|Ax − b|² + xᵀRx` -/
def MPData.penalty (d : MPData) (x : Vec) : Rat :=
  sumTo d.m (fun r => (d.rowVal x r - d.bvec r) * (d.rowVal x r - d.bvec r)) + quad d.n d.Rmat x

/-- all linear rows hold and the quadratic constraint `xᵀRx = 0` holds (decidable, executable) -/
def MPData.feasibleB (d : MPData) (x : Vec) : Bool :=
  (List.range d.m).all (fun r => d.rowVal x r = d.bvec r) && decide (quad d.n d.Rmat x = 0)

/-- `test_feasibility(x, A_eq, b_eq, Q_eq, r_eq)` of `vrpqubo/test_feasibility.py` on the constraint data of a formulation
    (`r_eq = 0`): which linear rows are violated, the value `xᵀ Q_eq x − r_eq`, and the number of stored entries of `Q_eq`
    (distinct positions; duplicates are summed by scipy) -/
def MPData.testFeasibility (d : MPData) (x : Vec) : List Bool × Rat × Nat :=
  ((List.range d.m).map (fun r => decide (d.rowVal x r ≠ d.bvec r)), quad d.n d.Rmat x, d.R.eraseDups.length)

/-- `get_qubo`: `Q = ρ (R + AᵀA − 2 diag(Aᵀb)) [+ Q_obj + diag c]`, `k = ρ bᵀb` -/
def MPData.quboQ (d : MPData) (rho : Rat) (feas : Bool) : Mat := fun i j =>
  rho * (d.Rmat i j + sumTo d.m (fun r => d.Amat r i * d.Amat r j)
          + (if i = j then -2 * sumTo d.m (fun r => d.Amat r i * d.bvec r) else 0))
    + (if feas then 0 else d.Qmat i j + (if i = j then d.cvec i else 0))

def MPData.quboK (d : MPData) (rho : Rat) : Rat := rho * sumTo d.m fun r => d.bvec r * d.bvec r

/-- default penalty: the formulation's sufficient value + 1 (sufficient value is 0 in feasibility mode) -/
def defaultRho (suff : Rat) (feas : Bool) : Rat := (if feas then 0 else suff) + 1

/-- scipy's shape inference for `coo_array((vals, (rows, cols)))` built WITHOUT `shape=` (the pinned code):
    `(max row + 1, max col + 1)`, `none` (= ValueError "cannot infer dimensions") for an empty triple list -/
def inferShape (t : List (Nat × Nat × Rat)) : Option (Nat × Nat) :=
  match t with
  | [] => none
  | _ => some ((t.map (·.1)).foldl max 0 + 1, (t.map (·.2.1)).foldl max 0 + 1)

/-- dimension consistency the QUBO assembly needs: `A` is `len b × n`, `c` has length `n`,
    all column / row / R / Q_obj indices in range -/
def MPData.wellShaped (d : MPData) : Bool :=
  d.b.length = d.m && d.c.length = d.n &&
  d.A.all (fun e => e.1 < d.m && e.2.1 < d.n) &&
  d.R.all (fun e => e.1 < d.n && e.2 < d.n) &&
  d.Qobj.all (fun e => e.1 < d.n && e.2.1 < d.n)

/-- `get_qubo(feasibility, penalty_parameter)` as a partial operation: the sparse assembly (`A.T @ A`, `diags`, sums of
    matrices) raises unless the reported data have consistent shapes; otherwise `(Q, k)` for the given or the default
    penalty weight -/
def MPData.getQubo (d : MPData) (suff : Rat) (feas : Bool) (rho? : Option Rat) : Except Err (Mat × Rat) :=
  if d.wellShaped then
    let rho := rho?.getD (defaultRho suff feas)
    .ok (d.quboQ rho feas, d.quboK rho)
  else .error Err.shape

end Vrp
