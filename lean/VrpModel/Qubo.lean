import VrpModel.Num
/-!
# Model of `vrpqubo/tools/qubo_tools.py`

Matrices are functions `Nat → Nat → Rat` restricted to `0..n-1`; the driver builds them from the
dense rows it receives.  Container types (ndarray / CSR / COO / LIL) are not represented: the
functions below are what every container is converted to before the arithmetic happens.
-/
namespace Vrp

abbrev Mat := Nat → Nat → Rat
abbrev Vec := Nat → Rat

/-- `xᵀ M x` over indices `0..n-1` -/
def quad (n : Nat) (M : Mat) (x : Vec) : Rat :=
  sumTo n fun i => sumTo n fun j => M i j * x i * x j

def dot (n : Nat) (a b : Vec) : Rat := sumTo n fun i => a i * b i

/-- `evaluate_QUBO`: `Q.dot(x).dot(x) + c` -/
def evalQubo (n : Nat) (Q : Mat) (c : Rat) (x : Vec) : Rat := quad n Q x + c

/-- `evaluate_Ising`: `J.dot(s).dot(s) + h.dot(s) + c` -/
def evalIsing (n : Nat) (J : Mat) (h : Vec) (c : Rat) (s : Vec) : Rat :=
  quad n J s + dot n h s + c

/-- `x_to_s`: `1 - 2x` -/
def xToS (x : Vec) : Vec := fun i => 1 - 2 * x i
/-- `s_to_x`: `0.5 * (1 - s)` -/
def sToX (s : Vec) : Vec := fun i => (1 - s i) / 2

/-! ## `QUBO_to_Ising` -/
def isingJ (Q : Mat) : Mat := fun i j => if i = j then 0 else Q i j / 4
def isingH (n : Nat) (Q : Mat) : Vec := fun i =>
  -(sumTo n (fun j => Q j i) + sumTo n (fun j => Q i j)) / 4
def isingC (n : Nat) (Q : Mat) (c : Rat) : Rat :=
  (sumTo n (fun i => sumTo n fun j => Q i j) + sumTo n (fun i => Q i i)) / 4 + c

/-! ## `Ising_to_QUBO` -/
def quboOfIsingQ (n : Nat) (J : Mat) (h : Vec) : Mat := fun i j =>
  4 * J i j - (if i = j then 2 * (sumTo n (fun k => J k i) + sumTo n (fun k => J i k) + h i) else 0)
def quboOfIsingC (n : Nat) (J : Mat) (h : Vec) (c : Rat) : Rat :=
  sumTo n (fun i => sumTo n fun j => J i j) + sumTo n h + c

/-! ## pattern conversions -/
/-- `to_upper_triangular`: `M + strictLower(M)ᵀ - strictLower(M)` -/
def toUpper (M : Mat) : Mat := fun i j =>
  if i < j then M i j + M j i else if i = j then M i i else 0
/-- `to_symmetric`: `(M + Mᵀ)/2` -/
def toSym (M : Mat) : Mat := fun i j => (M i j + M j i) / 2

/-- ASCII lower-casing of the pattern string (Python `str.lower` agrees on ASCII) -/
def lowerAscii (s : String) : String := s.map fun c => if 'A' ≤ c ∧ c ≤ 'Z' then Char.ofNat (c.toNat + 32) else c

inductive Pattern where | upper | sym | asIs
deriving DecidableEq, Repr

def parsePattern (s : String) : Pattern :=
  let l := lowerAscii s
  if l = "upper-triangular" then .upper else if l = "symmetric" then .sym else .asIs

def applyPattern (p : Pattern) (M : Mat) : Mat :=
  match p with
  | .upper => toUpper M
  | .sym => toSym M
  | .asIs => M

/-- `QUBOContainer.__init__` (square input): patterned `Q`, and the Ising form of the patterned matrix -/
structure Container where
  n : Nat
  Q : Mat
  cq : Rat
  J : Mat
  h : Vec
  ci : Rat

def Container.mk' (n : Nat) (Q : Mat) (c : Rat) (pattern : String) : Container :=
  let Q' := applyPattern (parsePattern pattern) Q
  { n := n, Q := Q', cq := c, J := isingJ Q', h := isingH n Q', ci := isingC n Q' c }

/-- the shape check shared by the converters and the container: `none` = `ValueError` -/
def squareGuard (r c : Nat) : Option Nat := if r = c then some r else none

/-! ## `report` -/

/-- `format(v, '0{n}b')`: bit `i` (0 = most significant of `n`) of `v` -/
def bitsMSB (n v : Nat) : Vec := fun i => if (v / 2 ^ (n - 1 - i)) % 2 = 1 then 1 else 0

/-- number of non-zero entries among `0..n-1 × 0..n-1` -/
def nnz (n : Nat) (M : Mat) : Nat :=
  ((List.range n).map fun i => ((List.range n).filter fun j => M i j ≠ 0).length).foldr (· + ·) 0

/-- scan state of `report`: best value, multiplicity, runner-up (least value seen strictly above the best) -/
structure Scan where
  opt : Rat
  cnt : Nat
  snd : Option Rat
deriving Repr

/-- one iteration of the loop body (tolerance taken as exact equality); rule for the runner-up as
    in the repaired code: lowered whenever a value strictly between `opt` and `snd` arrives -/
def Scan.step (s : Scan) (v : Rat) : Scan :=
  if v = s.opt then { s with cnt := s.cnt + 1 }
  else if v < s.opt then { opt := v, cnt := 1, snd := some s.opt }
  else match s.snd with
    | none => { s with snd := some v }
    | some w => if v < w then { s with snd := some v } else s

/-- the pinned (defective) rule: runner-up only set once -/
def Scan.stepPinned (s : Scan) (v : Rat) : Scan :=
  if v = s.opt then { s with cnt := s.cnt + 1 }
  else if v < s.opt then { opt := v, cnt := 1, snd := some s.opt }
  else match s.snd with
    | none => { s with snd := some v }
    | some _ => s

def scan (v0 : Rat) (vs : List Rat) : Scan := vs.foldl Scan.step ⟨v0, 1, none⟩
def scanPinned (v0 : Rat) (vs : List Rat) : Scan := vs.foldl Scan.stepPinned ⟨v0, 1, none⟩

structure Report where
  size : Nat
  nnzU : Nat
  density : Rat
  opt : Rat
  count : Nat
  mean : Rat
  gap : Option Rat

/-- values of the QUBO at assignments `v = 1 .. 2^n - 1` in the order the code visits them -/
def reportValues (n : Nat) (Q : Mat) (c : Rat) : List Rat :=
  (List.range (2 ^ n - 1)).map fun k => evalQubo n Q c (bitsMSB n (k + 1))

/-- `report(obj_stats=True)` (repaired rules: mean includes the all-zero assignment) -/
def report (n : Nat) (Q : Mat) (c : Rat) : Report :=
  let U := toUpper Q
  let k := nnz n U
  let vals := reportValues n Q c
  let s := scan c vals
  { size := n, nnzU := k, density := (2 * (k : Rat)) / (((n : Rat) + 1) * n),
    opt := s.opt, count := s.cnt,
    mean := sumList ((c :: vals).map fun v => v / (2 ^ n : Nat)),
    gap := s.snd.map fun w => w - s.opt }

end Vrp
