import VrpModel.ArcBased
/-!
# Dataflow model of the places where order / randomness enter model construction (C17)

* `MIRP.get_arc_based` collects the integer points of all finite windows plus `0` into a Python `set`, turns it
  into a list (iteration order of a set of floats is an implementation detail) and sorts it: `timeGrid`.
* `MIRP.get_path_based` re-seeds numpy's global generator with `0` before it samples routes; the sampler is a
  function of the generator state: `getPathBased`.
* `RandomMIRP.get_random_mirp(reset_seed)` draws the instance from the global generator, re-seeded with the
  explicit seed when `reset_seed` is set: `randomMirp`.
The generator is abstract (`Rng`, `seed`, a draw function): numpy's Mersenne Twister, scipy.stats and hash
randomisation are runtime components exercised by the subprocess test, not modelled.
-/
namespace Vrp

/-- de-duplicate (keep first occurrences) -/
def dedup (l : List Rat) : List Rat := l.eraseDups

/-- `timepoints = sorted(set(points + [0]))` for an arbitrary iteration order `perm` of the set -/
def timeGrid (pointsInSomeOrder : List Rat) : List Rat := sortRat (dedup pointsInSomeOrder)

/-- abstract global random generator -/
structure RngModel (Rng Out : Type) where
  seed : Nat → Rng
  /-- the route sampling of `get_path_based`: result and new generator state -/
  sample : Rng → Out × Rng

/-- `get_path_based`: whatever the incoming generator state, it is replaced by `seed 0` before sampling -/
def getPathBased {Rng Out : Type} (M : RngModel Rng Out) (_incoming : Rng) : Out × Rng := M.sample (M.seed 0)

/-- `RandomMIRP.get_random_mirp(reset_seed)` with an explicit seed -/
def randomMirp {Rng Out : Type} (M : RngModel Rng Out) (seed : Nat) (resetSeed : Bool) (incoming : Rng) : Out × Rng :=
  M.sample (if resetSeed then M.seed seed else incoming)

/-- a `RandomMIRP` object right after construction: `__post_init__` seeds the generator -/
def randomMirpFresh {Rng Out : Type} (M : RngModel Rng Out) (seed : Nat) (_incoming : Rng) : Out × Rng :=
  M.sample (M.seed seed)

end Vrp
