import VrpModel.Num
/-!
# Model of `tools/sampling.py` (sampler algebra) and of `examples/mirp_random.sample`

`E` are user expressions (a constant may sit on either side of every binary operator); `build`
reproduces the operator overloads (`__add__`, `__radd__`, `__sub__`, `__rsub__`, `__mul__`,
`__rmul__`, `__truediv__`, `__rtruediv__`, `__neg__`) and yields the sampler object tree `Smp`;
`rvs` is the `rvs(size)` method of each sampler class, in a state monad counting how often each
leaf has been drawn.
-/
namespace Vrp

/-- sampler objects as built by the operator overloads -/
inductive Smp where
  | leaf (i : Nat)
  | const (c : Rat)
  | neg (a : Smp)
  | sum (a b : Smp)
  | prod (a b : Smp)
  | ratio (a b : Smp)
deriving Repr

/-- user expressions -/
inductive E where
  | leaf (i : Nat)
  | neg (a : E)
  | addSS (a b : E) | addSC (a : E) (c : Rat) | addCS (c : Rat) (a : E)
  | subSS (a b : E) | subSC (a : E) (c : Rat) | subCS (c : Rat) (a : E)
  | mulSS (a b : E) | mulSC (a : E) (c : Rat) | mulCS (c : Rat) (a : E)
  | divSS (a b : E) | divSC (a : E) (c : Rat) | divCS (c : Rat) (a : E)
deriving Repr

/-- the operator overloads of `SimpleSampler` (with the repaired `__truediv__`: a real denominator is
    wrapped in a `ConstantSampler`) -/
def build : E → Smp
  | .leaf i => .leaf i
  | .neg a => .neg (build a)
  | .addSS a b => .sum (build a) (build b)
  | .addSC a c => .sum (build a) (.const c)
  | .addCS c a => .sum (.const c) (build a)
  | .subSS a b => .sum (build a) (.neg (build b))
  | .subSC a c => .sum (build a) (.neg (.const c))     -- repaired `__sub__`: the SAMPLER is negated (`-c` wraps for unsigned numpy scalars)
  | .subCS c a => .sum (.const c) (.neg (build a))
  | .mulSS a b => .prod (build a) (build b)
  | .mulSC a c => .prod (build a) (.const c)
  | .mulCS c a => .prod (.const c) (build a)
  | .divSS a b => .ratio (build a) (build b)
  | .divSC a c => .ratio (build a) (.const c)
  | .divCS c a => .ratio (.const c) (build a)

/-- draw state: how many times each leaf has been sampled so far -/
abbrev Cnt := Nat → Nat
def bump (σ : Cnt) (i : Nat) : Cnt := fun j => if j = i then σ j + 1 else σ j

/-- `rvs(m)`: `d i k` is the array (length `m`) returned by leaf `i` on its `k`-th call -/
def rvs (d : Nat → Nat → List Rat) (m : Nat) : Smp → Cnt → List Rat × Cnt
  | .leaf i, σ => (d i (σ i), bump σ i)
  | .const c, σ => (List.replicate m c, σ)
  | .neg a, σ => let r := rvs d m a σ; (r.1.map (fun x => -x), r.2)
  | .sum a b, σ => let r := rvs d m a σ; let s := rvs d m b r.2; (List.zipWith (· + ·) r.1 s.1, s.2)
  | .prod a b, σ => let r := rvs d m a σ; let s := rvs d m b r.2; (List.zipWith (· * ·) r.1 s.1, s.2)
  | .ratio a b, σ => let r := rvs d m a σ; let s := rvs d m b r.2; (List.zipWith (· / ·) r.1 s.1, s.2)

/-- the expression applied elementwise to the leaf draws, leaves drawn left to right -/
def evalE (d : Nat → Nat → List Rat) (m : Nat) : E → Cnt → List Rat × Cnt
  | .leaf i, σ => (d i (σ i), bump σ i)
  | .neg a, σ => let r := evalE d m a σ; (r.1.map (fun x => -x), r.2)
  | .addSS a b, σ => let r := evalE d m a σ; let s := evalE d m b r.2; (List.zipWith (· + ·) r.1 s.1, s.2)
  | .addSC a c, σ => let r := evalE d m a σ; (r.1.map (· + c), r.2)
  | .addCS c a, σ => let r := evalE d m a σ; (r.1.map (c + ·), r.2)
  | .subSS a b, σ => let r := evalE d m a σ; let s := evalE d m b r.2; (List.zipWith (· - ·) r.1 s.1, s.2)
  | .subSC a c, σ => let r := evalE d m a σ; (r.1.map (· - c), r.2)
  | .subCS c a, σ => let r := evalE d m a σ; (r.1.map (c - ·), r.2)
  | .mulSS a b, σ => let r := evalE d m a σ; let s := evalE d m b r.2; (List.zipWith (· * ·) r.1 s.1, s.2)
  | .mulSC a c, σ => let r := evalE d m a σ; (r.1.map (· * c), r.2)
  | .mulCS c a, σ => let r := evalE d m a σ; (r.1.map (c * ·), r.2)
  | .divSS a b, σ => let r := evalE d m a σ; let s := evalE d m b r.2; (List.zipWith (· / ·) r.1 s.1, s.2)
  | .divSC a c, σ => let r := evalE d m a σ; (r.1.map (· / c), r.2)
  | .divCS c a, σ => let r := evalE d m a σ; (r.1.map (c / ·), r.2)

/-- number of occurrences of leaf `i` in an expression -/
def E.occ (i : Nat) : E → Nat
  | .leaf j => if j = i then 1 else 0
  | .neg a => a.occ i
  | .addSS a b | .subSS a b | .mulSS a b | .divSS a b => a.occ i + b.occ i
  | .addSC a _ | .addCS _ a | .subSC a _ | .subCS _ a | .mulSC a _ | .mulCS _ a | .divSC a _ | .divCS _ a => a.occ i

/-- every denominator met while evaluating is non-zero at every element (numpy would give inf/nan) -/
def denomOK (d : Nat → Nat → List Rat) (m : Nat) : E → Cnt → Bool
  | .leaf _, _ => true
  | .neg a, σ => denomOK d m a σ
  | .addSS a b, σ | .subSS a b, σ | .mulSS a b, σ => denomOK d m a σ && denomOK d m b (evalE d m a σ).2
  | .divSS a b, σ =>
      denomOK d m a σ && denomOK d m b (evalE d m a σ).2 && (evalE d m b (evalE d m a σ).2).1.all (· ≠ 0)
  | .addSC a _, σ | .addCS _ a, σ | .subSC a _, σ | .subCS _ a, σ | .mulSC a _, σ | .mulCS _ a, σ => denomOK d m a σ
  | .divSC a c, σ => denomOK d m a σ && decide (c ≠ 0)
  | .divCS _ a, σ => denomOK d m a σ && (evalE d m a σ).1.all (· ≠ 0)

/-! ## `sample(vari, size)` of `examples/mirp_random.py` for non-random arguments -/
inductive Plain where
  | scalar (x : Rat)
  | seq (xs : List Rat)
deriving Repr, DecidableEq

/-- returns the object itself when its length matches, otherwise `ValueError` -/
def samplePlain (v : Plain) (size : Nat) : Except Unit Plain :=
  match v with
  | .scalar x => if size = 1 then .ok (.scalar x) else .error ()
  | .seq xs => if xs.length = size then .ok (.seq xs) else .error ()

end Vrp
