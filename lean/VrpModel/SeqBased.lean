import VrpModel.Graph
import VrpModel.Program
/-!
# Model of `formulations/sequence_based_rp.py`
-/
namespace Vrp

/-- decision tuple `(vehicle, position, node)` -/
abbrev STup := Nat × Nat × Nat

structure SeqInst where
  g : Graph
  strict : Bool
  V : Nat := 0                  -- `max_vehicles`
  L : Nat := 0                  -- `max_sequence_length`
  vcost : List Rat := []        -- `vehicle_cost`
deriving Repr

/-- `SequenceBasedRoutingProblem(vrptw, strict)`: deep copy; in strict mode the arcs are re-added through
    the strict `add_arc`; then the derived `set_depot` is applied to the first node (adds the self-arc) -/
def SeqInst.new (src : Graph) (strict : Bool) : SeqInst :=
  let g1 : Graph :=
    if strict then
      src.arcs.foldl (fun g e => (gstep (.seq true) g (.addArc e.2.orig e.2.dest e.2.time e.2.cost)).1)
        { src with arcs := [] }
    else src
  let g2 : Graph :=
    match g1.nodes.head? with
    | none => g1
    | some n0 => (gstep (.seq strict) g1 (.setDepot n0.name)).1
  { g := g2, strict := strict }

def SeqInst.setMaxVehicles (I : SeqInst) (v : Nat) : SeqInst := { I with V := v, vcost := List.replicate v 0 }
def SeqInst.setMaxSeqLen (I : SeqInst) (l : Nat) : SeqInst := { I with L := l }

/-- the six fixing rules of `enumerate_variables`, in code order (the same for every vehicle) -/
def SeqInst.fixed (I : SeqInst) (p n : Nat) : Option Rat :=
  if p = 0 ∧ n = 0 then some 1
  else if p = 0 then some 0
  else if p = 1 ∧ !I.g.hasArc 0 n then some 0
  else if p = I.L - 1 ∧ n = 0 then some 1
  else if p = I.L - 1 then some 0
  else if p = I.L - 2 ∧ !I.g.hasArc n 0 then some 0
  else none

/-- enumeration order: positions, then nodes, then vehicles -/
def SeqInst.vars (I : SeqInst) : List STup :=
  (List.range I.L).flatMap fun p =>
    (List.range I.g.nodes.length).flatMap fun n =>
      if (I.fixed p n).isSome then [] else (List.range I.V).map fun v => (v, p, n)

/-- `get_var_index` for a tuple inside the declared ranges -/
def SeqInst.varIndex (I : SeqInst) (u : STup) : Option Nat :=
  let k := I.vars.idxOf u
  if k < I.vars.length then some k else none

def SeqInst.varTuple (I : SeqInst) (k : Nat) : Option STup := I.vars[k]?

def SeqInst.vc (I : SeqInst) (v : Nat) : Rat := I.vcost.getD v 0

/-- `build_objective`: linear part (one variable fixed) and bilinear triples (both free) -/
def SeqInst.objective (I : SeqInst) : List Rat × List (Nat × Nat × Rat) :=
  let terms : List (Nat × Nat × Nat × Nat × Rat) :=          -- (v, p, ni, nj, coeff)
    (List.range I.V).flatMap fun v =>
      (List.range (I.L - 1)).flatMap fun p =>
        I.g.arcs.map fun e => (v, p, e.1.1, e.1.2, e.2.cost + I.vc v)
  let lin : List (Nat × Rat) := terms.filterMap fun (v, p, ni, nj, coeff) =>
    match I.varIndex (v, p, ni), I.varIndex (v, p + 1, nj) with
    | none, some k2 => some (k2, coeff * (I.fixed p ni).getD 0)
    | some k1, none => some (k1, coeff * (I.fixed (p + 1) nj).getD 0)
    | _, _ => none
  let quadT : List (Nat × Nat × Rat) := terms.filterMap fun (v, p, ni, nj, coeff) =>
    match I.varIndex (v, p, ni), I.varIndex (v, p + 1, nj) with
    | some k1, some k2 => some (k1, k2, coeff)
    | _, _ => none
  let n := I.vars.length
  ((List.range n).map fun k => sumList ((lin.filter fun e => e.1 = k).map (·.2)), quadT)

/-- `quadratic_constraint_logic`: `none` = an assertion of the code fails, `some none` = nothing to add -/
def SeqInst.quadLogic (I : SeqInst) (v p ni nj : Nat) : Option (Option (Nat × Nat)) :=
  match I.varIndex (v, p, ni), I.varIndex (v, p + 1, nj) with
  | none, none => if (I.fixed p ni).getD 0 * (I.fixed (p + 1) nj).getD 0 = 0 then some none else none
  | none, some _ => if (I.fixed p ni).getD 0 = 0 then some none else none
  | some _, none => if (I.fixed (p + 1) nj).getD 0 = 0 then some none else none
  | some k1, some k2 => some (some (k1, k2))

/-- `build_quadratic_constraints`: forbidden consecutive pairs, then depot absorption;
    `none` when one of the code's consistency assertions fails -/
def SeqInst.quadCons (I : SeqInst) : Option (List (Nat × Nat)) :=
  let N := I.g.nodes.length
  let forb : List (Nat × Nat × Nat × Nat) :=
    (List.range N).flatMap fun ni => (List.range N).flatMap fun nj =>
      if I.g.hasArc ni nj then [] else
        (List.range (I.L - 1)).flatMap fun p => (List.range I.V).map fun v => (v, p, ni, nj)
  let absorb : List (Nat × Nat × Nat × Nat) :=
    (List.range I.V).flatMap fun v => (List.range (I.L - 2)).flatMap fun p' =>
      (List.range (N - 1)).flatMap fun nj' =>
        if I.g.hasArc 0 (nj' + 1) then [(v, p' + 1, 0, nj' + 1)] else []
  (forb ++ absorb).foldl (fun acc (v, p, ni, nj) =>
    match acc, I.quadLogic v p ni nj with
    | some l, some (some e) => some (l ++ [e])
    | some l, some none => some l
    | _, _ => none) (some [])

/-- `build_linear_constraints`: customer-once rows, then one-node-per-(position, vehicle) rows;
    fixed variables are moved to the right-hand side -/
def SeqInst.linCons (I : SeqInst) : List (Nat × Nat × Rat) × List Rat :=
  let N := I.g.nodes.length
  let custRows : List (List STup) := (List.range (N - 1)).map fun k =>
    (List.range I.L).flatMap fun p => (List.range I.V).map fun v => (v, p, k + 1)
  let slotRows : List (List STup) := (List.range (I.L - 2)).flatMap fun p' =>
    (List.range I.V).map fun v => (List.range N).map fun n => (v, p' + 1, n)
  let rows := custRows ++ slotRows
  let idx := (List.range rows.length).zip rows
  (idx.flatMap fun (r, tuples) => tuples.filterMap fun u =>
      (I.varIndex u).map fun k => (r, k, (1 : Rat)),
   rows.map fun tuples => 1 - sumList (tuples.map fun u =>
      match I.varIndex u with | some _ => 0 | none => (I.fixed u.2.1 u.2.2).getD 0))

/-- all data of the constrained program; `none` when a consistency assertion of the code fails -/
def SeqInst.data (I : SeqInst) : Option MPData :=
  match I.quadCons with
  | none => none
  | some R =>
    let (A, b) := I.linCons
    let (c, Q) := I.objective
    some { n := I.vars.length, m := b.length, A := A, b := b, R := R, c := c, Qobj := Q }

/-- `get_sufficient_penalty(False)` (repaired: every vehicle's surcharge enters every move coefficient):
    `L · Σ_v Σ_arcs |cost + surcharge_v|` -/
def SeqInst.suffPenalty (I : SeqInst) : Rat :=
  (I.L : Rat) * sumList ((List.range I.V).flatMap fun v => I.g.arcs.map fun e => absR (e.2.cost + I.vc v))

/-- the pinned bound `L · V · Σ_arcs |cost|` (ignores surcharges) -/
def SeqInst.suffPenaltyPinned (I : SeqInst) : Rat :=
  (I.L : Rat) * (I.V : Rat) * sumList (I.g.arcs.map fun e => absR e.2.cost)

end Vrp

namespace Vrp

/-- lexicographic order on `(vehicle, position, node)` -/
def stupLe (a b : STup) : Bool :=
  a.1 < b.1 || (a.1 == b.1 && (a.2.1 < b.2.1 || (a.2.1 == b.2.1 && a.2.2 ≤ b.2.2)))

def insertS (x : STup) : List STup → List STup
  | [] => [x]
  | y :: ys => if stupLe x y then x :: y :: ys else y :: insertS x ys
def sortS (l : List STup) : List STup := l.foldr insertS []

/-- selected free variables of `x` -/
def SeqInst.selected (I : SeqInst) (x : List Rat) : List STup :=
  ((List.range x.length).zip x).filterMap fun (k, v) => if v = 0 then none else I.varTuple k

/-- tuples fixed to 1 (start and end at the depot), for every vehicle -/
def SeqInst.fixedOnes (I : SeqInst) : List STup :=
  (List.range I.L).flatMap fun p => (List.range I.g.nodes.length).flatMap fun n =>
    if I.fixed p n = some 1 then (List.range I.V).map fun v => (v, p, n) else []

/-- inner loop of `get_routes` for one vehicle: pops one tuple per position -/
def decodeVehicle (g : Graph) (v : Nat) : Nat → Nat → List STup → Option Nat → List Nat → Option (List STup × List Nat)
  | 0, _, ts, _, acc => some (ts, acc)
  | k + 1, p, ts, prev, acc =>
    match ts with
    | [] => none                                   -- `pop(0)` from an empty list: IndexError
    | t :: rest =>
      if t.1 ≠ v ∨ t.2.1 ≠ p then decodeVehicle g v k (p + 1) rest prev acc
      else
        match prev with
        | some q =>
          -- `if prev_node and not check_arc(...)`: a previous node 0 (the depot) is falsy in Python
          if q ≠ 0 ∧ !g.hasArc q t.2.2 then decodeVehicle g v k (p + 1) rest prev acc
          else decodeVehicle g v k (p + 1) rest (some t.2.2) (acc ++ [t.2.2])
        | none => decodeVehicle g v k (p + 1) rest (some t.2.2) (acc ++ [t.2.2])

/-- `get_routes(x)`: `.error .index` when the code would pop from an empty list -/
def SeqInst.decode (I : SeqInst) (x : List Rat) : Except Err (List (List Nat)) :=
  let sel := I.selected x
  if sel.isEmpty then .ok [] else
  let ts := sortS (sel ++ I.fixedOnes)
  let rec go (v : Nat) (fuel : Nat) (ts : List STup) (acc : List (List Nat)) : Except Err (List (List Nat)) :=
    match fuel with
    | 0 => .ok acc
    | fuel + 1 =>
      match decodeVehicle I.g v I.L 0 ts none [] with
      | none => .error .index
      | some (ts', r) => go (v + 1) fuel ts' (acc ++ [r])
  go 0 I.V ts []

/-! ### list-parameterised decoder

The same loops as `SeqInst.decode`, but on an explicitly given list of tuples (so that a caller can supply tuples
read from a CACHE instead of the ones recomputed from the instance).  `SeqInst.decode` itself is unchanged;
`VrpProofs/Lemmas/CacheFlags.lean: SeqInst.decode_eq_tuples` proves
`I.decode x = if (I.selected x).isEmpty then .ok [] else seqDecodeTuples I.g I.V I.L (I.selected x ++ I.fixedOnes)`. -/

/-- `for vi in range(self.max_vehicles):` on an already sorted tuple list (the loop `go` of `SeqInst.decode` with
    the graph and the sequence length as parameters) -/
def seqDecodeGo (g : Graph) (L : Nat) : Nat → Nat → List STup → List (List Nat) → Except Err (List (List Nat))
  | _, 0, _, acc => .ok acc
  | v, fuel + 1, ts, acc =>
    match decodeVehicle g v L 0 ts none [] with
    | none => .error .index
    | some (ts', r) => seqDecodeGo g L (v + 1) fuel ts' (acc ++ [r])

/-- `get_routes` from the point where `soln_var_tuples` (selected tuples followed by the tuples fixed to 1) is complete:
    lexicographic sort, then one pass per vehicle -/
def seqDecodeTuples (g : Graph) (V L : Nat) (ts : List STup) : Except Err (List (List Nat)) :=
  seqDecodeGo g L 0 V (sortS ts) []

end Vrp
