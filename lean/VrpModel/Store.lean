import VrpModel.Graph
/-!
# Object-store model of "one source, several formulations" (C16)

A MIRP (or a caller holding a VRPTW graph) owns the *source* graph; each formulation slot `k` is created on
first request from a deep copy of the source (`RoutingProblem.__init__`: `deepcopy`; the strict sequence
constructor then rebuilds its own arc dict inside its own copy) and cached; every later call addressed to slot
`k` (queries, `make_feasible`, `add_arc`, …) reads and writes that slot's own state only.  `σ` is the state
type of a formulation, `mk k` its constructor from (a copy of) the source, `act` the effect of a call.
That `deepcopy` really yields disjoint Python objects is runtime behaviour and is tested, not proved.
-/
namespace Vrp

structure World (σ : Type) where
  source : Graph
  slot : Nat → Option σ

inductive WOp (α : Type) where
  | get (k : Nat)                 -- `get_arc_based()` / `get_path_based()` / `get_sequence_based()` / constructor
  | act (k : Nat) (a : α)         -- any call on formulation `k`
deriving Repr

def WOp.target {α : Type} : WOp α → Nat
  | .get k => k
  | .act k _ => k

variable {σ α : Type}

def World.step (mk : Nat → Graph → σ) (act : σ → α → σ) (w : World σ) (op : WOp α) : World σ :=
  match op with
  | .get k =>
    match w.slot k with
    | some _ => w                                   -- cached: the same object is returned
    | none => { w with slot := fun j => if j = k then some (mk k w.source) else w.slot j }
  | .act k a =>
    match w.slot k with
    | none => w                                     -- no such object yet: nothing to call
    | some s => { w with slot := fun j => if j = k then some (act s a) else w.slot j }

def World.run (mk : Nat → Graph → σ) (act : σ → α → σ) (w : World σ) (ops : List (WOp α)) : World σ :=
  ops.foldl (World.step mk act) w

end Vrp

namespace Vrp

variable {σ α : Type}

/-- getters that may RAISE while they configure the new object (`mk? k src = none` stands for the exception:
    no travel arc for the sequence length, a heuristic that fails, …).  Repaired getters (fix ff3f4a7) keep the
    object only once it is completely built: a raising request leaves the world unchanged.  The boolean is
    "the call raised". -/
def World.stepP (mk? : Nat → Graph → Option σ) (act : σ → α → σ) (w : World σ) (op : WOp α) : World σ × Bool :=
  match op with
  | .get k =>
    match w.slot k with
    | some _ => (w, false)
    | none =>
      match mk? k w.source with
      | some s => ({ w with slot := fun j => if j = k then some s else w.slot j }, false)
      | none => (w, true)
  | .act k a =>
    match w.slot k with
    | none => (w, false)
    | some s => ({ w with slot := fun j => if j = k then some (act s a) else w.slot j }, false)

def World.runP (mk? : Nat → Graph → Option σ) (act : σ → α → σ) (w : World σ) (ops : List (WOp α)) : World σ :=
  ops.foldl (fun w op => (World.stepP mk? act w op).1) w

/-- the pinned getters: the object is stored BEFORE it is configured (`half k src` = what the constructor alone
    gives), so a raising request leaves it behind -/
def World.stepPinned (mk? : Nat → Graph → Option σ) (half : Nat → Graph → σ) (act : σ → α → σ)
    (w : World σ) (op : WOp α) : World σ × Bool :=
  match op with
  | .get k =>
    match w.slot k with
    | some _ => (w, false)
    | none =>
      match mk? k w.source with
      | some s => ({ w with slot := fun j => if j = k then some s else w.slot j }, false)
      | none => ({ w with slot := fun j => if j = k then some (half k w.source) else w.slot j }, true)
  | .act k a =>
    match w.slot k with
    | none => (w, false)
    | some s => ({ w with slot := fun j => if j = k then some (act s a) else w.slot j }, false)

end Vrp
