import VrpProofs.Lemmas.Sum
import VrpProofs.Lemmas.QuboAlgebra
import VrpProofs.Lemmas.QuboBridge
import VrpProofs.Props.C01
import VrpProofs.Props.C13
import VrpProofs.Lemmas.Bits
import VrpProofs.Props.C20
