import Mathlib.Algebra.Order.Field.Rat
import Mathlib.Data.Finset.Card
import Mathlib.Tactic.Linarith
import Mathlib.Data.List.Zip
import Mathlib.Data.List.Count
import Mathlib.Data.List.Basic

/-! prototypes (compile): chain-reaches-depot over a Finset of moves; counting lemmas for routes -/
namespace Vrp.P5
open Finset

open Finset

structure Move where
  i : Nat
  s : ℚ
  j : Nat
  t : ℚ
deriving DecidableEq

def Linked (a b : Move) : Prop := b.i = a.j ∧ b.s = a.t

/-- following successors inside `M` from `m` ends with a move into the depot -/
inductive ReachesDepot (M : Finset Move) : Move → Prop
  | done {m} : m ∈ M → m.j = 0 → ReachesDepot M m
  | step {m m'} : m ∈ M → m' ∈ M → Linked m m' → ReachesDepot M m' → ReachesDepot M m

theorem card_filter_one_unique {α} [DecidableEq α] (M : Finset α) (P : α → Prop) [DecidablePred P]
    (h : (M.filter P).card = 1) : ∃ a ∈ M, P a ∧ ∀ b ∈ M, P b → b = a := by
  obtain ⟨a, ha⟩ := Finset.card_eq_one.1 h
  have hmem : a ∈ M.filter P := by rw [ha]; simp
  rw [Finset.mem_filter] at hmem
  refine ⟨a, hmem.1, hmem.2, fun b hb hP => ?_⟩
  have : b ∈ M.filter P := Finset.mem_filter.2 ⟨hb, hP⟩
  rw [ha] at this; simpa using this

theorem arc_chain_reaches_depot (M : Finset Move)
    (hvisit : ∀ m ∈ M, 1 ≤ m.j → (M.filter (fun m' => m'.j = m.j)).card = 1)
    (hflow : ∀ m ∈ M, 1 ≤ m.j →
      (M.filter (fun m' => m'.j = m.j ∧ m'.t = m.t)).card
        = (M.filter (fun m' => m'.i = m.j ∧ m'.s = m.t)).card)
    (hpos : ∀ m ∈ M, 1 ≤ m.i → 1 ≤ m.j → m.s < m.t) :
    ∀ m ∈ M, ReachesDepot M m := by
  -- strong induction on the number of selected moves arriving strictly later
  suffices ∀ r : Nat, ∀ m ∈ M, (M.filter (fun m' => m.t < m'.t)).card = r → ReachesDepot M m from
    fun m hm => this _ m hm rfl
  intro r
  induction r using Nat.strong_induction_on with
  | _ r ih =>
    intro m hm hr
    by_cases hj : m.j = 0
    · exact ReachesDepot.done hm hj
    have hj1 : 1 ≤ m.j := Nat.one_le_iff_ne_zero.2 hj
    -- exactly one selected move arrives at (m.j, m.t)
    have hin : (M.filter (fun m' => m'.j = m.j ∧ m'.t = m.t)).card = 1 := by
      apply le_antisymm
      · calc (M.filter (fun m' => m'.j = m.j ∧ m'.t = m.t)).card
            ≤ (M.filter (fun m' => m'.j = m.j)).card :=
              Finset.card_le_card (fun x hx => by
                rw [Finset.mem_filter] at hx ⊢; exact ⟨hx.1, hx.2.1⟩)
          _ = 1 := hvisit m hm hj1
      · exact Finset.card_pos.2 ⟨m, Finset.mem_filter.2 ⟨hm, rfl, rfl⟩⟩
    have hout := hflow m hm hj1
    rw [hin] at hout
    obtain ⟨m', hm', ⟨hi', hs'⟩, _⟩ := card_filter_one_unique M _ hout.symm
    have hlink : Linked m m' := ⟨hi', hs'⟩
    by_cases hj' : m'.j = 0
    · exact ReachesDepot.step hm hm' hlink (ReachesDepot.done hm' hj')
    have hlt : m.t < m'.t := by
      have := hpos m' hm' (by rw [hi']; exact hj1) (Nat.one_le_iff_ne_zero.2 hj')
      rw [hs'] at this; exact this
    have hsub : (M.filter (fun x => m'.t < x.t)) ⊂ (M.filter (fun x => m.t < x.t)) := by
      rw [Finset.ssubset_iff_of_subset]
      · exact ⟨m', Finset.mem_filter.2 ⟨hm', hlt⟩, fun h => by
          rw [Finset.mem_filter] at h; exact absurd h.2 (lt_irrefl _)⟩
      · intro x hx; rw [Finset.mem_filter] at hx ⊢; exact ⟨hx.1, lt_trans hlt hx.2⟩
    have hcard := Finset.card_lt_card hsub
    rw [hr] at hcard
    exact ReachesDepot.step hm hm' hlink (ih _ hcard m' hm' rfl)

/-! moves of a route = consecutive stop pairs; counting lemmas used for arc-based completeness -/

variable {α : Type*} [DecidableEq α]

def movesOf (r : List α) : List (α × α) := r.zip r.tail

theorem movesOf_snd (r : List α) : (movesOf r).map Prod.snd = r.tail := by
  unfold movesOf
  rw [List.map_snd_zip]
  simp

theorem movesOf_fst (r : List α) : (movesOf r).map Prod.fst = r.dropLast := by
  unfold movesOf
  induction r with
  | nil => simp
  | cons a r ih =>
    cases r with
    | nil => simp
    | cons b r =>
      simp only [List.tail_cons, List.zip_cons_cons, List.map_cons, List.dropLast_cons₂] at ih ⊢
      congr 1

/-- number of moves arriving at stop `a` = occurrences of `a` after the first stop -/
theorem count_in (r : List α) (a : α) :
    ((movesOf r).filter (fun m => m.2 = a)).length = r.tail.count a := by
  rw [← movesOf_snd r, List.count_eq_length_filter, List.filter_map, List.length_map]
  congr 1

/-- number of moves leaving stop `a` = occurrences of `a` before the last stop -/
theorem count_out (r : List α) (a : α) :
    ((movesOf r).filter (fun m => m.1 = a)).length = r.dropLast.count a := by
  rw [← movesOf_fst r, List.count_eq_length_filter, List.filter_map, List.length_map]
  congr 1

/-- flow conservation at an interior stop value: if `a` is neither the first nor the last stop -/
theorem flow_balance (r : List α) (a : α) (hne : r ≠ [])
    (hfirst : r.head hne ≠ a) (hlast : r.getLast hne ≠ a) :
    ((movesOf r).filter (fun m => m.2 = a)).length = ((movesOf r).filter (fun m => m.1 = a)).length := by
  rw [count_in, count_out]
  have h1 : r.count a = r.tail.count a := by
    cases r with
    | nil => exact absurd rfl hne
    | cons b r => simp at hfirst; simp [List.count_cons, hfirst]
  have h2 : r.count a = r.dropLast.count a := by
    conv_lhs => rw [← List.dropLast_append_getLast hne]
    rw [List.count_append]
    simp [List.count_cons, hlast]
  omega

end Vrp.P5
