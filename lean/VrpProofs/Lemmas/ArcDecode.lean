import VrpProofs.Props.C05b
import Mathlib.Data.Prod.Lex
import Mathlib.Data.List.Nodup
import Mathlib.Data.List.Count
import Mathlib.Data.List.Zip

/-!
# Helper lemmas for C05c: the operational decoder of the arc-based model

* `atupLe` is a total preorder (the lexicographic order); `sortA` returns a sorted permutation,
* `popFirst` with a predicate that has a unique witness is `List.erase`,
* facts about chains of moves (strictly increasing departure times, predecessors / successors inside a chain),
* the invariant of the decoder loop (`Inv`): the remaining moves are a sorted union of whole routes.
-/
namespace Vrp.C05
open Vrp

/-! ### the lexicographic order and insertion sort -/

theorem atupLe_iff_lex (a b : ATup) : atupLe a b = true ↔
    toLex (a.1, toLex (a.2.1, toLex (a.2.2.1, a.2.2.2)))
      ≤ toLex (b.1, toLex (b.2.1, toLex (b.2.2.1, b.2.2.2))) := by
  simp [atupLe, Prod.Lex.toLex_le_toLex]

theorem atupLe_total {a b : ATup} (h : ¬ atupLe a b = true) : atupLe b a = true := by
  rw [atupLe_iff_lex] at *
  exact le_of_lt (not_le.1 h)

theorem atupLe_trans {a b c : ATup} (h1 : atupLe a b = true) (h2 : atupLe b c = true) :
    atupLe a c = true := by
  rw [atupLe_iff_lex] at *
  exact le_trans h1 h2

theorem atupLe_fst {a b : ATup} (h : atupLe a b = true) : a.1 ≤ b.1 := by
  simp only [atupLe, Bool.or_eq_true, decide_eq_true_eq, Bool.and_eq_true, beq_iff_eq] at h
  rcases h with h | ⟨h, _⟩
  · exact le_of_lt h
  · exact le_of_eq h

theorem insertA_perm (x : ATup) (l : List ATup) : (insertA x l).Perm (x :: l) := by
  induction l with
  | nil => simp [insertA]
  | cons y ys ih =>
    simp only [insertA]
    split_ifs
    · exact List.Perm.refl _
    · exact (List.Perm.cons y ih).trans (List.Perm.swap x y ys)

theorem insertA_sorted (x : ATup) (l : List ATup) (h : l.Pairwise (fun a b => atupLe a b = true)) :
    (insertA x l).Pairwise (fun a b => atupLe a b = true) := by
  induction l with
  | nil => simp [insertA]
  | cons y ys ih =>
    rw [List.pairwise_cons] at h
    simp only [insertA]
    split_ifs with hxy
    · refine List.pairwise_cons.2 ⟨?_, List.pairwise_cons.2 h⟩
      intro z hz
      rcases List.mem_cons.1 hz with rfl | hz
      · exact hxy
      · exact atupLe_trans hxy (h.1 z hz)
    · refine List.pairwise_cons.2 ⟨?_, ih h.2⟩
      intro z hz
      have hz' := (insertA_perm x ys).mem_iff.1 hz
      rcases List.mem_cons.1 hz' with rfl | hz'
      · exact atupLe_total hxy
      · exact h.1 z hz'

theorem sortA_sorted_perm (l : List ATup) :
    (sortA l).Pairwise (fun a b => atupLe a b = true) ∧ (sortA l).Perm l := by
  unfold sortA
  induction l with
  | nil => simp
  | cons x xs ih =>
    simp only [List.foldr_cons]
    exact ⟨insertA_sorted x _ ih.1, (insertA_perm x _).trans (List.Perm.cons x ih.2)⟩

/-! ### `popFirst` -/

theorem popFirst_eq_erase {α : Type} [BEq α] [LawfulBEq α] (p : α → Bool) :
    ∀ (ts : List α) (b : α), b ∈ ts → p b = true → (∀ c ∈ ts, p c = true → c = b) →
      popFirst p ts = some (b, ts.erase b) := by
  intro ts
  induction ts with
  | nil => intro b h; simp at h
  | cons a l ih =>
    intro b h hp hu
    by_cases hpa : p a = true
    · have hab := hu a List.mem_cons_self hpa
      subst hab
      simp [popFirst, hpa]
    · have hab : a ≠ b := fun e => hpa (e ▸ hp)
      have hb : b ∈ l := (List.mem_cons.1 h).resolve_left (Ne.symm hab)
      have := ih b hb hp (fun c hc => hu c (List.mem_cons_of_mem _ hc))
      simp [popFirst, hpa, this, List.erase_cons_tail, hab]

/-! ### chains -/

/-- along a chain inside `S` (customer-to-customer moves take positive time) every later move leaves a
    customer, not before the first move arrives, and the later moves have strictly increasing departure times -/
theorem chain_times (S : List ATup)
    (hlt : ∀ u ∈ S, u.1 ≠ 0 → u.2.2.1 ≠ 0 → u.2.1 < u.2.2.2) :
    ∀ (r : List ATup) (m : ATup), IsChain (m :: r) → (∀ u ∈ r, u ∈ S) →
      (∀ u ∈ r, m.2.2.2 ≤ u.2.1 ∧ u.1 ≠ 0) ∧ r.Pairwise (fun a b => a.2.1 < b.2.1) := by
  intro r
  induction r with
  | nil => intro m _ _; simp
  | cons b r ih =>
    intro m hch hall
    obtain ⟨hlink, hj, hch'⟩ := hch
    obtain ⟨h1, h2⟩ := ih b hch' (fun u hu => hall u (List.mem_cons_of_mem _ hu))
    have hb1 : b.1 ≠ 0 := by rw [hlink.1]; exact hj
    have key : ∀ u ∈ r, b.2.1 < u.2.1 := by
      intro u hu
      have hbj : b.2.2.1 ≠ 0 := by
        cases r with
        | nil => simp at hu
        | cons c r' => exact hch'.2.1
      have := hlt b (hall b List.mem_cons_self) hb1 hbj
      exact lt_of_lt_of_le this (h1 u hu).1
    refine ⟨?_, List.pairwise_cons.2 ⟨key, h2⟩⟩
    intro u hu
    rcases List.mem_cons.1 hu with rfl | hu
    · exact ⟨le_of_eq hlink.2.symm, hb1⟩
    · exact ⟨by rw [← hlink.2]; exact le_of_lt (key u hu), (h1 u hu).2⟩

/-- a chain that starts at the depot has no repeated move -/
theorem chain_nodup (S : List ATup)
    (hlt : ∀ u ∈ S, u.1 ≠ 0 → u.2.2.1 ≠ 0 → u.2.1 < u.2.2.2)
    (r : List ATup) (m : ATup) (hch : IsChain (m :: r)) (hall : ∀ u ∈ r, u ∈ S) (hm : m.1 = 0) :
    (m :: r).Nodup := by
  obtain ⟨h1, h2⟩ := chain_times S hlt r m hch hall
  refine List.nodup_cons.2 ⟨fun hmr => (h1 m hmr).2 hm, h2.imp ?_⟩
  intro a b hab e
  rw [e] at hab
  exact lt_irrefl _ hab

/-- every move of a chain but the first has a predecessor in the chain -/
theorem chain_pred : ∀ (r : List ATup) (m : ATup), IsChain (m :: r) →
    ∀ c ∈ r, ∃ a ∈ m :: r, Linked a c := by
  intro r
  induction r with
  | nil => intro m _ c hc; simp at hc
  | cons b r ih =>
    intro m hch c hc
    obtain ⟨hlink, _, hch'⟩ := hch
    rcases List.mem_cons.1 hc with rfl | hc
    · exact ⟨m, List.mem_cons_self, hlink⟩
    · obtain ⟨a, ha, hl⟩ := ih b hch' c hc
      exact ⟨a, List.mem_cons_of_mem _ ha, hl⟩

/-- every move of a chain ending at the depot that arrives at a customer has a successor in the chain -/
theorem chain_succ : ∀ (r : List ATup) (m : ATup), IsChain (m :: r) →
    ((m :: r).getLast (List.cons_ne_nil _ _)).2.2.1 = 0 →
    ∀ c ∈ m :: r, c.2.2.1 ≠ 0 → ∃ a ∈ r, Linked c a := by
  intro r
  induction r with
  | nil =>
    intro m _ hlast c hc hj
    rw [List.mem_singleton] at hc
    subst hc
    exact absurd (by simpa using hlast) hj
  | cons b r ih =>
    intro m hch hlast c hc hj
    obtain ⟨hlink, _, hch'⟩ := hch
    rw [List.getLast_cons (List.cons_ne_nil _ _)] at hlast
    rcases List.mem_cons.1 hc with rfl | hc
    · exact ⟨b, List.mem_cons_self, hlink⟩
    · obtain ⟨a, ha, hl⟩ := ih b hch' hlast c hc hj
      exact ⟨a, List.mem_cons_of_mem _ ha, hl⟩

/-! ### the loop invariant -/

/-- what the decoder needs to know about the set `S` of selected moves -/
structure Good (S : List ATup) : Prop where
  lt : ∀ u ∈ S, u.1 ≠ 0 → u.2.2.1 ≠ 0 → u.2.1 < u.2.2.2
  succE : ∀ a ∈ S, a.2.2.1 ≠ 0 → ∃ c ∈ S, Linked a c
  succU : ∀ a ∈ S, a.2.2.1 ≠ 0 → ∀ c ∈ S, Linked a c → ∀ c' ∈ S, Linked a c' → c = c'
  predE : ∀ c ∈ S, c.1 ≠ 0 → ∃ a ∈ S, Linked a c
  predU : ∀ c ∈ S, c.1 ≠ 0 → ∀ a ∈ S, Linked a c → ∀ a' ∈ S, Linked a' c → a = a'

/-- the remaining moves: sorted, duplicate-free part of `S`, closed under successors and predecessors -/
structure Inv (S ts : List ATup) : Prop where
  sorted : ts.Pairwise (fun a b => atupLe a b = true)
  nodup : ts.Nodup
  sub : ∀ u ∈ ts, u ∈ S
  succ : ∀ u ∈ ts, u.2.2.1 ≠ 0 → ∀ c ∈ S, Linked u c → c ∈ ts
  pred : ∀ u ∈ ts, u.1 ≠ 0 → ∀ c ∈ S, Linked c u → c ∈ ts

/-- (a) the first remaining move leaves the depot -/
theorem Inv.head_depot {S : List ATup} (hg : Good S) {m : ATup} {rest : List ATup}
    (hi : Inv S (m :: rest)) : m.1 = 0 := by
  by_contra hm
  have hpred : ∀ u ∈ m :: rest, u.1 ≠ 0 → ∃ c ∈ m :: rest, Linked c u := by
    intro u hu h0
    obtain ⟨c, hc, hl⟩ := hg.predE u (hi.sub u hu) h0
    exact ⟨c, hi.pred u hu h0 c hc hl, hl⟩
  have hlt : ∀ u ∈ m :: rest, u.1 ≠ 0 → u.2.2.1 ≠ 0 → u.2.1 < u.2.2.2 :=
    fun u hu => hg.lt u (hi.sub u hu)
  obtain ⟨r, hne, _, hhead, _, _, hall⟩ :=
    bwd_chain (m :: rest) hpred hlt m List.mem_cons_self [] trivial (by simp)
  have hmem := hall _ (List.head_mem hne)
  rcases List.mem_cons.1 hmem with e | hmem
  · exact hm (e ▸ hhead)
  · have := atupLe_fst ((List.pairwise_cons.1 hi.sorted).1 _ hmem)
    omega

/-- (b)+(c) the route of the first remaining move: a chain inside the remaining moves that ends at the
    depot; removing it keeps the invariant -/
theorem Inv.step {S : List ATup} (hg : Good S) {m : ATup} {rest : List ATup}
    (hi : Inv S (m :: rest)) :
    ∃ r, IsChain (m :: r) ∧ m.1 = 0 ∧ ((m :: r).getLast (List.cons_ne_nil _ _)).2.2.1 = 0 ∧
      (m :: r).Nodup ∧ (∀ u ∈ r, u ∈ rest) ∧ Inv S (rest.diff r) := by
  have hm0 := hi.head_depot hg
  have hsucc : ∀ u ∈ m :: rest, u.2.2.1 ≠ 0 → ∃ c ∈ m :: rest, Linked u c := by
    intro u hu h0
    obtain ⟨c, hc, hl⟩ := hg.succE u (hi.sub u hu) h0
    exact ⟨c, hi.succ u hu h0 c hc hl, hl⟩
  have hlt : ∀ u ∈ m :: rest, u.1 ≠ 0 → u.2.2.1 ≠ 0 → u.2.1 < u.2.2.2 :=
    fun u hu => hg.lt u (hi.sub u hu)
  obtain ⟨r, hch, hlast, hall⟩ := fwd_chain (m :: rest) hsucc hlt m List.mem_cons_self
  have hnd := chain_nodup (m :: rest) hlt r m hch hall hm0
  have hrest : ∀ u ∈ r, u ∈ rest := by
    intro u hu
    rcases List.mem_cons.1 (hall u hu) with e | h
    · exact absurd (e ▸ hu) (List.nodup_cons.1 hnd).1
    · exact h
  have hndrest := (List.nodup_cons.1 hi.nodup).2
  have hmem : ∀ u, u ∈ rest.diff r ↔ u ∈ m :: rest ∧ u ∉ m :: r := by
    intro u
    rw [hndrest.mem_sdiff_iff]
    constructor
    · rintro ⟨h1, h2⟩
      refine ⟨List.mem_cons_of_mem _ h1, fun h => ?_⟩
      rcases List.mem_cons.1 h with e | h
      · exact (List.nodup_cons.1 hi.nodup).1 (e ▸ h1)
      · exact h2 h
    · rintro ⟨h1, h2⟩
      refine ⟨?_, fun h => h2 (List.mem_cons_of_mem _ h)⟩
      rcases List.mem_cons.1 h1 with e | h
      · exact absurd (e ▸ List.mem_cons_self) h2
      · exact h
  have hallS : ∀ u ∈ m :: r, u ∈ S := by
    intro u hu
    rcases List.mem_cons.1 hu with e | h
    · exact e ▸ hi.sub m List.mem_cons_self
    · exact hi.sub u (hall u h)
  refine ⟨r, hch, hm0, hlast, hnd, hrest, ?_⟩
  have hsub : (rest.diff r).Sublist (m :: rest) :=
    (List.diff_sublist rest r).trans (List.sublist_cons_self _ _)
  refine ⟨hi.sorted.sublist hsub, hi.nodup.sublist hsub, fun u hu => hi.sub u (hsub.subset hu), ?_, ?_⟩
  · intro u hu hj c hc hl
    obtain ⟨hu1, hu2⟩ := (hmem u).1 hu
    refine (hmem c).2 ⟨hi.succ u hu1 hj c hc hl, fun hcr => ?_⟩
    have hc1 : c.1 ≠ 0 := by rw [hl.1]; exact hj
    rcases List.mem_cons.1 hcr with e | hcr
    · exact hc1 (e ▸ hm0)
    · obtain ⟨a, ha, hla⟩ := chain_pred r m hch c hcr
      have := hg.predU c hc hc1 u (hi.sub u hu1) hl a (hallS a ha) hla
      exact hu2 (this ▸ ha)
  · intro u hu h0 c hc hl
    obtain ⟨hu1, hu2⟩ := (hmem u).1 hu
    refine (hmem c).2 ⟨hi.pred u hu1 h0 c hc hl, fun hcr => ?_⟩
    have hcj : c.2.2.1 ≠ 0 := by rw [← hl.1]; exact h0
    obtain ⟨a, ha, hla⟩ := chain_succ r m hch hlast c hcr hcj
    have := hg.succU c hc hcj u (hi.sub u hu1) hl a (hallS a (List.mem_cons_of_mem _ ha)) hla
    exact hu2 (List.mem_cons_of_mem _ (this ▸ ha))

/-- the route together with the moves that remain is a rearrangement of the moves before the step -/
theorem perm_route_diff {m : ATup} {r rest : List ATup} (hnd : r.Nodup) (hsub : ∀ u ∈ r, u ∈ rest) :
    ((m :: r) ++ rest.diff r).Perm (m :: rest) := by
  rw [List.cons_append]
  refine List.Perm.cons m (List.subperm_append_diff_self_of_count_le ?_)
  intro x hx
  rw [List.count_eq_one_of_mem hnd hx]
  exact List.count_pos_iff.2 (hsub x hx)

end Vrp.C05
