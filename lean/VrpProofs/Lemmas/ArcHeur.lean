import VrpModel.Heuristics
import VrpProofs.Props.C05b
import VrpProofs.Lemmas.SeqHeur

/-! helper lemmas for the operational model of the arc-based construction heuristic
    (`ArcInst.makeFeasible`): the greedy route of one vehicle, the fold invariants, the frame facts -/
namespace Vrp.ArcHeur
open Vrp

/-! ### the pieces of `ArcInst.makeFeasible`, named -/

/-- one step of the `best` scan of `arcRoute` -/
def bestStep (I : ArcInst) (cur : Nat) (time : Rat) (b : Option (Nat × Rat)) (n : Nat) : Option (Nat × Rat) :=
  if I.g.hasArc cur n then
    match I.arrival time cur n with
    | none => b
    | some arr =>
      let bound : ERat := match b with
        | none => I.g.hi n
        | some (_, ba) => (match I.g.hi n with | none => some ba | some h => some (minR h ba))
      if leE arr bound then some (n, arr) else b
  else b

theorem arcRoute_succ (I : ArcInst) (fuel cur : Nat) (time : Rat) (unv : List Nat) (used : List ATup) :
    arcRoute I (fuel + 1) cur time unv used =
      match unv.foldl (bestStep I cur time) none with
      | some (n, arr) => arcRoute I fuel n arr (unv.erase n) (used ++ [(cur, time, n, arr)])
      | none =>
        if cur = 0 then .ok (unv, used)
        else if !I.g.hasArc cur 0 then .error .assert
        else match I.arrival time cur 0 with
          | none => .error .assert
          | some arr => .ok (unv, used ++ [(cur, time, 0, arr)]) := rfl

def vehStep (I : ArcInst) (t0 : Rat) (acc : Except Err (List Nat × List ATup)) (_ : Nat) :
    Except Err (List Nat × List ATup) :=
  match acc with
  | .error e => .error e
  | .ok (unv, used) => arcRoute I (I.g.nodes.length + 1) 0 t0 unv used

def dummyStep (t0 high : Rat) (acc : Except Err (ArcInst × List ATup)) (n : Nat) :
    Except Err (ArcInst × List ATup) :=
  match acc with
  | .error e => .error e
  | .ok (J, used) =>
    if J.g.hasArc 0 n then .error .assert else
    let a := gstep .base J.g (.addArc (nameOf J.g 0) (nameOf J.g n) 0 high)
    match a.2 with
    | .ok (some true) =>
      let J1 : ArcInst := { J with g := a.1 }
      match J1.arrival t0 0 n with
      | none => .error .assert
      | some arr =>
        let g2 : Except Err Graph := if J1.g.hasArc n 0 then Except.ok J1.g else
          (match gstep .base J1.g (.addArc (nameOf J1.g n) (nameOf J1.g 0) 0 high) with
           | (g', .ok (some true)) => Except.ok g'
           | _ => Except.error Err.assert)
        match g2 with
        | .error e => .error e
        | .ok g2 =>
          let J2 : ArcInst := { J1 with g := g2 }
          match J2.arrival arr n 0 with
          | none => .error .assert
          | some arr2 => .ok (J2, used ++ [(0, t0, n, arr), (n, arr, 0, arr2)])
    | _ => .error .assert

def idxStep (J : ArcInst) (acc : Option (List Nat)) (u : ATup) : Option (List Nat) :=
  match acc, J.varIndex u with
  | some l, some k => some (l ++ [k])
  | _, _ => none

def unv0 (I : ArcInst) : List Nat := (List.range (I.g.nodes.length - 1)).map (· + 1)

theorem makeFeasible_eq (I : ArcInst) (high : Rat) :
    I.makeFeasible high =
      match I.T.head? with
      | none => .error .index
      | some t0 =>
        match (List.range I.g.estimateMaxVehicles).foldl (vehStep I t0) (.ok (unv0 I, [])) with
        | .error e => .error e
        | .ok (unv, used) =>
          match unv.foldl (dummyStep t0 high) (.ok (I, used)) with
          | .error e => .error e
          | .ok (J, used) =>
            match used.foldl (idxStep J) (some []) with
            | none => .error .value
            | some idxs => .ok (J, (List.range J.vars.length).map fun k => if k ∈ idxs then 1 else 0) := rfl

theorem makeFeasible_ok {I : ArcInst} {high : Rat} {J : ArcInst} {sol : List Rat}
    (h : I.makeFeasible high = .ok (J, sol)) :
    ∃ (t0 : Rat) (unv : List Nat) (used1 used : List ATup) (idxs : List Nat),
      I.T.head? = some t0 ∧
      (List.range I.g.estimateMaxVehicles).foldl (vehStep I t0) (.ok (unv0 I, [])) = .ok (unv, used1) ∧
      unv.foldl (dummyStep t0 high) (.ok (I, used1)) = .ok (J, used) ∧
      used.foldl (idxStep J) (some []) = some idxs ∧
      sol = (List.range J.vars.length).map fun k => if k ∈ idxs then 1 else 0 := by
  rw [makeFeasible_eq] at h
  split at h
  · cases h
  · next t0 ht0 =>
    split at h
    · cases h
    · next unv used1 h1 =>
      split at h
      · cases h
      · next J' used h2 =>
        split at h
        · cases h
        · next idxs h3 =>
          simp only [Except.ok.injEq, Prod.mk.injEq] at h
          obtain ⟨rfl, rfl⟩ := h
          exact ⟨t0, unv, used1, used, idxs, ht0, h1, h2, h3, rfl⟩

/-! ### the greedy route of one vehicle -/

theorem bestStep_cases (I : ArcInst) (cur : Nat) (time : Rat) (b : Option (Nat × Rat)) (n : Nat) :
    bestStep I cur time b n = b ∨ ∃ arr, bestStep I cur time b n = some (n, arr) := by
  unfold bestStep
  split_ifs
  · split
    · exact Or.inl rfl
    · next arr _ =>
      dsimp only
      split_ifs
      · exact Or.inr ⟨arr, rfl⟩
      · exact Or.inl rfl
  · exact Or.inl rfl

theorem foldl_pick_mem {f : Option (Nat × Rat) → Nat → Option (Nat × Rat)}
    (hf : ∀ b n, f b n = b ∨ ∃ arr, f b n = some (n, arr)) :
    ∀ (l : List Nat) (b0 : Option (Nat × Rat)) (p : Nat × Rat),
      l.foldl f b0 = some p → b0 = some p ∨ p.1 ∈ l := by
  intro l
  induction l with
  | nil => intro b0 p h; exact Or.inl h
  | cons x l ih =>
    intro b0 p h
    rw [List.foldl_cons] at h
    rcases ih _ p h with h1 | h1
    · rcases hf b0 x with h2 | ⟨arr, h2⟩
      · left; rw [← h2]; exact h1
      · right; rw [h2] at h1; cases h1; exact List.mem_cons_self
    · right; exact List.mem_cons_of_mem _ h1

/-- the moves of a (partial) route that is at `cur` at time `time` and still serves the customers `cs` -/
def Seg : Nat → Rat → List Nat → List ATup → Prop
  | cur, time, [], seg => (cur = 0 ∧ seg = []) ∨ (cur ≠ 0 ∧ ∃ arr, seg = [(cur, time, 0, arr)])
  | cur, time, n :: cs, seg => ∃ arr seg', seg = (cur, time, n, arr) :: seg' ∧ Seg n arr cs seg'

theorem arcRoute_spec (I : ArcInst) : ∀ (fuel cur : Nat) (time : Rat) (unv : List Nat) (used : List ATup)
    (unv' : List Nat) (used' : List ATup), unv.length < fuel →
    arcRoute I fuel cur time unv used = .ok (unv', used') →
    ∃ cs seg, used' = used ++ seg ∧ unv.Perm (cs ++ unv') ∧ Seg cur time cs seg := by
  intro fuel
  induction fuel with
  | zero => intro _ _ _ _ _ _ hl; omega
  | succ fuel ih =>
    intro cur time unv used unv' used' hl h
    rw [arcRoute_succ] at h
    split at h
    · next n arr hb =>
      have hmem : n ∈ unv := by
        rcases foldl_pick_mem (bestStep_cases I cur time) unv none (n, arr) hb with h1 | h1
        · cases h1
        · exact h1
      have hpos := List.length_pos_of_mem hmem
      obtain ⟨cs, seg, h1, h2, h3⟩ := ih n arr (unv.erase n) _ unv' used'
        (by rw [List.length_erase_of_mem hmem]; omega) h
      refine ⟨n :: cs, (cur, time, n, arr) :: seg, by rw [h1]; simp, ?_, arr, seg, rfl, h3⟩
      exact (List.perm_cons_erase hmem).trans (List.Perm.cons n h2)
    · split_ifs at h with h0 ha
      · cases h; exact ⟨[], [], by simp, List.Perm.refl _, Or.inl ⟨h0, rfl⟩⟩
      · split at h
        · cases h
        · next arr _ => cases h; exact ⟨[], [_], rfl, List.Perm.refl _, Or.inr ⟨h0, arr, rfl⟩⟩

/-! ### customer destinations and return origins of a list of moves -/

def dests (l : List ATup) : List Nat := (l.filter fun u => decide (u.2.2.1 ≠ 0)).map (·.2.2.1)
def rets (l : List ATup) : List Nat := (l.filter fun u => decide (u.2.2.1 = 0)).map (·.1)

theorem dests_nil : dests [] = [] := rfl
theorem rets_nil : rets [] = [] := rfl

theorem dests_append (a b : List ATup) : dests (a ++ b) = dests a ++ dests b := by
  simp [dests, List.filter_append]

theorem rets_append (a b : List ATup) : rets (a ++ b) = rets a ++ rets b := by
  simp [rets, List.filter_append]

theorem dests_cons_ne (u : ATup) (l : List ATup) (h : u.2.2.1 ≠ 0) : dests (u :: l) = u.2.2.1 :: dests l := by
  simp [dests, h]

theorem dests_cons_eq (u : ATup) (l : List ATup) (h : u.2.2.1 = 0) : dests (u :: l) = dests l := by
  simp [dests, h]

theorem rets_cons_ne (u : ATup) (l : List ATup) (h : u.2.2.1 ≠ 0) : rets (u :: l) = rets l := by
  simp [rets, h]

theorem rets_cons_eq (u : ATup) (l : List ATup) (h : u.2.2.1 = 0) : rets (u :: l) = u.1 :: rets l := by
  simp [rets, h]

theorem seg_facts : ∀ (cs : List Nat) (cur : Nat) (time : Rat) (seg : List ATup),
    Seg cur time cs seg → 0 ∉ cs →
    C05.IsChain seg ∧ dests seg = cs ∧ (rets seg).length ≤ 1 ∧
    (∀ c ∈ rets seg, (c = cur ∧ cur ≠ 0) ∨ c ∈ cs) ∧
    (cur ≠ 0 ∨ cs ≠ [] → seg ≠ []) ∧
    (∀ h : seg ≠ [], (seg.head h).1 = cur ∧ (seg.head h).2.1 = time ∧ (seg.getLast h).2.2.1 = 0) := by
  intro cs
  induction cs with
  | nil =>
    intro cur time seg hs _
    rcases hs with ⟨h0, rfl⟩ | ⟨h0, arr, rfl⟩
    · refine ⟨trivial, rfl, by simp [rets_nil], by simp [rets_nil], ?_, fun h => absurd rfl h⟩
      rintro (h | h)
      · exact absurd h0 h
      · exact absurd rfl h
    · refine ⟨trivial, ?_, ?_, ?_, fun _ => by simp, fun _ => by simp⟩
      · rw [dests_cons_eq _ _ rfl, dests_nil]
      · rw [rets_cons_eq _ _ rfl, rets_nil]; simp
      · rw [rets_cons_eq _ _ rfl, rets_nil]
        intro c hc
        simp only [List.mem_singleton] at hc
        exact Or.inl ⟨hc, h0⟩
  | cons n cs ih =>
    intro cur time seg hs h0
    obtain ⟨arr, seg', rfl, hs'⟩ := hs
    have hn : n ≠ 0 := fun h => h0 (by simp [h])
    have h0' : 0 ∉ cs := fun h => h0 (List.mem_cons_of_mem _ h)
    obtain ⟨a1, a2, a3, a4, a5, a6⟩ := ih n arr seg' hs' h0'
    have hne : seg' ≠ [] := a5 (Or.inl hn)
    obtain ⟨b1, b2, b3⟩ := a6 hne
    refine ⟨?_, ?_, ?_, ?_, fun _ => by simp, fun _ => ⟨by simp, by simp, ?_⟩⟩
    · cases seg' with
      | nil => exact absurd rfl hne
      | cons b rest =>
        simp only [List.head_cons] at b1 b2
        exact ⟨⟨b1, b2⟩, hn, a1⟩
    · rw [dests_cons_ne _ _ hn, a2]
    · rw [rets_cons_ne _ _ hn]; exact a3
    · rw [rets_cons_ne _ _ hn]
      intro c hc
      rcases a4 c hc with ⟨h1, _⟩ | h1
      · exact Or.inr (by simp [h1])
      · exact Or.inr (List.mem_cons_of_mem _ h1)
    · rw [List.getLast_cons hne]; exact b3

/-! ### the invariant of the two construction folds -/

structure GInv (U unv : List Nat) (used : List ATup) : Prop where
  routes : ∃ R : List (List ATup), used = R.flatten ∧ ∀ r ∈ R, C05.IsDepotRoute r
  perm : (dests used ++ unv).Perm U
  retsNodup : (rets used).Nodup
  retsSub : ∀ c ∈ rets used, c ∈ dests used

theorem GInv.init (U : List Nat) : GInv U U [] :=
  ⟨⟨[], rfl, fun r hr => by cases hr⟩, by simp [dests_nil], by simp [rets_nil], by simp [rets_nil]⟩

theorem nodup_of_length_le_one {α : Type} (l : List α) (h : l.length ≤ 1) : l.Nodup := by
  match l, h with
  | [], _ => exact List.nodup_nil
  | [a], _ => exact List.nodup_singleton a
  | _ :: _ :: _, h => simp at h

theorem GInv.push {U unv unv' : List Nat} {used seg : List ATup} {t0 : Rat} {cs : List Nat}
    (h : GInv U unv used) (hU : U.Nodup) (h0 : 0 ∉ U) (hseg : Seg 0 t0 cs seg)
    (hp : unv.Perm (cs ++ unv')) : GInv U unv' (used ++ seg) := by
  have hcsU : ∀ c ∈ cs, c ∈ unv := fun c hc => hp.mem_iff.2 (List.mem_append_left _ hc)
  have hunvU : ∀ c ∈ unv, c ∈ U := fun c hc => h.perm.mem_iff.1 (List.mem_append_right _ hc)
  have h0cs : 0 ∉ cs := fun hc => h0 (hunvU 0 (hcsU 0 hc))
  obtain ⟨a1, a2, a3, a4, a5, a6⟩ := seg_facts cs 0 t0 seg hseg h0cs
  have hnd : (dests used ++ unv).Nodup := h.perm.nodup_iff.2 hU
  have a4' : ∀ c ∈ rets seg, c ∈ cs := by
    intro c hc
    rcases a4 c hc with ⟨_, h1⟩ | h1
    · exact absurd rfl h1
    · exact h1
  refine ⟨?_, ?_, ?_, ?_⟩
  · obtain ⟨R, hR, hRr⟩ := h.routes
    by_cases hne : seg = []
    · exact ⟨R, by rw [hne, List.append_nil]; exact hR, hRr⟩
    · refine ⟨R ++ [seg], by rw [hR]; simp, ?_⟩
      intro r hr
      rcases List.mem_append.1 hr with hr | hr
      · exact hRr r hr
      · simp only [List.mem_singleton] at hr
        subst hr
        obtain ⟨b1, _, b3⟩ := a6 hne
        exact ⟨hne, a1, b1, b3⟩
  · rw [dests_append, a2, List.append_assoc]
    exact (List.Perm.append_left _ hp.symm).trans h.perm
  · rw [rets_append]
    refine List.Nodup.append h.retsNodup (nodup_of_length_le_one _ a3) ?_
    intro c hc1 hc2
    have h1 := h.retsSub c hc1
    have h2 := hcsU c (a4' c hc2)
    exact (List.disjoint_of_nodup_append hnd) h1 h2
  · rw [rets_append, dests_append, a2]
    intro c hc
    rcases List.mem_append.1 hc with hc | hc
    · exact List.mem_append_left _ (h.retsSub c hc)
    · exact List.mem_append_right _ (a4' c hc)

theorem GInv.unv_length {U unv : List Nat} {used : List ATup} (h : GInv U unv used) :
    unv.length ≤ U.length := by
  rw [← h.perm.length_eq, List.length_append]; omega

theorem filter_dest_length (c : Nat) (hc : c ≠ 0) (l : List ATup) :
    (l.filter fun u => u.2.2.1 = c).length = (dests l).count c := by
  induction l with
  | nil => simp [dests_nil]
  | cons u l ih =>
    by_cases h0 : u.2.2.1 = 0
    · have : ¬ u.2.2.1 = c := fun h => hc (h ▸ h0)
      rw [dests_cons_eq _ _ h0, List.filter_cons_of_neg (by simpa using this), ih]
    · rw [dests_cons_ne _ _ h0]
      by_cases h1 : u.2.2.1 = c
      · rw [List.filter_cons_of_pos (by simpa using h1), List.length_cons, ih, h1, List.count_cons_self]
      · rw [List.filter_cons_of_neg (by simpa using h1), ih, List.count_cons_of_ne h1]

/-- what the final state of the construction gives -/
theorem GInv.final {U : List Nat} {used : List ATup} (h : GInv U [] used) (hU : U.Nodup) (h0 : 0 ∉ U) :
    used.Nodup ∧ ∀ c ∈ U, (used.filter fun u => u.2.2.1 = c).length = 1 := by
  have hperm : (dests used).Perm U := by simpa using h.perm
  have hnd : (dests used).Nodup := hperm.nodup_iff.2 hU
  constructor
  · have hp := List.filter_append_perm (fun u : ATup => decide (u.2.2.1 ≠ 0)) used
    rw [← hp.nodup_iff]
    refine List.Nodup.append (List.Nodup.of_map _ hnd) ?_ ?_
    · have : (used.filter fun u => !decide (u.2.2.1 ≠ 0)) = used.filter fun u => decide (u.2.2.1 = 0) := by
        apply List.filter_congr
        intro u _
        by_cases hu : u.2.2.1 = 0 <;> simp [hu]
      rw [this]
      exact List.Nodup.of_map _ h.retsNodup
    · intro u hu1 hu2
      simp only [List.mem_filter, decide_eq_true_eq, Bool.not_eq_true', decide_eq_false_iff_not] at hu1 hu2
      exact hu2.2 hu1.2
  · intro c hc
    have hc0 : c ≠ 0 := fun h => h0 (h ▸ hc)
    rw [filter_dest_length c hc0, List.count_eq_one_of_mem hnd (hperm.mem_iff.2 hc)]

/-! ### the vehicle fold -/

theorem foldl_vehStep_error (I : ArcInst) (t0 : Rat) (e : Err) (l : List Nat) :
    l.foldl (vehStep I t0) (.error e) = .error e := by
  induction l with
  | nil => rfl
  | cons x l ih => simpa [vehStep] using ih

theorem veh_fold_spec (I : ArcInst) (t0 : Rat) (U : List Nat) (hU : U.Nodup) (h0 : 0 ∉ U)
    (hlen : U.length ≤ I.g.nodes.length) :
    ∀ (l : List Nat) (unv : List Nat) (used : List ATup) (unv' : List Nat) (used' : List ATup),
      GInv U unv used → l.foldl (vehStep I t0) (.ok (unv, used)) = .ok (unv', used') →
      GInv U unv' used' := by
  intro l
  induction l with
  | nil =>
    intro unv used unv' used' hG h
    simp only [List.foldl_nil, Except.ok.injEq, Prod.mk.injEq] at h
    obtain ⟨rfl, rfl⟩ := h
    exact hG
  | cons x l ih =>
    intro unv used unv' used' hG h
    rw [List.foldl_cons] at h
    cases hs : vehStep I t0 (.ok (unv, used)) x with
    | error e => rw [hs, foldl_vehStep_error] at h; cases h
    | ok st =>
      obtain ⟨unv1, used1⟩ := st
      rw [hs] at h
      have hl := hG.unv_length
      obtain ⟨cs, seg, rfl, h2, h3⟩ := arcRoute_spec I _ 0 t0 unv used unv1 used1 (by omega) hs
      exact ih unv1 _ unv' used' (hG.push hU h0 h3 h2) h

/-! ### the dummy fold -/

theorem foldl_dummyStep_error (t0 high : Rat) (e : Err) (l : List Nat) :
    l.foldl (dummyStep t0 high) (.error e) = .error e := by
  induction l with
  | nil => rfl
  | cons x l ih => simpa [dummyStep] using ih

theorem dummyStep_ok {t0 high : Rat} {J J' : ArcInst} {used used' : List ATup} {n : Nat}
    (h : dummyStep t0 high (.ok (J, used)) n = .ok (J', used')) :
    ∃ (g1 g2 : Graph) (arr arr2 : Rat),
      g1 = (addArcWith J.g (nameOf J.g 0) (nameOf J.g n) 0 high (fun _ => false)).1 ∧
      (g2 = g1 ∨ g2 = (addArcWith g1 (nameOf g1 n) (nameOf g1 0) 0 high (fun _ => false)).1) ∧
      J' = { J with g := g2 } ∧ used' = used ++ [(0, t0, n, arr), (n, arr, 0, arr2)] := by
  simp only [dummyStep] at h
  by_cases hA : J.g.hasArc 0 n = true
  · rw [if_pos hA] at h; cases h
  rw [if_neg hA] at h
  split at h
  · split at h
    · cases h
    · next arr _ =>
      split at h
      · cases h
      · next g2 hg2 =>
        split at h
        · cases h
        · next arr2 _ =>
          simp only [Except.ok.injEq, Prod.mk.injEq] at h
          obtain ⟨rfl, rfl⟩ := h
          refine ⟨_, g2, arr, arr2, rfl, ?_, rfl, rfl⟩
          split_ifs at hg2
          · left; simp only [Except.ok.injEq] at hg2; exact hg2.symm
          · right
            split at hg2
            · next g' heq =>
              simp only [Except.ok.injEq] at hg2
              subst hg2
              have : (gstep Flavor.base (gstep Flavor.base J.g
                  (GOp.addArc (nameOf J.g 0) (nameOf J.g n) 0 high)).1
                  (GOp.addArc (nameOf (gstep Flavor.base J.g
                    (GOp.addArc (nameOf J.g 0) (nameOf J.g n) 0 high)).1 n)
                    (nameOf (gstep Flavor.base J.g
                    (GOp.addArc (nameOf J.g 0) (nameOf J.g n) 0 high)).1 0) 0 high)).1 = g' := by
                rw [heq]
              exact this.symm
            · cases hg2
  · cases h

theorem addArcWith_T_gle_inv (g : Graph) (o d : String) (t c : Rat) :
    SeqHeur.GLe g (addArcWith g o d t c (fun _ => false)).1 ∧
      (C15.Inv g → C15.Inv (addArcWith g o d t c (fun _ => false)).1) :=
  ⟨SeqHeur.addArcWith_gle g o d t c _, C15.addArcWith_inv g o d t c _⟩

theorem dummy_fold_spec (t0 high : Rat) (U : List Nat) (hU : U.Nodup) (h0 : 0 ∉ U) :
    ∀ (l : List Nat) (J : ArcInst) (used : List ATup) (J' : ArcInst) (used' : List ATup),
      l.foldl (dummyStep t0 high) (.ok (J, used)) = .ok (J', used') →
      J'.T = J.T ∧ SeqHeur.GLe J.g J'.g ∧ (C15.Inv J.g → C15.Inv J'.g) ∧
      (∀ rest, GInv U (l ++ rest) used → GInv U rest used') := by
  intro l
  induction l with
  | nil =>
    intro J used J' used' h
    simp only [List.foldl_nil, Except.ok.injEq, Prod.mk.injEq] at h
    obtain ⟨rfl, rfl⟩ := h
    exact ⟨rfl, SeqHeur.GLe.refl _, id, fun rest h => h⟩
  | cons n l ih =>
    intro J used J' used' h
    rw [List.foldl_cons] at h
    cases hs : dummyStep t0 high (.ok (J, used)) n with
    | error e => rw [hs, foldl_dummyStep_error] at h; cases h
    | ok st =>
      obtain ⟨J1, used1⟩ := st
      rw [hs] at h
      obtain ⟨g1, g2, arr, arr2, hg1, hg2, rfl, rfl⟩ := dummyStep_ok hs
      obtain ⟨b1, b2, b3, b4⟩ := ih _ _ J' used' h
      have c1 := addArcWith_T_gle_inv J.g (nameOf J.g 0) (nameOf J.g n) 0 high
      rw [← hg1] at c1
      have c2 : SeqHeur.GLe g1 g2 ∧ (C15.Inv g1 → C15.Inv g2) := by
        rcases hg2 with rfl | rfl
        · exact ⟨SeqHeur.GLe.refl _, id⟩
        · exact addArcWith_T_gle_inv _ _ _ _ _
      refine ⟨b1, (c1.1.trans c2.1).trans b2, fun hi => b3 (c2.2 (c1.2 hi)), fun rest hG => ?_⟩
      apply b4 rest
      have hn : n ≠ 0 := by
        intro hn
        apply h0
        have : n ∈ U := hG.perm.mem_iff.1 (List.mem_append_right _ (by simp))
        exact hn ▸ this
      refine hG.push (t0 := t0) (cs := [n]) hU h0 ?_ (by simp)
      exact ⟨arr, _, rfl, Or.inr ⟨hn, arr2, rfl⟩⟩

/-! ### the index fold -/

theorem foldl_idxStep_none (J : ArcInst) (l : List ATup) : l.foldl (idxStep J) none = none := by
  induction l with
  | nil => rfl
  | cons x l ih => simpa [idxStep] using ih

theorem idx_fold (J : ArcInst) (used : List ATup) (acc idxs : List Nat)
    (h : used.foldl (idxStep J) (some acc) = some idxs) :
    (∀ u ∈ used, ∃ k, J.varIndex u = some k) ∧
      ∀ k, k ∈ idxs ↔ k ∈ acc ∨ ∃ u ∈ used, J.varIndex u = some k := by
  induction used generalizing acc with
  | nil =>
    simp only [List.foldl_nil, Option.some.injEq] at h; subst h
    simp
  | cons u l ih =>
    rw [List.foldl_cons] at h
    cases hk : J.varIndex u with
    | none =>
      have : idxStep J (some acc) u = none := by simp [idxStep, hk]
      rw [this, foldl_idxStep_none] at h; cases h
    | some k0 =>
      have : idxStep J (some acc) u = some (acc ++ [k0]) := by simp [idxStep, hk]
      rw [this] at h
      obtain ⟨h1, h2⟩ := ih _ h
      refine ⟨fun u' hu' => ?_, fun k => ?_⟩
      · rcases List.mem_cons.mp hu' with rfl | hu'
        · exact ⟨k0, hk⟩
        · exact h1 u' hu'
      · rw [h2 k, List.mem_append, List.mem_singleton]
        constructor
        · rintro ((h | rfl) | ⟨u', hu', hu'k⟩)
          · exact Or.inl h
          · exact Or.inr ⟨u, List.mem_cons_self, hk⟩
          · exact Or.inr ⟨u', List.mem_cons_of_mem _ hu', hu'k⟩
        · rintro (h | ⟨u', hu', hu'k⟩)
          · exact Or.inl (Or.inl h)
          · rcases List.mem_cons.mp hu' with rfl | hu'
            · rw [hk] at hu'k; exact Or.inl (Or.inr (Option.some.inj hu'k).symm)
            · exact Or.inr ⟨u', hu', hu'k⟩

/-! ### the initial customer list -/

theorem unv0_nodup (I : ArcInst) : (unv0 I).Nodup :=
  List.Nodup.map (fun a b h => by simpa using h) List.nodup_range

theorem mem_unv0 (I : ArcInst) (n : Nat) : n ∈ unv0 I ↔ 1 ≤ n ∧ n < I.g.nodes.length := by
  unfold unv0
  simp only [List.mem_map, List.mem_range]
  constructor
  · rintro ⟨a, ha, rfl⟩; omega
  · rintro ⟨h1, h2⟩; exact ⟨n - 1, by omega, by omega⟩

theorem unv0_length (I : ArcInst) : (unv0 I).length ≤ I.g.nodes.length := by
  simp [unv0]

/-! ### the whole construction -/

theorem makeFeasible_spec {I : ArcInst} {high : Rat} {J : ArcInst} {sol : List Rat}
    (h : I.makeFeasible high = .ok (J, sol)) :
    ∃ (used : List ATup) (idxs : List Nat),
      J.T = I.T ∧ SeqHeur.GLe I.g J.g ∧ (C15.Inv I.g → C15.Inv J.g) ∧
      GInv (unv0 I) [] used ∧
      (∀ u ∈ used, ∃ k, J.varIndex u = some k) ∧
      (∀ k, k ∈ idxs ↔ ∃ u ∈ used, J.varIndex u = some k) ∧
      sol = (List.range J.vars.length).map fun k => if k ∈ idxs then 1 else 0 := by
  obtain ⟨t0, unv, used1, used, idxs, _, h1, h2, h3, hsol⟩ := makeFeasible_ok h
  have hU := unv0_nodup I
  have h0 : 0 ∉ unv0 I := fun h => by have := (mem_unv0 I 0).1 h; omega
  have hG1 := veh_fold_spec I t0 (unv0 I) hU h0 (unv0_length I) _ _ _ _ _ (GInv.init _) h1
  obtain ⟨a1, a2, a3, a4⟩ := dummy_fold_spec t0 high (unv0 I) hU h0 unv I used1 J used h2
  obtain ⟨b1, b2⟩ := idx_fold J used [] idxs h3
  refine ⟨used, idxs, a1, a2, a3, a4 [] (by simpa using hG1), b1, fun k => ?_, hsol⟩
  rw [b2 k]; simp

end Vrp.ArcHeur
