import VrpModel.ArcBased
import VrpProofs.Lemmas.Penalty
import VrpProofs.Lemmas.Route
import VrpProofs.Lemmas.Enum

/-!
# Generic lemmas for reading the rows of a COO matrix assembled column by column (C05)

* `sum_cooEntry_mul`: `Σ_j A[r,j]·x_j` as a sum over the triples of row `r`;
* `idxFrom` / `selFrom`: a list zipped with its positions, and the sub-list selected by a 0/1 vector;
* `sum_idx_mul_eq_sel`: for binary `x`, `Σ_k w(l_k)·x_k = Σ_{selected u} w(u)`;
* `sum_ite_eq_length_filter`: a sum of indicators is the length of the filtered list.
-/
namespace Vrp
open Finset

/-- `Σ_j A[r,j] x_j` as a sum over the triples (columns in range) -/
theorem sum_cooEntry_mul (T : List (ℕ × ℕ × ℚ)) (n : ℕ) (hT : ∀ e ∈ T, e.2.1 < n) (r : ℕ) (x : Vec) :
    ∑ j ∈ range n, cooEntry T r j * x j
      = (T.map fun e => if e.1 = r then e.2.2 * x e.2.1 else 0).sum := by
  induction T with
  | nil => simp [cooEntry_nil]
  | cons e T ih =>
    have ih' := ih (fun e' he' => hT e' (List.mem_cons_of_mem _ he'))
    have he : e.2.1 < n := hT e List.mem_cons_self
    simp only [cooEntry_cons, add_mul, Finset.sum_add_distrib, ih', List.map_cons, List.sum_cons]
    congr 1
    by_cases h : e.1 = r
    · simp [h, ite_mul, he]
    · simp [h]

section idx
variable {α : Type}

/-- a list zipped with the positions `s, s+1, …` -/
def idxFrom (s : ℕ) (l : List α) : List (ℕ × α) := (List.range' s l.length).zip l

theorem idxFrom_nil (s : ℕ) : idxFrom s ([] : List α) = [] := rfl

theorem idxFrom_cons (s : ℕ) (a : α) (l : List α) :
    idxFrom s (a :: l) = (s, a) :: idxFrom (s + 1) l := by
  simp [idxFrom, List.range'_succ]

theorem range_zip_eq_idxFrom (l : List α) : (List.range l.length).zip l = idxFrom 0 l := by
  rw [List.range_eq_range']; rfl

/-- the elements of `l` whose position carries a `1` -/
def selFrom (s : ℕ) (l : List α) (x : Vec) : List α :=
  (idxFrom s l).filterMap fun p => if x p.1 = 1 then some p.2 else none

theorem filterMap_range'_eq_selFrom (s : ℕ) (l : List α) (x : Vec) :
    (List.range' s l.length).filterMap (fun k => if x k = 1 then l[k - s]? else none) = selFrom s l x := by
  induction l generalizing s with
  | nil => simp [selFrom, idxFrom_nil]
  | cons a l ih =>
    have htail : (List.range' (s + 1) l.length).filterMap
          (fun k => if x k = 1 then (a :: l)[k - s]? else none) = selFrom (s + 1) l x := by
      rw [← ih (s + 1)]
      apply List.filterMap_congr
      intro k hk
      have hk' : s + 1 ≤ k := (List.mem_range'_1.1 hk).1
      have : k - s = (k - (s + 1)) + 1 := by omega
      rw [this, List.getElem?_cons_succ]
    rw [List.length_cons, List.range'_succ]
    unfold selFrom at htail ⊢
    rw [idxFrom_cons]
    by_cases hxs : x s = 1
    · simp only [List.filterMap_cons, hxs, Nat.sub_self, List.getElem?_cons_zero, if_true]
      rw [htail]
    · simp only [List.filterMap_cons, hxs, if_false]
      rw [htail]

theorem filterMap_range_eq_selFrom (l : List α) (x : Vec) :
    (List.range l.length).filterMap (fun k => if x k = 1 then l[k]? else none) = selFrom 0 l x := by
  rw [List.range_eq_range', ← filterMap_range'_eq_selFrom]
  simp

/-- for a 0/1 vector, the `x`-weighted sum over positions is the sum over the selected elements -/
theorem sum_idx_mul_eq_sel (s : ℕ) (l : List α) (x : Vec)
    (hx : ∀ k, s ≤ k → k < s + l.length → x k = 0 ∨ x k = 1) (w : α → ℚ) :
    ((idxFrom s l).map fun p => w p.2 * x p.1).sum = ((selFrom s l x).map w).sum := by
  induction l generalizing s with
  | nil => simp [selFrom, idxFrom_nil]
  | cons a l ih =>
    have ih' := ih (s + 1) (fun k h1 h2 => hx k (by omega) (by rw [List.length_cons]; omega))
    unfold selFrom at ih' ⊢
    rw [idxFrom_cons, List.map_cons, List.sum_cons, ih']
    rcases hx s le_rfl (by rw [List.length_cons]; omega) with h0 | h1
    · simp [h0]
    · simp [h1]

/-- `Σ_k c_k x_k` with `c = l.map w`, as a sum over the indexed list -/
theorem sum_range_getD_eq (s : ℕ) (l : List α) (w : α → ℚ) (x : Vec) :
    ∑ k ∈ range l.length, (l.map w).getD k 0 * x (s + k)
      = ((idxFrom s l).map fun p => w p.2 * x p.1).sum := by
  induction l generalizing s with
  | nil => simp [idxFrom_nil]
  | cons a l ih =>
    rw [List.length_cons, Finset.sum_range_succ', idxFrom_cons]
    simp only [List.map_cons, List.sum_cons, List.getD_cons_succ, List.getD_cons_zero, Nat.add_zero]
    rw [← ih (s + 1), add_comm]
    congr 1
    refine Finset.sum_congr rfl fun k _ => ?_
    rw [show s + (k + 1) = s + 1 + k by omega]

/-- a sum of indicators counts -/
theorem sum_ite_eq_length_filter (l : List α) (p : α → Prop) [DecidablePred p] :
    (l.map fun u => if p u then (1 : ℚ) else 0).sum = (((l.filter fun u => p u).length : ℕ) : ℚ) := by
  induction l with
  | nil => simp
  | cons a l ih =>
    by_cases h : p a
    · simp [h, ih]; ring
    · simp [h, ih]

theorem sum_map_sub' (l : List α) (f g : α → ℚ) :
    (l.map fun u => f u - g u).sum = (l.map f).sum - (l.map g).sum := by
  induction l with
  | nil => simp
  | cons a l ih => simp only [List.map_cons, List.sum_cons, ih]; ring

end idx

/-! ### `idxOf?` on a duplicate-free list -/

theorem idxOf?_eq_some_iff {α : Type} [BEq α] [LawfulBEq α] (l : List α) (hn : l.Nodup) (a : α) (r : ℕ) :
    idxOf? l a = some r ↔ l[r]? = some a :=
  idxOf_lookup_some_iff l hn a r

theorem idxOf?_eq_none_iff {α : Type} [BEq α] [LawfulBEq α] (l : List α) (a : α) :
    idxOf? l a = none ↔ a ∉ l :=
  idxOf_lookup_none_iff l a

end Vrp
