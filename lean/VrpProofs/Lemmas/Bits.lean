import VrpModel.Qubo
import VrpProofs.Lemmas.QuboBridge
import Mathlib.Tactic.Linarith

/-! `v ↦ bitsMSB n v` (the `format(v,'0{n}b')` order of `report`) enumerates all 0/1 vectors once -/
namespace Vrp

theorem bitsMSB_eq (n v i : ℕ) : bitsMSB n v i = if v.testBit (n - 1 - i) then 1 else 0 := by
  unfold bitsMSB; rw [Nat.testBit_eq_decide_div_mod_eq]; simp

theorem bitsMSB_bin (n v : ℕ) : IsBin n (bitsMSB n v) := by
  intro i _; rw [bitsMSB_eq]; split <;> simp

theorem exists_testBit (n : ℕ) (f : ℕ → Bool) : ∃ v < 2 ^ n, ∀ k < n, v.testBit k = f k := by
  induction n with
  | zero => exact ⟨0, by simp, fun k hk => absurd hk (by omega)⟩
  | succ n ih =>
    obtain ⟨v, hv, hb⟩ := ih
    by_cases hf : f n = true
    · refine ⟨2 ^ n + v, by rw [pow_succ]; omega, fun k hk => ?_⟩
      by_cases hkn : k = n
      · subst hkn; rw [Nat.testBit_two_pow_add_eq, Nat.testBit_lt_two_pow hv, hf]; rfl
      · rw [Nat.testBit_two_pow_add_gt (by omega)]; exact hb k (by omega)
    · refine ⟨v, by rw [pow_succ]; omega, fun k hk => ?_⟩
      by_cases hkn : k = n
      · subst hkn; rw [Nat.testBit_lt_two_pow hv]; simpa using hf
      · exact hb k (by omega)

/-- every binary vector is the bit pattern of some `v < 2^n` -/
theorem bits_surj (n : ℕ) (x : Vec) (hx : IsBin n x) : ∃ v < 2 ^ n, ∀ i < n, bitsMSB n v i = x i := by
  obtain ⟨v, hv, hb⟩ := exists_testBit n (fun k => decide (x (n - 1 - k) = 1))
  refine ⟨v, hv, fun i hi => ?_⟩
  rw [bitsMSB_eq, hb (n - 1 - i) (by omega)]
  have : n - 1 - (n - 1 - i) = i := by omega
  rw [this]
  rcases hx i hi with h | h <;> simp [h]

/-- distinct `v, w < 2^n` give distinct bit patterns -/
theorem bits_inj (n v w : ℕ) (hv : v < 2 ^ n) (hw : w < 2 ^ n)
    (h : ∀ i < n, bitsMSB n v i = bitsMSB n w i) : v = w := by
  apply Nat.eq_of_testBit_eq
  intro k
  by_cases hk : k < n
  · have := h (n - 1 - k) (by omega)
    rw [bitsMSB_eq, bitsMSB_eq] at this
    have e : n - 1 - (n - 1 - k) = k := by omega
    rw [e] at this
    cases h1 : v.testBit k <;> cases h2 : w.testBit k <;> simp [h1, h2] at this ⊢
  · have h1 : v.testBit k = false := Nat.testBit_lt_two_pow (lt_of_lt_of_le hv (Nat.pow_le_pow_right (by omega) (by omega)))
    have h2 : w.testBit k = false := Nat.testBit_lt_two_pow (lt_of_lt_of_le hw (Nat.pow_le_pow_right (by omega) (by omega)))
    rw [h1, h2]

theorem bitsMSB_zero (n i : ℕ) : bitsMSB n 0 i = 0 := by rw [bitsMSB_eq]; simp

/-- the quadratic form only looks at entries `0..n-1` -/
theorem evalQubo_congr (n : ℕ) (Q : Mat) (c : ℚ) (x y : Vec) (h : ∀ i < n, x i = y i) :
    evalQubo n Q c x = evalQubo n Q c y := by
  rw [evalQubo_eq, evalQubo_eq]; unfold G.evalQubo G.quad
  congr 1
  refine Finset.sum_congr rfl fun i hi => Finset.sum_congr rfl fun j hj => ?_
  rw [h i (Finset.mem_range.1 hi), h j (Finset.mem_range.1 hj)]

theorem evalQubo_zero (n : ℕ) (Q : Mat) (c : ℚ) : evalQubo n Q c (bitsMSB n 0) = c := by
  rw [evalQubo_eq]; unfold G.evalQubo G.quad
  simp [bitsMSB_zero]

end Vrp
