import VrpModel.Cache
import VrpProofs.Lemmas.Graph
import VrpProofs.Props.C15

/-! helper lemmas for C14: what the sequence heuristic can do to the graph (`addArcOrFail`, `ensureExit`,
    `seqFill`), under unique node names -/
namespace Vrp

/-! ### `dictSet` on a key that is not present appends -/

theorem dictSet_of_not_has (d : List (Key × Arc)) (k : Key) (a : Arc) (h : dictHas d k = false) :
    dictSet d k a = d ++ [(k, a)] := by
  induction d with
  | nil => rfl
  | cons e rest ih =>
    obtain ⟨k', a'⟩ := e
    have h' : ¬ k' = k ∧ dictHas rest k = false := by
      simpa [dictHas] using h
    simp only [dictSet, h'.1, if_false, List.cons_append, ih h'.2]

/-! ### node names and positions -/

theorem nameOf_lt (g : Graph) (i : Nat) (hi : i < g.nodes.length) :
    nameOf g i = g.names[i]'(by rw [g.names_length]; exact hi) := by
  unfold nameOf
  rw [List.getElem?_eq_getElem (by rw [g.names_length]; exact hi)]
  rfl

/-- with unique names, looking up the name of position `i` gives `i` back (and fails on the empty graph) -/
theorem indexOf?_nameOf_cache (g : Graph) (hn : g.names.Nodup) (i j : Nat)
    (hi : g.nodes ≠ [] → i < g.nodes.length) (h : g.indexOf? (nameOf g i) = some j) : j = i := by
  by_cases he : g.nodes = []
  · unfold Graph.indexOf? at h
    simp [he] at h
  · have hi' := hi he
    rw [nameOf_lt g i hi'] at h
    unfold Graph.indexOf? at h
    simp only at h
    rw [hn.idxOf_getElem] at h
    split_ifs at h
    exact (Option.some.inj h).symm

/-! ### `addArcOrFail` -/

/-- a successful `add_arc` assigns one dict key and changes nothing else -/
theorem addArcOrFail_some {fl : Flavor} {g g' : Graph} {o d : Nat} {t c : Rat}
    (h : addArcOrFail fl g o d t c = some g') :
    ∃ i j a, g.indexOf? (nameOf g o) = some i ∧ g.indexOf? (nameOf g d) = some j ∧
      g' = { g with arcs := dictSet g.arcs (i, j) a } := by
  unfold addArcOrFail at h
  have key : ∀ rule, (match addArcWith g (nameOf g o) (nameOf g d) t c rule with
        | (g', .ok (some true)) => some g'
        | _ => none) = some g' →
      ∃ i j a, g.indexOf? (nameOf g o) = some i ∧ g.indexOf? (nameOf g d) = some j ∧
        g' = { g with arcs := dictSet g.arcs (i, j) a } := by
    intro rule h
    cases hi : g.indexOf? (nameOf g o) with
    | none => rw [C15.addArcWith_err _ _ _ _ _ _ (Or.inl hi)] at h; simp at h
    | some i =>
      cases hj : g.indexOf? (nameOf g d) with
      | none => rw [C15.addArcWith_err _ _ _ _ _ _ (Or.inr hj)] at h; simp at h
      | some j =>
        rw [C15.addArcWith_eq g _ _ t c rule i j hi hj] at h
        split_ifs at h
        exact ⟨i, j, _, rfl, rfl, (Option.some.inj h).symm⟩
  cases fl with
  | base => exact key _ h
  | seq strict => exact key _ h

theorem addArcOrFail_nodes {fl : Flavor} {g g' : Graph} {o d : Nat} {t c : Rat}
    (h : addArcOrFail fl g o d t c = some g') : g'.nodes = g.nodes := by
  obtain ⟨i, j, a, _, _, rfl⟩ := addArcOrFail_some h
  rfl

/-! ### "the graph was only extended by arcs": same nodes, no fewer arcs, and literally the same graph when
    the number of arcs is the same -/

def ArcExt (g g' : Graph) : Prop :=
  g'.nodes = g.nodes ∧ g.arcs.length ≤ g'.arcs.length ∧ (g'.arcs.length = g.arcs.length → g' = g)

theorem ArcExt.refl (g : Graph) : ArcExt g g := ⟨rfl, Nat.le_refl _, fun _ => rfl⟩

theorem ArcExt.trans {g g' g'' : Graph} (h₁ : ArcExt g g') (h₂ : ArcExt g' g'') : ArcExt g g'' := by
  refine ⟨h₂.1.trans h₁.1, Nat.le_trans h₁.2.1 h₂.2.1, fun h => ?_⟩
  have e1 : g'.arcs.length = g.arcs.length := by have := h₁.2.1; have := h₂.2.1; omega
  have e2 : g''.arcs.length = g'.arcs.length := by omega
  rw [h₂.2.2 e2, h₁.2.2 e1]

theorem ArcExt.names {g g' : Graph} (h : ArcExt g g') : g'.names = g.names := by
  unfold Graph.names; rw [h.1]

/-- `_ensure_exit_arc` under unique names: either nothing happens or exactly one new arc is appended -/
theorem ensureExit_ext {fl : Flavor} {g g' : Graph} {cur : Nat} (hn : g.names.Nodup)
    (hcur : g.nodes ≠ [] → cur < g.nodes.length) (h : ensureExit fl g cur = some g') : ArcExt g g' := by
  unfold ensureExit at h
  split_ifs at h with hh
  · cases h; exact ArcExt.refl g
  · obtain ⟨i, j, a, hi, hj, rfl⟩ := addArcOrFail_some h
    have ei := indexOf?_nameOf_cache g hn cur i hcur hi
    have ej := indexOf?_nameOf_cache g hn 0 j (fun he => List.length_pos_iff.mpr he) hj
    subst ei ej
    have hh' : dictHas g.arcs (i, 0) = false := by simpa [Graph.hasArc] using hh
    refine ⟨rfl, ?_, ?_⟩
    · show g.arcs.length ≤ (dictSet g.arcs (i, 0) a).length
      rw [dictSet_of_not_has _ _ _ hh']; simp
    · intro hlen
      exfalso
      have : (dictSet g.arcs (i, 0) a).length = g.arcs.length := hlen
      rw [dictSet_of_not_has _ _ _ hh'] at this
      simp at this

/-- greedy fill of one vehicle: the graph is only extended by arcs; the unvisited list only shrinks -/
theorem seqFill_ext (fl : Flavor) (L v : Nat) (k p cur : Nat) (g : Graph) (unv : List Nat) (used : List STup)
    (g' : Graph) (unv' : List Nat) (used' : List STup) (hn : g.names.Nodup)
    (hcur : g.nodes ≠ [] → cur < g.nodes.length) (hunv : ∀ n ∈ unv, n < g.nodes.length)
    (h : seqFill fl L v k p cur g unv used = some (g', unv', used')) :
    ArcExt g g' ∧ ∀ n ∈ unv', n < g.nodes.length := by
  induction k generalizing p cur unv used with
  | zero =>
    unfold seqFill at h
    cases he : ensureExit fl g cur with
    | none => simp [he] at h
    | some g1 =>
      simp only [he, Option.map_some, Option.some.injEq, Prod.mk.injEq] at h
      obtain ⟨rfl, rfl, _⟩ := h
      exact ⟨ensureExit_ext hn hcur he, hunv⟩
  | succ k ih =>
    unfold seqFill at h
    cases hf : unv.find? (fun n => g.hasArc cur n) with
    | some n =>
      simp only [hf] at h
      have hmem : n ∈ unv := List.mem_of_find?_eq_some hf
      exact ih (p + 1) n (unv.erase n) _ (fun _ => hunv n hmem)
        (fun m hm => hunv m (List.mem_of_mem_erase hm)) h
    | none =>
      simp only [hf] at h
      cases he : ensureExit fl g cur with
      | none => simp [he] at h
      | some g1 =>
        simp only [he, Option.map_some, Option.some.injEq, Prod.mk.injEq] at h
        obtain ⟨rfl, rfl, _⟩ := h
        exact ⟨ensureExit_ext hn hcur he, hunv⟩

/-! ### the fold over the regular vehicles -/

theorem foldl_bind_none {α β : Type} (f : β → α → Option β) (l : List α) :
    l.foldl (fun (st : Option β) v => st.bind fun st => f st v) none = none := by
  induction l with
  | nil => rfl
  | cons x xs ih => simpa using ih

/-- a reflexive–transitive relation that every successful step establishes holds along the whole fold -/
theorem foldl_bind_rel {α β : Type} (f : β → α → Option β) (R : β → β → Prop) (hrefl : ∀ b, R b b)
    (htrans : ∀ a b c, R a b → R b c → R a c) (hstep : ∀ b a b', f b a = some b' → R b b')
    (l : List α) (b b' : β)
    (h : l.foldl (fun (st : Option β) v => st.bind fun st => f st v) (some b) = some b') : R b b' := by
  induction l generalizing b with
  | nil =>
    simp only [List.foldl_nil, Option.some.injEq] at h
    subst h; exact hrefl _
  | cons x xs ih =>
    simp only [List.foldl_cons, Option.bind_some] at h
    cases hs : f b x with
    | none => rw [hs, foldl_bind_none] at h; cases h
    | some b1 =>
      rw [hs] at h
      exact htrans _ _ _ (hstep _ _ _ hs) (ih b1 h)

theorem seqFold_ext (fl : Flavor) (L : Nat) (vs : List Nat) (st st' : Graph × List Nat × List STup)
    (hn : st.1.names.Nodup) (hunv : ∀ n ∈ st.2.1, n < st.1.nodes.length)
    (h : vs.foldl (fun (st : Option (Graph × List Nat × List STup)) v =>
      st.bind fun st => seqFill fl L v (L - 2) 1 0 st.1 st.2.1 st.2.2) (some st) = some st') :
    ArcExt st.1 st'.1 ∧ ∀ n ∈ st'.2.1, n < st.1.nodes.length := by
  induction vs generalizing st with
  | nil =>
    simp only [List.foldl_nil, Option.some.injEq] at h
    subst h
    exact ⟨ArcExt.refl _, hunv⟩
  | cons v vs ih =>
    simp only [List.foldl_cons, Option.bind_some] at h
    cases hs : seqFill fl L v (L - 2) 1 0 st.1 st.2.1 st.2.2 with
    | none =>
      rw [hs] at h
      rw [foldl_bind_none (fun st v => seqFill fl L v (L - 2) 1 0 st.1 st.2.1 st.2.2)] at h
      cases h
    | some s1 =>
      rw [hs] at h
      obtain ⟨g1, unv1, used1⟩ := s1
      obtain ⟨e1, b1⟩ := seqFill_ext fl L v (L - 2) 1 0 st.1 st.2.1 st.2.2 g1 unv1 used1 hn
        (fun he => List.length_pos_iff.mpr he) hunv hs
      obtain ⟨e2, b2⟩ := ih (g1, unv1, used1) (by rw [e1.names]; exact hn) (by rw [e1.1]; exact b1) h
      exact ⟨e1.trans e2, by rw [← e1.1]; exact b2⟩

/-! ### the initial unvisited list -/

theorem mem_insertByHi {g : Graph} {x y : Nat} {l : List Nat} (h : y ∈ insertByHi g x l) : y = x ∨ y ∈ l := by
  induction l with
  | nil => simpa [insertByHi] using h
  | cons z zs ih =>
    unfold insertByHi at h
    split_ifs at h
    · rcases List.mem_cons.mp h with h | h
      · exact Or.inr (h ▸ List.mem_cons_self)
      · rcases ih h with h | h
        · exact Or.inl h
        · exact Or.inr (List.mem_cons_of_mem _ h)
    · rcases List.mem_cons.mp h with h | h
      · exact Or.inl h
      · exact Or.inr h

theorem mem_sortByHi {g : Graph} {y : Nat} {l : List Nat} (h : y ∈ sortByHi g l) : y ∈ l := by
  unfold sortByHi at h
  have key : ∀ (l acc : List Nat), y ∈ l.foldl (fun acc x => insertByHi g x acc) acc → y ∈ l ∨ y ∈ acc := by
    intro l
    induction l with
    | nil => intro acc h; exact Or.inr h
    | cons x xs ih =>
      intro acc h
      rcases ih _ h with h | h
      · exact Or.inl (List.mem_cons_of_mem _ h)
      · rcases mem_insertByHi h with h | h
        · exact Or.inl (h ▸ List.mem_cons_self)
        · exact Or.inr h
  rcases key l [] h with h | h
  · exact h
  · cases h

end Vrp
