import VrpModel.CacheFlags
import VrpProofs.Lemmas.Graph
import VrpProofs.Props.C02

/-!
# Lemmas for the flag-level cache model (`VrpModel/CacheFlags.lean`)

The coherence invariant (flag set ⇒ cached value = value computed afresh from the current instance) and, for every
method of the two objects, what it returns and what it leaves behind when started in a coherent state.
-/
namespace Vrp

/-! ## generic list facts -/

theorem zip_range_map_snd {α β : Type} (l : List α) (f : α → β) :
    ((List.range l.length).zip l).map (fun e => f e.2) = l.map f := by
  have h : ((List.range l.length).zip l).map (fun e => f e.2) = (((List.range l.length).zip l).map Prod.snd).map f := by
    rw [List.map_map]; rfl
  rw [h, List.map_snd_zip]
  simp

/-- in feasibility mode the objective part of the program data does not enter the QUBO -/
theorem quboReply_feas (d : MPData) (c' : List Rat) (Q' : Coo) (suff : Rat) (rho? : Option Rat)
    (hc : d.c.length = d.n) (hQ : d.Qobj.all (fun e => e.1 < d.n && e.2.1 < d.n) = true)
    (hc' : c'.length = d.n) (hQ' : Q'.all (fun e => e.1 < d.n && e.2.1 < d.n) = true) :
    quboReply { d with c := c', Qobj := Q' } suff true rho? = quboReply d suff true rho? := by
  unfold quboReply MPData.getQubo MPData.wellShaped
  simp only [hc, hc', hQ, hQ', decide_true, Bool.and_true]
  split_ifs
  · rfl
  · rfl

/-! ## graph-level mutators -/

/-- an `add_arc` that does not return `True` leaves the graph as it was -/
theorem addArcWith_fst (g : Graph) (o d : String) (t c : Rat) (sr : Nat → Bool)
    (h : (addArcWith g o d t c sr).2 ≠ .ok (some true)) : (addArcWith g o d t c sr).1 = g := by
  revert h
  unfold addArcWith
  cases g.indexOf? o with
  | none => intro _; rfl
  | some i =>
    cases g.indexOf? d with
    | none => intro _; rfl
    | some j =>
      simp only
      split_ifs <;> intro h <;> first | rfl | exact absurd rfl h

theorem gstep_addArc_fst (fl : Flavor) (g : Graph) (o d : String) (t c : Rat)
    (h : (gstep fl g (.addArc o d t c)).2 ≠ .ok (some true)) : (gstep fl g (.addArc o d t c)).1 = g := by
  cases fl with
  | base => exact addArcWith_fst g o d t c _ h
  | seq strict => exact addArcWith_fst g o d t c _ h

theorem gstep_error_fst (fl : Flavor) (g : Graph) (op : GOp) (e : Err) (h : (gstep fl g op).2 = .error e) :
    (gstep fl g op).1 = g := by
  cases op with
  | addArc o d t c => exact gstep_addArc_fst fl g o d t c (by rw [h]; simp)
  | addNode nm dem lo hi =>
    revert h
    show (addNodeStep g nm dem lo hi).2 = _ → (addNodeStep g nm dem lo hi).1 = g
    unfold addNodeStep
    split_ifs
    · intro _; rfl
    · intro _; rfl
    · intro h; simp at h
  | setDepot nm =>
    cases fl with
    | base =>
      revert h
      show (setDepotBase g nm).2 = _ → (setDepotBase g nm).1 = g
      unfold setDepotBase
      cases g.indexOf? nm with
      | none => intro _; rfl
      | some d =>
        simp only
        split_ifs
        · intro _; rfl
        · intro h; simp at h
    | seq strict =>
      revert h
      unfold gstep
      simp only
      split
      · intro _; rfl
      · split
        · intro _; rfl
        · intro h; simp at h

/-- a mutator that raises leaves the problem data untouched -/
theorem gmut_error_fst (fl : Flavor) (g : Graph) (m : GMut) (e : Err) (h : (gmut fl g m).2 = .error e) :
    (gmut fl g m).1 = g := by
  cases m with
  | op op => exact gstep_error_fst fl g op e h
  | cap c => simp [gmut] at h
  | init l => simp [gmut] at h

/-! ## route decoding: the list-parameterised decoders against the instance-level ones -/

/-- looking the selected positions up is the `filterMap` over the indexed vector of `SeqInst.selected` /
    `ArcInst.selected` -/
theorem filterMap_selectedIdx {α : Type} (f : Nat → Option α) (x : List Rat) :
    (selectedIdx x).filterMap f
      = ((List.range x.length).zip x).filterMap fun (k, v) => if v = 0 then none else f k := by
  unfold selectedIdx
  rw [List.filterMap_filterMap]
  congr 1
  funext e
  obtain ⟨k, v⟩ := e
  by_cases h : v = 0 <;> simp [h]

theorem SeqInst.selected_eq (I : SeqInst) (x : List Rat) : I.selected x = (selectedIdx x).filterMap I.varTuple :=
  (filterMap_selectedIdx I.varTuple x).symm

theorem ArcInst.selected_eq (I : ArcInst) (x : List Rat) : I.selected x = (selectedIdx x).filterMap I.varTuple :=
  (filterMap_selectedIdx I.varTuple x).symm

/-- an in-range lookup list has as many elements as there are positions -/
theorem filterMap_getElem?_length {α : Type} (vm : List α) (sel : List Nat)
    (h : sel.any (fun k => decide (vm.length ≤ k)) = false) :
    (sel.filterMap fun k => vm[k]?).length = sel.length := by
  induction sel with
  | nil => rfl
  | cons k rest ih =>
    rw [List.any_cons, Bool.or_eq_false_iff] at h
    have hk : k < vm.length := by
      have := h.1
      simp only [decide_eq_false_iff_not, Nat.not_le] at this
      exact this
    rw [List.filterMap_cons, List.getElem?_eq_getElem hk]
    simp only [List.length_cons, ih h.2]

theorem SeqInst.decode_go_eq (I : SeqInst) (v fuel : Nat) (ts : List STup) (acc : List (List Nat)) :
    SeqInst.decode.go I v fuel ts acc = seqDecodeGo I.g I.L v fuel ts acc := by
  induction fuel generalizing v ts acc with
  | zero => unfold SeqInst.decode.go seqDecodeGo; rfl
  | succ n ih =>
    unfold SeqInst.decode.go seqDecodeGo
    cases decodeVehicle I.g v I.L 0 ts none [] with
    | none => rfl
    | some p => exact ih _ _ _

/-- **`SeqInst.decode` is the list-parameterised decoder on the instance's own tuples** -/
theorem SeqInst.decode_eq_tuples (I : SeqInst) (x : List Rat) :
    I.decode x = if (I.selected x).isEmpty then .ok []
                 else seqDecodeTuples I.g I.V I.L (I.selected x ++ I.fixedOnes) := by
  unfold SeqInst.decode seqDecodeTuples
  simp only [SeqInst.decode_go_eq]

theorem ArcInst.decode_go_eq (fuel : Nat) (ts : List ATup) (acc : List (List (Nat × Rat))) :
    ArcInst.decode.go fuel ts acc = arcDecodeGo fuel ts acc := by
  induction fuel generalizing ts acc with
  | zero => unfold ArcInst.decode.go arcDecodeGo; rfl
  | succ n ih =>
    cases ts with
    | nil => unfold ArcInst.decode.go arcDecodeGo; rfl
    | cons arc rest =>
      unfold ArcInst.decode.go arcDecodeGo
      exact ih _ _

/-- **`ArcInst.decode` is the list-parameterised decoder on the instance's own tuples** -/
theorem ArcInst.decode_eq_tuples (I : ArcInst) (x : List Rat) : I.decode x = arcDecodeTuples (I.selected x) := by
  unfold ArcInst.decode arcDecodeTuples
  simp only [ArcInst.decode_go_eq]

theorem ArcInst.decodeAsserts_eq_tuples (I : ArcInst) (x : List Rat) :
    I.decodeAsserts x = arcAssertsTuples I.g (I.selected x) := rfl

/-- the cache-free `get_routes` of the arc specification against `ArcInst.decode` / `ArcInst.decodeAsserts`: when every
    selected position is a variable index.  The empty selection is included: no route, and the visit assertion alone
    decides (`I.decode x = []`, `I.decodeAsserts x = arcAssertsTuples I.g []`). -/
theorem ArcInst.getRoutes_eq_decode (I : ArcInst) (x : List Rat)
    (hr : ∀ k ∈ selectedIdx x, k < I.vars.length) :
    I.getRoutes x = if I.decodeAsserts x then .ok (I.decode x) else .error .assert := by
  rw [ArcInst.decode_eq_tuples, ArcInst.decodeAsserts_eq_tuples, ArcInst.selected_eq]
  cases hs : selectedIdx x with
  | nil =>
    unfold ArcInst.getRoutes
    simp only [hs, List.isEmpty_nil, if_true, List.filterMap_nil]
    rfl
  | cons a l =>
    have hany : (selectedIdx x).any (fun k => decide (I.vars.length ≤ k)) = false := by
      rw [List.any_eq_false]
      intro k hk
      simp only [decide_eq_true_eq, Nat.not_le]
      exact hr k hk
    rw [hs] at hany
    unfold ArcInst.getRoutes arcRoutesFrom
    simp only [hs, List.isEmpty_cons, hany, Bool.false_eq_true, if_false]
    rfl

/-- the cache-free `get_routes` of the sequence specification against `SeqInst.decode`, under the same hypotheses -/
theorem SeqInst.getRoutes_eq_decode (I : SeqInst) (x : List Rat) (hne : selectedIdx x ≠ [])
    (hr : ∀ k ∈ selectedIdx x, k < I.vars.length) : I.getRoutes x = I.decode x := by
  have hany : (selectedIdx x).any (fun k => decide (I.vars.length ≤ k)) = false := by
    rw [List.any_eq_false]
    intro k hk
    simp only [decide_eq_true_eq, Nat.not_le]
    exact hr k hk
  have hemp : (selectedIdx x).isEmpty = false := by
    cases h : selectedIdx x with
    | nil => exact absurd h hne
    | cons a l => rfl
  have hsel : (I.selected x).isEmpty = false := by
    have hl := filterMap_getElem?_length I.vars (selectedIdx x) hany
    rw [SeqInst.selected_eq]
    cases h : (selectedIdx x).filterMap I.varTuple with
    | nil =>
      have h' : (selectedIdx x).filterMap (fun k => I.vars[k]?) = [] := h
      rw [h'] at hl
      cases h2 : selectedIdx x with
      | nil => exact absurd h2 hne
      | cons a l => rw [h2] at hl; simp at hl
    | cons a l => rfl
  rw [SeqInst.decode_eq_tuples, hsel]
  unfold SeqInst.getRoutes seqRoutesFrom
  simp only [hemp, hany, Bool.false_eq_true, if_false]
  rw [SeqInst.selected_eq]
  rfl

/-! ## arc object -/

/-- flag set ⇒ the cached value is the value computed afresh from the current instance -/
structure ArcObj.Coherent (o : ArcObj) : Prop where
  vars : o.variablesEnumerated = true → o.varMapping = o.inst.vars ∧ o.numVariables = o.inst.vars.length
  obj : o.objectiveBuilt = true → o.objective = o.inst.data.c
  con : o.constraintsBuilt = true →
    o.consMatrix = o.inst.data.A ∧ o.consRhs = o.inst.data.b ∧ o.consShape = (o.inst.data.m, o.inst.data.n)

namespace ArcObj

theorem coherent_init (I : ArcInst) : (ArcObj.init I).Coherent :=
  ⟨by simp [ArcObj.init], by simp [ArcObj.init], by simp [ArcObj.init]⟩

/-- an object whose three flags are unset is coherent whatever its caches hold -/
theorem coherent_of_flags {o : ArcObj} (h1 : o.variablesEnumerated = false) (h2 : o.objectiveBuilt = false)
    (h3 : o.constraintsBuilt = false) : o.Coherent :=
  ⟨by simp [h1], by simp [h2], by simp [h3]⟩

/-- the object after a (possibly skipped) enumeration -/
def E (o : ArcObj) : ArcObj :=
  { o with varMapping := o.inst.vars, numVariables := o.inst.vars.length, variablesEnumerated := true }

theorem enum_eq {o : ArcObj} (hc : o.Coherent) : o.enumerateVariables = o.E := by
  unfold enumerateVariables E
  cases h : o.variablesEnumerated with
  | false => simp
  | true =>
    obtain ⟨h1, h2⟩ := hc.vars h
    cases o
    simp_all

theorem coherent_E {o : ArcObj} (hc : o.Coherent) : o.E.Coherent :=
  ⟨fun _ => ⟨rfl, rfl⟩, hc.obj, hc.con⟩

theorem E_E (o : ArcObj) : o.E.E = o.E := rfl

theorem getNum_eq {o : ArcObj} (hc : o.Coherent) : o.getNumVariables = (o.E, o.inst.vars.length) := by
  unfold getNumVariables
  cases h : o.variablesEnumerated with
  | false => simp [enum_eq hc, E]
  | true =>
    obtain ⟨h1, h2⟩ := hc.vars h
    have : o = o.E := by
      unfold E
      cases o
      simp_all
    simp only [Bool.not_true, Bool.false_eq_true, if_false]
    rw [← this, h2]

theorem getVarIndex_eq {o : ArcObj} (hc : o.Coherent) (u : ATup) : o.getVarIndex u = (o.E, o.inst.varIndex u) := by
  unfold getVarIndex
  rw [enum_eq hc]
  rfl

theorem getVarTupleIndex_eq {o : ArcObj} (hc : o.Coherent) (k : Nat) :
    o.getVarTupleIndex k = (o.E, o.inst.varTuple k) := by
  unfold getVarTupleIndex
  rw [enum_eq hc]
  rfl

/-- `get_routes` on a coherent object: the reply of the cache-free `ArcInst.getRoutes`; the object is untouched when
    nothing is selected (the reply is then decided by the visit assertion on the current graph) and enumerated
    otherwise -/
theorem getRoutes_eq {o : ArcObj} (hc : o.Coherent) (x : List Rat) :
    o.getRoutes x = (if (selectedIdx x).isEmpty then o else o.E, o.inst.getRoutes x) := by
  unfold getRoutes ArcInst.getRoutes
  simp only
  cases h : (selectedIdx x).isEmpty with
  | true => simp
  | false =>
    simp only [Bool.false_eq_true, if_false]
    rw [enum_eq hc]
    rfl

theorem data_c (I : ArcInst) : I.data.c = I.vars.map (arcTupCost I) := rfl
theorem data_n (I : ArcInst) : I.data.n = I.vars.length := rfl

theorem arcConsOf_fresh (I : ArcInst) :
    arcConsOf I I.vars I.vars.length = (I.data.A, (I.data.m, I.data.n), I.data.b) := by
  have h1 : (arcConsOf I I.vars I.vars.length).1 = I.data.A := rfl
  have h3 : (arcConsOf I I.vars I.vars.length).2.2 = I.data.b := rfl
  have h2 : (arcConsOf I I.vars I.vars.length).2.1 = (I.data.m, I.data.n) := by
    show ((List.replicate I.flowKeys.length (0 : Rat) ++ List.replicate (I.g.nodes.length - 1) 1).length, I.vars.length)
      = (I.flowKeys.length + (I.g.nodes.length - 1), I.vars.length)
    simp
  rw [← h1, ← h2, ← h3]

/-- the object after `build_objective` -/
def B (o : ArcObj) : ArcObj := { o.E with objective := o.inst.data.c, objectiveBuilt := true }

theorem buildObjective_eq {o : ArcObj} (hc : o.Coherent) :
    o.buildObjective = if o.objectiveBuilt then o else o.B := by
  unfold buildObjective
  cases h : o.objectiveBuilt with
  | true => simp
  | false =>
    simp only [Bool.false_eq_true, if_false]
    rw [enum_eq hc, getNum_eq (coherent_E hc)]
    simp only [E_E]
    show ({ o.E with objective := ((List.range o.E.inst.vars.length).zip o.E.varMapping).map _,
                     objectiveBuilt := true } : ArcObj) = o.B
    unfold B
    have : ((List.range o.E.inst.vars.length).zip o.E.varMapping).map (fun e => arcTupCost o.E.inst e.2)
        = o.inst.data.c := by
      show ((List.range o.inst.vars.length).zip o.inst.vars).map (fun e => arcTupCost o.inst e.2) = _
      rw [zip_range_map_snd, data_c]
    rw [this]

theorem coherent_B {o : ArcObj} (hc : o.Coherent) : o.B.Coherent :=
  ⟨fun _ => ⟨rfl, rfl⟩, fun _ => rfl, hc.con⟩

/-- postcondition shared by all queries: coherent, problem data and stored solution untouched -/
def QPost (o o' : ArcObj) : Prop := o'.Coherent ∧ o'.inst = o.inst ∧ o'.sol = o.sol

theorem QPost.refl {o : ArcObj} (hc : o.Coherent) : QPost o o := ⟨hc, rfl, rfl⟩
theorem QPost.trans {a b c : ArcObj} (h1 : QPost a b) (h2 : QPost b c) : QPost a c :=
  ⟨h2.1, h2.2.1.trans h1.2.1, h2.2.2.trans h1.2.2⟩

theorem qpost_E {o : ArcObj} (hc : o.Coherent) : QPost o o.E := ⟨coherent_E hc, rfl, rfl⟩

theorem buildObjective_spec {o : ArcObj} (hc : o.Coherent) :
    QPost o o.buildObjective ∧ o.buildObjective.objective = o.inst.data.c := by
  rw [buildObjective_eq hc]
  cases h : o.objectiveBuilt with
  | true => exact ⟨QPost.refl hc, hc.obj h⟩
  | false => exact ⟨⟨coherent_B hc, rfl, rfl⟩, rfl⟩

theorem getObjectiveData_spec {o : ArcObj} (hc : o.Coherent) :
    QPost o o.getObjectiveData.1 ∧ o.getObjectiveData.2 = (o.inst.data.c, o.inst.data.n) := by
  obtain ⟨hq, ho⟩ := buildObjective_spec hc
  unfold getObjectiveData
  simp only
  rw [getNum_eq hq.1]
  refine ⟨hq.trans (qpost_E hq.1), ?_⟩
  show (o.buildObjective.objective, o.buildObjective.inst.vars.length) = _
  rw [ho, hq.2.1]
  rfl

/-- the object after `build_constraints_quicker` -/
def C (o : ArcObj) : ArcObj :=
  { o.E with consMatrix := o.inst.data.A, consShape := (o.inst.data.m, o.inst.data.n), consRhs := o.inst.data.b,
             constraintsBuilt := true }

theorem buildConstraintsQuicker_eq {o : ArcObj} (hc : o.Coherent) : o.buildConstraintsQuicker = o.C := by
  unfold buildConstraintsQuicker
  rw [enum_eq hc]
  simp only [getNum_eq (coherent_E hc), E_E]
  show ({ o.E with consMatrix := (arcConsOf o.inst o.inst.vars o.inst.vars.length).1,
                   consShape := (arcConsOf o.inst o.inst.vars o.inst.vars.length).2.1,
                   consRhs := (arcConsOf o.inst o.inst.vars o.inst.vars.length).2.2,
                   constraintsBuilt := true } : ArcObj) = o.C
  rw [arcConsOf_fresh]
  rfl

theorem coherent_C {o : ArcObj} (hc : o.Coherent) : o.C.Coherent :=
  ⟨fun _ => ⟨rfl, rfl⟩, hc.obj, fun _ => ⟨rfl, rfl, rfl⟩⟩

theorem buildConstraints_spec {o : ArcObj} (hc : o.Coherent) :
    QPost o o.buildConstraints ∧ o.buildConstraints.consMatrix = o.inst.data.A ∧
      o.buildConstraints.consRhs = o.inst.data.b ∧ o.buildConstraints.consShape = (o.inst.data.m, o.inst.data.n) := by
  unfold buildConstraints
  cases h : o.constraintsBuilt with
  | true =>
    simp only [if_true]
    exact ⟨QPost.refl hc, hc.con h⟩
  | false =>
    simp only [Bool.false_eq_true, if_false]
    rw [buildConstraintsQuicker_eq hc]
    exact ⟨⟨coherent_C hc, rfl, rfl⟩, rfl, rfl, rfl⟩

theorem getConstraintData_spec {o : ArcObj} (hc : o.Coherent) :
    QPost o o.getConstraintData.1 ∧
      o.getConstraintData.2 = (o.inst.data.A, (o.inst.data.m, o.inst.data.n), o.inst.data.b, o.inst.data.n) := by
  obtain ⟨hq, h1, h2, h3⟩ := buildConstraints_spec hc
  unfold getConstraintData
  simp only
  rw [getNum_eq hq.1]
  refine ⟨hq.trans (qpost_E hq.1), ?_⟩
  show (o.buildConstraints.consMatrix, o.buildConstraints.consShape, o.buildConstraints.consRhs,
      o.buildConstraints.inst.vars.length) = _
  rw [h1, h2, h3, hq.2.1]
  rfl

theorem data_eta (I : ArcInst) :
    ({ n := I.data.n, m := I.data.m, A := I.data.A, b := I.data.b, R := [], c := I.data.c, Qobj := [] } : MPData)
      = I.data := rfl

theorem getQubo_spec {o : ArcObj} (hc : o.Coherent) (feas : Bool) (rho? : Option Rat) :
    QPost o (o.getQubo feas rho?).1 ∧
      (o.getQubo feas rho?).2 = quboReply o.inst.data o.inst.suffPenalty feas rho? := by
  obtain ⟨hq, hd⟩ := getConstraintData_spec hc
  obtain ⟨hq2, hd2⟩ := getObjectiveData_spec hq.1
  unfold getQubo
  simp only [hd, ne_eq, not_true_eq_false, if_false]
  cases feas with
  | true =>
    simp only [if_true]
    refine ⟨hq, ?_⟩
    have := quboReply_feas o.inst.data (List.replicate o.inst.data.n 0) [] o.inst.suffPenalty rho?
      (by simp [ArcInst.data]) (by simp [ArcInst.data]) (by simp) (by simp)
    rw [← this]
    rfl
  | false =>
    simp only [Bool.false_eq_true, if_false, hd2, hq.2.1, not_true_eq_false]
    refine ⟨hq.trans hq2, ?_⟩
    rw [data_eta]

/-! ### the hook and the mutators -/

/-- all three flags unset -/
def Unset (o : ArcObj) : Prop :=
  o.variablesEnumerated = false ∧ o.objectiveBuilt = false ∧ o.constraintsBuilt = false

theorem Unset.coherent {o : ArcObj} (h : Unset o) : o.Coherent := coherent_of_flags h.1 h.2.1 h.2.2

theorem unset_problemChanged (o : ArcObj) : Unset o.problemChanged := ⟨rfl, rfl, rfl⟩

/-- a base-class mutator: flags unset afterwards (also when it raises), the stored solution is kept, the problem
    data are those of the graph-level call -/
theorem mutate_spec (o : ArcObj) (m : GMut) :
    Unset (o.mutate m).1 ∧ (o.mutate m).1.sol = o.sol ∧
    (o.mutate m).1.inst = { o.inst with g := (gmut .base o.inst.g m).1 } ∧
    (o.mutate m).2 = (gmut .base o.inst.g m).2 :=
  ⟨⟨rfl, rfl, rfl⟩, rfl, rfl, rfl⟩

/-- a mutator that raises has reset the flags and left the problem data and the stored solution alone -/
theorem mutate_raised (o : ArcObj) (m : GMut) (e : Err) (h : (o.mutate m).2 = .error e) :
    Unset (o.mutate m).1 ∧ (o.mutate m).1.inst = o.inst ∧ (o.mutate m).1.sol = o.sol := by
  refine ⟨⟨rfl, rfl, rfl⟩, ?_, rfl⟩
  show ({ o.inst with g := (gmut .base o.inst.g m).1 } : ArcInst) = o.inst
  rw [gmut_error_fst .base o.inst.g m e h]

theorem addTimePoints_spec (o : ArcObj) (pts : List Rat) :
    Unset (o.addTimePoints pts) ∧ (o.addTimePoints pts).sol = o.sol ∧
    (o.addTimePoints pts).inst = o.inst.addTimePoints pts :=
  ⟨⟨rfl, rfl, rfl⟩, rfl, rfl⟩

/-- `self.add_arc(...)` inside the heuristic -/
theorem mutate_addArc (o : ArcObj) (og d : String) (t c : Rat) :
    (o.mutate (.op (.addArc og d t c))).2 = (gstep .base o.inst.g (.addArc og d t c)).2 ∧
    (o.mutate (.op (.addArc og d t c))).1.sol = o.sol ∧
    (o.mutate (.op (.addArc og d t c))).1.inst = { o.inst with g := (gstep .base o.inst.g (.addArc og d t c)).1 } ∧
    ((gstep .base o.inst.g (.addArc og d t c)).2 ≠ .ok (some true) →
      (o.mutate (.op (.addArc og d t c))).1.inst = o.inst) := by
  refine ⟨rfl, rfl, rfl, fun h => ?_⟩
  show ({ o.inst with g := (gstep .base o.inst.g (.addArc og d t c)).1 } : ArcInst) = o.inst
  rw [gstep_addArc_fst _ _ _ _ _ _ h]

/-! ### the heuristic: projection to the instance level -/

/-- a flag action: touches neither the problem data nor the stored solution -/
def FlagOnly (f : ArcObj → ArcObj) : Prop := ∀ o, (f o).inst = o.inst ∧ (f o).sol = o.sol

/-- a flag action that cannot break coherence (for instance: one that only clears flags) -/
structure Harmless (f : ArcObj → ArcObj) : Prop where
  flagOnly : FlagOnly f
  coh : ∀ o, o.Coherent → (f o).Coherent

theorem checkExit_abs {exit : ArcObj → ArcObj} (hx : FlagOnly exit) (o : ArcObj) (n : Nat) (cost : Rat) :
    (o.checkAndAddExitArc exit n cost).1.inst = (arcExitI o.inst n cost).1 ∧
    (o.checkAndAddExitArc exit n cost).2 = (arcExitI o.inst n cost).2 ∧
    (o.checkAndAddExitArc exit n cost).1.sol = o.sol := by
  unfold checkAndAddExitArc arcExitI
  split_ifs with h
  · exact ⟨rfl, rfl, rfl⟩
  · obtain ⟨m1, m2, m3, m4⟩ := mutate_addArc o (nameOf o.inst.g n) (nameOf o.inst.g 0) 0 cost
    generalize o.mutate _ = a at m1 m2 m3 m4 ⊢
    generalize gstep .base o.inst.g _ = G at m1 m3 m4 ⊢
    simp only
    rw [m1]
    clear m1
    obtain ⟨g', r⟩ := G
    simp only at m3 m4 ⊢
    rcases r with e | (_ | (_ | _))
    · exact ⟨m4 (by simp), rfl, m2⟩
    · exact ⟨m4 (by simp), rfl, m2⟩
    · exact ⟨m4 (by simp), rfl, m2⟩
    · exact ⟨(hx _).1.trans m3, rfl, (hx _).2.trans m2⟩

theorem dummyStep_abs {head exit : ArcObj → ArcObj} (hh : FlagOnly head) (hx : FlagOnly exit) (t0 high : Rat)
    (o : ArcObj) (used : List ATup) (n : Nat) :
    (dummyStep head exit t0 high o used n).1.inst = (arcDummyStepI t0 high o.inst used n).1 ∧
    (dummyStep head exit t0 high o used n).2 = (arcDummyStepI t0 high o.inst used n).2 ∧
    (dummyStep head exit t0 high o used n).1.sol = o.sol := by
  have e0 := (hh o).1
  have s0 := (hh o).2
  unfold dummyStep
  simp only
  generalize head o = o0 at e0 s0 ⊢
  rw [← e0, ← s0]
  clear e0 s0
  unfold arcDummyStepI
  split_ifs with h1
  · exact ⟨rfl, rfl, rfl⟩
  · obtain ⟨m1, m2, m3, m4⟩ := mutate_addArc o0 (nameOf o0.inst.g 0) (nameOf o0.inst.g n) 0 high
    generalize o0.mutate _ = a at m1 m2 m3 m4 ⊢
    generalize gstep .base o0.inst.g _ = G at m1 m3 m4 ⊢
    simp only
    rw [m1]
    clear m1
    obtain ⟨g', r⟩ := G
    simp only at m3 m4 ⊢
    rcases r with e | (_ | (_ | _))
    · exact ⟨m4 (by simp), rfl, m2⟩
    · exact ⟨m4 (by simp), rfl, m2⟩
    · exact ⟨m4 (by simp), rfl, m2⟩
    · simp only
      rw [m3]
      cases harr : ArcInst.arrival { g := g', T := o0.inst.T } t0 0 n with
      | none => exact ⟨m3, rfl, m2⟩
      | some arr =>
        simp only
        obtain ⟨x1, x2, x3⟩ := checkExit_abs hx a.1 n high
        generalize checkAndAddExitArc exit a.1 n high = x at x1 x2 x3 ⊢
        rw [m3] at x1 x2
        rw [x2, x1]
        cases (arcExitI { g := g', T := o0.inst.T } n high).2 with
        | error e => exact ⟨x1, rfl, x3.trans m2⟩
        | ok u =>
          simp only
          cases ArcInst.arrival (arcExitI { g := g', T := o0.inst.T } n high).1 arr n 0 with
          | none => exact ⟨x1, rfl, x3.trans m2⟩
          | some arr2 => exact ⟨x1, rfl, x3.trans m2⟩

theorem flagOnly_resetAll : FlagOnly resetAll := fun _ => ⟨rfl, rfl⟩
theorem flagOnly_id : FlagOnly id := fun _ => ⟨rfl, rfl⟩

theorem harmless_resetAll : Harmless resetAll := ⟨flagOnly_resetAll, fun _ _ => Unset.coherent ⟨rfl, rfl, rfl⟩⟩
theorem harmless_id : Harmless id := ⟨flagOnly_id, fun _ h => h⟩

theorem dummyLoop_abs {head exit : ArcObj → ArcObj} (hh : FlagOnly head) (hx : FlagOnly exit) (t0 high : Rat)
    (o : ArcObj) (used : List ATup) (l : List Nat) :
    (dummyLoop head exit t0 high o used l).1.inst = (arcDummyLoopI t0 high o.inst used l).1 ∧
    (dummyLoop head exit t0 high o used l).2 = (arcDummyLoopI t0 high o.inst used l).2 ∧
    (dummyLoop head exit t0 high o used l).1.sol = o.sol := by
  induction l generalizing o used with
  | nil => exact ⟨rfl, rfl, rfl⟩
  | cons n rest ih =>
    obtain ⟨h1, h2, h3⟩ := dummyStep_abs hh hx t0 high o used n
    unfold dummyLoop arcDummyLoopI
    simp only
    rw [← h2]
    cases hr : (dummyStep head exit t0 high o used n).2 with
    | error e => exact ⟨h1, rfl, h3⟩
    | ok used' =>
      simp only
      obtain ⟨i1, i2, i3⟩ := ih (dummyStep head exit t0 high o used n).1 used'
      rw [← h1]
      exact ⟨i1, i2, i3.trans h3⟩

/-- since `add_arc` itself runs the hook, `check_and_add_exit_arc` keeps the object coherent whatever the explicit flag
    action after the `assert` does, as long as that action is harmless -/
theorem checkExit_coherent {exit : ArcObj → ArcObj} (hx : Harmless exit) (o : ArcObj) (hc : o.Coherent) (n : Nat)
    (cost : Rat) : (o.checkAndAddExitArc exit n cost).1.Coherent := by
  unfold checkAndAddExitArc
  split_ifs
  · exact hc
  · simp only
    split
    · exact hx.coh _ (mutate_spec _ _).1.coherent
    · exact (mutate_spec _ _).1.coherent

/-- the loop body keeps the object coherent, whatever it does and whether or not it raises -/
theorem dummyStep_coherent {head exit : ArcObj → ArcObj} (hh : Harmless head) (hx : Harmless exit) (t0 high : Rat)
    (o : ArcObj) (hc : o.Coherent) (used : List ATup) (n : Nat) :
    (dummyStep head exit t0 high o used n).1.Coherent := by
  have h0 := hh.coh o hc
  unfold dummyStep
  simp only
  split_ifs
  · exact h0
  · have hm := (mutate_spec (head o)
      (.op (.addArc (nameOf (head o).inst.g 0) (nameOf (head o).inst.g n) 0 high))).1.coherent
    split
    · split
      · exact hm
      · have := checkExit_coherent hx _ hm n high
        split
        · exact this
        · split
          · exact this
          · exact this
    · exact hm

theorem dummyLoop_coherent {head exit : ArcObj → ArcObj} (hh : Harmless head) (hx : Harmless exit) (t0 high : Rat)
    (o : ArcObj) (hc : o.Coherent) (used : List ATup) (l : List Nat) :
    (dummyLoop head exit t0 high o used l).1.Coherent := by
  induction l generalizing o used with
  | nil => exact hc
  | cons n rest ih =>
    unfold dummyLoop
    simp only
    have hu := dummyStep_coherent hh hx t0 high o hc used n
    cases hr : (dummyStep head exit t0 high o used n).2 with
    | error e => exact hu
    | ok used' => exact ih _ hu used'

theorem lookupAll_eq (o : ArcObj) (hv : o.variablesEnumerated = true) (hm : o.varMapping = o.inst.vars)
    (used : List ATup) (acc : List Nat) :
    o.lookupAll used acc = (o, lookupAllI o.inst.varIndex used acc) := by
  induction used generalizing acc with
  | nil => rfl
  | cons a rest ih =>
    have hg : o.getVarIndex a = (o, o.inst.varIndex a) := by
      unfold getVarIndex enumerateVariables
      simp only [hv, if_true, hm]
      rfl
    unfold lookupAll lookupAllI
    simp only [hg]
    cases o.inst.varIndex a with
    | none => rfl
    | some k => exact ih _

theorem storeSolution_eq {o : ArcObj} (hc : o.Coherent) (used : List ATup) :
    o.storeSolution used =
      match lookupAllI o.inst.varIndex used [] with
      | none => ({ o.E with sol := none }, .error .value)
      | some idxs => ({ o.E with sol := some (solVec o.inst.vars.length idxs) }, .ok ()) := by
  unfold storeSolution
  simp only
  rw [enum_eq hc, lookupAll_eq o.E rfl rfl]
  show (match lookupAllI o.inst.varIndex used [] with | none => _ | some idxs => _) = _
  cases lookupAllI o.inst.varIndex used [] with
  | none => rfl
  | some idxs => rfl

theorem storeSolution_spec {o : ArcObj} (hc : o.Coherent) (used : List ATup) :
    (o.storeSolution used).1.Coherent ∧ (o.storeSolution used).1.inst = o.inst ∧
    (match lookupAllI o.inst.varIndex used [] with
     | none => (o.storeSolution used).1.sol = none ∧ (o.storeSolution used).2 = .error .value
     | some idxs => (o.storeSolution used).1.sol = some (solVec o.inst.vars.length idxs) ∧
                      (o.storeSolution used).2 = .ok ()) := by
  rw [storeSolution_eq hc]
  have hE := coherent_E hc
  cases lookupAllI o.inst.varIndex used [] with
  | none => exact ⟨⟨hE.vars, hE.obj, hE.con⟩, rfl, rfl, rfl⟩
  | some idxs => exact ⟨⟨hE.vars, hE.obj, hE.con⟩, rfl, rfl, rfl⟩

/-- the heuristic on an EMPTY time grid, coherent object, ANY harmless flag action at the loop head: coherent
    afterwards, the problem data are those of the instance-level run (the entry arc of the first unvisited node stays when
    `self.time_points[0]` raises after it), and the stored solution is updated as the instance-level outcome says -/
theorem emptyGridWith_spec {head : ArcObj → ArcObj} (hh : Harmless head) {o : ArcObj} (hc : o.Coherent) (high : Rat) :
    (o.emptyGridWith head high).1.Coherent ∧
    (o.emptyGridWith head high).1.inst = (o.inst.heurEmptyP high).1 ∧
    (match (o.inst.heurEmptyP high).2 with
     | .ok sol => (o.emptyGridWith head high).1.sol = some sol ∧ (o.emptyGridWith head high).2 = .ok ()
     | .lookupFailed => (o.emptyGridWith head high).1.sol = none ∧ (o.emptyGridWith head high).2 = .error .value
     | .raised e => (o.emptyGridWith head high).1.sol = o.sol ∧ (o.emptyGridWith head high).2 = .error e) := by
  unfold emptyGridWith ArcInst.heurEmptyP
  by_cases hv : o.inst.g.estimateMaxVehicles ≠ 0
  · rw [if_pos hv, if_pos hv]
    exact ⟨hc, rfl, rfl, rfl⟩
  · rw [if_neg hv, if_neg hv]
    generalize (List.range (o.inst.g.nodes.length - 1)).map (· + 1) = l
    cases l with
    | nil =>
      obtain ⟨k1, k2, k3⟩ := storeSolution_spec hc []
      exact ⟨k1, k2, k3⟩
    | cons n rest =>
      simp only
      have e0 := (hh.flagOnly o).1
      have s0 := (hh.flagOnly o).2
      have c0 := hh.coh o hc
      generalize head o = o0 at e0 s0 c0 ⊢
      rw [← e0, ← s0]
      clear e0 s0
      split_ifs with h1
      · exact ⟨c0, rfl, rfl, rfl⟩
      · obtain ⟨m1, m2, m3, m4⟩ := mutate_addArc o0 (nameOf o0.inst.g 0) (nameOf o0.inst.g n) 0 high
        have mc := (mutate_spec o0 (.op (.addArc (nameOf o0.inst.g 0) (nameOf o0.inst.g n) 0 high))).1.coherent
        generalize o0.mutate _ = a at m1 m2 m3 m4 mc ⊢
        generalize gstep .base o0.inst.g _ = G at m1 m3 m4 ⊢
        rw [m1]
        clear m1
        obtain ⟨g', r⟩ := G
        simp only at m3 m4 ⊢
        rcases r with e | (_ | (_ | _))
        · exact ⟨mc, m4 (by simp), m2, rfl⟩
        · exact ⟨mc, m4 (by simp), m2, rfl⟩
        · exact ⟨mc, m4 (by simp), m2, rfl⟩
        · exact ⟨mc, m3, m2, rfl⟩

/-- the heuristic on a coherent object, with ANY harmless flag actions at the two explicit reset sites: coherent
    afterwards (also when it raises), the problem data are those of the instance-level run, and the stored solution is
    updated as the instance-level outcome says.  (Every change of the problem data inside the heuristic goes through
    the public `add_arc`, which runs the hook.)  The empty time grid is included (`emptyGridWith_spec`). -/
theorem makeFeasibleWith_spec {head exit : ArcObj → ArcObj} (hh : Harmless head) (hx : Harmless exit) {o : ArcObj}
    (hc : o.Coherent) (high : Rat) :
    (o.makeFeasibleWith head exit high).1.Coherent ∧
    (o.makeFeasibleWith head exit high).1.inst = (o.inst.heurP high).1 ∧
    (match (o.inst.heurP high).2 with
     | .ok sol => (o.makeFeasibleWith head exit high).1.sol = some sol ∧ (o.makeFeasibleWith head exit high).2 = .ok ()
     | .lookupFailed =>
        (o.makeFeasibleWith head exit high).1.sol = none ∧ (o.makeFeasibleWith head exit high).2 = .error .value
     | .raised e =>
        (o.makeFeasibleWith head exit high).1.sol = o.sol ∧ (o.makeFeasibleWith head exit high).2 = .error e) := by
  unfold makeFeasibleWith ArcInst.heurP
  cases ht : o.inst.T.head? with
  | none => exact emptyGridWith_spec hh hc high
  | some t0 =>
    simp only
    cases hg : o.inst.greedy with
    | error e => exact ⟨hc, rfl, rfl, rfl⟩
    | ok p =>
      obtain ⟨unv, used⟩ := p
      simp only
      obtain ⟨h1, h2, h3⟩ := dummyLoop_abs hh.flagOnly hx.flagOnly t0 high o used unv
      have h4 := dummyLoop_coherent hh hx t0 high o hc used unv
      rw [← h2]
      cases hr : (dummyLoop head exit t0 high o used unv).2 with
      | error e => exact ⟨h4, h1, h3, rfl⟩
      | ok used1 =>
        simp only
        obtain ⟨k1, k2, k3⟩ := storeSolution_spec h4 used1
        rw [← h1]
        cases hl : lookupAllI (dummyLoop head exit t0 high o used unv).1.inst.varIndex used1 [] with
        | none => rw [hl] at k3; exact ⟨k1, k2.trans rfl, k3.1.trans rfl, k3.2⟩
        | some idxs => rw [hl] at k3; exact ⟨k1, k2, k3⟩

/-- the heuristic of the code -/
theorem makeFeasible_spec {o : ArcObj} (hc : o.Coherent) (high : Rat) :
    (o.makeFeasible high).1.Coherent ∧ (o.makeFeasible high).1.inst = (o.inst.heurP high).1 ∧
    (match (o.inst.heurP high).2 with
     | .ok sol => (o.makeFeasible high).1.sol = some sol ∧ (o.makeFeasible high).2 = .ok ()
     | .lookupFailed => (o.makeFeasible high).1.sol = none ∧ (o.makeFeasible high).2 = .error .value
     | .raised e => (o.makeFeasible high).1.sol = o.sol ∧ (o.makeFeasible high).2 = .error e) :=
  makeFeasibleWith_spec harmless_resetAll harmless_resetAll hc high

end ArcObj

/-! ### connection of the arc specification heuristic to `ArcInst.makeFeasible` -/

/-- `Except`-valued reading of a loop outcome (partial state dropped on error) -/
def toExc {σ β : Type} (r : σ × Except Err β) : Except Err (σ × β) :=
  match r.2 with
  | .ok u => .ok (r.1, u)
  | .error e => .error e

/-- the loop body folded by `ArcInst.makeFeasible` (verbatim) -/
def arcF (t0 high : Rat) (acc : Except Err (ArcInst × List ATup)) (n : Nat) : Except Err (ArcInst × List ATup) :=
        match acc with
        | .error e => .error e
        | .ok (J, used) =>
          if J.g.hasArc 0 n then .error .assert else
          let a := gstep .base J.g (.addArc (nameOf J.g 0) (nameOf J.g n) 0 high)
          match a.2 with
          | .ok (some true) =>
            let J1 : ArcInst := { J with g := a.1 }
            match J1.arrival t0 0 n with
            | none => .error .assert
            | some arr =>
              let g2 : Except Err Graph := if J1.g.hasArc n 0 then Except.ok J1.g else
                (match gstep .base J1.g (.addArc (nameOf J1.g n) (nameOf J1.g 0) 0 high) with
                 | (g', .ok (some true)) => Except.ok g'
                 | _ => Except.error Err.assert)
              match g2 with
              | .error e => .error e
              | .ok g2 =>
                let J2 : ArcInst := { J1 with g := g2 }
                match J2.arrival arr n 0 with
                | none => .error .assert
                | some arr2 => .ok (J2, used ++ [(0, t0, n, arr), (n, arr, 0, arr2)])
          | _ => .error .assert

theorem arcF_step (t0 high : Rat) (J : ArcInst) (used : List ATup) (n : Nat) :
    arcF t0 high (.ok (J, used)) n = toExc (arcDummyStepI t0 high J used n) := by
  unfold arcF arcDummyStepI toExc
  simp only
  by_cases h1 : J.g.hasArc 0 n = true
  · rw [if_pos h1, if_pos h1]
  · rw [if_neg h1, if_neg h1]
    generalize gstep .base J.g _ = a
    obtain ⟨g', r⟩ := a
    rcases r with e | (_ | (_ | _))
    · rfl
    · rfl
    · rfl
    · simp only
      cases ArcInst.arrival { g := g', T := J.T } t0 0 n with
      | none => rfl
      | some arr =>
        simp only
        unfold arcExitI
        simp only
        by_cases h2 : g'.hasArc n 0 = true
        · rw [if_pos h2, if_pos h2]
          simp only
          cases ArcInst.arrival { g := g', T := J.T } arr n 0 with
          | none => rfl
          | some arr2 => rfl
        · rw [if_neg h2, if_neg h2]
          generalize gstep .base g' _ = a2
          obtain ⟨g'', r2⟩ := a2
          rcases r2 with e | (_ | (_ | _))
          · rfl
          · rfl
          · rfl
          · simp only
            cases ArcInst.arrival { g := g'', T := J.T } arr n 0 with
            | none => rfl
            | some arr2 => rfl

theorem arcF_error (t0 high : Rat) (e : Err) (l : List Nat) :
    l.foldl (arcF t0 high) (.error e) = .error e := by
  induction l with
  | nil => rfl
  | cons n rest ih => exact ih

theorem arcF_foldl (t0 high : Rat) (J : ArcInst) (used : List ATup) (l : List Nat) :
    l.foldl (arcF t0 high) (.ok (J, used)) = toExc (arcDummyLoopI t0 high J used l) := by
  induction l generalizing J used with
  | nil => rfl
  | cons n rest ih =>
    rw [List.foldl_cons, arcF_step]
    unfold arcDummyLoopI
    simp only
    cases hr : (arcDummyStepI t0 high J used n).2 with
    | error e =>
      simp only [toExc, hr]
      exact arcF_error t0 high e rest
    | ok used' =>
      simp only [toExc, hr]
      exact ih _ _

/-- the lookup fold of the instance-level heuristics -/
theorem lookup_foldl {α : Type} (f : α → Option Nat) (l : List α) (acc : List Nat) :
    l.foldl (fun (acc : Option (List Nat)) u =>
            match acc, f u with
            | some l, some k => some (l ++ [k])
            | _, _ => none) (some acc) = lookupAllI f l acc := by
  induction l generalizing acc with
  | nil => rfl
  | cons a rest ih =>
    rw [List.foldl_cons]
    unfold lookupAllI
    cases f a with
    | none =>
      simp only
      clear ih
      induction rest with
      | nil => rfl
      | cons b rest ih2 => rw [List.foldl_cons]; exact ih2
    | some k => exact ih _

/-- **connection to `ArcInst.makeFeasible`** (VrpModel/Heuristics.lean), for a NON-EMPTY time grid: the partial-effect
    heuristic of the specification succeeds exactly when that one does, with the same instance and solution, and raises
    the same error.  The hypothesis `I.T ≠ []` is needed: `ArcInst.makeFeasible` (documented as not covering the empty
    grid) answers `.error .index` for every empty grid, whereas the code — and `heurP` — succeed with the empty
    solution when the grid is empty, `max_vehicles = 0` and no node is unvisited (`arc_heurP_emptyGrid_ok`). -/
theorem arc_makeFeasible_eq_heurP (I : ArcInst) (hT : I.T ≠ []) (high : Rat) :
    I.makeFeasible high =
      match (I.heurP high).2 with
      | .ok sol => .ok ((I.heurP high).1, sol)
      | .lookupFailed => .error .value
      | .raised e => .error e := by
  unfold ArcInst.makeFeasible ArcInst.heurP ArcInst.greedy
  cases ht : I.T.head? with
  | none => exact absurd (List.head?_eq_none_iff.mp ht) hT
  | some t0 =>
    simp only
    generalize List.foldl _ _ (List.range I.g.estimateMaxVehicles) = r1
    cases r1 with
    | error e => rfl
    | ok p =>
      obtain ⟨unv, used⟩ := p
      simp only
      have hfold := arcF_foldl t0 high I used unv
      erw [hfold]
      unfold toExc
      cases hr : (arcDummyLoopI t0 high I used unv).2 with
      | error e => rfl
      | ok used1 =>
        simp only
        erw [lookup_foldl]
        cases lookupAllI (arcDummyLoopI t0 high I used unv).1.varIndex used1 [] with
        | none => rfl
        | some idxs => rfl

/-- on an empty grid `ArcInst.makeFeasible` reports `.error .index` whatever the graph -/
theorem arc_makeFeasible_emptyGrid (I : ArcInst) (hT : I.T = []) (high : Rat) :
    I.makeFeasible high = .error .index := by
  unfold ArcInst.makeFeasible
  rw [hT]
  rfl

/-- the sub-case in which the connection fails without `I.T ≠ []`: empty grid, `max_vehicles = 0`, at most the depot —
    the code (and `heurP`) store the empty all-zero solution and return normally -/
theorem arc_heurP_emptyGrid_ok (I : ArcInst) (hT : I.T = []) (hv : I.g.estimateMaxVehicles = 0)
    (hN : I.g.nodes.length ≤ 1) (high : Rat) : I.heurP high = (I, .ok (solVec I.vars.length [])) := by
  unfold ArcInst.heurP ArcInst.heurEmptyP
  rw [hT]
  have hl : (List.range (I.g.nodes.length - 1)).map (· + 1) = [] := by
    have : I.g.nodes.length - 1 = 0 := by omega
    rw [this]
    rfl
  simp only [List.head?_nil, hv, ne_eq, not_true_eq_false, if_false, hl]

/-! ## sequence object -/

/-- flag set ⇒ the cached value is the value computed afresh from the current instance -/
structure SeqObj.Coherent (o : SeqObj) : Prop where
  vars : o.variablesEnumerated = true → o.varMapping = o.inst.vars ∧ o.numVariables = o.inst.vars.length
  /-- the cached `fixed_values` (its entries equal to 1) are those of the current instance -/
  fixed : o.variablesEnumerated = true → o.fixedOnes = o.inst.fixedOnes
  obj : o.objectiveBuilt = true →
    o.objectiveC = o.inst.objective.1 ∧ o.objectiveQ = o.inst.objective.2 ∧ o.objQShape = o.inst.vars.length
  lin : o.linConBuilt = true →
    o.linMatrix = o.inst.linCons.1 ∧ o.linRhs = o.inst.linCons.2 ∧
      o.linShape = (o.inst.linCons.2.length, o.inst.vars.length)
  quad : o.quadConBuilt = true → o.inst.quadCons = some o.quadMatrix ∧ o.quadShape = o.inst.vars.length

namespace SeqObj

theorem coherent_init (I : SeqInst) : (SeqObj.init I).Coherent :=
  ⟨by simp [SeqObj.init], by simp [SeqObj.init], by simp [SeqObj.init], by simp [SeqObj.init], by simp [SeqObj.init]⟩

/-- all four flags unset -/
def Unset (o : SeqObj) : Prop :=
  o.variablesEnumerated = false ∧ o.objectiveBuilt = false ∧ o.linConBuilt = false ∧ o.quadConBuilt = false

theorem Unset.coherent {o : SeqObj} (h : Unset o) : o.Coherent :=
  ⟨by simp [h.1], by simp [h.1], by simp [h.2.1], by simp [h.2.2.1], by simp [h.2.2.2]⟩

def E (o : SeqObj) : SeqObj :=
  { o with varMapping := o.inst.vars, numVariables := o.inst.vars.length, fixedOnes := o.inst.fixedOnes,
           variablesEnumerated := true }

theorem enum_eq {o : SeqObj} (hc : o.Coherent) : o.enumerateVariables = o.E := by
  unfold enumerateVariables E
  cases h : o.variablesEnumerated with
  | false => simp
  | true =>
    obtain ⟨h1, h2⟩ := hc.vars h
    have h3 := hc.fixed h
    cases o
    simp_all

theorem coherent_E {o : SeqObj} (hc : o.Coherent) : o.E.Coherent :=
  ⟨fun _ => ⟨rfl, rfl⟩, fun _ => rfl, hc.obj, hc.lin, hc.quad⟩

theorem E_E (o : SeqObj) : o.E.E = o.E := rfl

theorem getNum_eq {o : SeqObj} (hc : o.Coherent) : o.getNumVariables = (o.E, o.inst.vars.length) := by
  unfold getNumVariables
  cases h : o.variablesEnumerated with
  | false => simp [enum_eq hc, E]
  | true =>
    obtain ⟨h1, h2⟩ := hc.vars h
    have h3 := hc.fixed h
    have : o = o.E := by
      unfold E
      cases o
      simp_all
    simp only [Bool.not_true, Bool.false_eq_true, if_false]
    rw [← this, h2]

theorem getVarIndex_eq {o : SeqObj} (hc : o.Coherent) (u : STup) : o.getVarIndex u = (o.E, o.inst.varIndex u) := by
  unfold getVarIndex
  rw [enum_eq hc]
  rfl

theorem getVarTupleIndex_eq {o : SeqObj} (hc : o.Coherent) (k : Nat) :
    o.getVarTupleIndex k = (o.E, o.inst.varTuple k) := by
  unfold getVarTupleIndex
  rw [enum_eq hc]
  rfl

/-- `get_routes` on a coherent object: the reply of the cache-free `SeqInst.getRoutes` (the cached `fixed_values` read
    after the enumeration are the fresh ones); the object is untouched when nothing is selected and enumerated
    otherwise -/
theorem getRoutes_eq {o : SeqObj} (hc : o.Coherent) (x : List Rat) :
    o.getRoutes x = (if (selectedIdx x).isEmpty then o else o.E, o.inst.getRoutes x) := by
  unfold getRoutes SeqInst.getRoutes
  simp only
  cases h : (selectedIdx x).isEmpty with
  | true => simp
  | false =>
    simp only [Bool.false_eq_true, if_false]
    rw [enum_eq hc]
    rfl

def QPost (o o' : SeqObj) : Prop := o'.Coherent ∧ o'.inst = o.inst ∧ o'.sol = o.sol

theorem QPost.refl {o : SeqObj} (hc : o.Coherent) : QPost o o := ⟨hc, rfl, rfl⟩
theorem QPost.trans {a b c : SeqObj} (h1 : QPost a b) (h2 : QPost b c) : QPost a c :=
  ⟨h2.1, h2.2.1.trans h1.2.1, h2.2.2.trans h1.2.2⟩
theorem qpost_E {o : SeqObj} (hc : o.Coherent) : QPost o o.E := ⟨coherent_E hc, rfl, rfl⟩

/-- the object after `build_objective` -/
def B (o : SeqObj) : SeqObj :=
  { o.E with objectiveC := o.inst.objective.1, objectiveQ := o.inst.objective.2, objQShape := o.inst.vars.length,
             objectiveBuilt := true }

theorem buildObjective_eq {o : SeqObj} (hc : o.Coherent) :
    o.buildObjective = if o.objectiveBuilt then o else o.B := by
  unfold buildObjective
  cases h : o.objectiveBuilt with
  | true => simp
  | false =>
    simp only [Bool.false_eq_true, if_false]
    rw [enum_eq hc]
    simp only [getNum_eq (coherent_E hc), E_E]
    rfl

theorem buildObjective_spec {o : SeqObj} (hc : o.Coherent) :
    QPost o o.buildObjective ∧ o.buildObjective.objectiveC = o.inst.objective.1 ∧
      o.buildObjective.objectiveQ = o.inst.objective.2 ∧ o.buildObjective.objQShape = o.inst.vars.length := by
  rw [buildObjective_eq hc]
  cases h : o.objectiveBuilt with
  | true => exact ⟨QPost.refl hc, hc.obj h⟩
  | false =>
    exact ⟨⟨⟨fun _ => ⟨rfl, rfl⟩, fun _ => rfl, fun _ => ⟨rfl, rfl, rfl⟩, hc.lin, hc.quad⟩, rfl, rfl⟩, rfl, rfl, rfl⟩

theorem getObjectiveData_spec {o : SeqObj} (hc : o.Coherent) :
    QPost o o.getObjectiveData.1 ∧
      o.getObjectiveData.2 = (o.inst.objective.1, o.inst.objective.2, o.inst.vars.length) := by
  obtain ⟨hq, h1, h2, h3⟩ := buildObjective_spec hc
  unfold getObjectiveData
  simp only
  rw [h1, h2, h3]
  exact ⟨hq, rfl⟩

/-- the object after `build_linear_constraints` -/
def Lc (o : SeqObj) : SeqObj :=
  { o.E with linMatrix := o.inst.linCons.1, linRhs := o.inst.linCons.2,
             linShape := (o.inst.linCons.2.length, o.inst.vars.length), linConBuilt := true }

theorem buildLinear_eq {o : SeqObj} (hc : o.Coherent) :
    o.buildLinearConstraints = if o.linConBuilt then o else o.Lc := by
  unfold buildLinearConstraints
  cases h : o.linConBuilt with
  | true => simp
  | false =>
    simp only [Bool.false_eq_true, if_false]
    rw [enum_eq hc]
    simp only [getNum_eq (coherent_E hc), E_E]
    rfl

theorem buildLinear_spec {o : SeqObj} (hc : o.Coherent) :
    QPost o o.buildLinearConstraints ∧ o.buildLinearConstraints.linConBuilt = true := by
  rw [buildLinear_eq hc]
  cases h : o.linConBuilt with
  | true => exact ⟨QPost.refl hc, h⟩
  | false =>
    exact ⟨⟨⟨fun _ => ⟨rfl, rfl⟩, fun _ => rfl, hc.obj, fun _ => ⟨rfl, rfl, rfl⟩, hc.quad⟩, rfl, rfl⟩, rfl⟩

theorem buildQuadratic_spec {o : SeqObj} (hc : o.Coherent) :
    QPost o o.buildQuadraticConstraints.1 ∧ o.buildQuadraticConstraints.1.linConBuilt = o.linConBuilt ∧
    (match o.inst.quadCons with
     | none => o.buildQuadraticConstraints.2 = .error .assert
     | some R => o.buildQuadraticConstraints.2 = .ok () ∧ o.buildQuadraticConstraints.1.quadMatrix = R ∧
                  o.buildQuadraticConstraints.1.quadShape = o.inst.vars.length) := by
  unfold buildQuadraticConstraints
  cases h : o.quadConBuilt with
  | true =>
    obtain ⟨h1, h2⟩ := hc.quad h
    simp only [if_true]
    rw [h1]
    exact ⟨QPost.refl hc, trivial, trivial, rfl, h2⟩
  | false =>
    simp only [Bool.false_eq_true, if_false]
    rw [enum_eq hc]
    show _ ∧ _ ∧ (match o.inst.quadCons with | none => _ | some R => _)
    have hE : o.E.inst = o.inst := rfl
    rw [hE]
    cases hq : o.inst.quadCons with
    | none => exact ⟨qpost_E hc, rfl, rfl⟩
    | some R =>
      simp only [getNum_eq (coherent_E hc), E_E]
      have hE' := coherent_E hc
      exact ⟨⟨⟨fun _ => ⟨rfl, rfl⟩, fun _ => rfl, hE'.obj, hE'.lin, fun _ => ⟨hq, rfl⟩⟩, rfl, rfl⟩, rfl, trivial, trivial,
        rfl⟩

theorem getConstraintData_spec {o : SeqObj} (hc : o.Coherent) :
    QPost o o.getConstraintData.1 ∧
      o.getConstraintData.2 =
        (match o.inst.quadCons with
         | none => .error .assert
         | some R => .ok (o.inst.linCons.1, (o.inst.linCons.2.length, o.inst.vars.length), o.inst.linCons.2, R,
                      o.inst.vars.length)) := by
  obtain ⟨hq, hl⟩ := buildLinear_spec hc
  obtain ⟨hq2, hl2, h3⟩ := buildQuadratic_spec hq.1
  unfold getConstraintData
  simp only
  rw [hq.2.1] at h3
  have hlb : o.buildLinearConstraints.buildQuadraticConstraints.1.linConBuilt = true := by rw [hl2, hl]
  obtain ⟨l1, l2, l3⟩ := hq2.1.lin hlb
  have hi : o.buildLinearConstraints.buildQuadraticConstraints.1.inst = o.inst := hq2.2.1.trans hq.2.1
  cases hqc : o.inst.quadCons with
  | none =>
    rw [hqc] at h3
    simp only [h3]
    exact ⟨hq.trans hq2, trivial⟩
  | some R =>
    rw [hqc] at h3
    simp only [h3.1]
    refine ⟨hq.trans hq2, ?_⟩
    rw [l1, l2, l3, h3.2.1, h3.2.2, hi]

theorem data_eq (I : SeqInst) :
    I.data = match I.quadCons with
      | none => none
      | some R => some { n := I.vars.length, m := I.linCons.2.length, A := I.linCons.1, b := I.linCons.2, R := R,
                         c := I.objective.1, Qobj := I.objective.2 } := by
  unfold SeqInst.data
  cases I.quadCons with
  | none => rfl
  | some R => rfl

theorem getQubo_spec {o : SeqObj} (hc : o.Coherent) (feas : Bool) (rho? : Option Rat) :
    QPost o (o.getQubo feas rho?).1 ∧
      (o.getQubo feas rho?).2 =
        (match o.inst.data with
         | none => .error .assert
         | some d => quboReply d o.inst.suffPenalty feas rho?) := by
  obtain ⟨hq, hd⟩ := getConstraintData_spec hc
  obtain ⟨hq2, hd2⟩ := getObjectiveData_spec hq.1
  unfold getQubo
  simp only
  rw [hd]
  cases hqc : o.inst.quadCons with
  | none =>
    have hdat : o.inst.data = none := by rw [data_eq, hqc]
    rw [hdat]
    exact ⟨hq, rfl⟩
  | some R =>
    have hdat := data_eq o.inst
    rw [hqc] at hdat
    simp only at hdat
    rw [hdat]
    simp only [ne_eq, not_true_eq_false, if_false]
    cases feas with
    | true =>
      simp only [if_true]
      refine ⟨hq, ?_⟩
      have hws := C02.seq_wellShaped o.inst _ hdat
      unfold MPData.wellShaped at hws
      simp only [Bool.and_eq_true, decide_eq_true_eq] at hws
      have := quboReply_feas (d := { n := o.inst.vars.length, m := o.inst.linCons.2.length, A := o.inst.linCons.1, b := o.inst.linCons.2, R := R, c := o.inst.objective.1, Qobj := o.inst.objective.2 })
        (List.replicate o.inst.vars.length 0) [] o.inst.suffPenalty rho? hws.1.1.1.2 hws.2 (by simp) (by simp)
      rw [← this]
    | false =>
      simp only [Bool.false_eq_true, if_false, hd2, hq.2.1, not_true_eq_false]
      exact ⟨hq.trans hq2, trivial⟩

/-! ### the heuristic: projection to the instance level -/

def FlagOnly (f : SeqObj → SeqObj) : Prop := ∀ o, (f o).inst = o.inst ∧ (f o).sol = o.sol

/-- a flag action that cannot break coherence (for instance: one that only clears flags) -/
structure Harmless (f : SeqObj → SeqObj) : Prop where
  flagOnly : FlagOnly f
  coh : ∀ o, o.Coherent → (f o).Coherent

theorem flagOnly_resetAll : FlagOnly resetAll := fun _ => ⟨rfl, rfl⟩
theorem flagOnly_id : FlagOnly id := fun _ => ⟨rfl, rfl⟩
theorem harmless_resetAll : Harmless resetAll := ⟨flagOnly_resetAll, fun _ _ => Unset.coherent ⟨rfl, rfl, rfl, rfl⟩⟩
theorem harmless_id : Harmless id := ⟨flagOnly_id, fun _ h => h⟩

/-! ### the hook and the mutators -/

/-- a forwarded mutator: flags unset afterwards (also when it raises), the stored solution is kept, the problem data
    are those of the graph-level call -/
theorem mutate_spec (o : SeqObj) (m : GMut) :
    Unset (o.mutate m).1 ∧ (o.mutate m).1.sol = o.sol ∧
    (o.mutate m).1.inst = { o.inst with g := (gmut (.seq o.inst.strict) o.inst.g m).1 } ∧
    (o.mutate m).2 = (gmut (.seq o.inst.strict) o.inst.g m).2 :=
  ⟨⟨rfl, rfl, rfl, rfl⟩, rfl, rfl, rfl⟩

/-- a mutator that raises has reset the flags and left the problem data and the stored solution alone -/
theorem mutate_raised (o : SeqObj) (m : GMut) (e : Err) (h : (o.mutate m).2 = .error e) :
    Unset (o.mutate m).1 ∧ (o.mutate m).1.inst = o.inst ∧ (o.mutate m).1.sol = o.sol := by
  refine ⟨⟨rfl, rfl, rfl, rfl⟩, ?_, rfl⟩
  show ({ o.inst with g := (gmut (.seq o.inst.strict) o.inst.g m).1 } : SeqInst) = o.inst
  rw [gmut_error_fst (.seq o.inst.strict) o.inst.g m e h]

theorem setMaxVehicles_spec (o : SeqObj) (v : Nat) :
    Unset (o.setMaxVehicles v) ∧ (o.setMaxVehicles v).sol = o.sol ∧
    (o.setMaxVehicles v).inst = o.inst.setMaxVehicles v :=
  ⟨⟨rfl, rfl, rfl, rfl⟩, rfl, rfl⟩

theorem setMaxSeqLen_spec (o : SeqObj) (l : Nat) :
    Unset (o.setMaxSeqLen l) ∧ (o.setMaxSeqLen l).sol = o.sol ∧ (o.setMaxSeqLen l).inst = o.inst.setMaxSeqLen l :=
  ⟨⟨rfl, rfl, rfl, rfl⟩, rfl, rfl⟩

/-- `self.add_arc(...)` inside the heuristic: the flags are unset afterwards whether or not the arc is accepted -/
theorem addArcIdx_spec (o : SeqObj) (i j : Nat) (t c : Rat) :
    Unset (o.addArcIdx i j t c).1 ∧ (o.addArcIdx i j t c).1.sol = o.sol ∧
    (match addArcOrFail (.seq o.inst.strict) o.inst.g i j t c with
     | none => (o.addArcIdx i j t c).2 = false ∧ (o.addArcIdx i j t c).1.inst = o.inst
     | some g' => (o.addArcIdx i j t c).2 = true ∧ (o.addArcIdx i j t c).1.inst = { o.inst with g := g' }) := by
  have hk := gstep_addArc_fst (.seq o.inst.strict) o.inst.g (nameOf o.inst.g i) (nameOf o.inst.g j) t c
  have e1 : (o.mutate (.op (.addArc (nameOf o.inst.g i) (nameOf o.inst.g j) t c))).2
      = (gstep (.seq o.inst.strict) o.inst.g (.addArc (nameOf o.inst.g i) (nameOf o.inst.g j) t c)).2 := rfl
  have e2 : (o.mutate (.op (.addArc (nameOf o.inst.g i) (nameOf o.inst.g j) t c))).1.sol = o.sol := rfl
  have e3 : (o.mutate (.op (.addArc (nameOf o.inst.g i) (nameOf o.inst.g j) t c))).1.inst
      = { o.inst with g := (gstep (.seq o.inst.strict) o.inst.g
            (.addArc (nameOf o.inst.g i) (nameOf o.inst.g j) t c)).1 } := rfl
  have eu : Unset (o.mutate (.op (.addArc (nameOf o.inst.g i) (nameOf o.inst.g j) t c))).1 := ⟨rfl, rfl, rfl, rfl⟩
  unfold addArcIdx addArcOrFail
  simp only
  generalize o.mutate _ = a at e1 e2 e3 eu ⊢
  rw [e1]
  clear e1
  generalize gstep (.seq o.inst.strict) o.inst.g _ = G at hk e3 ⊢
  obtain ⟨g', r⟩ := G
  simp only at hk e3 ⊢
  rcases r with e | (_ | (_ | _))
  · exact ⟨eu, e2, rfl, by rw [e3, hk (by simp)]⟩
  · exact ⟨eu, e2, rfl, by rw [e3, hk (by simp)]⟩
  · exact ⟨eu, e2, rfl, by rw [e3, hk (by simp)]⟩
  · exact ⟨eu, e2, rfl, e3⟩

/-- `if not check_arc: if not add_arc: raise` of the dummy-vehicle loop -/
theorem ensureArc_spec (o : SeqObj) (i j : Nat) (t c : Rat) :
    (o.ensureArc i j t c).1.sol = o.sol ∧ (Unset o → Unset (o.ensureArc i j t c).1) ∧
    (match (if o.inst.g.hasArc i j then some o.inst.g else addArcOrFail (.seq o.inst.strict) o.inst.g i j t c) with
     | none => (o.ensureArc i j t c).2 = false ∧ (o.ensureArc i j t c).1.inst = o.inst
     | some g' => (o.ensureArc i j t c).2 = true ∧ (o.ensureArc i j t c).1.inst = { o.inst with g := g' }) := by
  unfold ensureArc
  by_cases h : o.inst.g.hasArc i j = true
  · rw [if_pos h, if_pos h]
    exact ⟨rfl, fun hu => hu, rfl, rfl⟩
  · rw [if_neg h, if_neg h]
    obtain ⟨u1, u2, u3⟩ := addArcIdx_spec o i j t c
    exact ⟨u2, fun _ => u1, u3⟩

theorem ensureExitArc_abs {exit : SeqObj → SeqObj} (hx : FlagOnly exit) (o : SeqObj) (cur : Nat) :
    match ensureExit (.seq o.inst.strict) o.inst.g cur with
    | none => (o.ensureExitArc exit cur).2 = .error .value ∧
        (o.ensureExitArc exit cur).1.inst = o.inst ∧ (o.ensureExitArc exit cur).1.sol = o.sol
    | some g' => (o.ensureExitArc exit cur).2 = .ok () ∧
        (o.ensureExitArc exit cur).1.inst = { o.inst with g := g' } ∧ (o.ensureExitArc exit cur).1.sol = o.sol := by
  unfold ensureExitArc ensureExit
  by_cases h : o.inst.g.hasArc cur 0 = true
  · rw [if_pos h, if_pos h]
    exact ⟨rfl, rfl, rfl⟩
  · rw [if_neg h, if_neg h]
    obtain ⟨_, u2, u3⟩ := addArcIdx_spec o cur 0 0 0
    generalize o.addArcIdx cur 0 0 0 = a at u2 u3 ⊢
    revert u3
    cases addArcOrFail (Flavor.seq o.inst.strict) o.inst.g cur 0 0 0 with
    | none =>
      intro u3
      simp only at u3 ⊢
      simp only [u3.1, Bool.false_eq_true, if_false]
      exact ⟨trivial, u3.2, u2⟩
    | some g' =>
      intro u3
      simp only at u3 ⊢
      simp only [u3.1, if_true]
      exact ⟨trivial, (hx _).1.trans u3.2, (hx _).2.trans u2⟩

/-- since `add_arc` itself runs the hook, `_ensure_exit_arc` keeps the object coherent whatever the explicit flag
    action after it does, as long as that action is harmless -/
theorem ensureExitArc_coherent {exit : SeqObj → SeqObj} (hx : Harmless exit) (o : SeqObj) (hc : o.Coherent)
    (cur : Nat) : (o.ensureExitArc exit cur).1.Coherent := by
  unfold ensureExitArc
  simp only
  split_ifs
  · exact hc
  · exact hx.coh _ (addArcIdx_spec o cur 0 0 0).1.coherent
  · exact (addArcIdx_spec o cur 0 0 0).1.coherent

theorem fill_abs {exit : SeqObj → SeqObj} (hx : FlagOnly exit) (L v : Nat) (k p cur : Nat) (o : SeqObj)
    (unv : List Nat) (used : List STup) :
    match seqFill (.seq o.inst.strict) L v k p cur o.inst.g unv used with
    | none => (SeqObj.fill exit v k p cur o unv used).2 = .error .value ∧
        (SeqObj.fill exit v k p cur o unv used).1.inst = o.inst ∧
        (SeqObj.fill exit v k p cur o unv used).1.sol = o.sol
    | some st => (SeqObj.fill exit v k p cur o unv used).2 = .ok (st.2.1, st.2.2) ∧
        (SeqObj.fill exit v k p cur o unv used).1.inst = { o.inst with g := st.1 } ∧
        (SeqObj.fill exit v k p cur o unv used).1.sol = o.sol := by
  induction k generalizing p cur unv used with
  | zero =>
    unfold seqFill SeqObj.fill
    have h := ensureExitArc_abs hx o cur
    cases he : ensureExit (Flavor.seq o.inst.strict) o.inst.g cur with
    | none =>
      rw [he] at h
      simp only [h.1, Option.map_none]
      exact ⟨trivial, h.2.1, h.2.2⟩
    | some g' =>
      rw [he] at h
      simp only [h.1, Option.map_some]
      exact ⟨trivial, h.2.1, h.2.2⟩
  | succ k ih =>
    unfold seqFill SeqObj.fill
    cases hf : List.find? (fun n => o.inst.g.hasArc cur n) unv with
    | some n => exact ih (p + 1) n (unv.erase n) (used ++ [(v, p, n)])
    | none =>
      simp only
      have h := ensureExitArc_abs hx o cur
      cases he : ensureExit (Flavor.seq o.inst.strict) o.inst.g cur with
      | none =>
        rw [he] at h
        simp only [h.1, Option.map_none]
        exact ⟨trivial, h.2.1, h.2.2⟩
      | some g' =>
        rw [he] at h
        simp only [h.1, Option.map_some]
        exact ⟨trivial, h.2.1, h.2.2⟩

theorem fill_coherent {exit : SeqObj → SeqObj} (hx : Harmless exit) (v : Nat) (k p cur : Nat) (o : SeqObj)
    (hc : o.Coherent) (unv : List Nat) (used : List STup) :
    (SeqObj.fill exit v k p cur o unv used).1.Coherent := by
  induction k generalizing p cur unv used with
  | zero =>
    unfold SeqObj.fill
    have := ensureExitArc_coherent hx o hc cur
    simp only
    split
    · exact this
    · exact this
  | succ k ih =>
    unfold SeqObj.fill
    split
    · exact ih _ _ _ _
    · have := ensureExitArc_coherent hx o hc cur
      simp only
      split
      · exact this
      · exact this

theorem vehLoop_abs {exit : SeqObj → SeqObj} (hx : FlagOnly exit) (vs : List Nat) (o : SeqObj)
    (unv : List Nat) (used : List STup) :
    (SeqObj.vehLoop exit vs o unv used).1.inst
        = { o.inst with g := (seqVehLoopI (.seq o.inst.strict) o.inst.L vs o.inst.g unv used).1 } ∧
    (SeqObj.vehLoop exit vs o unv used).1.sol = o.sol ∧
    (SeqObj.vehLoop exit vs o unv used).2
        = (match (seqVehLoopI (.seq o.inst.strict) o.inst.L vs o.inst.g unv used).2 with
           | none => .error .value
           | some p => .ok p) := by
  induction vs generalizing o unv used with
  | nil => exact ⟨rfl, rfl, rfl⟩
  | cons v vs ih =>
    unfold SeqObj.vehLoop seqVehLoopI
    have h := fill_abs hx o.inst.L v (o.inst.L - 2) 1 0 o unv used
    cases hs : seqFill (Flavor.seq o.inst.strict) o.inst.L v (o.inst.L - 2) 1 0 o.inst.g unv used with
    | none =>
      rw [hs] at h
      simp only [h.1]
      exact ⟨h.2.1, h.2.2, trivial⟩
    | some st =>
      rw [hs] at h
      obtain ⟨h1, h2, h3⟩ := h
      simp only [h1]
      obtain ⟨i1, i2, i3⟩ := ih (SeqObj.fill exit v (o.inst.L - 2) 1 0 o unv used).1 st.2.1 st.2.2
      rw [h2] at i1 i3
      exact ⟨i1, i2.trans h3, i3⟩

theorem vehLoop_coherent {exit : SeqObj → SeqObj} (hx : Harmless exit) (vs : List Nat) (o : SeqObj)
    (hc : o.Coherent) (unv : List Nat) (used : List STup) :
    (SeqObj.vehLoop exit vs o unv used).1.Coherent := by
  induction vs generalizing o unv used with
  | nil => exact hc
  | cons v vs ih =>
    unfold SeqObj.vehLoop
    have := fill_coherent hx v (o.inst.L - 2) 1 0 o hc unv used
    simp only
    split
    · exact this
    · exact ih _ this _ _

theorem dummyStep_abs {head : SeqObj → SeqObj} (hh : FlagOnly head) (high : Rat) (o : SeqObj) (used : List STup)
    (ni : Nat) :
    (dummyStep head high o used ni).1.inst = (seqDummyStepI high o.inst used ni).1 ∧
    (dummyStep head high o used ni).2 = (match (seqDummyStepI high o.inst used ni).2 with
                                          | none => .error .value
                                          | some u => .ok u) ∧
    (dummyStep head high o used ni).1.sol = o.sol := by
  have e0 := (hh o).1
  have s0 := (hh o).2
  unfold dummyStep
  simp only
  generalize head o = o0 at e0 s0 ⊢
  rw [← e0, ← s0]
  clear e0 s0
  unfold seqDummyStepI
  simp only
  obtain ⟨a1, _, a3⟩ := ensureArc_spec
    ({ o0 with inst := { o0.inst with V := o0.inst.V + 1, vcost := o0.inst.vcost ++ [high] } } : SeqObj) 0 ni 0 high
  generalize ensureArc _ 0 ni 0 high = e at a1 a3 ⊢
  simp only at a1 a3
  generalize (if o0.inst.g.hasArc 0 ni = true then some o0.inst.g
    else addArcOrFail (Flavor.seq o0.inst.strict) o0.inst.g 0 ni 0 high) = x1 at a3 ⊢
  cases x1 with
  | none =>
    simp only at a3 ⊢
    simp only [a3.1, Bool.false_eq_true, if_false]
    exact ⟨a3.2, trivial, a1⟩
  | some g1 =>
    simp only at a3 ⊢
    simp only [a3.1, if_true]
    obtain ⟨b1, _, b3⟩ := ensureArc_spec e.1 ni 0 0 high
    rw [a3.2] at b3
    simp only at b3
    generalize ensureArc e.1 ni 0 0 high = x at b1 b3 ⊢
    generalize (if g1.hasArc ni 0 = true then some g1
      else addArcOrFail (Flavor.seq o0.inst.strict) g1 ni 0 0 high) = x2 at b3 ⊢
    cases x2 with
    | none =>
      simp only at b3 ⊢
      simp only [b3.1, Bool.false_eq_true, if_false]
      exact ⟨b3.2, trivial, b1.trans a1⟩
    | some g2 =>
      simp only at b3 ⊢
      simp only [b3.1, if_true, b3.2]
      exact ⟨trivial, trivial, b1.trans a1⟩

/-- the real loop body leaves the four flags unset, whatever it does and whether or not it raises -/
theorem dummyStep_unset (high : Rat) (o : SeqObj) (used : List STup) (ni : Nat) :
    Unset (dummyStep resetAll high o used ni).1 := by
  unfold dummyStep
  simp only
  split_ifs
  · exact (ensureArc_spec _ ni 0 0 high).2.1 ((ensureArc_spec _ 0 ni 0 high).2.1 ⟨rfl, rfl, rfl, rfl⟩)
  · exact (ensureArc_spec _ ni 0 0 high).2.1 ((ensureArc_spec _ 0 ni 0 high).2.1 ⟨rfl, rfl, rfl, rfl⟩)
  · exact (ensureArc_spec _ 0 ni 0 high).2.1 ⟨rfl, rfl, rfl, rfl⟩

theorem dummyLoop_abs {head : SeqObj → SeqObj} (hh : FlagOnly head) (high : Rat) (o : SeqObj) (used : List STup)
    (l : List Nat) :
    (dummyLoop head high o used l).1.inst = (seqDummyLoopI high o.inst used l).1 ∧
    (dummyLoop head high o used l).2 = (match (seqDummyLoopI high o.inst used l).2 with
                                        | none => .error .value
                                        | some u => .ok u) ∧
    (dummyLoop head high o used l).1.sol = o.sol := by
  induction l generalizing o used with
  | nil => exact ⟨rfl, rfl, rfl⟩
  | cons n rest ih =>
    obtain ⟨h1, h2, h3⟩ := dummyStep_abs hh high o used n
    unfold dummyLoop seqDummyLoopI
    simp only
    rw [h2]
    cases hr : (seqDummyStepI high o.inst used n).2 with
    | none => exact ⟨h1, rfl, h3⟩
    | some used' =>
      simp only
      obtain ⟨i1, i2, i3⟩ := ih (dummyStep head high o used n).1 used'
      rw [← h1]
      exact ⟨i1, i2, i3.trans h3⟩

theorem dummyLoop_coherent (high : Rat) (o : SeqObj) (hc : o.Coherent) (used : List STup) (l : List Nat) :
    (dummyLoop resetAll high o used l).1.Coherent := by
  induction l generalizing o used with
  | nil => exact hc
  | cons n rest ih =>
    unfold dummyLoop
    simp only
    have hu := (dummyStep_unset high o used n).coherent
    cases hr : (dummyStep resetAll high o used n).2 with
    | error e => exact hu
    | ok used' => exact ih _ hu used'

theorem lookupAll_eq (o : SeqObj) (hv : o.variablesEnumerated = true) (hm : o.varMapping = o.inst.vars)
    (used : List STup) (acc : List Nat) :
    o.lookupAll used acc = (o, lookupAllI o.inst.varIndex used acc) := by
  induction used generalizing acc with
  | nil => rfl
  | cons a rest ih =>
    have hg : o.getVarIndex a = (o, o.inst.varIndex a) := by
      unfold getVarIndex enumerateVariables
      simp only [hv, if_true, hm]
      rfl
    unfold lookupAll lookupAllI
    simp only [hg]
    cases o.inst.varIndex a with
    | none => rfl
    | some k => exact ih _

theorem storeSolution_eq {o : SeqObj} (hc : o.Coherent) (used : List STup) :
    o.storeSolution used =
      match lookupAllI o.inst.varIndex used [] with
      | none => ({ o.E with sol := none }, .error .value)
      | some idxs => ({ o.E with sol := some (solVec o.inst.vars.length idxs) }, .ok ()) := by
  unfold storeSolution
  simp only
  rw [enum_eq hc, lookupAll_eq o.E rfl rfl]
  show (match lookupAllI o.inst.varIndex used [] with | none => _ | some idxs => _) = _
  cases lookupAllI o.inst.varIndex used [] with
  | none => rfl
  | some idxs => rfl

theorem storeSolution_spec {o : SeqObj} (hc : o.Coherent) (used : List STup) :
    (o.storeSolution used).1.Coherent ∧ (o.storeSolution used).1.inst = o.inst ∧
    (match lookupAllI o.inst.varIndex used [] with
     | none => (o.storeSolution used).1.sol = none ∧ (o.storeSolution used).2 = .error .value
     | some idxs => (o.storeSolution used).1.sol = some (solVec o.inst.vars.length idxs) ∧
                      (o.storeSolution used).2 = .ok ()) := by
  rw [storeSolution_eq hc]
  have hE := coherent_E hc
  cases lookupAllI o.inst.varIndex used [] with
  | none => exact ⟨⟨hE.vars, hE.fixed, hE.obj, hE.lin, hE.quad⟩, rfl, rfl, rfl⟩
  | some idxs => exact ⟨⟨hE.vars, hE.fixed, hE.obj, hE.lin, hE.quad⟩, rfl, rfl, rfl⟩

/-- the heuristic on a coherent object, with the loop-head reset of the code and ANY harmless flag action at the
    explicit reset site of `_ensure_exit_arc`: coherent afterwards (also when it raises), the problem data are those of
    the instance-level run, and the stored solution is updated as the instance-level outcome says.  (The loop-head
    reset cannot be dropped: `max_vehicles` / `vehicle_cost` are written directly there and no `add_arc` need follow.) -/
theorem makeFeasibleWith_spec {exit : SeqObj → SeqObj} (hx : Harmless exit) {o : SeqObj} (hc : o.Coherent)
    (high : Rat) :
    (o.makeFeasibleWith resetAll exit high).1.Coherent ∧
    (o.makeFeasibleWith resetAll exit high).1.inst = (o.inst.heurP high).1 ∧
    (match (o.inst.heurP high).2 with
     | .ok sol =>
        (o.makeFeasibleWith resetAll exit high).1.sol = some sol ∧ (o.makeFeasibleWith resetAll exit high).2 = .ok ()
     | .lookupFailed =>
        (o.makeFeasibleWith resetAll exit high).1.sol = none ∧
          (o.makeFeasibleWith resetAll exit high).2 = .error .value
     | .raised e =>
        (o.makeFeasibleWith resetAll exit high).1.sol = o.sol ∧
          (o.makeFeasibleWith resetAll exit high).2 = .error e) := by
  unfold makeFeasibleWith SeqInst.heurP
  simp only
  generalize sortByHi o.inst.g _ = unv0
  obtain ⟨v1, v2, v3⟩ := vehLoop_abs hx.flagOnly (List.range o.inst.V) o unv0 []
  have v4 := vehLoop_coherent hx (List.range o.inst.V) o hc unv0 []
  rw [v3]
  cases hr : (seqVehLoopI (Flavor.seq o.inst.strict) o.inst.L (List.range o.inst.V) o.inst.g unv0 []).2 with
  | none => exact ⟨v4, v1, v2, rfl⟩
  | some p =>
    simp only
    obtain ⟨d1, d2, d3⟩ := dummyLoop_abs flagOnly_resetAll high (vehLoop exit (List.range o.inst.V) o unv0 []).1 p.2 p.1
    have d4 := dummyLoop_coherent high _ v4 p.2 p.1
    rw [v1] at d1 d2
    rw [d2]
    cases hr2 : (seqDummyLoopI high { o.inst with g := (seqVehLoopI (Flavor.seq o.inst.strict) o.inst.L
        (List.range o.inst.V) o.inst.g unv0 []).1 } p.2 p.1).2 with
    | none => exact ⟨d4, d1, d3.trans v2, rfl⟩
    | some used =>
      simp only
      obtain ⟨k1, k2, k3⟩ := storeSolution_spec d4 used
      rw [d1] at k2 k3
      cases hl : lookupAllI (seqDummyLoopI high { o.inst with g := (seqVehLoopI (Flavor.seq o.inst.strict) o.inst.L
        (List.range o.inst.V) o.inst.g unv0 []).1 } p.2 p.1).1.varIndex used [] with
      | none => rw [hl] at k3; exact ⟨k1, k2, k3⟩
      | some idxs => rw [hl] at k3; exact ⟨k1, k2, k3⟩

/-- the heuristic of the code -/
theorem makeFeasible_spec {o : SeqObj} (hc : o.Coherent) (high : Rat) :
    (o.makeFeasible high).1.Coherent ∧ (o.makeFeasible high).1.inst = (o.inst.heurP high).1 ∧
    (match (o.inst.heurP high).2 with
     | .ok sol => (o.makeFeasible high).1.sol = some sol ∧ (o.makeFeasible high).2 = .ok ()
     | .lookupFailed => (o.makeFeasible high).1.sol = none ∧ (o.makeFeasible high).2 = .error .value
     | .raised e => (o.makeFeasible high).1.sol = o.sol ∧ (o.makeFeasible high).2 = .error e) :=
  makeFeasibleWith_spec harmless_resetAll hc high

end SeqObj

/-! ### connection of the sequence specification heuristic to `SeqInst.makeFeasible` -/

theorem bind_foldl_none {α β : Type} (f : β → α → Option β) (l : List α) :
    l.foldl (fun (st : Option β) v => st.bind fun st => f st v) none = none := by
  induction l with
  | nil => rfl
  | cons x xs ih => simpa using ih

theorem seqVehFold_eq (fl : Flavor) (L : Nat) (vs : List Nat) (g : Graph) (unv : List Nat) (used : List STup) :
    vs.foldl (fun (st : Option (Graph × List Nat × List STup)) v =>
        st.bind fun st => seqFill fl L v (L - 2) 1 0 st.1 st.2.1 st.2.2) (some (g, unv, used))
      = match (seqVehLoopI fl L vs g unv used).2 with
        | none => none
        | some p => some ((seqVehLoopI fl L vs g unv used).1, p.1, p.2) := by
  induction vs generalizing g unv used with
  | nil => rfl
  | cons v vs ih =>
    rw [List.foldl_cons]
    unfold seqVehLoopI
    simp only [Option.bind_some]
    cases hs : seqFill fl L v (L - 2) 1 0 g unv used with
    | none => exact bind_foldl_none _ vs
    | some st => exact ih st.1 st.2.1 st.2.2

/-- the dummy-vehicle loop body folded by `SeqInst.makeFeasible` (verbatim) -/
def seqFd (fl : Flavor) (high : Rat) (s : SeqInst × List STup) (ni : Nat) : Option (SeqInst × List STup) :=
      let J := s.1
      let v := J.V
      (if J.g.hasArc 0 ni then some J.g else addArcOrFail fl J.g 0 ni 0 high).bind fun g1 =>
      (if g1.hasArc ni 0 then some g1 else addArcOrFail fl g1 ni 0 0 high).map fun g2 =>
      ({ J with g := g2, V := v + 1, vcost := J.vcost ++ [high] },
       s.2 ++ [(v, 1, ni)] ++ (List.range (J.L - 3)).map fun q => (v, q + 2, 0))

theorem seqFd_step (high : Rat) (J : SeqInst) (used : List STup) (ni : Nat) :
    seqFd (.seq J.strict) high (J, used) ni
      = (match (seqDummyStepI high J used ni).2 with
         | none => none
         | some u => some ((seqDummyStepI high J used ni).1, u)) ∧
    (seqDummyStepI high J used ni).1.strict = J.strict := by
  unfold seqFd seqDummyStepI
  simp only
  generalize (if J.g.hasArc 0 ni = true then some J.g else addArcOrFail (Flavor.seq J.strict) J.g 0 ni 0 high) = x1
  cases x1 with
  | none => exact ⟨rfl, rfl⟩
  | some g1 =>
    simp only [Option.bind_some]
    generalize (if g1.hasArc ni 0 = true then some g1 else addArcOrFail (Flavor.seq J.strict) g1 ni 0 0 high) = x2
    cases x2 with
    | none => exact ⟨rfl, rfl⟩
    | some g2 => exact ⟨rfl, rfl⟩

theorem seqFd_foldl (fl : Flavor) (high : Rat) (l : List Nat) (J : SeqInst) (used : List STup)
    (hfl : fl = .seq J.strict) :
    l.foldl (fun (s : Option (SeqInst × List STup)) ni => s.bind fun s => seqFd fl high s ni) (some (J, used))
      = match (seqDummyLoopI high J used l).2 with
        | none => none
        | some u => some ((seqDummyLoopI high J used l).1, u) := by
  induction l generalizing J used with
  | nil => rfl
  | cons n rest ih =>
    rw [List.foldl_cons]
    unfold seqDummyLoopI
    obtain ⟨h1, h2⟩ := seqFd_step high J used n
    simp only [Option.bind_some]
    rw [hfl, h1]
    cases hr : (seqDummyStepI high J used n).2 with
    | none => exact bind_foldl_none _ rest
    | some used' =>
      simp only
      rw [← hfl]
      exact ih _ used' (by rw [hfl, h2])

/-- **connection to `SeqInst.makeFeasible`** (VrpModel/Heuristics.lean): the partial-effect heuristic of the
    specification succeeds exactly when that one does, with the same instance and solution, and raises the same error -/
theorem seq_makeFeasible_eq_heurP (I : SeqInst) (high : Rat) :
    I.makeFeasible high =
      match (I.heurP high).2 with
      | .ok sol => .ok ((I.heurP high).1, sol)
      | .lookupFailed => .error .value
      | .raised e => .error e := by
  unfold SeqInst.makeFeasible SeqInst.heurP
  simp only
  generalize sortByHi I.g _ = unv0
  rw [seqVehFold_eq]
  cases hr : (seqVehLoopI (Flavor.seq I.strict) I.L (List.range I.V) I.g unv0 []).2 with
  | none => rfl
  | some p =>
    simp only
    have hfold := seqFd_foldl (.seq I.strict) high p.1
      { I with g := (seqVehLoopI (Flavor.seq I.strict) I.L (List.range I.V) I.g unv0 []).1 } p.2 rfl
    unfold seqFd at hfold
    erw [hfold]
    cases hr2 : (seqDummyLoopI high { I with g := (seqVehLoopI (Flavor.seq I.strict) I.L (List.range I.V) I.g unv0 []).1 }
        p.2 p.1).2 with
    | none => rfl
    | some used =>
      simp only
      erw [lookup_foldl]
      cases lookupAllI (seqDummyLoopI high { I with g := (seqVehLoopI (Flavor.seq I.strict) I.L (List.range I.V) I.g unv0 []).1 }
        p.2 p.1).1.varIndex used [] with
      | none => rfl
      | some idxs => rfl

end Vrp
