import VrpProofs.Lemmas.ArcRows
import VrpProofs.Lemmas.QuboBridge
import Mathlib.Data.List.Perm.Basic
import Mathlib.Data.List.Perm.Lattice
import Mathlib.Algebra.BigOperators.Group.List.Basic

/-!
# Helper lemmas for the composition theorems (C08)

* `selFrom`: membership, sub-list, weighted sums over positions for 0/1 vectors;
* `maxR` order facts.
-/
namespace Vrp.Compose
open Finset

section sel
variable {α : Type}

theorem selFrom_sublist (s : ℕ) (l : List α) (x : Vec) : (selFrom s l x).Sublist l := by
  induction l generalizing s with
  | nil => simp [selFrom, idxFrom_nil]
  | cons a l ih =>
    have ih' := ih (s + 1)
    unfold selFrom at ih' ⊢
    rw [idxFrom_cons, List.filterMap_cons]
    by_cases h : x s = 1
    · simp only [h, if_true]; exact ih'.cons_cons a
    · simp only [h, if_false]; exact ih'.cons a

theorem mem_selFrom_zero (l : List α) (x : Vec) (a : α) :
    a ∈ selFrom 0 l x ↔ ∃ k, x k = 1 ∧ l[k]? = some a := by
  rw [← filterMap_range_eq_selFrom]
  simp only [List.mem_filterMap, List.mem_range]
  constructor
  · rintro ⟨k, _, h⟩
    split_ifs at h with hx
    exact ⟨k, hx, h⟩
  · rintro ⟨k, hx, h⟩
    exact ⟨k, (List.getElem?_eq_some_iff.mp h).1, by simp [hx, h]⟩

/-- for a 0/1 vector the `x`-weighted sum of `w (l_k)` over positions is the sum of `w` over the selected elements -/
theorem sum_range_mul_eq_sel (l : List α) (x : Vec) (hx : ∀ k < l.length, x k = 0 ∨ x k = 1) (w : α → ℚ)
    (c : ℕ → ℚ) (hc : ∀ k (hk : k < l.length), c k = w l[k]) :
    ∑ k ∈ range l.length, c k * x k = ((selFrom 0 l x).map w).sum := by
  rw [← sum_idx_mul_eq_sel 0 l x (fun k _ hk => hx k (by omega))]
  have h := sum_range_getD_eq 0 l w x
  simp only [Nat.zero_add] at h
  rw [← h]
  refine Finset.sum_congr rfl fun k hk => ?_
  have hk' : k < l.length := Finset.mem_range.1 hk
  rw [hc k hk']
  simp [List.getD_eq_getElem?_getD, hk']

/-- … with indicator weights it counts the selected elements having the property -/
theorem sum_range_ite_mul_eq_count (l : List α) (x : Vec) (hx : ∀ k < l.length, x k = 0 ∨ x k = 1)
    (p : α → Prop) [DecidablePred p] (c : ℕ → ℚ)
    (hc : ∀ k (hk : k < l.length), c k = if p l[k] then 1 else 0) :
    ∑ k ∈ range l.length, c k * x k = ((((selFrom 0 l x).filter fun u => p u).length : ℕ) : ℚ) := by
  rw [sum_range_mul_eq_sel l x hx (fun u => if p u then (1 : ℚ) else 0) c hc, sum_ite_eq_length_filter]

end sel

theorem le_maxR_left (a b : ℚ) : a ≤ maxR a b := by
  unfold maxR; split_ifs with h
  · exact h
  · exact le_rfl

theorem le_maxR_right (a b : ℚ) : b ≤ maxR a b := by
  unfold maxR; split_ifs with h
  · exact le_rfl
  · exact le_of_lt (lt_of_not_ge h)

theorem maxR_le {a b c : ℚ} (ha : a ≤ c) (hb : b ≤ c) : maxR a b ≤ c := by
  unfold maxR; split_ifs <;> assumption

end Vrp.Compose
