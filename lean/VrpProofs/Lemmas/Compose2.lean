import VrpProofs.Props.C08
import VrpProofs.Props.C05c

/-!
# Helper lemmas for the end-to-end compositions (C08b)

* counting lemmas for flattened lists of lists;
* shape of a `C06.ValidRoute`;
* arc-based: `follow` along a chain of admissible moves, moves of a reference route;
* sequence-based: `follow` along a prefix of a walk.
-/
namespace Vrp.Compose2
open Vrp Vrp.Compose

/-! ## lists of lists -/
section lists
variable {α β : Type}

theorem filter_any_le (L : List (List α)) (p : α → Bool) :
    (L.filter fun l => l.any p).length ≤ (L.flatten.filter p).length := by
  induction L with
  | nil => simp
  | cons l L ih =>
    rw [List.flatten_cons, List.filter_append, List.length_append, List.filter_cons]
    by_cases h : l.any p = true
    · rw [if_pos h, List.length_cons]
      have : 0 < (l.filter p).length := by
        obtain ⟨a, ha, hpa⟩ := List.any_eq_true.1 h
        exact List.length_pos_of_mem (List.mem_filter.2 ⟨ha, hpa⟩)
      omega
    · rw [if_neg h]; omega

/-- if exactly one element of the flattened list has the property, exactly one block contains such an element -/
theorem filter_any_length_one (L : List (List α)) (p : α → Bool) (h : (L.flatten.filter p).length = 1) :
    (L.filter fun l => l.any p).length = 1 := by
  apply le_antisymm
  · rw [← h]; exact filter_any_le L p
  · obtain ⟨a, ha⟩ := List.length_eq_one_iff.1 h
    have hmem : a ∈ L.flatten.filter p := by rw [ha]; simp
    rw [List.mem_filter, List.mem_flatten] at hmem
    obtain ⟨⟨l, hl, hal⟩, hpa⟩ := hmem
    apply List.length_pos_of_mem (a := l)
    rw [List.mem_filter]
    exact ⟨hl, List.any_eq_true.2 ⟨a, hal, hpa⟩⟩

/-- if every block contains one or no element with the property, the flattened list contains as many as there
    are blocks with one -/
theorem flatten_map_filter_length (rs : List β) (f : β → List α) (p : α → Bool) (q : β → Bool)
    (h : ∀ r ∈ rs, ((f r).filter p).length = if q r = true then 1 else 0) :
    ((rs.map f).flatten.filter p).length = (rs.filter q).length := by
  induction rs with
  | nil => simp
  | cons r rs ih =>
    rw [List.map_cons, List.flatten_cons, List.filter_append, List.length_append,
      ih (fun r' hr' => h r' (List.mem_cons_of_mem _ hr')), h r List.mem_cons_self, List.filter_cons]
    by_cases hq : q r = true
    · simp [hq]; omega
    · simp [hq]

theorem sum_flatten_map (rs : List β) (f : β → List α) (w : α → ℚ) :
    ((rs.map f).flatten.map w).sum = (rs.map fun r => ((f r).map w).sum).sum := by
  induction rs with
  | nil => simp
  | cons r rs ih =>
    rw [List.map_cons, List.flatten_cons, List.map_append, List.sum_append, ih, List.map_cons, List.sum_cons]

/-- a duplicate-free list whose only possible member is `a`, and which contains `a`, has length one -/
theorem length_one_of_nodup_mem {l : List α} {a : α} (hnd : l.Nodup) (h : ∀ x, x ∈ l ↔ x = a) :
    l.length = 1 := by
  have : l.Perm [a] := (List.perm_ext_iff_of_nodup hnd (by simp)).2 (fun x => by rw [h x]; simp)
  simpa using this.length_eq

end lists

/-! ## shape of a valid route -/

theorem validRoute_shape {g : Graph} {cap init : ℚ} {r : List ℕ} (hr : C06.ValidRoute g cap init r) :
    ∃ j rest, r = 0 :: j :: rest ∧ (j :: rest).Nodup ∧ (j :: rest).getLast? = some 0 := by
  obtain ⟨hlen, hhead, hlast, hnd, _⟩ := hr
  match r, hlen, hhead with
  | a :: j :: rest, _, hhead =>
    simp only [List.head?_cons, Option.some.injEq] at hhead
    subst hhead
    rw [List.getLast?_cons_cons] at hlast
    refine ⟨j, rest, rfl, ?_, hlast⟩
    rw [List.dropLast_cons_cons, List.nodup_cons] at hnd
    have hne : j :: rest ≠ [] := by simp
    have hl : (j :: rest).getLast hne = 0 := by
      rw [List.getLast?_eq_some_getLast hne] at hlast
      exact Option.some.inj hlast
    rw [← List.dropLast_append_getLast hne, hl]
    rw [List.nodup_append]
    refine ⟨hnd.2, by simp, ?_⟩
    intro a ha b hb
    rw [List.mem_singleton] at hb
    subst hb
    rintro rfl
    exact hnd.1 ha

/-! ## arc-based: moves of a reference route -/

theorem movesFrom_map_dest (g : Graph) (rest : List ℕ) : ∀ cur t,
    (C08.movesFrom g cur t rest).map (fun u => u.2.2.1) = rest := by
  induction rest with
  | nil => intro _ _; rfl
  | cons j rest ih => intro cur t; rw [C08.movesFrom, List.map_cons, ih]

theorem movesFrom_orig_mem (g : Graph) (rest : List ℕ) : ∀ cur t, ∀ u ∈ C08.movesFrom g cur t rest,
    u.1 ∈ cur :: rest := by
  induction rest with
  | nil => intro _ _ u hu; simp [C08.movesFrom] at hu
  | cons j rest ih =>
    intro cur t u hu
    rw [C08.movesFrom] at hu
    rcases List.mem_cons.1 hu with rfl | hu
    · exact List.mem_cons_self
    · exact List.mem_cons_of_mem _ (ih _ _ u hu)

/-- an admissible move is not a depot self-move when the depot has no self-arc -/
theorem admissible_customer (I : ArcInst) (hnoself : I.g.hasArc 0 0 = false) (u : ATup)
    (h : I.admissible u = true) : u.1 ≠ 0 ∨ u.2.2.1 ≠ 0 := by
  by_contra hc
  have h1 : u.1 = 0 := by by_contra hx; exact hc (Or.inl hx)
  have h2 : u.2.2.1 = 0 := by by_contra hx; exact hc (Or.inr hx)
  unfold ArcInst.admissible at h
  rw [h1, h2] at h
  unfold Graph.hasArc at hnoself
  rw [dictHas_iff_dictGet_isSome] at hnoself
  unfold Graph.arc? at h
  cases hd : dictGet I.g.arcs (0, 0) with
  | none => simp [hd] at h
  | some a => simp [hd] at hnoself

/-- the moves of a valid route: their destinations are the stops after the first, duplicate-free; origins and
    destinations are stops of the route; a customer is the destination of exactly one move iff it is a stop -/
theorem route_moves_facts (g : Graph) (cap init : ℚ) (r : List ℕ) (hr : C06.ValidRoute g cap init r) :
    (C08.movesOfRoute r (C08.serviceTimes g 0 (g.lo 0) r.tail)).Nodup ∧
    (∀ u ∈ C08.movesOfRoute r (C08.serviceTimes g 0 (g.lo 0) r.tail), u.1 ∈ r ∧ u.2.2.1 ∈ r) ∧
    (∀ c, c ≠ 0 → ((C08.movesOfRoute r (C08.serviceTimes g 0 (g.lo 0) r.tail)).filter
        fun u => u.2.2.1 = c).length = if decide (c ∈ r) = true then 1 else 0) := by
  obtain ⟨j, rest, rfl, hnd, _⟩ := validRoute_shape hr
  simp only [List.tail_cons]
  rw [C08.movesOfRoute_eq]
  have hmap := movesFrom_map_dest g (j :: rest) 0 (g.lo 0)
  refine ⟨?_, ?_, ?_⟩
  · apply List.Nodup.of_map (fun u : ATup => u.2.2.1)
    rw [hmap]; exact hnd
  · intro u hu
    refine ⟨movesFrom_orig_mem g _ 0 (g.lo 0) u hu, List.mem_cons_of_mem _ ?_⟩
    rw [← hmap]
    exact List.mem_map.2 ⟨u, hu, rfl⟩
  · intro c hc
    have h1 : ((C08.movesFrom g 0 (g.lo 0) (j :: rest)).filter fun u => u.2.2.1 = c).length
        = ((j :: rest).filter fun i => i = c).length := by
      conv_rhs => rw [← hmap, List.filter_map, List.length_map]
      rfl
    rw [h1]
    have h2 : ((j :: rest).filter fun i => decide (i = c)).length = (j :: rest).count c := by
      rw [List.count_eq_length_filter]
      congr 1
    rw [h2, hnd.count]
    have h3 : c ∈ (0 :: j :: rest) ↔ c ∈ j :: rest := by
      rw [List.mem_cons]
      exact ⟨fun h => h.resolve_left hc, Or.inr⟩
    simp only [decide_eq_true_eq, h3]

/-! ## arc-based: the stop sequence of a depot route of admissible moves is a valid route -/

/-- `follow` accepts the destinations of a chain of admissible moves started not later than the first departure
    (no demands, load within `[0, cap]`) and accumulates the arc costs of the moves -/
theorem follow_chain (I : ArcInst) (cap : ℚ) (hdem : ∀ i, I.g.demand i = 0) (r : List ATup) :
    ∀ (cur : ℕ) (t load cost : ℚ), C05.IsChain r → (∀ u ∈ r, I.admissible u = true) →
    (∀ h : r ≠ [], (r.head h).1 = cur ∧ t ≤ (r.head h).2.1) → 0 ≤ load → load ≤ cap →
    C06.follow I.g cap cur (r.map fun u => u.2.2.1) t load cost
      = some (cost + (r.map fun u => C05.arcCost I.g u.1 u.2.2.1).sum) := by
  induction r with
  | nil => intro cur t load cost _ _ _ _ _; simp [C06.follow]
  | cons u rest ih =>
    intro cur t load cost hch hadm hhead hl0 hlc
    obtain ⟨hcur, ht⟩ := hhead (by simp)
    simp only [List.head_cons] at hcur ht
    subst hcur
    have hu := hadm u List.mem_cons_self
    unfold ArcInst.admissible at hu
    cases harc : I.g.arc? u.1 u.2.2.1 with
    | none => simp [harc] at hu
    | some a =>
      simp only [harc, Bool.and_eq_true, decide_eq_true_eq] at hu
      obtain ⟨⟨⟨⟨⟨⟨_, _⟩, _⟩, _⟩, hlo⟩, hhi⟩, htr⟩ := hu
      have hstep : maxR (t + a.time) (I.g.lo u.2.2.1) ≤ u.2.2.2 := maxR_le (by linarith) hlo
      have hwin : leE (maxR (t + a.time) (I.g.lo u.2.2.1)) (I.g.hi u.2.2.1) = true := leE_anti hstep hhi
      have hih := ih u.2.2.1 (maxR (t + a.time) (I.g.lo u.2.2.1)) load (cost + a.cost)
        (by
          cases rest with
          | nil => trivial
          | cons b rest' => exact hch.2.2)
        (fun v hv => hadm v (List.mem_cons_of_mem _ hv))
        (by
          intro hne
          cases rest with
          | nil => exact absurd rfl hne
          | cons b rest' =>
            obtain ⟨hl1, hl2⟩ := hch.1
            simp only [List.head_cons]
            exact ⟨hl1, by rw [hl2]; exact hstep⟩)
        hl0 hlc
      rw [List.map_cons, C06.follow, harc]
      simp only
      rw [if_neg (by simp [ltE, hwin]), hdem, sub_zero, if_neg (by rw [not_or]; exact ⟨not_lt.2 hlc, not_lt.2 hl0⟩),
        hih, List.map_cons, List.sum_cons]
      simp only [C05.arcCost, harc, Option.map_some, Option.getD_some]
      congr 1
      ring

theorem chain_dropLast_ne : ∀ r : List ATup, C05.IsChain r → ∀ u ∈ r.dropLast, u.2.2.1 ≠ 0 := by
  intro r
  induction r with
  | nil => intro _ u hu; simp at hu
  | cons a r ih =>
    intro hch u hu
    cases r with
    | nil => simp at hu
    | cons b r' =>
      rw [List.dropLast_cons_cons] at hu
      rcases List.mem_cons.1 hu with rfl | hu
      · exact hch.2.1
      · exact ih hch.2.2 u hu

/-- the stop sequence `0 :: destinations` of a depot route of admissible moves taken from a set of moves in which
    every customer is arrived at exactly once is a valid reference route, with cost = summed arc cost (the first
    move is admissible, so it leaves the depot not before the depot opens = the start of the reference clock) -/
theorem arc_route_valid (I : ArcInst) (hw : C05.WF I) (cap init : ℚ) (hdem : ∀ i, I.g.demand i = 0)
    (hi0 : 0 ≤ init) (hic : init ≤ cap) (S : List ATup)
    (hS : ∀ u ∈ S, I.admissible u = true)
    (honce : ∀ c, 1 ≤ c → c < I.g.nodes.length → (S.filter fun u => u.2.2.1 = c).length = 1)
    (r : List ATup) (hr : C05.IsDepotRoute r) (hsub : ∀ u ∈ r, u ∈ S) (hnd : r.Nodup) :
    C06.ValidRoute I.g cap init (0 :: r.map fun u => u.2.2.1) ∧
    C08.routeCost I.g cap init (0 :: r.map fun u => u.2.2.1)
      = (r.map fun u => C05.arcCost I.g u.1 u.2.2.1).sum := by
  obtain ⟨hne, hch, hhead, hlast⟩ := hr
  have hadm : ∀ u ∈ r, I.admissible u = true := fun u hu => hS u (hsub u hu)
  have hstart : I.g.lo 0 ≤ (r.head hne).2.1 := by
    have hu := hadm _ (List.head_mem hne)
    unfold ArcInst.admissible at hu
    cases harc : I.g.arc? (r.head hne).1 (r.head hne).2.2.1 with
    | none => simp [harc] at hu
    | some a =>
      simp only [harc, Bool.and_eq_true, decide_eq_true_eq] at hu
      have := hu.1.1.1.1.2
      rwa [hhead] at this
  have hfol := follow_chain I cap hdem r 0 (I.g.lo 0) init 0 hch hadm (fun _ => ⟨hhead, hstart⟩) hi0 hic
  rw [zero_add] at hfol
  refine ⟨⟨?_, rfl, ?_, ?_, ?_⟩, ?_⟩
  · have := List.length_pos_iff.2 hne
    simp only [List.length_cons, List.length_map]
    omega
  · cases r with
    | nil => exact absurd rfl hne
    | cons a r' =>
      rw [List.map_cons, List.getLast?_cons_cons]
      have e : a.2.2.1 :: r'.map (fun u : ATup => u.2.2.1) = (a :: r').map fun u => u.2.2.1 := rfl
      rw [e, List.getLast?_map, List.getLast?_eq_some_getLast hne]
      simp only [Option.map_some, hlast]
  · cases r with
    | nil => exact absurd rfl hne
    | cons a r' =>
      rw [List.map_cons, List.dropLast_cons_cons]
      have e : a.2.2.1 :: r'.map (fun u : ATup => u.2.2.1) = (a :: r').map fun u => u.2.2.1 := rfl
      rw [e, ← List.map_dropLast, List.nodup_cons]
      constructor
      · intro h0
        obtain ⟨u, hu, hu0⟩ := List.mem_map.1 h0
        exact chain_dropLast_ne _ hch u hu hu0
      · refine List.Nodup.map_on ?_ (hnd.sublist (List.dropLast_sublist _))
        intro u hu v hv huv
        have hu' := List.mem_of_mem_dropLast hu
        have hv' := List.mem_of_mem_dropLast hv
        have hun := chain_dropLast_ne _ hch u hu
        obtain ⟨_, hb, _⟩ := C05.admissible_facts I hw u (hadm u hu')
        obtain ⟨m, _, _, huniq⟩ := C05.filter_length_one_unique S _
          (honce u.2.2.1 (Nat.one_le_iff_ne_zero.2 hun) hb)
        rw [huniq u (hsub u hu') (by simp), huniq v (hsub v hv') (by simp [huv])]
  · rw [List.tail_cons, hfol]; rfl
  · unfold C08.routeCost
    rw [List.tail_cons, hfol]; rfl

/-! ## sequence-based: the prefix of a walk up to its first return -/

/-- `follow` accepts the stops `f (p+1), …, f (p+n)` of a walk whose arcs are stored and whose waiting-time
    arrivals meet the windows (no demands, load within `[0, cap]`): its clock is `C07.arrival`, its cost the
    summed arc cost -/
theorem follow_walk (g : Graph) (cap : ℚ) (hdem : ∀ i, g.demand i = 0) (f : ℕ → ℕ) (L : ℕ)
    (harcs : ∀ p, p + 1 < L → g.hasArc (f p) (f (p + 1)) = true)
    (htime : ∀ p, p < L → leE (C07.arrival g f p) (g.hi (f p)) = true) :
    ∀ (n p : ℕ) (load cost : ℚ), p + n < L → 0 ≤ load → load ≤ cap →
      C06.follow g cap (f p) ((List.range' (p + 1) n).map f) (C07.arrival g f p) load cost
        = some (cost + ∑ q ∈ Finset.range n, C07.arcCost g (f (p + q)) (f (p + q + 1))) := by
  intro n
  induction n with
  | zero => intro p load cost _ _ _; simp [C06.follow]
  | succ n ih =>
    intro p load cost hp hl0 hlc
    have ha := harcs p (by omega)
    unfold Graph.hasArc at ha
    rw [dictHas_iff_dictGet_isSome] at ha
    obtain ⟨a, harc⟩ := Option.isSome_iff_exists.1 ha
    have harc' : g.arc? (f p) (f (p + 1)) = some a := harc
    have hT : maxR (C07.arrival g f p + a.time) (g.lo (f (p + 1))) = C07.arrival g f (p + 1) := by
      show _ = maxR (C07.arrival g f p + C07.arcTime g (f p) (f (p + 1))) _
      rw [C07.arcTime_of _ _ _ a harc']
    rw [List.range'_succ, List.map_cons, C06.follow, harc']
    simp only
    rw [hT, if_neg (by simp [ltE, htime (p + 1) (by omega)]), hdem, sub_zero,
      if_neg (by rw [not_or]; exact ⟨not_lt.2 hlc, not_lt.2 hl0⟩),
      ih (p + 1) load (cost + a.cost) (by omega) hl0 hlc, Finset.sum_range_succ']
    have e : ∀ q, p + 1 + q = p + (q + 1) := by intro q; omega
    have hc : C07.arcCost g (f p) (f (p + 1)) = a.cost := by simp [C07.arcCost, harc']
    simp only [e, Nat.add_zero, hc]
    congr 1
    ring

section walkRoute
variable (f : ℕ → ℕ)

theorem walkRoute_getLast? (m : ℕ) (hm : 1 ≤ m) :
    (0 :: (List.range' 1 m).map f).getLast? = some (f m) := by
  obtain ⟨m', rfl⟩ : ∃ m', m = m' + 1 := ⟨m - 1, by omega⟩
  rw [List.range'_1_concat, List.map_append, ← List.cons_append, List.map_singleton, List.getLast?_concat,
    Nat.add_comm 1 m']

theorem walkRoute_dropLast (m : ℕ) (hm : 1 ≤ m) :
    (0 :: (List.range' 1 m).map f).dropLast = 0 :: (List.range' 1 (m - 1)).map f := by
  obtain ⟨m', rfl⟩ : ∃ m', m = m' + 1 := ⟨m - 1, by omega⟩
  rw [List.range'_1_concat, List.map_append, ← List.cons_append, List.map_singleton, List.dropLast_concat,
    Nat.add_sub_cancel]

theorem walkRoute_getElem? (m q : ℕ) (hq : 1 ≤ q) (hqm : q ≤ m) :
    (0 :: (List.range' 1 m).map f)[q]? = some (f q) := by
  obtain ⟨q', rfl⟩ : ∃ q', q = q' + 1 := ⟨q - 1, by omega⟩
  rw [List.getElem?_cons_succ, List.getElem?_map, List.getElem?_range' (by omega)]
  simp [Nat.add_comm]

theorem mem_walkRoute (m k : ℕ) (hk : k ≠ 0) :
    k ∈ (0 :: (List.range' 1 m).map f) ↔ ∃ q, 1 ≤ q ∧ q ≤ m ∧ f q = k := by
  rw [List.mem_cons, List.mem_map]
  constructor
  · rintro (h | ⟨q, hq, rfl⟩)
    · exact absurd h hk
    · rw [List.mem_range'_1] at hq
      exact ⟨q, hq.1, by omega, rfl⟩
  · rintro ⟨q, h1, h2, rfl⟩
    exact Or.inr ⟨q, List.mem_range'_1.2 ⟨h1, by omega⟩, rfl⟩

end walkRoute

theorem sumTo_congr (n : ℕ) (f g : ℕ → ℚ) (h : ∀ i < n, f i = g i) : sumTo n f = sumTo n g := by
  rw [sumTo_eq, sumTo_eq]
  exact Finset.sum_congr rfl fun i hi => h i (Finset.mem_range.1 hi)

theorem sumTo_ite_eq_filter (n : ℕ) (c : ℕ → Bool) (a : ℕ → ℚ) :
    sumTo n (fun v => if c v = true then a v else 0) = (((List.range n).filter c).map a).sum := by
  induction n with
  | zero => simp [sumTo]
  | succ n ih =>
    rw [sumTo, ih, List.range_succ, List.filter_append, List.map_append, List.sum_append]
    by_cases h : c n = true
    · simp [h]
    · simp [h]

end Vrp.Compose2
