import VrpProofs.Props.C08b
import VrpProofs.Props.C08c
import VrpProofs.Lemmas.Bits

/-!
# Helper lemmas for C08d (one source VRPTW, four objects built from it)

* `c8d_Sub g' g`: same nodes, and every stored arc of `g'` other than the depot self-loop `(0,0)` is stored in
  `g` with the same data; validity of routes (other than the empty tour `[0,0]`) and their costs are monotone
  along this relation, and so are reference partitions after dropping empty tours;
* what the constructor `SeqInst.new src strict` does to the graph (`c8d_new_*`);
* size bounds for reference partitions;
* small facts on `MPData.objective`, on `setMaxVehicles`.
-/
namespace Vrp.C08
open Vrp

/-! ## the relation "`g'` has no more arcs than `g`, except possibly the depot self-loop" -/

structure c8d_Sub (g' g : Graph) : Prop where
  nodes : g'.nodes = g.nodes
  arcs : ∀ i j a, ¬ (i = 0 ∧ j = 0) → g'.arc? i j = some a → g.arc? i j = some a

theorem c8d_demand_congr {g' g : Graph} (h : g'.nodes = g.nodes) (i : ℕ) : g'.demand i = g.demand i := by
  unfold Graph.demand; rw [h]

theorem c8d_Sub.refl (g : Graph) : c8d_Sub g g := ⟨rfl, fun _ _ _ _ h => h⟩

/-- `follow` along a walk that never uses the pair `(0,0)` is monotone in the arc set -/
theorem c8d_follow_mono {g' g : Graph} (h : c8d_Sub g' g) (cap : ℚ) (rest : List ℕ) :
    ∀ cur t load cost c, (∀ i ∈ rest.dropLast, i ≠ 0) → (cur = 0 → rest ≠ [0]) →
      C06.follow g' cap cur rest t load cost = some c → C06.follow g cap cur rest t load cost = some c := by
  induction rest with
  | nil =>
    intro cur t load cost c _ _ hf
    rw [C06.follow] at hf ⊢
    exact hf
  | cons j rest ih =>
    intro cur t load cost c hnz hne hf
    rw [C06.follow] at hf ⊢
    cases harc : g'.arc? cur j with
    | none => simp only [harc] at hf; cases hf
    | some a =>
      simp only [harc] at hf
      have hpair : ¬ (cur = 0 ∧ j = 0) := by
        rintro ⟨h1, h2⟩
        cases rest with
        | nil => exact hne h1 (by rw [h2])
        | cons k rest' => exact hnz j (by rw [List.dropLast_cons_cons]; exact List.mem_cons_self) h2
      rw [h.arcs cur j a hpair harc]
      simp only
      rw [Graph.lo_congr_nodes h.nodes j, Graph.hi_congr_nodes h.nodes j, c8d_demand_congr h.nodes j] at hf
      split_ifs at hf ⊢ with hA hB
      refine ih j _ _ _ c ?_ ?_ hf
      · intro i hi
        cases rest with
        | nil => simp at hi
        | cons k rest' =>
          exact hnz i (by rw [List.dropLast_cons_cons]; exact List.mem_cons_of_mem _ hi)
      · intro hj0 heq
        subst heq
        exact hnz j (by simp) hj0

/-- a valid route other than the empty tour stays valid, at the same cost, in every graph with more arcs -/
theorem c8d_valid_mono {g' g : Graph} (h : c8d_Sub g' g) (cap init : ℚ) (r : List ℕ)
    (hr : C06.ValidRoute g' cap init r) (hne : r ≠ [0, 0]) :
    C06.ValidRoute g cap init r ∧ routeCost g cap init r = routeCost g' cap init r := by
  obtain ⟨hlen, hhead, hlast, hnd, hfol⟩ := hr
  obtain ⟨c, hc⟩ := Option.isSome_iff_exists.1 hfol
  rw [Graph.lo_congr_nodes h.nodes 0] at hc
  have key : C06.follow g cap 0 r.tail (g.lo 0) init 0 = some c := by
    match r, hlen, hhead with
    | a :: j :: rest, _, hhead =>
      simp only [List.head?_cons, Option.some.injEq] at hhead
      subst hhead
      simp only [List.tail_cons] at hc ⊢
      refine c8d_follow_mono h cap (j :: rest) 0 (g.lo 0) init 0 c ?_ ?_ hc
      · intro i hi h0
        subst h0
        rw [List.dropLast_cons_cons, List.nodup_cons] at hnd
        exact hnd.1 hi
      · intro _ heq
        exact hne (by rw [heq])
  exact ⟨⟨hlen, hhead, hlast, hnd, by rw [key]; rfl⟩, by
    simp [routeCost, key, Graph.lo_congr_nodes h.nodes 0, hc]⟩

/-- the empty tour costs nothing when the depot self-loop is free (or absent) -/
theorem c8d_routeCost_loop (g : Graph) (cap init : ℚ) (hc00 : C07.arcCost g 0 0 = 0) :
    routeCost g cap init [0, 0] = 0 := by
  unfold routeCost
  simp only [List.tail_cons]
  rw [C06.follow]
  cases harc : g.arc? 0 0 with
  | none => simp
  | some a =>
    have hc : a.cost = 0 := by simpa [C07.arcCost, harc] using hc00
    simp only
    split_ifs
    · rfl
    · rfl
    · rw [C06.follow]; simp [hc]

/-- without a depot self-loop the empty tour is not a route -/
theorem c8d_not_valid_loop (g : Graph) (cap init : ℚ) (h00 : g.hasArc 0 0 = false) :
    ¬ C06.ValidRoute g cap init [0, 0] := by
  intro hr
  have hf := hr.2.2.2.2
  simp only [List.tail_cons] at hf
  rw [C06.follow] at hf
  have harc : g.arc? 0 0 = none := by
    unfold Graph.hasArc at h00
    rw [dictHas_iff_dictGet_isSome] at h00
    unfold Graph.arc?
    cases hd : dictGet g.arcs (0, 0) with
    | none => rfl
    | some a => rw [hd] at h00; simp at h00
  rw [harc] at hf
  simp at hf

theorem c8d_partitionCost_filter {g' g : Graph} (h : c8d_Sub g' g) (cap init : ℚ)
    (hc00 : C07.arcCost g' 0 0 = 0) (rs : List (List ℕ)) (hv : ∀ r ∈ rs, C06.ValidRoute g' cap init r) :
    partitionCost g cap init (rs.filter fun r => decide (r ≠ [0, 0])) = partitionCost g' cap init rs := by
  induction rs with
  | nil => rfl
  | cons r rs ih =>
    have ih' := ih fun r' hr' => hv r' (List.mem_cons_of_mem _ hr')
    unfold partitionCost at ih' ⊢
    by_cases hr : r = [0, 0]
    · rw [List.filter_cons_of_neg (by simp [hr]), ih', List.map_cons, List.sum_cons, hr,
        c8d_routeCost_loop g' cap init hc00, zero_add]
    · rw [List.filter_cons_of_pos (by simp [hr]), List.map_cons, List.sum_cons, List.map_cons, List.sum_cons,
        ih', (c8d_valid_mono h cap init r (hv r List.mem_cons_self) hr).2]

/-- **reference partitions are monotone in the arc set**, after dropping empty tours, at equal cost -/
theorem c8d_partition_mono {g' g : Graph} (h : c8d_Sub g' g) (cap init : ℚ)
    (hc00 : C07.arcCost g' 0 0 = 0) (rs : List (List ℕ)) (hp : IsPartition g' cap init rs) :
    IsPartition g cap init (rs.filter fun r => decide (r ≠ [0, 0])) ∧
    partitionCost g cap init (rs.filter fun r => decide (r ≠ [0, 0])) = partitionCost g' cap init rs := by
  obtain ⟨hv, hnd, hcnt⟩ := hp
  refine ⟨⟨?_, hnd.filter _, ?_⟩, c8d_partitionCost_filter h cap init hc00 rs hv⟩
  · intro r hr
    rw [List.mem_filter, decide_eq_true_eq] at hr
    exact (c8d_valid_mono h cap init r (hv r hr.1) hr.2).1
  · intro k hk1 hk
    rw [List.filter_filter, ← hcnt k hk1 (by rw [h.nodes]; exact hk)]
    congr 1
    apply List.filter_congr
    intro r _
    by_cases hkr : k ∈ r
    · have : r ≠ [0, 0] := by
        rintro rfl
        simp at hkr
        omega
      simp [hkr, this]
    · simp [hkr]

/-- a partition of a graph without depot self-loop is a partition of every graph with more arcs, at equal cost -/
theorem c8d_partition_embed {g g' : Graph} (h : c8d_Sub g g') (cap init : ℚ) (h00 : g.hasArc 0 0 = false)
    (rs : List (List ℕ)) (hp : IsPartition g cap init rs) :
    IsPartition g' cap init rs ∧ partitionCost g' cap init rs = partitionCost g cap init rs := by
  obtain ⟨hv, hnd, hcnt⟩ := hp
  have hne : ∀ r ∈ rs, r ≠ [0, 0] := by
    rintro r hr rfl
    exact c8d_not_valid_loop g cap init h00 (hv _ hr)
  refine ⟨⟨fun r hr => (c8d_valid_mono h cap init r (hv r hr) (hne r hr)).1, hnd, ?_⟩, ?_⟩
  · intro k hk1 hk
    exact hcnt k hk1 (by rw [h.nodes]; exact hk)
  · unfold partitionCost
    congr 1
    exact List.map_congr_left fun r hr => (c8d_valid_mono h cap init r (hv r hr) (hne r hr)).2

/-! ## what the constructor `SeqInst.new src strict` does to the graph -/

theorem c8d_indexOf_head (g : Graph) (n0 : Node) (h0 : g.nodes.head? = some n0) : g.indexOf? n0.name = some 0 :=
  C07.indexOf_head g n0.name (by simp [Graph.names, List.head?_map, h0])

/-- the sequence `set_depot` applied to the node that already is first: re-check (strict only), then assign the
    free self-loop -/
theorem c8d_setDepotSeq_head (s : Bool) (g1 : Graph) (n0 : Node) (h0 : g1.nodes.head? = some n0) :
    (C15.setDepotSeq s g1 n0.name).1 =
      { C15.seqRecheck s g1 with
          arcs := dictSet (C15.seqRecheck s g1).arcs (0, 0) ⟨n0.name, n0.name, 0, 0⟩ } := by
  have hd := c8d_indexOf_head g1 n0 h0
  have hb : setDepotBase g1 n0.name = (g1, .ok none) := by
    unfold setDepotBase; simp [hd]
  obtain ⟨n0', hn0', _, heq⟩ := C15.setDepotSeq_ok s g1 n0.name 0 hd
  rw [hb] at hn0' heq
  have : n0' = n0 := by
    rw [h0] at hn0'; exact (Option.some.inj hn0').symm
  subst this
  rw [heq]

theorem c8d_new_g (src : Graph) (s : Bool) (n0 : Node) (h0 : src.nodes.head? = some n0) :
    (SeqInst.new src s).g = (C15.setDepotSeq s (C15.seqRecheck s src) n0.name).1 := by
  cases s with
  | false =>
    have : C15.seqRecheck false src = src := by simp [C15.seqRecheck]
    rw [this]
    simp [SeqInst.new, h0, C15.gstep_setDepot_seq]
  | true =>
    have h1 : C15.seqRecheck true src = recheckArcs src (fun i => true && i != 0) := by simp [C15.seqRecheck]
    have h2 : (src.arcs.foldl
        (fun g e => (gstep (.seq true) g (.addArc e.2.orig e.2.dest e.2.time e.2.cost)).1)
        { src with arcs := [] }) = recheckArcs src (fun i => true && i != 0) := rfl
    have h3 : (recheckArcs src (fun i => true && i != 0)).nodes.head? = some n0 := by
      rw [C15.recheckArcs_nodes]; exact h0
    rw [h1]
    simp only [SeqInst.new, if_true, h2, h3, C15.gstep_setDepot_seq]

theorem c8d_seqRecheck_arcs_sub (s : Bool) (g : Graph) (hg : C15.Inv g) :
    ∀ e ∈ (C15.seqRecheck s g).arcs, e ∈ g.arcs := by
  intro e he
  unfold C15.seqRecheck at he
  split_ifs at he
  · exact (C15.recheckArcs_mem g hg _ e he).1
  · exact he

theorem c8d_arc?_of_mem (g : Graph) (hg : C15.Inv g) (i j : ℕ) (a : Arc) (h : ((i, j), a) ∈ g.arcs) :
    g.arc? i j = some a :=
  (dictGet_eq_some_iff g.arcs hg.keysNodup (i, j) a).2 h

theorem c8d_mem_of_arc? (g : Graph) (hg : C15.Inv g) (i j : ℕ) (a : Arc) (h : g.arc? i j = some a) :
    ((i, j), a) ∈ g.arcs :=
  (dictGet_eq_some_iff g.arcs hg.keysNodup (i, j) a).1 h

/-- **the constructed graph**: same nodes as the source; self-consistent; the depot self-loop is stored with
    time 0 and cost 0; every other stored arc is an arc of the source with the same data -/
theorem c8d_new_sub (src : Graph) (hsrc : C15.Inv src) (s : Bool) (n0 : Node) (h0 : src.nodes.head? = some n0) :
    c8d_Sub (SeqInst.new src s).g src ∧ C15.Inv (SeqInst.new src s).g ∧
    (SeqInst.new src s).g.arc? 0 0 = some ⟨n0.name, n0.name, 0, 0⟩ := by
  have hn1 : (C15.seqRecheck s src).nodes = src.nodes := C15.seqRecheck_nodes s src
  have hi1 : C15.Inv (C15.seqRecheck s src) := C15.seqRecheck_inv s src hsrc
  have h01 : (C15.seqRecheck s src).nodes.head? = some n0 := by rw [hn1]; exact h0
  have hinv : C15.Inv (SeqInst.new src s).g := by
    rw [c8d_new_g src s n0 h0]; exact C15.setDepotSeq_inv s _ _ hi1
  have hg := c8d_new_g src s n0 h0
  rw [c8d_setDepotSeq_head s _ n0 h01] at hg
  have hnodes : (SeqInst.new src s).g.nodes = src.nodes := by
    rw [hg]; show (C15.seqRecheck s (C15.seqRecheck s src)).nodes = _
    rw [C15.seqRecheck_nodes, hn1]
  have harcs : (SeqInst.new src s).g.arcs =
      dictSet (C15.seqRecheck s (C15.seqRecheck s src)).arcs (0, 0) ⟨n0.name, n0.name, 0, 0⟩ := by
    rw [hg]
  refine ⟨⟨hnodes, ?_⟩, hinv, ?_⟩
  · intro i j a hij ha
    have hm := c8d_mem_of_arc? _ hinv i j a ha
    rw [harcs] at hm
    rcases mem_dictSet hm with heq | hm
    · exfalso
      have : (i, j) = ((0, 0) : Key) := congrArg Prod.fst heq
      exact hij ⟨congrArg Prod.fst this, congrArg Prod.snd this⟩
    · exact c8d_arc?_of_mem src hsrc i j a
        (c8d_seqRecheck_arcs_sub s src hsrc _ (c8d_seqRecheck_arcs_sub s _ hi1 _ hm))
  · unfold Graph.arc?
    rw [harcs]
    exact dictGet_dictSet_self _ _ _

/-- non-strict: conversely every arc of the source is stored in the constructed graph -/
theorem c8d_new_nonstrict_super (src : Graph) (hsrc : C15.Inv src) (n0 : Node) (h0 : src.nodes.head? = some n0) :
    c8d_Sub src (SeqInst.new src false).g := by
  obtain ⟨hsub, hinv, _⟩ := c8d_new_sub src hsrc false n0 h0
  have hg := c8d_new_g src false n0 h0
  have hrc : ∀ g, C15.seqRecheck false g = g := fun g => by simp [C15.seqRecheck]
  rw [hrc, c8d_setDepotSeq_head false _ n0 h0, hrc] at hg
  refine ⟨hsub.nodes.symm, ?_⟩
  intro i j a hij ha
  apply c8d_arc?_of_mem _ hinv
  rw [hg]
  exact mem_dictSet_of_mem_ne (c8d_mem_of_arc? src hsrc i j a ha) (by
    intro heq
    have : (i, j) = ((0, 0) : Key) := heq
    exact hij ⟨congrArg Prod.fst this, congrArg Prod.snd this⟩)

theorem c8d_hasArc_of_arc? (g : Graph) (i j : ℕ) (a : Arc) (h : g.arc? i j = some a) : g.hasArc i j = true := by
  unfold Graph.hasArc
  rw [dictHas_iff_dictGet_isSome]
  unfold Graph.arc? at h
  rw [h]; rfl

theorem c8d_head_of_ne_nil (g : Graph) (h : g.nodes ≠ []) : ∃ n0, g.nodes.head? = some n0 := by
  cases hn : g.nodes with
  | nil => exact absurd hn h
  | cons a l => exact ⟨a, rfl⟩

/-! ## size of a reference partition -/

/-- in a graph without depot self-loop the second stop of a valid route is a customer -/
theorem c8d_first_customer (g : Graph) (hg : C15.Inv g) (cap init : ℚ) (h00 : g.hasArc 0 0 = false)
    (r : List ℕ) (hr : C06.ValidRoute g cap init r) :
    1 ≤ r.getD 1 0 ∧ r.getD 1 0 < g.nodes.length ∧ r.getD 1 0 ∈ r := by
  obtain ⟨j, rest, rfl, hnd, hlast⟩ := Compose2.validRoute_shape hr
  have hb := (validRoute_bounds g hg cap init _ hr).1
  simp only [List.getD_cons_succ, List.getD_cons_zero]
  refine ⟨?_, hb j (by simp), by simp⟩
  by_contra hj
  have hj0 : j = 0 := by omega
  subst hj0
  cases rest with
  | nil => exact c8d_not_valid_loop g cap init h00 hr
  | cons k rest' =>
    rw [List.getLast?_cons_cons] at hlast
    exact (List.nodup_cons.1 hnd).1 (List.mem_of_getLast? hlast)

/-- a reference partition has at most as many routes as there are customers -/
theorem c8d_partition_length_le (g : Graph) (hg : C15.Inv g) (cap init : ℚ) (h00 : g.hasArc 0 0 = false)
    (rs : List (List ℕ)) (hp : IsPartition g cap init rs) : rs.length ≤ g.nodes.length - 1 := by
  obtain ⟨hv, hnd, hcnt⟩ := hp
  have hinj : ∀ r ∈ rs, ∀ r' ∈ rs, r.getD 1 0 = r'.getD 1 0 → r = r' := by
    intro r hr r' hr' heq
    obtain ⟨h1, h2, h3⟩ := c8d_first_customer g hg cap init h00 r (hv r hr)
    obtain ⟨_, _, h3'⟩ := c8d_first_customer g hg cap init h00 r' (hv r' hr')
    obtain ⟨a, _, _, huniq⟩ := C05.filter_length_one_unique rs _ (hcnt _ h1 h2)
    exact (huniq r hr (by simpa using h3)).trans (huniq r' hr' (by rw [heq]; simpa using h3')).symm
  have hnd' : (rs.map fun r => r.getD 1 0).Nodup := List.Nodup.map_on hinj hnd
  have hsub : (rs.map fun r => r.getD 1 0) ⊆ List.range' 1 (g.nodes.length - 1) := by
    intro k hk
    obtain ⟨r, hr, rfl⟩ := List.mem_map.1 hk
    obtain ⟨h1, h2, _⟩ := c8d_first_customer g hg cap init h00 r (hv r hr)
    rw [List.mem_range'_1]
    omega
  have := (List.subperm_of_subset hnd' hsub).length_le
  simpa using this

/-! ## small facts -/

theorem c8d_objective_congr (d : MPData) (x y : Vec) (h : ∀ k < d.n, x k = y k) :
    d.objective x = d.objective y := by
  rw [C04.objective_eq, C04.objective_eq]
  congr 1
  · exact Finset.sum_congr rfl fun i hi => by rw [h i (Finset.mem_range.1 hi)]
  · exact Finset.sum_congr rfl fun i hi => Finset.sum_congr rfl fun j hj => by
      rw [h i (Finset.mem_range.1 hi), h j (Finset.mem_range.1 hj)]

theorem c8d_vc_zero (I : SeqInst) (V : ℕ) (v : ℕ) : (I.setMaxVehicles V).vc v = 0 := by
  unfold SeqInst.vc SeqInst.setMaxVehicles
  simp only [List.getD_eq_getElem?_getD, List.getElem?_replicate]
  split_ifs <;> rfl

theorem c8d_feasibleB_congr (d : MPData) (x y : Vec) (h : ∀ k < d.n, x k = y k) :
    d.feasibleB x = d.feasibleB y := by
  have hrow : ∀ r, d.rowVal x r = d.rowVal y r := fun r =>
    Compose2.sumTo_congr _ _ _ fun j hj => by rw [h j hj]
  have hq : quad d.n d.Rmat x = quad d.n d.Rmat y := by
    unfold quad
    exact Compose2.sumTo_congr _ _ _ fun i hi => Compose2.sumTo_congr _ _ _ fun j hj => by rw [h i hi, h j hj]
  unfold MPData.feasibleB
  simp only [hrow, hq]

/-- a function of the first `n` coordinates attains its minimum over the binary vectors that satisfy a
    predicate of the first `n` coordinates, as soon as one of them does -/
theorem c8d_bin_min_exists (n : ℕ) (P : Vec → Prop) (f : Vec → ℚ)
    (hP : ∀ x y, (∀ i < n, x i = y i) → (P x ↔ P y)) (hf : ∀ x y, (∀ i < n, x i = y i) → f x = f y)
    (hex : ∃ x, IsBin n x ∧ P x) : ∃ x, IsBin n x ∧ P x ∧ ∀ z, IsBin n z → P z → f x ≤ f z := by
  classical
  obtain ⟨x0, hx0, hp0⟩ := hex
  obtain ⟨v0, hv0, hb0⟩ := bits_surj n x0 hx0
  have hne : ((Finset.range (2 ^ n)).filter fun v => P (bitsMSB n v)).Nonempty :=
    ⟨v0, Finset.mem_filter.2 ⟨Finset.mem_range.2 hv0, (hP _ _ hb0).2 hp0⟩⟩
  obtain ⟨v, hv, hmin⟩ := Finset.exists_min_image _ (fun v => f (bitsMSB n v)) hne
  refine ⟨bitsMSB n v, bitsMSB_bin n v, (Finset.mem_filter.1 hv).2, ?_⟩
  intro z hz hpz
  obtain ⟨u, hu, hb⟩ := bits_surj n z hz
  rw [← hf _ _ hb]
  exact hmin u (Finset.mem_filter.2 ⟨Finset.mem_range.2 hu, (hP _ _ hb).2 hpz⟩)

/-- a grid is complete as soon as it holds the service times of the valid routes among the finitely many
    index lists of length ≤ `n + 1` (a decidable check on concrete instances) -/
theorem c8d_completeGrid_of_check (g : Graph) (hg : C15.Inv g) (cap init : ℚ) (T : List ℚ)
    (h : ∀ r ∈ (List.range (g.nodes.length + 2)).flatMap (ep_listsOfLen g.nodes.length),
      C06.ValidRoute g cap init r → ∀ t ∈ serviceTimes g 0 (g.lo 0) r.tail, t ∈ T) :
    CompleteGrid { g := g, T := T } cap init := by
  intro r hr
  obtain ⟨hb, hl⟩ := validRoute_bounds g hg cap init r hr
  refine h r ?_ hr
  rw [List.mem_flatMap]
  exact ⟨r.length, List.mem_range.2 (by omega), ep_mem_listsOfLen _ r _ rfl hb⟩

end Vrp.C08
