import VrpModel.ArcBased
import VrpModel.SeqBased
import VrpProofs.Lemmas.Graph
import Mathlib.Data.List.Nodup
import Mathlib.Data.List.Basic
import Mathlib.Algebra.Order.Field.Rat

/-! helper lemmas about list enumerations (`insertSorted`, `winLoop`, `idxOf` look-ups, `dictGet`) -/
namespace Vrp

/-! ### insertion sort -/

theorem insertSorted_perm (x : ℚ) (l : List ℚ) : (insertSorted x l).Perm (x :: l) := by
  induction l with
  | nil => simp [insertSorted]
  | cons y ys ih =>
    simp only [insertSorted]
    split_ifs
    · exact List.Perm.refl _
    · exact (List.Perm.cons y ih).trans (List.Perm.swap x y ys)

theorem insertSorted_sorted (x : ℚ) (l : List ℚ) (h : l.Pairwise (· ≤ ·)) :
    (insertSorted x l).Pairwise (· ≤ ·) := by
  induction l with
  | nil => simp [insertSorted]
  | cons y ys ih =>
    rw [List.pairwise_cons] at h
    simp only [insertSorted]
    split_ifs with hxy
    · refine List.pairwise_cons.2 ⟨?_, List.pairwise_cons.2 h⟩
      intro z hz
      rcases List.mem_cons.1 hz with rfl | hz
      · exact hxy
      · exact le_trans hxy (h.1 z hz)
    · refine List.pairwise_cons.2 ⟨?_, ih h.2⟩
      intro z hz
      have hz' := (insertSorted_perm x ys).mem_iff.1 hz
      rcases List.mem_cons.1 hz' with rfl | hz'
      · exact le_of_lt (not_le.1 hxy)
      · exact h.1 z hz'

/-! ### `leE` and the window scan -/

theorem leE_anti {a s : ℚ} {hi : ERat} (has : a ≤ s) (h : leE s hi = true) : leE a hi = true := by
  cases hi with
  | none => rfl
  | some b =>
    simp only [leE, decide_eq_true_eq] at *
    exact le_trans has h

theorem winLoop_eq_filter (T : List ℚ) (lo : ℚ) (hi : ERat) (hT : T.Pairwise (· ≤ ·)) :
    winLoop T lo hi = T.filter (fun s => decide (lo ≤ s) && leE s hi) := by
  induction T with
  | nil => simp [winLoop]
  | cons a T ih =>
    rw [List.pairwise_cons] at hT
    have ih' := ih hT.2
    by_cases h1 : a < lo
    · simp [winLoop, h1, not_le.2 h1, ih']
    · by_cases h2 : leE a hi = true
      · simp [winLoop, h1, ltE, h2, not_lt.1 h1, ih']
      · have hnil : T.filter (fun s => decide (lo ≤ s) && leE s hi) = [] := by
          rw [List.filter_eq_nil_iff]
          intro s hs
          have : leE s hi = false := by
            cases h : leE s hi with
            | false => rfl
            | true => exact absurd (leE_anti (hT.1 s hs) h) h2
          simp [this]
        have h2' : leE a hi = false := by simpa using h2
        simp [winLoop, h1, ltE, h2', hnil]

theorem winLoop_sublist (T : List ℚ) (lo : ℚ) (hi : ERat) : (winLoop T lo hi).Sublist T := by
  induction T with
  | nil => simp [winLoop]
  | cons a T ih =>
    simp only [winLoop]
    split_ifs
    · exact ih.cons a
    · exact List.nil_sublist _
    · exact ih.cons_cons a

theorem winLoop_nodup (T : List ℚ) (lo : ℚ) (hi : ERat) (h : T.Nodup) : (winLoop T lo hi).Nodup :=
  h.sublist (winLoop_sublist T lo hi)

/-! ### dict look-up with unique keys -/

theorem dictGet_eq_some_iff (d : List (Key × Arc)) (hn : (d.map (·.1)).Nodup) (k : Key) (a : Arc) :
    dictGet d k = some a ↔ (k, a) ∈ d := by
  induction d with
  | nil => simp [dictGet]
  | cons e rest ih =>
    obtain ⟨k', a'⟩ := e
    simp only [List.map_cons, List.nodup_cons] at hn
    have ih' := ih hn.2
    simp only [dictGet] at ih' ⊢
    by_cases hk : k' = k
    · subst hk
      have hnot : (k', a) ∉ rest := fun hm => hn.1 (List.mem_map.2 ⟨_, hm, rfl⟩)
      simp [hnot, eq_comm]
    · have hk' : ¬ k = k' := fun h => hk h.symm
      simp [hk, hk', ih']

theorem dictHas_iff_dictGet_isSome (d : List (Key × Arc)) (k : Key) :
    dictHas d k = (dictGet d k).isSome := by
  induction d with
  | nil => simp [dictHas, dictGet]
  | cons e rest ih =>
    simp only [dictHas, dictGet] at ih ⊢
    by_cases hk : e.1 = k <;> simp [hk, ih]

/-! ### `idxOf` look-ups -/

section idx
variable {α : Type} [BEq α] [LawfulBEq α]

theorem idxOf_lookup_some_iff (l : List α) (hn : l.Nodup) (u : α) (k : ℕ) :
    (if l.idxOf u < l.length then some (l.idxOf u) else none) = some k ↔ l[k]? = some u := by
  constructor
  · intro h
    split_ifs at h with hlt
    simp only [Option.some.injEq] at h
    subst h
    rw [List.getElem?_eq_getElem hlt, List.getElem_idxOf hlt]
  · intro h
    obtain ⟨hk, rfl⟩ := List.getElem?_eq_some_iff.mp h
    have := hn.idxOf_getElem k hk
    simp [this, hk]

theorem idxOf_lookup_none_iff (l : List α) (u : α) :
    (if l.idxOf u < l.length then some (l.idxOf u) else none) = none ↔ u ∉ l := by
  rw [← List.idxOf_lt_length_iff (l := l) (a := u)]
  split_ifs with h <;> simp [h]

omit [LawfulBEq α] in
theorem idxOf_lookup_lt (l : List α) (u : α) (k : ℕ)
    (h : (if l.idxOf u < l.length then some (l.idxOf u) else none) = some k) : k < l.length := by
  split_ifs at h with hlt
  simp only [Option.some.injEq] at h
  exact h ▸ hlt

end idx

end Vrp
