import VrpModel.Export
import VrpProofs.Lemmas.Sum
import Mathlib.Algebra.Order.Field.Rat
import Mathlib.Data.List.Nodup
import Mathlib.Tactic.Ring
import Mathlib.Tactic.Linarith

/-! helper lemmas for the export/load record model (`VrpModel/Export.lean`) -/
namespace Vrp
open Finset

/-! ## dense entries from a record list -/

/-- dense entry computed directly from the record list -/
def entryOf (l : List Rec) (i j : ℕ) : ℤ :=
  ((((l.map fun r => (r.i, r.j, r.h)).filter fun e => e.1 = i ∧ e.2.1 = j).map (·.2.2)).foldr (· + ·) 0)

theorem loadFile_entry (f : ExportFile) (i j : ℕ) :
    (loadFile f).entry i j = entryOf (f.diag ++ f.off) i j := rfl

theorem entryOf_cons (r : Rec) (l : List Rec) (i j : ℕ) :
    entryOf (r :: l) i j = (if r.i = i ∧ r.j = j then r.h else 0) + entryOf l i j := by
  unfold entryOf
  by_cases h : r.i = i ∧ r.j = j
  · simp [h]
  · simp [h]

/-- no record with key `(i, j)`: the entry is zero -/
theorem entryOf_eq_zero (l : List Rec) (i j : ℕ) (h : ∀ r ∈ l, ¬(r.i = i ∧ r.j = j)) :
    entryOf l i j = 0 := by
  induction l with
  | nil => rfl
  | cons a t ih =>
    rw [entryOf_cons, if_neg (h a (List.mem_cons_self ..)),
      ih (fun r hr => h r (List.mem_cons_of_mem _ hr))]
    rfl

/-- keys pairwise distinct: the entry at the key of a record is the value of that record -/
theorem entryOf_eq_of_mem (l : List Rec) (hnd : (l.map fun r => (r.i, r.j)).Nodup) (r : Rec)
    (hr : r ∈ l) : entryOf l r.i r.j = r.h := by
  induction l with
  | nil => simp at hr
  | cons a t ih =>
    rw [List.map_cons, List.nodup_cons] at hnd
    rw [entryOf_cons]
    rcases List.mem_cons.1 hr with rfl | hrt
    · rw [if_pos ⟨rfl, rfl⟩, entryOf_eq_zero, add_zero]
      intro r' hr' hk
      exact hnd.1 (List.mem_map.2 ⟨r', hr', by rw [hk.1, hk.2]⟩)
    · rw [if_neg, ih hnd.2 hrt, zero_add]
      intro hk
      exact hnd.1 (List.mem_map.2 ⟨r, hrt, by rw [hk.1, hk.2]⟩)

/-! ## `foldl max` -/

theorem foldl_max_lt (l : List ℕ) (a n : ℕ) (ha : a < n) (h : ∀ x ∈ l, x < n) :
    l.foldl max a < n := by
  induction l generalizing a with
  | nil => simpa using ha
  | cons b t ih =>
    rw [List.foldl_cons]
    exact ih _ (max_lt ha (h b (List.mem_cons_self ..))) (fun x hx => h x (List.mem_cons_of_mem _ hx))

theorem le_foldl_max_init (l : List ℕ) (a : ℕ) : a ≤ l.foldl max a := by
  induction l generalizing a with
  | nil => simp
  | cons b t ih => rw [List.foldl_cons]; exact le_trans (le_max_left _ _) (ih _)

theorem le_foldl_max_of_mem (l : List ℕ) (a x : ℕ) (hx : x ∈ l) : x ≤ l.foldl max a := by
  induction l generalizing a with
  | nil => simp at hx
  | cons b t ih =>
    rw [List.foldl_cons]
    rcases List.mem_cons.1 hx with rfl | hxt
    · exact le_trans (le_max_right _ _) (le_foldl_max_init _ _)
    · exact ih _ hxt

/-- every record lies strictly below the loaded dimension -/
theorem loadFile_mem_lt_dim (f : ExportFile) (r : Rec) (hr : r ∈ f.diag ++ f.off) :
    max r.i r.j < (loadFile f).dim := by
  have hne : (f.diag ++ f.off).isEmpty = false := by
    cases h : f.diag ++ f.off with
    | nil => rw [h] at hr; simp at hr
    | cons a t => rfl
  simp only [loadFile, hne]
  exact Nat.lt_succ_of_le (le_foldl_max_of_mem _ _ _ (List.mem_map.2 ⟨r, hr, rfl⟩))

/-! ## sums -/

/-- a double sum over `range m` may be extended to `range n` when the summand vanishes outside -/
theorem sum2_extend (m n : ℕ) (hmn : m ≤ n) (F : ℕ → ℕ → ℤ) (h : ∀ i j, (m ≤ i ∨ m ≤ j) → F i j = 0) :
    ∑ i ∈ range m, ∑ j ∈ range m, F i j = ∑ i ∈ range n, ∑ j ∈ range n, F i j := by
  have hsub : range m ⊆ range n := range_subset_range.2 hmn
  have h1 : ∀ i, ∑ j ∈ range m, F i j = ∑ j ∈ range n, F i j := fun i =>
    sum_subset hsub (fun j _ hj => h i j (Or.inr (by simpa using hj)))
  rw [sum_congr rfl (fun i _ => h1 i)]
  refine sum_subset hsub (fun i _ hi => ?_)
  exact sum_eq_zero (fun j _ => h i j (Or.inl (by simpa using hi)))

theorem sum1_extend (m n : ℕ) (hmn : m ≤ n) (F : ℕ → ℤ) (h : ∀ i, m ≤ i → F i = 0) :
    ∑ i ∈ range m, F i = ∑ i ∈ range n, F i :=
  sum_subset (range_subset_range.2 hmn) (fun i _ hi => h i (by simpa using hi))

/-- a finite sum of integers is an integer -/
theorem sumTo_int (n : ℕ) (f : ℕ → ℚ) (hf : ∀ i, ∃ z : ℤ, f i = z) : ∃ z : ℤ, sumTo n f = z := by
  induction n with
  | zero => exact ⟨0, by simp [sumTo]⟩
  | succ k ih =>
    obtain ⟨a, ha⟩ := ih
    obtain ⟨b, hb⟩ := hf k
    exact ⟨a + b, by simp [sumTo, ha, hb]⟩

end Vrp
