import VrpModel.ExportText
import Mathlib.Tactic.IntervalCases
import Mathlib.Data.Rat.Floor
import Mathlib.Algebra.Order.Field.Rat
import Mathlib.Algebra.Order.Floor.Ring
import Mathlib.Tactic.Linarith
/-!
helper lemmas for the character-level model of `export` / `load_matrix` (`VrpModel/ExportText.lean`)
-/
namespace Vrp.Text

/-! ## digit characters -/

theorem et_digit_facts (d : Nat) (hd : d < 10) :
    digitVal (digitChar d) = some d ∧ isWs (digitChar d) = false ∧ digitChar d ≠ '.' ∧ digitChar d ≠ '=' ∧
    digitChar d ≠ '-' ∧ digitChar d ≠ 'p' ∧ digitChar d ≠ '#' ∧ digitChar d ≠ 'c' := by
  interval_cases d <;> decide

/-- a character that is a decimal digit -/
def EtDigit (c : Char) : Prop := ∃ d, d < 10 ∧ c = digitChar d

theorem et_digit_digitChar {d : Nat} (hd : d < 10) : EtDigit (digitChar d) := ⟨d, hd, rfl⟩

theorem et_digit_notWs {c : Char} (h : EtDigit c) : isWs c = false := by
  obtain ⟨d, hd, rfl⟩ := h; exact (et_digit_facts d hd).2.1
theorem et_digit_ne_dot {c : Char} (h : EtDigit c) : c ≠ '.' := by
  obtain ⟨d, hd, rfl⟩ := h; exact (et_digit_facts d hd).2.2.1
theorem et_digit_ne_eq {c : Char} (h : EtDigit c) : c ≠ '=' := by
  obtain ⟨d, hd, rfl⟩ := h; exact (et_digit_facts d hd).2.2.2.1
theorem et_digit_ne_minus {c : Char} (h : EtDigit c) : c ≠ '-' := by
  obtain ⟨d, hd, rfl⟩ := h; exact (et_digit_facts d hd).2.2.2.2.1
theorem et_digit_ne_p {c : Char} (h : EtDigit c) : c ≠ 'p' := by
  obtain ⟨d, hd, rfl⟩ := h; exact (et_digit_facts d hd).2.2.2.2.2.1
theorem et_digit_ne_hash {c : Char} (h : EtDigit c) : c ≠ '#' := by
  obtain ⟨d, hd, rfl⟩ := h; exact (et_digit_facts d hd).2.2.2.2.2.2.1
theorem et_digit_ne_c {c : Char} (h : EtDigit c) : c ≠ 'c' := by
  obtain ⟨d, hd, rfl⟩ := h; exact (et_digit_facts d hd).2.2.2.2.2.2.2

/-! ## `natChars` -/

theorem et_natCharsAux_digits (fuel n : Nat) : ∀ c ∈ natCharsAux fuel n, EtDigit c := by
  induction fuel generalizing n with
  | zero =>
    intro c hc
    simp only [natCharsAux, List.mem_singleton] at hc
    subst hc; exact et_digit_digitChar (Nat.mod_lt _ (by decide))
  | succ k ih =>
    intro c hc
    simp only [natCharsAux] at hc
    split at hc
    · simp only [List.mem_singleton] at hc
      subst hc; exact et_digit_digitChar ‹_›
    · rcases List.mem_append.1 hc with hc | hc
      · exact ih _ c hc
      · simp only [List.mem_singleton] at hc
        subst hc; exact et_digit_digitChar (Nat.mod_lt _ (by decide))

theorem et_natCharsAux_ne_nil (fuel n : Nat) : natCharsAux fuel n ≠ [] := by
  cases fuel with
  | zero => simp [natCharsAux]
  | succ k =>
    simp only [natCharsAux]
    split <;> simp

theorem et_natChars_digits (n : Nat) : ∀ c ∈ natChars n, EtDigit c := et_natCharsAux_digits n n
theorem et_natChars_ne_nil (n : Nat) : natChars n ≠ [] := et_natCharsAux_ne_nil n n

/-- the first character of `natChars n` is a digit -/
theorem et_natChars_head (n : Nat) : ∃ c t, EtDigit c ∧ natChars n = c :: t := by
  cases h : natChars n with
  | nil => exact absurd h (et_natChars_ne_nil n)
  | cons c t => exact ⟨c, t, et_natChars_digits n c (by rw [h]; exact List.mem_cons_self ..), rfl⟩

/-- the digit fold of `parseNat` -/
def etStep (acc : Nat) (c : Char) : Option Nat := (digitVal c).map (acc * 10 + ·)

theorem et_parseNat_eq (s : List Char) (hs : s ≠ []) : parseNat s = s.foldlM etStep 0 := by
  cases s with
  | nil => exact absurd rfl hs
  | cons c t => rfl

theorem et_fold_snoc (l : List Char) (d : Nat) (hd : d < 10) (a : Nat) (h : l.foldlM etStep 0 = some a) :
    (l ++ [digitChar d]).foldlM etStep 0 = some (a * 10 + d) := by
  rw [List.foldlM_append, h]
  simp [etStep, (et_digit_facts d hd).1]

theorem et_fold_natCharsAux (fuel n : Nat) (h : n ≤ fuel) : (natCharsAux fuel n).foldlM etStep 0 = some n := by
  induction fuel generalizing n with
  | zero =>
    have : n = 0 := by omega
    subst this
    have := et_fold_snoc [] 0 (by decide) 0 rfl
    simpa [natCharsAux] using this
  | succ k ih =>
    simp only [natCharsAux]
    split
    · rename_i hlt
      have := et_fold_snoc [] n hlt 0 rfl
      simpa using this
    · rename_i hge
      have h1 := ih (n / 10) (by omega)
      have h2 := et_fold_snoc _ (n % 10) (Nat.mod_lt _ (by decide)) _ h1
      rw [h2]; congr 1; omega

theorem et_parseNat_natChars (n : Nat) : parseNat (natChars n) = some n := by
  rw [et_parseNat_eq _ (et_natChars_ne_nil n)]
  exact et_fold_natCharsAux n n (Nat.le_refl n)

/-- two digits -/
theorem et_parseNat_two (a b : Nat) (ha : a < 10) (hb : b < 10) :
    parseNat [digitChar a, digitChar b] = some (10 * a + b) := by
  rw [et_parseNat_eq _ (by simp)]
  have h1 := et_fold_snoc [] a ha 0 rfl
  have h2 := et_fold_snoc _ b hb _ h1
  simp only [List.nil_append, List.cons_append] at h2
  rw [h2]; congr 1; omega

/-! ## `split()` and `split(d)` -/

theorem et_splitWsAux_tok (tok rest cur : List Char) (h : ∀ c ∈ tok, isWs c = false) :
    splitWsAux (tok ++ rest) cur = splitWsAux rest (tok.reverse ++ cur) := by
  induction tok generalizing cur with
  | nil => rfl
  | cons c t ih =>
    have hc : isWs c = false := h c (List.mem_cons_self ..)
    rw [List.cons_append, splitWsAux, hc]
    simp only [Bool.false_eq_true, if_false]
    rw [ih _ (fun x hx => h x (List.mem_cons_of_mem _ hx))]
    simp

/-- a non-empty token followed by a whitespace character -/
theorem et_splitWs_tok_ws (tok rest : List Char) (w : Char) (hw : isWs w = true) (hne : tok ≠ [])
    (h : ∀ c ∈ tok, isWs c = false) :
    splitWsAux (tok ++ w :: rest) [] = tok :: splitWsAux rest [] := by
  rw [et_splitWsAux_tok _ _ _ h, splitWsAux, hw]
  cases tok with
  | nil => exact absurd rfl hne
  | cons c t => simp

/-- a non-empty token at the end of the line -/
theorem et_splitWs_tok_end (tok : List Char) (hne : tok ≠ []) (h : ∀ c ∈ tok, isWs c = false) :
    splitWsAux tok [] = [tok] := by
  have := et_splitWsAux_tok tok [] [] h
  rw [List.append_nil] at this
  rw [this, splitWsAux]
  cases tok with
  | nil => exact absurd rfl hne
  | cons c t => simp

theorem et_splitOnAux_tok (d : Char) (tok rest cur : List Char) (h : ∀ c ∈ tok, c ≠ d) :
    splitOnAux d (tok ++ rest) cur = splitOnAux d rest (tok.reverse ++ cur) := by
  induction tok generalizing cur with
  | nil => rfl
  | cons c t ih =>
    have hc : c ≠ d := h c (List.mem_cons_self ..)
    rw [List.cons_append, splitOnAux, if_neg hc]
    rw [ih _ (fun x hx => h x (List.mem_cons_of_mem _ hx))]
    simp

/-- exactly one delimiter -/
theorem et_splitOn_one (d : Char) (a b : List Char) (ha : ∀ c ∈ a, c ≠ d) (hb : ∀ c ∈ b, c ≠ d) :
    splitOn d (a ++ d :: b) = [a, b] := by
  unfold splitOn
  rw [et_splitOnAux_tok d a _ _ ha, splitOnAux, if_pos rfl]
  have := et_splitOnAux_tok d b [] [] hb
  rw [List.append_nil] at this
  rw [this, splitOnAux]
  simp

/-- no delimiter -/
theorem et_splitOn_none (d : Char) (a : List Char) (ha : ∀ c ∈ a, c ≠ d) : splitOn d a = [a] := by
  unfold splitOn
  have := et_splitOnAux_tok d a [] [] ha
  rw [List.append_nil] at this
  rw [this, splitOnAux]
  simp

/-! ## `strip` -/

theorem et_dropWhile_ws (pre t : List Char) (hpre : ∀ c ∈ pre, isWs c = true)
    (ht : ∀ c u, t = c :: u → isWs c = false) : (pre ++ t).dropWhile isWs = t := by
  induction pre with
  | nil =>
    cases t with
    | nil => rfl
    | cons c u => simp [ht c u rfl]
  | cons p ps ih =>
    rw [List.cons_append, List.dropWhile_cons, hpre p (List.mem_cons_self ..)]
    simp only [if_true]
    exact ih (fun c hc => hpre c (List.mem_cons_of_mem _ hc))

/-- leading whitespace, then a text whose first and last characters are not whitespace -/
theorem et_strip (pre mid : List Char) (c e : Char) (hpre : ∀ x ∈ pre, isWs x = true)
    (hc : isWs c = false) (he : isWs e = false) :
    strip (pre ++ (c :: mid ++ [e])) = c :: mid ++ [e] := by
  unfold strip
  rw [et_dropWhile_ws pre _ hpre (by intro x u hx; simp at hx; rw [← hx.1]; exact hc)]
  have : (c :: mid ++ [e]).reverse = e :: (c :: mid).reverse := by simp
  rw [this, List.dropWhile_cons, he]
  simp

/-! ## `parseDec` -/

/-- the body of `parseDec` after stripping and removing the sign -/
def etDecCore (neg : Bool) (u : List Char) : Option Int :=
  match splitOn '.' u with
  | [ip, fp] =>
    if fp.length = 2 then
      (parseNat ip).bind fun a => (parseNat fp).map fun b =>
        if neg then -((a * 100 + b : Nat) : Int) else ((a * 100 + b : Nat) : Int)
    else none
  | _ => none

theorem et_parseDec_neg (s u : List Char) (h : strip s = '-' :: u) : parseDec s = etDecCore true u := by
  unfold parseDec etDecCore
  simp only [h]
  rfl

theorem et_parseDec_pos (s : List Char) (c : Char) (u : List Char) (h : strip s = c :: u) (hc : c ≠ '-') :
    parseDec s = etDecCore false (c :: u) := by
  unfold parseDec
  rw [h]
  dsimp -iota only
  split
  rename_i neg v heq
  split at heq
  · rename_i heq2
    simp only [List.cons.injEq] at heq2
    exact absurd heq2.1 hc
  · simp only [Prod.mk.injEq] at heq
    obtain ⟨rfl, rfl⟩ := heq
    rfl

/-- digits, a point, two digits -/
theorem et_decCore_body (neg : Bool) (a : Nat) :
    etDecCore neg (natChars (a / 100) ++ '.' :: [digitChar (a % 100 / 10), digitChar (a % 10)])
      = some (if neg then -(a : Int) else (a : Int)) := by
  have h1 : a % 100 / 10 < 10 := by omega
  have h2 : a % 10 < 10 := by omega
  unfold etDecCore
  rw [et_splitOn_one '.' _ _ (fun c hc => et_digit_ne_dot (et_natChars_digits _ c hc))
    (by
      intro c hc
      simp only [List.mem_cons, List.not_mem_nil, or_false] at hc
      rcases hc with rfl | rfl
      · exact (et_digit_facts _ h1).2.2.1
      · exact (et_digit_facts _ h2).2.2.1)]
  simp only [List.length_cons, List.length_nil, if_true, et_parseNat_natChars, et_parseNat_two _ _ h1 h2,
    Option.bind_some, Option.map_some]
  have : a / 100 * 100 + (10 * (a % 100 / 10) + a % 10) = a := by omega
  rw [this]

/-- `digits.dd` -/
def etBody (a : Nat) : List Char := natChars (a / 100) ++ '.' :: [digitChar (a % 100 / 10), digitChar (a % 10)]

theorem et_body_shape (a : Nat) : ∃ c mid e, EtDigit c ∧ EtDigit e ∧ etBody a = c :: mid ++ [e] := by
  obtain ⟨c, t, hc, ht⟩ := et_natChars_head (a / 100)
  refine ⟨c, t ++ ['.', digitChar (a % 100 / 10)], digitChar (a % 10), hc,
    et_digit_digitChar (Nat.mod_lt _ (by decide)), ?_⟩
  simp [etBody, ht]

theorem et_body_digits_or_dot (a : Nat) : ∀ c ∈ etBody a, EtDigit c ∨ c = '.' := by
  intro c hc
  simp only [etBody, List.mem_append, List.mem_cons, List.not_mem_nil, or_false] at hc
  rcases hc with hc | rfl | rfl | rfl
  · exact Or.inl (et_natChars_digits _ c hc)
  · exact Or.inr rfl
  · exact Or.inl (et_digit_digitChar (by omega))
  · exact Or.inl (et_digit_digitChar (by omega))

theorem et_parseDec_signed (a : Nat) (neg : Bool) (pre : List Char) (hpre : ∀ c ∈ pre, isWs c = true) :
    parseDec (pre ++ (if neg then '-' :: etBody a else etBody a)) = some (if neg then -(a : Int) else (a : Int)) := by
  obtain ⟨c, mid, e, hc, he, hb⟩ := et_body_shape a
  cases neg with
  | false =>
    simp only [Bool.false_eq_true, if_false]
    have hs : strip (pre ++ etBody a) = c :: (mid ++ [e]) := by
      rw [hb]; exact et_strip pre mid c e hpre (et_digit_notWs hc) (et_digit_notWs he)
    rw [et_parseDec_pos _ c _ hs (et_digit_ne_minus hc)]
    have : c :: (mid ++ [e]) = etBody a := by rw [hb]; rfl
    rw [this]
    have := et_decCore_body false a
    simpa [etBody] using this
  | true =>
    simp only [if_true]
    have hs : strip (pre ++ '-' :: etBody a) = '-' :: etBody a := by
      rw [hb]
      exact et_strip pre (c :: mid) '-' e hpre (by decide) (et_digit_notWs he)
    rw [et_parseDec_neg _ _ hs]
    have := et_decCore_body true a
    simpa [etBody] using this

theorem et_fmt2_eq (h : Int) (neg space : Bool) :
    fmt2 h neg space = if neg then '-' :: etBody h.natAbs else if space then ' ' :: etBody h.natAbs else etBody h.natAbs :=
  rfl

theorem et_parseDec_fmt2 (h : Int) (neg space : Bool) (pre : List Char) (hpre : ∀ c ∈ pre, isWs c = true) :
    parseDec (pre ++ fmt2 h neg space) = some (if neg then -(h.natAbs : Int) else (h.natAbs : Int)) := by
  rw [et_fmt2_eq]
  cases neg with
  | true => exact et_parseDec_signed h.natAbs true pre hpre
  | false =>
    cases space with
    | false => exact et_parseDec_signed h.natAbs false pre hpre
    | true =>
      have := et_parseDec_signed h.natAbs false (pre ++ [' ']) (by
        intro c hc
        rcases List.mem_append.1 hc with hc | hc
        · exact hpre c hc
        · simp only [List.mem_singleton] at hc
          subst hc; decide)
      simpa using this

/-- characters of `fmt2 … false`: no whitespace, no `=` -/
theorem et_fmt2_chars (h : Int) (neg space : Bool) :
    ∀ c ∈ fmt2 h neg space, c ≠ '=' ∧ (c = ' ' ∨ isWs c = false) := by
  have hb : ∀ c ∈ etBody h.natAbs, c ≠ '=' ∧ (c = ' ' ∨ isWs c = false) := by
    intro c hc
    rcases et_body_digits_or_dot _ c hc with hd | rfl
    · exact ⟨et_digit_ne_eq hd, Or.inr (et_digit_notWs hd)⟩
    · exact ⟨by decide, Or.inr (by decide)⟩
  intro c hc
  rw [et_fmt2_eq] at hc
  cases neg <;> cases space <;> simp only [Bool.false_eq_true, if_false, if_true, List.mem_cons] at hc
  · exact hb c hc
  · rcases hc with rfl | hc
    · exact ⟨by decide, Or.inl rfl⟩
    · exact hb c hc
  · rcases hc with rfl | hc
    · exact ⟨by decide, Or.inr (by decide)⟩
    · exact hb c hc
  · rcases hc with rfl | hc
    · exact ⟨by decide, Or.inr (by decide)⟩
    · exact hb c hc

theorem et_fmt2_false_notWs (h : Int) (neg : Bool) : ∀ c ∈ fmt2 h neg false, isWs c = false := by
  intro c hc
  rw [et_fmt2_eq] at hc
  have hb : ∀ c ∈ etBody h.natAbs, isWs c = false := by
    intro c hc
    rcases et_body_digits_or_dot _ c hc with hd | rfl
    · exact et_digit_notWs hd
    · decide
  cases neg <;> simp only [Bool.false_eq_true, if_false, if_true, List.mem_cons] at hc
  · exact hb c hc
  · rcases hc with rfl | hc
    · decide
    · exact hb c hc

theorem et_fmt2_false_ne_nil (h : Int) (neg : Bool) : fmt2 h neg false ≠ [] := by
  rw [et_fmt2_eq]
  obtain ⟨c, mid, e, -, -, hb⟩ := et_body_shape h.natAbs
  cases neg <;> simp [hb]

/-! ## lines -/

/-- `split()` of a record line -/
theorem et_splitWs_recLine (r : Rec) : splitWs (recLine r) = [natChars r.i, natChars r.j, fmt2 r.h r.neg false] := by
  unfold splitWs recLine
  rw [et_splitWs_tok_ws _ _ ' ' (by decide) (et_natChars_ne_nil _)
        (fun c hc => et_digit_notWs (et_natChars_digits _ c hc)),
      et_splitWs_tok_ws _ _ ' ' (by decide) (et_natChars_ne_nil _)
        (fun c hc => et_digit_notWs (et_natChars_digits _ c hc))]
  have hlast : splitWsAux (fmt2 r.h r.neg true) [] = [fmt2 r.h r.neg false] := by
    have h0 := et_splitWs_tok_end _ (et_fmt2_false_ne_nil r.h r.neg) (et_fmt2_false_notWs r.h r.neg)
    cases hn : r.neg with
    | true => rw [hn] at h0; exact h0
    | false =>
      rw [hn] at h0
      have : fmt2 r.h false true = ' ' :: fmt2 r.h false false := rfl
      have hw : isWs ' ' = true := by decide
      rw [this, splitWsAux, hw]
      simpa using h0
  rw [hlast]

/-- a line whose first character is neither the comment character nor `p` -/
theorem et_loadLine_data (cc : Char) (st : LState) (line : List Char) (c0 : Char) (tl : List Char)
    (hl : line = c0 :: tl) (h1 : c0 ≠ cc) (h2 : c0 ≠ 'p') (a b v : List Char) (hsp : splitWs line = [a, b, v]) :
    loadLine cc st line =
      (parseNat a).bind fun i => (parseNat b).bind fun j => (parseDec v).map fun x =>
          { st with rows := st.rows ++ [i], cols := st.cols ++ [j], data := st.data ++ [x] } := by
  subst hl
  simp only [loadLine, if_neg h1, if_neg h2, hsp]

/-- a comment line with one `=` -/
theorem et_loadLine_cc_two (cc : Char) (st : LState) (tl a v : List Char) (hsp : splitOn '=' (cc :: tl) = [a, v]) :
    loadLine cc st (cc :: tl) = (parseDec v).map fun k => { st with const := k } := by
  simp only [loadLine, if_true, hsp]

/-- a comment line without `=` -/
theorem et_loadLine_cc_one (cc : Char) (st : LState) (tl a : List Char) (hsp : splitOn '=' (cc :: tl) = [a]) :
    loadLine cc st (cc :: tl) = some st := by
  simp only [loadLine, if_true, hsp]

/-! ## sign consistency and the line-level round trip -/

/-- the printed sign agrees with the value (same as `Vrp.C10b.SignOK`) -/
def EtSign (h : Int) (neg : Bool) : Prop := (neg = true → h ≤ 0) ∧ (neg = false → 0 ≤ h)

theorem et_sign_val (h : Int) (neg : Bool) (hs : EtSign h neg) :
    (if neg then -(h.natAbs : Int) else (h.natAbs : Int)) = h := by
  cases neg with
  | true => have := hs.1 rfl; simp only [if_true]; omega
  | false => have := hs.2 rfl; simp only [Bool.false_eq_true, if_false]; omega

theorem et_parseDec_fmt2_sign (h : Int) (neg space : Bool) (hs : EtSign h neg) (pre : List Char)
    (hpre : ∀ c ∈ pre, isWs c = true) : parseDec (pre ++ fmt2 h neg space) = some h := by
  rw [et_parseDec_fmt2 h neg space pre hpre, et_sign_val h neg hs]

theorem et_loadLine_recLine (cc : Char) (hcc : cc = '#' ∨ cc = 'c') (st : LState) (r : Rec) (hs : EtSign r.h r.neg) :
    loadLine cc st (recLine r)
      = some { st with rows := st.rows ++ [r.i], cols := st.cols ++ [r.j], data := st.data ++ [r.h] } := by
  obtain ⟨c, t, hc, ht⟩ := et_natChars_head r.i
  have hl : recLine r = c :: (t ++ ' ' :: (natChars r.j ++ ' ' :: fmt2 r.h r.neg true)) := by
    unfold recLine; rw [ht]; rfl
  have h1 : c ≠ cc := by
    rcases hcc with rfl | rfl
    · exact et_digit_ne_hash hc
    · exact et_digit_ne_c hc
  rw [et_loadLine_data cc st _ c _ hl h1 (et_digit_ne_p hc) _ _ _ (et_splitWs_recLine r),
    et_parseNat_natChars, et_parseNat_natChars]
  have := et_parseDec_fmt2_sign r.h r.neg false hs [] (by simp)
  rw [List.nil_append] at this
  rw [this]
  rfl

/-- the constant-term comment up to the `=` -/
def etConstPre : List Char := [' ', 'C', 'o', 'n', 's', 't', 'a', 'n', 't', ' ', 't', 'e', 'r', 'm', ' ', 'o', 'f', ' ', 'o', 'b', 'j', 'e', 'c', 't', 'i', 'v', 'e', ' ']

theorem et_constPre_ne : ∀ c ∈ etConstPre, c ≠ '=' := by decide
theorem et_diagText_ne : ∀ c ∈ diagText, c ≠ '=' := by decide
theorem et_offText_ne : ∀ c ∈ offText, c ≠ '=' := by decide

theorem et_loadLine_constLine (cc : Char) (hcc : cc = '#' ∨ cc = 'c') (st : LState) (f : ExportFile)
    (hs : EtSign f.const f.constNeg) : loadLine cc st (constLine cc f) = some { st with const := f.const } := by
  have hl : constLine cc f = cc :: (etConstPre ++ '=' :: (' ' :: fmt2 f.const f.constNeg false)) := rfl
  have hsp : splitOn '=' (cc :: (etConstPre ++ '=' :: (' ' :: fmt2 f.const f.constNeg false)))
      = [cc :: etConstPre, ' ' :: fmt2 f.const f.constNeg false] := by
    rw [← List.cons_append]
    refine et_splitOn_one '=' _ _ ?_ ?_
    · intro c hc
      rcases List.mem_cons.1 hc with rfl | hc
      · rcases hcc with rfl | rfl <;> decide
      · exact et_constPre_ne c hc
    · intro c hc
      rcases List.mem_cons.1 hc with rfl | hc
      · decide
      · exact (et_fmt2_chars _ _ _ c hc).1
  rw [hl, et_loadLine_cc_two cc st _ _ _ hsp]
  have := et_parseDec_fmt2_sign f.const f.constNeg false hs [' '] (by simp; decide)
  rw [List.singleton_append] at this
  rw [this]
  rfl

theorem et_loadLine_comment (cc : Char) (hcc : cc = '#' ∨ cc = 'c') (st : LState) :
    loadLine cc st (cc :: diagText) = some st ∧ loadLine cc st (cc :: offText) = some st := by
  constructor
  · refine et_loadLine_cc_one cc st _ _ (et_splitOn_none '=' _ ?_)
    intro c hc
    rcases List.mem_cons.1 hc with rfl | hc
    · rcases hcc with rfl | rfl <;> decide
    · exact et_diagText_ne c hc
  · refine et_loadLine_cc_one cc st _ _ (et_splitOn_none '=' _ ?_)
    intro c hc
    rcases List.mem_cons.1 hc with rfl | hc
    · rcases hcc with rfl | rfl <;> decide
    · exact et_offText_ne c hc

/-! ## the whole file -/

theorem et_fold_recs (cc : Char) (hcc : cc = '#' ∨ cc = 'c') (recs : List Rec)
    (hs : ∀ r ∈ recs, EtSign r.h r.neg) (st : LState) :
    (recs.map recLine).foldlM (loadLine cc) st
      = some { st with rows := st.rows ++ recs.map (·.i), cols := st.cols ++ recs.map (·.j),
                       data := st.data ++ recs.map (·.h) } := by
  induction recs generalizing st with
  | nil => cases st; simp
  | cons r t ih =>
    rw [List.map_cons, List.foldlM_cons, et_loadLine_recLine cc hcc st r (hs r (List.mem_cons_self ..))]
    simp only [Option.bind_eq_bind, Option.bind_some]
    rw [ih (fun x hx => hs x (List.mem_cons_of_mem _ hx))]
    simp

theorem et_zip3_map (recs : List Rec) :
    zip3 (recs.map (·.i)) (recs.map (·.j)) (recs.map (·.h)) = recs.map fun r => (r.i, r.j, r.h) := by
  induction recs with
  | nil => rfl
  | cons r t ih => simp only [List.map_cons, zip3, ih]

theorem et_foldl_max_pair (recs : List Rec) (a b : Nat) :
    (recs.map fun r => max r.i r.j).foldl max (max a b)
      = max ((recs.map (·.i)).foldl max a) ((recs.map (·.j)).foldl max b) := by
  induction recs generalizing a b with
  | nil => rfl
  | cons r t ih =>
    simp only [List.map_cons, List.foldl_cons]
    rw [← ih]
    congr 1
    omega

theorem et_fold_render (cc : Char) (hcc : cc = '#' ∨ cc = 'c') (f : ExportFile)
    (hc : EtSign f.const f.constNeg) (hs : ∀ r ∈ f.diag ++ f.off, EtSign r.h r.neg) :
    (renderLines cc f).foldlM (loadLine cc) {}
      = some { rows := (f.diag ++ f.off).map (·.i), cols := (f.diag ++ f.off).map (·.j),
               data := (f.diag ++ f.off).map (·.h), const := f.const, matLength := none } := by
  unfold renderLines
  simp only [List.foldlM_append, List.foldlM_cons, List.foldlM_nil, et_loadLine_constLine cc hcc _ f hc,
    (et_loadLine_comment cc hcc _).1, (et_loadLine_comment cc hcc _).2, Option.bind_eq_bind, Option.bind_some,
    Option.pure_def,
    et_fold_recs cc hcc f.diag (fun r hr => hs r (List.mem_append_left _ hr)),
    et_fold_recs cc hcc f.off (fun r hr => hs r (List.mem_append_right _ hr))]
  simp


theorem et_load_render (cc : Char) (hcc : cc = '#' ∨ cc = 'c') (f : ExportFile)
    (hc : EtSign f.const f.constNeg) (hs : ∀ r ∈ f.diag ++ f.off, EtSign r.h r.neg) :
    loadText cc (renderLines cc f)
      = some { dim := max 1 (loadFile f).dim, entries := (loadFile f).entries, const := (loadFile f).const } := by
  unfold loadText
  rw [et_fold_render cc hcc f hc hs]
  simp only [Option.bind_some, et_zip3_map]
  congr 1
  simp only [loadFile, Loaded.mk.injEq, and_true]
  have := et_foldl_max_pair (f.diag ++ f.off) 0 0
  rw [Nat.max_self] at this
  rw [← this]
  cases f.diag ++ f.off with
  | nil => rfl
  | cons r t =>
    simp only [List.isEmpty_cons, Bool.false_eq_true, if_false]
    omega

/-! ## sign of `round2` -/

theorem et_round2_sign (x : ℚ) : EtSign (round2 x) (decide (x < 0)) := by
  have h1 : ((x * 100).floor : ℚ) ≤ x * 100 := by
    rw [show (x * 100).floor = ⌊x * 100⌋ from rfl]; exact Int.floor_le _
  have h2 : x * 100 < ((x * 100).floor : ℚ) + 1 := by
    rw [show (x * 100).floor = ⌊x * 100⌋ from rfl]; exact Int.lt_floor_add_one _
  constructor
  · intro hneg
    have hx : x < 0 := of_decide_eq_true hneg
    have : ((x * 100).floor : ℚ) < 0 := by linarith
    have hf : (x * 100).floor < 0 := by exact_mod_cast this
    simp only [round2]
    split_ifs <;> omega
  · intro hneg
    have hx : ¬ x < 0 := of_decide_eq_false hneg
    have hx' : 0 ≤ x := not_lt.1 hx
    have : (0 : ℚ) < ((x * 100).floor : ℚ) + 1 := by linarith
    have hf : 0 < (x * 100).floor + 1 := by exact_mod_cast this
    simp only [round2]
    split_ifs <;> omega

theorem et_exportFile_sign (n : ℕ) (M : Mat) (d : Vec) (c : ℚ) :
    EtSign (exportFile n M d c).const (exportFile n M d c).constNeg ∧
      ∀ r ∈ (exportFile n M d c).diag ++ (exportFile n M d c).off, EtSign r.h r.neg := by
  refine ⟨et_round2_sign c, ?_⟩
  intro r hr
  rcases List.mem_append.1 hr with hr | hr
  · simp only [exportFile, List.mem_filterMap, List.mem_range] at hr
    obtain ⟨i, _, h⟩ := hr
    split_ifs at h
    cases h
    exact et_round2_sign _
  · simp only [exportFile, List.mem_flatMap, List.mem_filterMap, List.mem_range] at hr
    obtain ⟨i, _, j, _, h⟩ := hr
    split_ifs at h
    cases h
    exact et_round2_sign _

/-! ## energy -/

theorem et_loadFile_dim_zero (f : ExportFile) (h : (loadFile f).dim = 0) : (loadFile f).entries = [] := by
  simp only [loadFile] at h ⊢
  cases hl : f.diag ++ f.off with
  | nil => rfl
  | cons r t => rw [hl] at h; simp at h

theorem et_energy_max_one (L : Loaded) (h : L.dim = 0 → L.entries = []) (s : ℕ → ℤ) :
    ({ dim := max 1 L.dim, entries := L.entries, const := L.const } : Loaded).isingEnergy100 s
      = L.isingEnergy100 s := by
  by_cases h0 : L.dim = 0
  · simp [Loaded.isingEnergy100, sumToI, Loaded.entry, h h0, h0]
  · have : max 1 L.dim = L.dim := by omega
    rw [this]

end Vrp.Text
