import VrpModel.Graph
import Mathlib.Data.List.Nodup
import Mathlib.Data.List.Perm.Basic
import Mathlib.Algebra.Order.Field.Rat
import Mathlib.Tactic.Linarith

/-! helper lemmas about the list / dict primitives of `VrpModel.Graph` -/
namespace Vrp

/-! ### `remap` -/

theorem remap_inj {d i j : Nat} (h : remap d i = remap d j) : i = j := by
  unfold remap at h
  split_ifs at h <;> omega

theorem remapKey_injective (d : Nat) :
    Function.Injective (fun k : Key => ((remap d k.1, remap d k.2) : Key)) := by
  intro a b h
  simp only [Prod.mk.injEq] at h
  exact Prod.ext (remap_inj h.1) (remap_inj h.2)

/-! ### `moveFront` -/

theorem moveFront_get {α} (l : List α) (d i : Nat) (hd : d < l.length) (hi : i < l.length) :
    (moveFront l d)[remap d i]? = l[i]? := by
  unfold moveFront remap
  have : l[d]? = some l[d] := List.getElem?_eq_getElem hd
  rw [this]
  by_cases h1 : i = d
  · subst h1; simp [this]
  · by_cases h2 : i < d
    · simp [h1, h2, List.getElem?_eraseIdx, List.getElem?_eq_getElem hi]
    · have h3 : d < i := by omega
      simp only [h1, h2, if_false]
      have : i = (i - 1) + 1 := by omega
      rw [this, List.getElem?_cons_succ, List.getElem?_eraseIdx]
      have h5 : ¬ (i - 1 < d) := by omega
      simp [h5]

theorem moveFront_perm {α} (l : List α) (d : Nat) : (moveFront l d).Perm l := by
  unfold moveFront
  cases h : l[d]? with
  | none => exact List.Perm.refl _
  | some x =>
    obtain ⟨hd, rfl⟩ := List.getElem?_eq_some_iff.mp h
    simp only
    have h1 : l.eraseIdx d = l.take d ++ l.drop (d + 1) := List.eraseIdx_eq_take_drop_succ l d
    have h2 : l = l.take d ++ l[d] :: l.drop (d + 1) := by
      conv_lhs => rw [← List.take_append_drop d l]
      rw [List.drop_eq_getElem_cons hd]
    rw [h1]
    conv_rhs => rw [h2]
    exact List.perm_middle.symm

theorem moveFront_map {α β} (f : α → β) (l : List α) (d : Nat) :
    (moveFront l d).map f = moveFront (l.map f) d := by
  unfold moveFront
  cases h : l[d]? <;> simp [h, List.eraseIdx_map]

theorem moveFront_head {α} (l : List α) (d : Nat) (hd : d < l.length) :
    (moveFront l d).head? = l[d]? := by
  unfold moveFront
  simp [List.getElem?_eq_getElem hd]

/-! ### `dictSet` / `dictGet` -/

theorem dictSet_keys (d : List (Key × Arc)) (k : Key) (a : Arc) :
    (dictSet d k a).map (·.1) =
      if k ∈ d.map (·.1) then d.map (·.1) else d.map (·.1) ++ [k] := by
  induction d with
  | nil => simp [dictSet]
  | cons e rest ih =>
    obtain ⟨k', a'⟩ := e
    by_cases hk : k' = k
    · subst hk; simp [dictSet]
    · have hk' : ¬ k = k' := fun h => hk h.symm
      simp only [dictSet, hk, if_false, List.map_cons, ih, List.mem_cons, hk', false_or]
      split_ifs <;> simp

theorem dictSet_keys_nodup (d : List (Key × Arc)) (k : Key) (a : Arc)
    (h : (d.map (·.1)).Nodup) : ((dictSet d k a).map (·.1)).Nodup := by
  rw [dictSet_keys]
  split_ifs with hk
  · exact h
  · exact List.Nodup.append h (List.nodup_singleton k) (by simpa using hk)

theorem mem_dictSet {d : List (Key × Arc)} {k : Key} {a : Arc} {e : Key × Arc}
    (h : e ∈ dictSet d k a) : e = (k, a) ∨ e ∈ d := by
  induction d with
  | nil => simpa [dictSet] using h
  | cons e' rest ih =>
    obtain ⟨k', a'⟩ := e'
    by_cases hk : k' = k
    · simp only [dictSet, hk, if_true, List.mem_cons] at h
      rcases h with h | h
      · exact Or.inl h
      · exact Or.inr (List.mem_cons_of_mem _ h)
    · simp only [dictSet, hk, if_false, List.mem_cons] at h
      rcases h with h | h
      · exact Or.inr (h ▸ List.mem_cons_self)
      · rcases ih h with h | h
        · exact Or.inl h
        · exact Or.inr (List.mem_cons_of_mem _ h)

theorem dictGet_dictSet_self (d : List (Key × Arc)) (k : Key) (a : Arc) :
    dictGet (dictSet d k a) k = some a := by
  induction d with
  | nil => simp [dictSet, dictGet]
  | cons e rest ih =>
    obtain ⟨k', a'⟩ := e
    by_cases hk : k' = k
    · simp [dictSet, dictGet, hk]
    · simp only [dictGet] at ih
      simp [dictSet, dictGet, hk, ih]

/-! ### `Graph.indexOf?` -/

theorem Graph.names_length (g : Graph) : g.names.length = g.nodes.length := by
  simp [Graph.names]

theorem Graph.indexOf?_eq_none_iff (g : Graph) (nm : String) :
    g.indexOf? nm = none ↔ nm ∉ g.names := by
  unfold Graph.indexOf?
  simp only
  have key : g.names.idxOf nm < g.nodes.length ↔ nm ∈ g.names := by
    rw [← g.names_length, List.idxOf_lt_length_iff]
  split_ifs with h
  · simp [key.mp h]
  · simpa using fun hm => h (key.mpr hm)

theorem Graph.indexOf?_eq_some {g : Graph} {nm : String} {i : Nat} (h : g.indexOf? nm = some i) :
    ∃ n, g.nodes[i]? = some n ∧ n.name = nm := by
  unfold Graph.indexOf? at h
  simp only at h
  split_ifs at h with hlt
  have hi : g.names.idxOf nm = i := by simpa using h
  subst hi
  refine ⟨g.nodes[g.names.idxOf nm], List.getElem?_eq_getElem hlt, ?_⟩
  have hlt' : g.names.idxOf nm < g.names.length := by rw [g.names_length]; exact hlt
  have h1 : g.names[g.names.idxOf nm] = nm := List.getElem_idxOf hlt'
  have h2 : g.names[g.names.idxOf nm] = (g.nodes[g.names.idxOf nm]).name := by
    simp only [Graph.names, List.getElem_map]
  rw [← h2]; exact h1

theorem Graph.mem_names_iff (g : Graph) (nm : String) :
    nm ∈ g.names ↔ ∃ i, g.indexOf? nm = some i := by
  rw [← not_iff_not, ← Graph.indexOf?_eq_none_iff]
  cases g.indexOf? nm <;> simp

/-- under unique names, the node stored at position `i` is found at position `i` -/
theorem Graph.indexOf?_of_getElem? {g : Graph} (hnd : g.names.Nodup) {i : Nat} {n : Node}
    (h : g.nodes[i]? = some n) : g.indexOf? n.name = some i := by
  obtain ⟨hlt, hn⟩ := List.getElem?_eq_some_iff.mp h
  have hlt' : i < g.names.length := by rw [g.names_length]; exact hlt
  have h1 : g.names[i] = n.name := by simp only [Graph.names, List.getElem_map, hn]
  have h2 : g.names.idxOf n.name = i := by rw [← h1]; exact hnd.idxOf_getElem i hlt'
  unfold Graph.indexOf?
  simp only [h2, hlt, if_true]

/-- `indexOf?` looks at the node list only -/
theorem Graph.indexOf?_congr_nodes {g g' : Graph} (h : g.nodes = g'.nodes) (nm : String) :
    g.indexOf? nm = g'.indexOf? nm := by
  unfold Graph.indexOf? Graph.names; rw [h]

theorem Graph.hi_congr_nodes {g g' : Graph} (h : g.nodes = g'.nodes) (i : Nat) : g.hi i = g'.hi i := by
  unfold Graph.hi; rw [h]

theorem Graph.lo_congr_nodes {g g' : Graph} (h : g.nodes = g'.nodes) (i : Nat) : g.lo i = g'.lo i := by
  unfold Graph.lo; rw [h]

/-- assigning to a key that is not present appends -/
theorem dictSet_of_not_mem_keys (d : List (Key × Arc)) (k : Key) (a : Arc) (h : k ∉ d.map (·.1)) :
    dictSet d k a = d ++ [(k, a)] := by
  induction d with
  | nil => rfl
  | cons e rest ih =>
    obtain ⟨k', a'⟩ := e
    simp only [List.map_cons, List.mem_cons, not_or] at h
    have hk : ¬ k' = k := fun h' => h.1 h'.symm
    simp only [dictSet, hk, if_false, List.cons_append, ih h.2]

/-! ### `leE` -/

theorem leE_of_ltE_false {hi : ERat} {lo : Rat} (h : ltE hi lo = false) : leE lo hi = true := by
  simpa [ltE] using h

end Vrp
