import VrpProofs.Props.C12

/-! helper lemmas for `Props/C12b.lean`: exact characterisation ("iff") of the arcs added by each MIRP
    helper (`add_travel_arcs`, `add_exit_arcs`, `add_entry_arcs`), and the port-declaration facts -/
namespace Vrp.C12b
open Vrp Vrp.C12

/-! ### `dictHas` / `gAddArc`, exact -/

theorem ma_dictHas_dictSet_iff (d : List (Key × Arc)) (k k' : Key) (a : Arc) :
    dictHas (dictSet d k a) k' = true ↔ k' = k ∨ dictHas d k' = true := by
  constructor
  · intro h
    obtain ⟨e, he, hek⟩ := dictHas_iff.mp h
    rcases mem_dictSet he with h1 | h1
    · left; rw [← hek, h1]
    · right; exact dictHas_iff.mpr ⟨e, h1, hek⟩
  · rintro (h | h)
    · subst h; exact dictHas_dictSet_self d _ a
    · exact dictHas_dictSet_mono h

/-- `add_arc` between two known positions: exactly one key is (possibly) added -/
theorem ma_gAddArc_hasArc_of {g : Graph} {o d : String} {t c : ℚ} {i j : ℕ}
    (hi : g.indexOf? o = some i) (hj : g.indexOf? d = some j) (a b : ℕ) :
    (gAddArc g o d t c).hasArc a b = true ↔
      g.hasArc a b = true ∨ (a = i ∧ b = j ∧ leE (g.lo i + t) (g.hi j) = true) := by
  by_cases hok : leE (g.lo i + t) (g.hi j) = true
  · rw [gAddArc_eq_of hi hj hok]
    show dictHas (dictSet g.arcs (i, j) _) (a, b) = true ↔ _
    rw [ma_dictHas_dictSet_iff]
    constructor
    · rintro (h | h)
      · cases h; exact Or.inr ⟨rfl, rfl, hok⟩
      · exact Or.inl h
    · rintro (h | ⟨rfl, rfl, _⟩)
      · exact Or.inr h
      · exact Or.inl rfl
  · have hsame : gAddArc g o d t c = g := by
      rcases gAddArc_cases g o d t c with h | ⟨i', j', hi', hj', hok', _⟩
      · exact h
      · rw [hi] at hi'; rw [hj] at hj'; cases hi'; cases hj'; exact absurd hok' hok
    rw [hsame]
    constructor
    · exact Or.inl
    · rintro (h | ⟨_, _, h⟩)
      · exact h
      · exact absurd h hok

theorem ma_nodeHiLt_congr {g g' : Graph} (h : g'.nodes = g.nodes) (nm : String) (limit : ℚ) :
    nodeHiLt g' nm limit = nodeHiLt g nm limit := by
  unfold nodeHiLt
  rw [Graph.indexOf?_congr h]
  cases g.indexOf? nm with
  | none => rfl
  | some i => simp only [Graph.hi_congr h]

theorem ma_lo_append_old {g g' : Graph} {ex : List Node} (h : g'.nodes = g.nodes ++ ex)
    {i : ℕ} (hi : i < g.nodes.length) : g'.lo i = g.lo i := by
  simp [Graph.lo, h, List.getElem?_append_left hi]

theorem ma_hi_append_old {g g' : Graph} {ex : List Node} (h : g'.nodes = g.nodes ++ ex)
    {i : ℕ} (hi : i < g.nodes.length) : g'.hi i = g.hi i := by
  simp [Graph.hi, h, List.getElem?_append_left hi]

theorem ma_lo_append_new {g g' : Graph} {n : Node} (h : g'.nodes = g.nodes ++ [n]) :
    g'.lo g.nodes.length = n.lo := by
  simp [Graph.lo, h]

theorem ma_hi_append_new {g g' : Graph} {n : Node} (h : g'.nodes = g.nodes ++ [n]) :
    g'.hi g.nodes.length = n.hi := by
  simp [Graph.hi, h]

theorem ma_nodeHiLt_append_old {g g' : Graph} {ex : List Node} (h : g'.nodes = g.nodes ++ ex)
    {nm : String} {i : ℕ} (hi : g.indexOf? nm = some i) (limit : ℚ) :
    nodeHiLt g' nm limit = nodeHiLt g nm limit := by
  unfold nodeHiLt
  rw [Graph.indexOf?_append_old h hi, hi]
  simp only [ma_hi_append_old h (Graph.indexOf?_lt hi)]

/-! ### a fold of arc-adding steps over a fixed node list -/

theorem ma_foldl_arcs {α : Type} (N : List Node) (f : Graph → α → Graph) (S : α → ℕ → ℕ → Prop)
    (l : List α)
    (hstep : ∀ x ∈ l, ∀ g : Graph, g.nodes = N → (f g x).nodes = N ∧
      ∀ a b, ((f g x).hasArc a b = true ↔ g.hasArc a b = true ∨ S x a b)) :
    ∀ g : Graph, g.nodes = N → (l.foldl f g).nodes = N ∧
      ∀ a b, ((l.foldl f g).hasArc a b = true ↔ g.hasArc a b = true ∨ ∃ x ∈ l, S x a b) := by
  induction l with
  | nil => intro g hg; exact ⟨hg, fun a b => by simp⟩
  | cons x rest ih =>
    intro g hg
    obtain ⟨h1, h2⟩ := hstep x List.mem_cons_self g hg
    obtain ⟨h3, h4⟩ := ih (fun y hy => hstep y (List.mem_cons_of_mem _ hy)) (f g x) h1
    refine ⟨h3, fun a b => ?_⟩
    rw [List.foldl_cons, h4, h2]
    simp only [List.mem_cons, exists_eq_or_imp]
    tauto

/-! ### `add_travel_arcs` -/

/-- the two directed arcs between a supply visit `sn` and a demand visit `dn` -/
def TravelPair (m : Mirp) (dist : String → String → ℚ) (speed : ℚ) (sp dp sn dn : String) (a b : ℕ) : Prop :=
  (m.g.indexOf? sn = some a ∧ m.g.indexOf? dn = some b ∧
      leE (m.g.lo a + dist sp dp / speed) (m.g.hi b) = true) ∨
  (m.g.indexOf? dn = some a ∧ m.g.indexOf? sn = some b ∧
      leE (m.g.lo a + dist sp dp / speed) (m.g.hi b) = true)

theorem ma_travelStep_arcs (m : Mirp) (hinv : Inv m) (dist : String → String → ℚ) (speed unit : ℚ)
    (sfee dfee : String → ℚ) {sp dp sn dn : String} (hsp : sp ∈ m.supply) (hdp : dp ∈ m.demand)
    (hsn : sn ∈ m.nodesOf sp) (hdn : dn ∈ m.nodesOf dp) (g : Graph) (hg : g.nodes = m.g.nodes) :
    (travelStep dist speed unit sfee dfee sp dp sn dn g).nodes = m.g.nodes ∧
    ∀ a b, ((travelStep dist speed unit sfee dfee sp dp sn dn g).hasArc a b = true ↔
      g.hasArc a b = true ∨ TravelPair m dist speed sp dp sn dn a b) := by
  refine ⟨(travelStep_nodes _ _ _ _ _ _ _ _ _ _).trans hg, fun a b => ?_⟩
  obtain ⟨i, hi, _⟩ := hinv.supplyNodes sp hsp sn hsn
  obtain ⟨j, hj, _⟩ := hinv.demandNodes dp hdp dn hdn
  unfold travelStep TravelPair
  have hg1 := (gAddArc_nodes g sn dn (dist sp dp / speed) (dist sp dp * unit + dfee dp)).trans hg
  have e1 : g.indexOf? sn = some i := by rw [Graph.indexOf?_congr hg]; exact hi
  have e2 : g.indexOf? dn = some j := by rw [Graph.indexOf?_congr hg]; exact hj
  have e3 : (gAddArc g sn dn (dist sp dp / speed) (dist sp dp * unit + dfee dp)).indexOf? sn = some i := by
    rw [Graph.indexOf?_congr hg1]; exact hi
  have e4 : (gAddArc g sn dn (dist sp dp / speed) (dist sp dp * unit + dfee dp)).indexOf? dn = some j := by
    rw [Graph.indexOf?_congr hg1]; exact hj
  rw [ma_gAddArc_hasArc_of e4 e3, ma_gAddArc_hasArc_of e1 e2, Graph.lo_congr hg1, Graph.hi_congr hg1,
    Graph.lo_congr hg, Graph.hi_congr hg, hi, hj]
  constructor
  · rintro ((h | ⟨rfl, rfl, h⟩) | ⟨rfl, rfl, h⟩)
    · exact Or.inl h
    · exact Or.inr (Or.inl ⟨rfl, rfl, h⟩)
    · exact Or.inr (Or.inr ⟨rfl, rfl, h⟩)
  · rintro (h | ⟨h1, h2, h⟩ | ⟨h1, h2, h⟩)
    · exact Or.inl (Or.inl h)
    · cases h1; cases h2; exact Or.inl (Or.inr ⟨rfl, rfl, h⟩)
    · cases h1; cases h2; exact Or.inr ⟨rfl, rfl, h⟩

theorem ma_travel_arcs (m : Mirp) (hinv : Inv m) (dist : String → String → ℚ) (speed unit : ℚ)
    (sfee dfee : String → ℚ) :
    (m.addTravelArcs dist speed unit sfee dfee).g.nodes = m.g.nodes ∧
    ∀ a b, ((m.addTravelArcs dist speed unit sfee dfee).g.hasArc a b = true ↔
      m.g.hasArc a b = true ∨ ∃ sp ∈ m.supply, ∃ dp ∈ m.demand, ∃ sn ∈ m.nodesOf sp, ∃ dn ∈ m.nodesOf dp,
        TravelPair m dist speed sp dp sn dn a b) := by
  rw [addTravelArcs_eq]
  refine ma_foldl_arcs m.g.nodes _ _ m.supply ?_ m.g rfl
  intro sp hsp
  refine ma_foldl_arcs m.g.nodes _ _ m.demand ?_
  intro dp hdp
  refine ma_foldl_arcs m.g.nodes _ _ (m.nodesOf sp) ?_
  intro sn hsn
  refine ma_foldl_arcs m.g.nodes _ _ (m.nodesOf dp) ?_
  intro dn hdn g hg
  exact ma_travelStep_arcs m hinv dist speed unit sfee dfee hsp hdp hsn hdn g hg

/-! ### `add_exit_arcs` -/

theorem ma_exit_arcs (m : Mirp) (hinv : Inv m) (t c : ℚ) :
    (m.addExitArcs t c).g.nodes = m.g.nodes ∧
    ∀ a b, ((m.addExitArcs t c).g.hasArc a b = true ↔
      m.g.hasArc a b = true ∨ ∃ p ∈ m.supply ++ m.demand, ∃ nm ∈ m.nodesOf p,
        m.g.indexOf? nm = some a ∧ b = 0) := by
  rw [addExitArcs_eq]
  refine ma_foldl_arcs m.g.nodes _ _ (m.supply ++ m.demand) ?_ m.g rfl
  intro p hp
  refine ma_foldl_arcs m.g.nodes _ _ (m.nodesOf p) ?_
  intro nm hnm g hg
  refine ⟨(gAddArc_nodes _ _ _ _ _).trans hg, fun a b => ?_⟩
  obtain ⟨i, hi⟩ : ∃ i, m.g.indexOf? nm = some i := by
    rcases List.mem_append.mp hp with h | h
    · obtain ⟨i, h1, _⟩ := hinv.supplyNodes p h nm hnm; exact ⟨i, h1⟩
    · obtain ⟨i, h1, _⟩ := hinv.demandNodes p h nm hnm; exact ⟨i, h1⟩
  have e1 : g.indexOf? nm = some i := by rw [Graph.indexOf?_congr hg]; exact hi
  have e2 : g.indexOf? "Depot" = some 0 := by rw [Graph.indexOf?_congr hg]; exact hinv.depot_index
  have e3 : leE (g.lo i + t) (g.hi 0) = true := by rw [Graph.hi_congr hg, hinv.hi_depot]; rfl
  rw [ma_gAddArc_hasArc_of e1 e2, hi]
  constructor
  · rintro (h | ⟨rfl, rfl, _⟩)
    · exact Or.inl h
    · exact Or.inr ⟨rfl, rfl⟩
  · rintro (h | ⟨h1, h2⟩)
    · exact Or.inl h
    · cases h1; exact Or.inr ⟨rfl, h2, e3⟩

/-! ### `add_entry_arcs`, supply part -/

theorem ma_lo_depot {m : Mirp} (hinv : Inv m) : m.g.lo 0 = 0 := by
  have := hinv.depot
  rw [List.head?_eq_getElem?] at this
  simp [Graph.lo, this]

theorem ma_entryG1_arcs (m : Mirp) (hinv : Inv m) (limit et ec : ℚ) :
    (entryG1 m limit et ec).nodes = m.g.nodes ∧
    ∀ a b, ((entryG1 m limit et ec).hasArc a b = true ↔
      m.g.hasArc a b = true ∨ ∃ sp ∈ m.supply, ∃ sn ∈ m.nodesOf sp,
        a = 0 ∧ m.g.indexOf? sn = some b ∧ nodeHiLt m.g sn limit = true ∧
          leE (0 + et) (m.g.hi b) = true) := by
  unfold entryG1
  refine ma_foldl_arcs m.g.nodes _ _ m.supply ?_ m.g rfl
  intro p hp
  refine ma_foldl_arcs m.g.nodes _ _ (m.nodesOf p) ?_
  intro nm hnm g hg
  obtain ⟨j, hj, _⟩ := hinv.supplyNodes p hp nm hnm
  show (if nodeHiLt g nm limit then gAddArc g "Depot" nm et ec else g).nodes = m.g.nodes ∧
    ∀ a b, ((if nodeHiLt g nm limit then gAddArc g "Depot" nm et ec else g).hasArc a b = true ↔ _)
  rw [ma_nodeHiLt_congr hg]
  by_cases hlim : nodeHiLt m.g nm limit = true
  · simp only [hlim, if_true]
    refine ⟨(gAddArc_nodes _ _ _ _ _).trans hg, fun a b => ?_⟩
    have e1 : g.indexOf? nm = some j := by rw [Graph.indexOf?_congr hg]; exact hj
    have e2 : g.indexOf? "Depot" = some 0 := by rw [Graph.indexOf?_congr hg]; exact hinv.depot_index
    rw [ma_gAddArc_hasArc_of e2 e1, Graph.lo_congr hg, Graph.hi_congr hg, ma_lo_depot hinv, hj]
    constructor
    · rintro (h | ⟨rfl, rfl, h⟩)
      · exact Or.inl h
      · exact Or.inr ⟨rfl, rfl, trivial, h⟩
    · rintro (h | ⟨h1, h2, _, h⟩)
      · exact Or.inl h
      · cases h2; exact Or.inr ⟨h1, rfl, h⟩
  · have hlim' : nodeHiLt m.g nm limit = false := by simpa using hlim
    simp only [hlim', Bool.false_eq_true, if_false]
    refine ⟨hg, fun a b => ?_⟩
    constructor
    · exact Or.inl
    · rintro (h | ⟨_, _, h, _⟩)
      · exact h
      · exact absurd h (by simp)

/-! ### `add_entry_arcs`, demand part (dummy pre-loaded vessels) -/

/-- target positions of the dummies created while processing the demand visit names `pre` -/
def tsOf (m : Mirp) (limit : ℚ) (pre : List String) : List ℕ :=
  pre.filterMap fun x => if nodeHiLt m.g x limit then m.g.indexOf? x else none

theorem ma_tsOf_append (m : Mirp) (limit : ℚ) (l l' : List String) :
    tsOf m limit (l ++ l') = tsOf m limit l ++ tsOf m limit l' := by
  unfold tsOf; rw [List.filterMap_append]

theorem ma_tsOf_single (m : Mirp) (limit : ℚ) {nm : String} {j : ℕ} (hj : m.g.indexOf? nm = some j) :
    tsOf m limit [nm] = if nodeHiLt m.g nm limit then [j] else [] := by
  unfold tsOf
  by_cases h : nodeHiLt m.g nm limit = true
  · simp [h, hj]
  · have h' : nodeHiLt m.g nm limit = false := by simpa using h
    simp [h']

theorem ma_mem_tsOf {m : Mirp} {limit : ℚ} {l : List String} {j : ℕ} :
    j ∈ tsOf m limit l ↔ ∃ x ∈ l, nodeHiLt m.g x limit = true ∧ m.g.indexOf? x = some j := by
  unfold tsOf
  rw [List.mem_filterMap]
  constructor
  · rintro ⟨x, hx, h⟩
    by_cases hl : nodeHiLt m.g x limit = true
    · rw [if_pos hl] at h; exact ⟨x, hx, hl, h⟩
    · rw [if_neg hl] at h; cases h
  · rintro ⟨x, hx, hl, h⟩
    exact ⟨x, hx, by rw [if_pos hl]; exact h⟩

/-- state of the second loop of `add_entry_arcs`: `ts[t]` is the position of the demand visit the `t`-th
    dummy was created for; `G1` is the graph before the loop -/
structure EI (m : Mirp) (G1 : Graph) (et : ℚ) (g : Graph) (ts : List ℕ) : Prop where
  nodes : ∃ ex, g.nodes = m.g.nodes ++ ex ∧ ex.length = ts.length ∧
    ∀ n ∈ ex, n.demand = -m.size ∧ n.lo = 0 ∧ n.hi = none
  arcs : ∀ a b, g.hasArc a b = true ↔ G1.hasArc a b = true ∨
    (a = 0 ∧ m.g.nodes.length ≤ b ∧ b < m.g.nodes.length + ts.length) ∨
    (m.g.nodes.length ≤ a ∧ ts[a - m.g.nodes.length]? = some b ∧ leE (0 + et) (m.g.hi b) = true)

theorem ma_getElem?_append_single (ts : List ℕ) (j i b : ℕ) :
    (ts ++ [j])[i]? = some b ↔ ts[i]? = some b ∨ (i = ts.length ∧ b = j) := by
  rw [List.getElem?_append]
  split_ifs with h
  · constructor
    · exact Or.inl
    · rintro (h' | ⟨h', _⟩)
      · exact h'
      · omega
  · have hnone : ts[i]? = none := List.getElem?_eq_none (by omega)
    rw [hnone]
    by_cases hi : i = ts.length
    · subst hi
      simp only [Nat.sub_self, List.getElem?_cons_zero, Option.some.injEq]
      constructor
      · intro h'; exact Or.inr ⟨trivial, h'.symm⟩
      · rintro (h' | ⟨_, h'⟩)
        · cases h'
        · exact h'.symm
    · have : ([j] : List ℕ)[i - ts.length]? = none := List.getElem?_eq_none (by simp; omega)
      rw [this]
      constructor
      · intro h'; cases h'
      · rintro (h' | ⟨h', _⟩)
        · cases h'
        · exact absurd h' hi

theorem ma_entryStep_spec (m : Mirp) (hinv : Inv m) (G1 : Graph) (limit et ec : ℚ) {nm : String} {j : ℕ}
    (hj : m.g.indexOf? nm = some j) {g : Graph} {k : ℕ} {ts : List ℕ} (hE : EI m G1 et g ts) :
    ∀ g' k', entryStep m limit et ec (some (g, k)) nm = some (g', k') →
      EI m G1 et g' (ts ++ tsOf m limit [nm]) := by
  intro g' k' hstep
  obtain ⟨ex, hn, hlen, hex⟩ := hE.nodes
  have hnlt : nodeHiLt g nm limit = nodeHiLt m.g nm limit := ma_nodeHiLt_append_old hn hj limit
  rw [ma_tsOf_single m limit hj]
  rcases entryStep_cases m limit et ec (some (g, k)) nm with h | h | ⟨g0, k0, x, hst0, hx, h⟩
  · rw [h] at hstep; cases hstep
  · -- the state is unchanged: either the visit is not eligible, or (impossible) `k = k + 1`
    rw [h] at hstep
    cases hstep
    by_cases hlim : nodeHiLt m.g nm limit = true
    · exfalso
      unfold entryStep at h
      simp only [hnlt, hlim, if_true] at h
      split at h
      · cases h
      · simp only [Option.some.injEq, Prod.mk.injEq] at h
        omega
    · rw [if_neg hlim, List.append_nil]; exact hE
  · cases hst0
    rw [h] at hstep
    have hlim : nodeHiLt m.g nm limit = true := by
      by_contra hlim
      have hlim' : nodeHiLt m.g nm limit = false := by simpa using hlim
      unfold entryStep at h
      simp only [hnlt, hlim', Bool.false_eq_true, if_false, Option.some.injEq, Prod.mk.injEq] at h
      omega
    rw [if_pos hlim]
    obtain ⟨hfresh, hna, haa⟩ := addNodeStep_ok hx
    simp only [Option.some.injEq, Prod.mk.injEq] at hstep
    obtain ⟨hg', _⟩ := hstep
    subst hg'
    have hL := hinv.nodes_pos
    have hga : (addNodeStep g ("Dum" ++ toString k) (-m.size) 0 none).1.nodes =
        m.g.nodes ++ (ex ++ [⟨"Dum" ++ toString k, -m.size, 0, none⟩]) := by
      rw [hna, hn, List.append_assoc]
    have hglen : g.nodes.length = m.g.nodes.length + ts.length := by
      rw [hn, List.length_append, hlen]
    have hdep := Graph.indexOf?_append_old hga hinv.depot_index
    have hdum : (addNodeStep g ("Dum" ++ toString k) (-m.size) 0 none).1.indexOf? ("Dum" ++ toString k) =
        some g.nodes.length :=
      Graph.indexOf?_append_new (n := ⟨"Dum" ++ toString k, -m.size, 0, none⟩) hna hfresh
    have hnmi := Graph.indexOf?_append_old hga hj
    have hjlt := Graph.indexOf?_lt hj
    have hg2n := gAddArc_nodes (addNodeStep g ("Dum" ++ toString k) (-m.size) 0 none).1 "Depot"
      ("Dum" ++ toString k) 0 0
    have hdum2 := (Graph.indexOf?_congr hg2n ("Dum" ++ toString k)).trans hdum
    have hnmi2 := (Graph.indexOf?_congr hg2n nm).trans hnmi
    refine ⟨⟨ex ++ [⟨"Dum" ++ toString k, -m.size, 0, none⟩], ?_, ?_, ?_⟩, ?_⟩
    · rw [gAddArc_nodes, gAddArc_nodes, hga]
    · simp [hlen]
    · intro n hn'
      rcases List.mem_append.mp hn' with h1 | h1
      · exact hex n h1
      · rw [List.mem_singleton] at h1; subst h1; exact ⟨rfl, rfl, rfl⟩
    · intro a b
      have hold : (addNodeStep g ("Dum" ++ toString k) (-m.size) 0 none).1.hasArc a b = g.hasArc a b := by
        unfold Graph.hasArc; rw [haa]
      have ht1 : leE ((addNodeStep g ("Dum" ++ toString k) (-m.size) 0 none).1.lo 0 + 0)
          ((addNodeStep g ("Dum" ++ toString k) (-m.size) 0 none).1.hi g.nodes.length) = true := by
        rw [ma_hi_append_new hna]; rfl
      have hlo2 : (gAddArc (addNodeStep g ("Dum" ++ toString k) (-m.size) 0 none).1 "Depot"
          ("Dum" ++ toString k) 0 0).lo g.nodes.length = 0 := by
        rw [Graph.lo_congr hg2n, ma_lo_append_new hna]
      have hhi2 : (gAddArc (addNodeStep g ("Dum" ++ toString k) (-m.size) 0 none).1 "Depot"
          ("Dum" ++ toString k) 0 0).hi j = m.g.hi j := by
        rw [Graph.hi_congr hg2n, ma_hi_append_old hga hjlt]
      rw [ma_gAddArc_hasArc_of hdum2 hnmi2, ma_gAddArc_hasArc_of hdep hdum, hold, hE.arcs a b, hlo2, hhi2,
        List.length_append, List.length_singleton]
      simp only [ma_getElem?_append_single, ht1, and_true]
      constructor
      · rintro (((h1 | ⟨h1, h2, h3⟩ | ⟨h1, h2, h3⟩) | ⟨h1, h2⟩) | ⟨h1, h2, h3⟩)
        · exact Or.inl h1
        · exact Or.inr (Or.inl ⟨h1, h2, by omega⟩)
        · exact Or.inr (Or.inr ⟨h1, Or.inl h2, h3⟩)
        · exact Or.inr (Or.inl ⟨h1, by omega, by omega⟩)
        · exact Or.inr (Or.inr ⟨by omega, Or.inr ⟨by omega, h2⟩, by rw [h2]; exact h3⟩)
      · rintro (h1 | ⟨h1, h2, h3⟩ | ⟨h1, h2 | ⟨h2, h2'⟩, h3⟩)
        · exact Or.inl (Or.inl (Or.inl h1))
        · by_cases hb : b < m.g.nodes.length + ts.length
          · exact Or.inl (Or.inl (Or.inr (Or.inl ⟨h1, h2, hb⟩)))
          · exact Or.inl (Or.inr ⟨h1, by omega⟩)
        · exact Or.inl (Or.inl (Or.inr (Or.inr ⟨h1, h2, h3⟩)))
        · exact Or.inr ⟨by omega, h2', by rw [← h2']; exact h3⟩

theorem ma_entry_fold (m : Mirp) (hinv : Inv m) (G1 : Graph) (limit et ec : ℚ) (l : List String) :
    (∀ x ∈ l, ∃ j, m.g.indexOf? x = some j) →
    ∀ (pre : List String) (st : Option (Graph × ℕ)),
      (∀ g k, st = some (g, k) → EI m G1 et g (tsOf m limit pre)) →
      ∀ g k, l.foldl (entryStep m limit et ec) st = some (g, k) →
        EI m G1 et g (tsOf m limit (pre ++ l)) := by
  induction l with
  | nil => intro _ pre st hst g k h; rw [List.append_nil]; exact hst g k h
  | cons x rest ih =>
    intro hl pre st hst g k h
    rw [List.foldl_cons] at h
    have := ih (fun y hy => hl y (List.mem_cons_of_mem _ hy)) (pre ++ [x])
      (entryStep m limit et ec st x) ?_ g k h
    · rwa [List.append_assoc, List.singleton_append] at this
    · intro g' k' hstep
      cases st with
      | none => cases hstep
      | some gk =>
        obtain ⟨g0, k0⟩ := gk
        obtain ⟨j, hj⟩ := hl x List.mem_cons_self
        rw [ma_tsOf_append]
        exact ma_entryStep_spec m hinv G1 limit et ec hj (hst g0 k0 rfl) g' k' hstep

theorem ma_entry_spec (m : Mirp) (hinv : Inv m) (limit et ec : ℚ) (m' : Mirp)
    (h : m.addEntryArcs limit et ec = some m') :
    EI m (entryG1 m limit et ec) et m'.g (tsOf m limit (m.demand.flatMap m.nodesOf)) ∧
      m'.supply = m.supply ∧ m'.demand = m.demand ∧ m'.mapping = m.mapping ∧ m'.size = m.size := by
  rw [addEntryArcs_eq, Option.map_eq_some_iff] at h
  obtain ⟨⟨g, k⟩, hr, rfl⟩ := h
  refine ⟨?_, rfl, rfl, rfl, rfl⟩
  rw [← List.foldl_flatMap] at hr
  have hG1 := ma_entryG1_arcs m hinv limit et ec
  have := ma_entry_fold m hinv (entryG1 m limit et ec) limit et ec (m.demand.flatMap m.nodesOf) ?_ []
    (some (entryG1 m limit et ec, 0)) ?_ g k hr
  · simpa using this
  · intro x hx
    obtain ⟨p, hp, hxp⟩ := List.mem_flatMap.mp hx
    obtain ⟨i, hi, _⟩ := hinv.demandNodes p hp x hxp
    exact ⟨i, hi⟩
  · intro g0 k0 h0
    cases h0
    refine ⟨⟨[], by simp [hG1.1], rfl, by simp⟩, fun a b => ?_⟩
    simp [tsOf]

/-! ### the three closing helpers together -/

/-- the arcs of the finished graph, in terms of the port-declaration state `m`; `ts[t]` is the position of
    the demand visit the `t`-th dummy was created for -/
def ArcSpec (m : Mirp) (dist : String → String → ℚ) (speed limit et : ℚ) (ts : List ℕ) (a b : ℕ) : Prop :=
  (∃ sp ∈ m.supply, ∃ dp ∈ m.demand, ∃ sn ∈ m.nodesOf sp, ∃ dn ∈ m.nodesOf dp,
      TravelPair m dist speed sp dp sn dn a b) ∨
  (∃ p ∈ m.supply ++ m.demand, ∃ nm ∈ m.nodesOf p, m.g.indexOf? nm = some a ∧ b = 0) ∨
  (∃ sp ∈ m.supply, ∃ sn ∈ m.nodesOf sp, a = 0 ∧ m.g.indexOf? sn = some b ∧
      nodeHiLt m.g sn limit = true ∧ leE (0 + et) (m.g.hi b) = true) ∨
  (a = 0 ∧ m.g.nodes.length ≤ b ∧ b < m.g.nodes.length + ts.length) ∨
  (m.g.nodes.length ≤ a ∧ ts[a - m.g.nodes.length]? = some b ∧ leE (0 + et) (m.g.hi b) = true)

structure FinSpec (m mf : Mirp) (dist : String → String → ℚ) (speed limit et : ℚ) (ts : List ℕ) : Prop where
  nodes : ∃ ex, mf.g.nodes = m.g.nodes ++ ex ∧ ex.length = ts.length ∧
    ∀ n ∈ ex, n.demand = -m.size ∧ n.lo = 0 ∧ n.hi = none
  sup : mf.supply = m.supply
  dem : mf.demand = m.demand
  size : mf.size = m.size
  ts_mem : ∀ j, j ∈ ts ↔ ∃ dp ∈ m.demand, ∃ dn ∈ m.nodesOf dp,
    nodeHiLt m.g dn limit = true ∧ m.g.indexOf? dn = some j
  arcs : ∀ a b, mf.g.hasArc a b = true ↔ m.g.hasArc a b = true ∨ ArcSpec m dist speed limit et ts a b

theorem ma_finish_spec {m mf : Mirp} (hinv : Inv m) (dist : String → String → ℚ) (speed unit : ℚ)
    (sfee dfee : String → ℚ) (xt xc limit et ec : ℚ)
    (h : ((m.addTravelArcs dist speed unit sfee dfee).addExitArcs xt xc).addEntryArcs limit et ec = some mf) :
    ∃ ts, FinSpec m mf dist speed limit et ts := by
  have hinv1 := addTravelArcs_inv hinv dist speed unit sfee dfee
  have hinv2 := addExitArcs_inv hinv1 xt xc
  obtain ⟨hn1, ha1⟩ := ma_travel_arcs m hinv dist speed unit sfee dfee
  obtain ⟨hn2, ha2⟩ := ma_exit_arcs _ hinv1 xt xc
  obtain ⟨hn3, ha3⟩ := ma_entryG1_arcs _ hinv2 limit et ec
  obtain ⟨hE, hs, hd, hmp, hsz⟩ := ma_entry_spec _ hinv2 limit et ec mf h
  have h2n : ((m.addTravelArcs dist speed unit sfee dfee).addExitArcs xt xc).g.nodes = m.g.nodes :=
    hn2.trans hn1
  have hidx1 := Graph.indexOf?_congr hn1
  have hidx2 := Graph.indexOf?_congr h2n
  have hhi2 := Graph.hi_congr h2n
  have hlt2 := fun x => ma_nodeHiLt_congr h2n x limit
  have hlen2 : ((m.addTravelArcs dist speed unit sfee dfee).addExitArcs xt xc).g.nodes.length =
      m.g.nodes.length := by rw [h2n]
  refine ⟨tsOf ((m.addTravelArcs dist speed unit sfee dfee).addExitArcs xt xc) limit
    (List.flatMap ((m.addTravelArcs dist speed unit sfee dfee).addExitArcs xt xc).nodesOf
      ((m.addTravelArcs dist speed unit sfee dfee).addExitArcs xt xc).demand), ?_, hs, hd, hsz, ?_, ?_⟩
  · obtain ⟨ex, e1, e2, e3⟩ := hE.nodes
    exact ⟨ex, by rw [e1, h2n], e2, e3⟩
  · intro j
    rw [ma_mem_tsOf]
    simp only [hidx2, hlt2]
    constructor
    · rintro ⟨x, hx, h1, h2⟩
      obtain ⟨p, hp, hxp⟩ := List.mem_flatMap.mp hx
      exact ⟨p, hp, x, hxp, h1, h2⟩
    · rintro ⟨p, hp, x, hxp, h1, h2⟩
      exact ⟨x, List.mem_flatMap.mpr ⟨p, hp, hxp⟩, h1, h2⟩
  · intro a b
    have A2 : ((m.addTravelArcs dist speed unit sfee dfee).addExitArcs xt xc).g.hasArc a b = true ↔
        (m.addTravelArcs dist speed unit sfee dfee).g.hasArc a b = true ∨
        ∃ p ∈ m.supply ++ m.demand, ∃ nm ∈ m.nodesOf p, m.g.indexOf? nm = some a ∧ b = 0 := by
      have := ha2 a b
      simp only [hidx1] at this
      exact this
    have A3 : (entryG1 ((m.addTravelArcs dist speed unit sfee dfee).addExitArcs xt xc) limit et ec).hasArc a b
          = true ↔
        ((m.addTravelArcs dist speed unit sfee dfee).addExitArcs xt xc).g.hasArc a b = true ∨
        ∃ sp ∈ m.supply, ∃ sn ∈ m.nodesOf sp, a = 0 ∧ m.g.indexOf? sn = some b ∧
          nodeHiLt m.g sn limit = true ∧ leE (0 + et) (m.g.hi b) = true := by
      have := ha3 a b
      simp only [hidx2, hhi2, hlt2] at this
      exact this
    have A4 := hE.arcs a b
    simp only [hlen2, hhi2] at A4
    rw [A4, A3, A2, ha1 a b]
    unfold ArcSpec
    simp only [or_assoc]

/-! ### port declarations -/

/-- facts kept by the `port` calls: visit names belong to one port only, are node names; no arc yet -/
structure PJ (m : Mirp) : Prop where
  disj : ∀ p q x, x ∈ m.nodesOf p → x ∈ m.nodesOf q → p = q
  named : ∀ p x, x ∈ m.nodesOf p → x ∈ m.g.names
  noArcs : m.g.arcs = []

theorem ma_loop_pj (port : String) (lvl init rate cap : ℚ) (fuel : ℕ) :
    ∀ (m : Mirp) (k : ℕ) (acc : List String) (m' : Mirp) (r : Except Err (List String)),
      PJ m → m.nodesOf port = acc →
      addNodesLoop fuel m port lvl init rate cap k acc = some (m', r) → PJ m' := by
  induction fuel with
  | zero => intro m k acc m' r _ _ h; simp [addNodesLoop] at h
  | succ fuel ih =>
    intro m k acc m' r hpj hacc h
    rw [addNodesLoop_succ] at h
    split_ifs at h with hhor
    · cases h; exact hpj
    · split at h
      · cases h; exact hpj
      · rename_i x hok
        obtain ⟨hfresh, hna, haa⟩ := addNodeStep_ok hok
        refine ih _ (k + 1) (acc ++ [visitName port k]) m' r ?_ ?_ h
        · have hno := nodesOf_of_mapSet (m := m)
            (m' := { m with
              g := (addNodeStep m.g (visitName port k) lvl (getTimeWindow m.size k init rate cap).1
                (some (getTimeWindow m.size k init rate cap).2)).1,
              mapping := mapSet m.mapping port (acc ++ [visitName port k]) })
            (k := port) (v := acc ++ [visitName port k]) rfl
          have hnames : ∀ y, y ∈ m.g.names → y ∈ (addNodeStep m.g (visitName port k) lvl
              (getTimeWindow m.size k init rate cap).1
              (some (getTimeWindow m.size k init rate cap).2)).1.names := by
            intro y hy
            unfold Graph.names at hy ⊢
            rw [hna, List.map_append]
            exact List.mem_append_left _ hy
          have hnew : visitName port k ∈ (addNodeStep m.g (visitName port k) lvl
              (getTimeWindow m.size k init rate cap).1
              (some (getTimeWindow m.size k init rate cap).2)).1.names := by
            unfold Graph.names
            rw [hna, List.map_append]
            exact List.mem_append_right _ (by simp)
          have hcross : ∀ q x, q ≠ port → x ∈ acc ++ [visitName port k] → x ∈ m.nodesOf q → False := by
            intro q x hq hx hxq
            rcases List.mem_append.mp hx with h1 | h1
            · rw [← hacc] at h1
              exact hq (hpj.disj _ _ _ h1 hxq).symm
            · rw [List.mem_singleton] at h1
              subst h1
              exact hfresh (hpj.named q _ hxq)
          refine ⟨?_, ?_, ?_⟩
          · intro p q x hp hq
            rw [hno] at hp hq
            by_cases hpp : p = port
            · by_cases hqp : q = port
              · rw [hpp, hqp]
              · rw [if_pos hpp, if_neg hqp] at *
                exact (hcross q x hqp hp hq).elim
            · by_cases hqp : q = port
              · rw [if_neg hpp] at hp; rw [if_pos hqp] at hq
                exact (hcross p x hpp hq hp).elim
              · rw [if_neg hpp] at hp; rw [if_neg hqp] at hq
                exact hpj.disj p q x hp hq
          · intro p x hp
            rw [hno] at hp
            show x ∈ (addNodeStep m.g (visitName port k) lvl _ _).1.names
            by_cases hpp : p = port
            · rw [if_pos hpp] at hp
              rcases List.mem_append.mp hp with h1 | h1
              · rw [← hacc] at h1
                exact hnames x (hpj.named port x h1)
              · rw [List.mem_singleton] at h1
                rw [h1]; exact hnew
            · rw [if_neg hpp] at hp
              exact hnames x (hpj.named p x hp)
          · show (addNodeStep m.g (visitName port k) lvl _ _).1.arcs = []
            rw [haa]; exact hpj.noArcs
        · rw [nodesOf_of_mapSet (m := m) (k := port) (v := acc ++ [visitName port k]) rfl port]
          simp

theorem ma_addNodes_pj {m : Mirp} (hpj : PJ m) (fuel : ℕ) (port : String) (init rate cap : ℚ)
    (m' : Mirp) (r : Except Err (List String)) (h : m.addNodes fuel port init rate cap = some (m', r)) :
    PJ m' := by
  unfold Mirp.addNodes at h
  have hstart : ∀ m1 : Mirp, m1.mapping = m.mapping → m1.g = m.g →
      PJ ({ m1 with mapping := mapSet m1.mapping port [] } : Mirp) := by
    intro m1 hmap hg
    have hno : ∀ p, ({ m1 with mapping := mapSet m1.mapping port [] } : Mirp).nodesOf p =
        if p = port then [] else m.nodesOf p := by
      intro p
      rw [nodesOf_of_mapSet (m := m1) (k := port) (v := []) rfl p]
      unfold Mirp.nodesOf
      rw [hmap]
    refine ⟨?_, ?_, ?_⟩
    · intro p q x hp hq
      rw [hno] at hp hq
      by_cases hpp : p = port
      · rw [if_pos hpp] at hp; cases hp
      · by_cases hqp : q = port
        · rw [if_pos hqp] at hq; cases hq
        · rw [if_neg hpp] at hp; rw [if_neg hqp] at hq
          exact hpj.disj p q x hp hq
    · intro p x hp
      rw [hno] at hp
      show x ∈ m1.g.names
      rw [hg]
      by_cases hpp : p = port
      · rw [if_pos hpp] at hp; cases hp
      · rw [if_neg hpp] at hp; exact hpj.named p x hp
    · show m1.g.arcs = []
      rw [hg]; exact hpj.noArcs
  have hnil : ∀ m1 : Mirp, ({ m1 with mapping := mapSet m1.mapping port [] } : Mirp).nodesOf port = [] := by
    intro m1
    rw [nodesOf_of_mapSet (m := m1) (k := port) (v := []) rfl port]
    simp
  by_cases hr : 0 < rate
  · simp only [hr, if_true] at h
    exact ma_loop_pj port _ init rate cap fuel _ 0 [] m' r
      (hstart { m with supply := m.supply ++ [port] } rfl rfl) (hnil _) h
  · simp only [hr, if_false] at h
    exact ma_loop_pj port _ init rate cap fuel _ 0 [] m' r
      (hstart { m with demand := m.demand ++ [port] } rfl rfl) (hnil _) h

theorem ma_build_pj (fuel : ℕ) (ports : List MOp) :
    ∀ (m m' : Mirp), PJ m → (∀ op ∈ ports, ∃ nm i r c, op = MOp.port nm i r c) →
      Mirp.build fuel m ports = some m' → PJ m' := by
  induction ports with
  | nil =>
    intro m m' hpj _ h
    simp only [Mirp.build, Option.some.injEq] at h
    subst h; exact hpj
  | cons op rest ih =>
    intro m m' hpj hports h
    obtain ⟨nm, i, r, c, rfl⟩ := hports op List.mem_cons_self
    unfold Mirp.build at h
    cases hres : (m.step fuel (.port nm i r c)).2 with
    | ok names =>
      rw [hres] at h
      simp only at h
      refine ih _ m' ?_ (fun op hop => hports op (List.mem_cons_of_mem _ hop)) h
      rw [step_port] at hres ⊢
      by_cases hr : r = 0
      · simp [hr] at hres
      · simp only [hr, if_false] at hres ⊢
        cases ha : m.addNodes fuel nm i r c with
        | none => rw [ha] at hres; simp at hres
        | some res =>
          obtain ⟨m1, res⟩ := res
          have := ma_addNodes_pj hpj fuel nm i r c m1 res ha
          cases res with
          | error e => rw [ha] at hres; simp at hres
          | ok nms => exact this
    | err e => rw [hres] at h; simp at h
    | zerodiv => rw [hres] at h; simp at h
    | nonterm => rw [hres] at h; simp at h

theorem ma_pj_new (size horizon : ℚ) : PJ (Mirp.new size horizon) :=
  ⟨fun p q x hp _ => by simp [Mirp.nodesOf, Mirp.new] at hp,
   fun p x hp => by simp [Mirp.nodesOf, Mirp.new] at hp, rfl⟩

/-! ### nodes only (no hypothesis on the state) -/

theorem ma_travel_nodes (m : Mirp) (dist : String → String → ℚ) (speed unit : ℚ) (sfee dfee : String → ℚ) :
    (m.addTravelArcs dist speed unit sfee dfee).g.nodes = m.g.nodes := by
  rw [addTravelArcs_eq]
  refine foldl_inv (fun g : Graph => g.nodes = m.g.nodes) _ m.supply ?_ m.g rfl
  intro g hg sp _
  refine foldl_inv (fun g : Graph => g.nodes = m.g.nodes) _ m.demand ?_ g hg
  intro g hg dp _
  refine foldl_inv (fun g : Graph => g.nodes = m.g.nodes) _ (m.nodesOf sp) ?_ g hg
  intro g hg sn _
  refine foldl_inv (fun g : Graph => g.nodes = m.g.nodes) _ (m.nodesOf dp) ?_ g hg
  intro g hg dn _
  exact (travelStep_nodes _ _ _ _ _ _ _ _ _ _).trans hg

theorem ma_exit_nodes (m : Mirp) (t c : ℚ) : (m.addExitArcs t c).g.nodes = m.g.nodes := by
  rw [addExitArcs_eq]
  refine foldl_inv (fun g : Graph => g.nodes = m.g.nodes) _ (m.supply ++ m.demand) ?_ m.g rfl
  intro g hg p _
  refine foldl_inv (fun g : Graph => g.nodes = m.g.nodes) _ (m.nodesOf p) ?_ g hg
  intro g hg nm _
  exact (gAddArc_nodes _ _ _ _ _).trans hg

theorem ma_entryG1_nodes (m : Mirp) (limit et ec : ℚ) : (entryG1 m limit et ec).nodes = m.g.nodes := by
  unfold entryG1
  refine foldl_inv (fun g : Graph => g.nodes = m.g.nodes) _ m.supply ?_ m.g rfl
  intro g hg p _
  refine foldl_inv (fun g : Graph => g.nodes = m.g.nodes) _ (m.nodesOf p) ?_ g hg
  intro g hg nm _
  show (if nodeHiLt g nm limit then gAddArc g "Depot" nm et ec else g).nodes = m.g.nodes
  split_ifs
  · exact (gAddArc_nodes _ _ _ _ _).trans hg
  · exact hg

theorem ma_entry_nodes (m m' : Mirp) (limit et ec : ℚ) (h : m.addEntryArcs limit et ec = some m') :
    (∃ ex, m'.g.nodes = m.g.nodes ++ ex) ∧ m'.supply = m.supply ∧ m'.demand = m.demand ∧
      m'.size = m.size := by
  rw [addEntryArcs_eq, Option.map_eq_some_iff] at h
  obtain ⟨⟨g, k⟩, hr, rfl⟩ := h
  refine ⟨?_, rfl, rfl, rfl⟩
  show ∃ ex, g.nodes = m.g.nodes ++ ex
  refine foldl_inv (fun st : Option (Graph × ℕ) => ∀ g k, st = some (g, k) → ∃ ex, g.nodes = m.g.nodes ++ ex)
    _ m.demand ?_ (some (entryG1 m limit et ec, 0)) ?_ g k hr
  · intro st hst p _
    refine foldl_inv (fun st : Option (Graph × ℕ) => ∀ g k, st = some (g, k) →
      ∃ ex, g.nodes = m.g.nodes ++ ex) _ (m.nodesOf p) ?_ st hst
    intro st hst nm _ g k hgk
    rcases entryStep_cases m limit et ec st nm with h' | h' | ⟨g0, k0, x, hst0, hx, h'⟩
    · rw [h'] at hgk; cases hgk
    · rw [h'] at hgk; exact hst g k hgk
    · rw [h'] at hgk
      cases hgk
      obtain ⟨ex, hex⟩ := hst g0 k0 hst0
      obtain ⟨_, hna, _⟩ := addNodeStep_ok hx
      exact ⟨ex ++ [⟨"Dum" ++ toString k0, -m.size, 0, none⟩], by
        rw [gAddArc_nodes, gAddArc_nodes, hna, hex, List.append_assoc]⟩
  · intro g k hgk
    cases hgk
    exact ⟨[], by rw [ma_entryG1_nodes, List.append_nil]⟩

end Vrp.C12b
