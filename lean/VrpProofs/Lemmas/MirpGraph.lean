import VrpModel.Mirp
import VrpProofs.Lemmas.Graph
import VrpProofs.Props.C15

/-! helper lemmas for the MIRP graph builder: generic `foldl` invariants, more `dict*` lemmas,
    `Graph.indexOf?` under node append, characterisation of `gAddArc`, `mapSet` / `nodesOf` -/
namespace Vrp

/-! ### generic fold lemmas -/

theorem foldl_inv {α β : Type} (P : β → Prop) (f : β → α → β) (l : List α)
    (hstep : ∀ b, P b → ∀ x ∈ l, P (f b x)) (b : β) (hb : P b) : P (l.foldl f b) := by
  induction l generalizing b with
  | nil => exact hb
  | cons x rest ih =>
    simp only [List.foldl_cons]
    exact ih (fun b hb y hy => hstep b hb y (List.mem_cons_of_mem _ hy)) _
      (hstep b hb x List.mem_cons_self)

/-- `P` is kept by every step, `PQ` is kept by every step, and the step for `a` turns `P` into `PQ` -/
theorem foldl_establish {α β : Type} (P PQ : β → Prop) (f : β → α → β) (l : List α) (a : α)
    (ha : a ∈ l)
    (hP : ∀ b, P b → ∀ x ∈ l, P (f b x))
    (hPQ : ∀ b, PQ b → ∀ x ∈ l, PQ (f b x))
    (hest : ∀ b, P b → PQ (f b a)) (b : β) (hb : P b) : PQ (l.foldl f b) := by
  induction l generalizing b with
  | nil => cases ha
  | cons x rest ih =>
    simp only [List.foldl_cons]
    by_cases hx : a = x
    · subst hx
      exact foldl_inv PQ f rest (fun b hb y hy => hPQ b hb y (List.mem_cons_of_mem _ hy)) _ (hest b hb)
    · have ha' : a ∈ rest := by
        rcases List.mem_cons.mp ha with h | h
        · exact absurd h hx
        · exact h
      exact ih ha' (fun b hb y hy => hP b hb y (List.mem_cons_of_mem _ hy))
        (fun b hb y hy => hPQ b hb y (List.mem_cons_of_mem _ hy)) _ (hP b hb x List.mem_cons_self)

/-! ### more `dictSet` / `dictGet` / `dictHas` -/

theorem dictHas_iff {d : List (Key × Arc)} {k : Key} : dictHas d k = true ↔ ∃ e ∈ d, e.1 = k := by
  simp [dictHas, List.any_eq_true]

theorem mem_dictSet_self (d : List (Key × Arc)) (k : Key) (a : Arc) : (k, a) ∈ dictSet d k a := by
  induction d with
  | nil => simp [dictSet]
  | cons e rest ih =>
    obtain ⟨k', a'⟩ := e
    by_cases hk : k' = k
    · simp [dictSet, hk]
    · simp only [dictSet, hk, if_false, List.mem_cons]
      exact Or.inr ih

theorem mem_dictSet_of_mem_ne {d : List (Key × Arc)} {k : Key} {a : Arc} {e : Key × Arc}
    (he : e ∈ d) (hne : e.1 ≠ k) : e ∈ dictSet d k a := by
  induction d with
  | nil => cases he
  | cons e' rest ih =>
    obtain ⟨k', a'⟩ := e'
    by_cases hk : k' = k
    · simp only [dictSet, hk, if_true, List.mem_cons]
      rcases List.mem_cons.mp he with h | h
      · exact absurd (by rw [h]; exact hk) hne
      · exact Or.inr h
    · simp only [dictSet, hk, if_false, List.mem_cons]
      rcases List.mem_cons.mp he with h | h
      · exact Or.inl h
      · exact Or.inr (ih h)

theorem dictHas_dictSet_self (d : List (Key × Arc)) (k : Key) (a : Arc) :
    dictHas (dictSet d k a) k = true :=
  dictHas_iff.mpr ⟨(k, a), mem_dictSet_self d k a, rfl⟩

theorem dictHas_dictSet_mono {d : List (Key × Arc)} {k k' : Key} {a : Arc}
    (h : dictHas d k' = true) : dictHas (dictSet d k a) k' = true := by
  by_cases hk : k' = k
  · subst hk; exact dictHas_dictSet_self d _ a
  · obtain ⟨e, he, hek⟩ := dictHas_iff.mp h
    exact dictHas_iff.mpr ⟨e, mem_dictSet_of_mem_ne he (by rw [hek]; exact hk), hek⟩

theorem dictGet_dictSet_ne (d : List (Key × Arc)) {k k' : Key} (a : Arc) (hne : k' ≠ k) :
    dictGet (dictSet d k a) k' = dictGet d k' := by
  induction d with
  | nil =>
    have : ¬ k = k' := fun h => hne h.symm
    simp [dictSet, dictGet, this]
  | cons e rest ih =>
    obtain ⟨k₀, a₀⟩ := e
    by_cases hk : k₀ = k
    · subst hk
      have : ¬ k₀ = k' := fun h => hne h.symm
      simp [dictSet, dictGet, this]
    · simp only [dictGet] at ih
      by_cases hk' : k₀ = k'
      · subst hk'
        simp [dictSet, dictGet, hk]
      · simp [dictSet, dictGet, hk, hk', ih]

/-! ### `Graph.indexOf?` and node data under "same nodes" / "nodes appended" -/

theorem Graph.indexOf?_congr {g g' : Graph} (h : g'.nodes = g.nodes) (x : String) :
    g'.indexOf? x = g.indexOf? x := by
  unfold Graph.indexOf? Graph.names
  rw [h]

theorem Graph.demand_congr {g g' : Graph} (h : g'.nodes = g.nodes) (i : Nat) :
    g'.demand i = g.demand i := by simp [Graph.demand, h]

theorem Graph.lo_congr {g g' : Graph} (h : g'.nodes = g.nodes) (i : Nat) :
    g'.lo i = g.lo i := by simp [Graph.lo, h]

theorem Graph.hi_congr {g g' : Graph} (h : g'.nodes = g.nodes) (i : Nat) :
    g'.hi i = g.hi i := by simp [Graph.hi, h]

theorem Graph.indexOf?_lt {g : Graph} {x : String} {i : Nat} (h : g.indexOf? x = some i) :
    i < g.nodes.length := by
  obtain ⟨n, hn, _⟩ := Graph.indexOf?_eq_some h
  exact (List.getElem?_eq_some_iff.mp hn).1

theorem Graph.indexOf?_inj {g : Graph} {x y : String} {i : Nat} (hx : g.indexOf? x = some i)
    (hy : g.indexOf? y = some i) : x = y := by
  obtain ⟨n, hn, hnx⟩ := Graph.indexOf?_eq_some hx
  obtain ⟨n', hn', hny⟩ := Graph.indexOf?_eq_some hy
  rw [hn] at hn'
  cases hn'
  rw [← hnx, ← hny]

theorem Graph.indexOf?_head {g : Graph} {n : Node} (h : g.nodes.head? = some n) :
    g.indexOf? n.name = some 0 := by
  cases hn : g.nodes with
  | nil => rw [hn] at h; cases h
  | cons n' rest =>
    rw [hn] at h
    simp only [List.head?_cons, Option.some.injEq] at h
    subst h
    simp [Graph.indexOf?, Graph.names, hn]

theorem Graph.indexOf?_append_old {g g' : Graph} {ex : List Node} (h : g'.nodes = g.nodes ++ ex)
    {x : String} {i : Nat} (hx : g.indexOf? x = some i) : g'.indexOf? x = some i := by
  have hmem : x ∈ g.names := (Graph.mem_names_iff g x).mpr ⟨i, hx⟩
  have hlt := Graph.indexOf?_lt hx
  unfold Graph.indexOf? at hx ⊢
  simp only at hx ⊢
  have hn : g'.names = g.names ++ ex.map (·.name) := by simp [Graph.names, h]
  rw [hn, List.idxOf_append_of_mem hmem, h]
  split_ifs at hx with h1
  have : g.names.idxOf x < (g.nodes ++ ex).length := by
    rw [List.length_append]; omega
  rw [if_pos this]; exact hx

theorem Graph.indexOf?_append_new {g g' : Graph} {n : Node} (h : g'.nodes = g.nodes ++ [n])
    (hn : n.name ∉ g.names) : g'.indexOf? n.name = some g.nodes.length := by
  unfold Graph.indexOf?
  simp only
  have hn' : g'.names = g.names ++ [n.name] := by simp [Graph.names, h]
  rw [hn', List.idxOf_append_of_notMem hn, h]
  simp [Graph.names_length]

theorem Graph.demand_append_old {g g' : Graph} {ex : List Node} (h : g'.nodes = g.nodes ++ ex)
    {i : Nat} (hi : i < g.nodes.length) : g'.demand i = g.demand i := by
  simp [Graph.demand, h, List.getElem?_append_left hi]

theorem Graph.demand_append_new {g g' : Graph} {n : Node} (h : g'.nodes = g.nodes ++ [n]) :
    g'.demand g.nodes.length = n.demand := by
  simp [Graph.demand, h]

/-! ### `addNodeStep` -/

theorem addNodeStep_ok {g : Graph} {nm : String} {d lo : Rat} {hi : ERat} {x : Option Bool}
    (h : (addNodeStep g nm d lo hi).2 = .ok x) :
    nm ∉ g.names ∧ (addNodeStep g nm d lo hi).1.nodes = g.nodes ++ [⟨nm, d, lo, hi⟩] ∧
      (addNodeStep g nm d lo hi).1.arcs = g.arcs := by
  unfold addNodeStep at h ⊢
  split_ifs at h ⊢ with h1 h2
  exact ⟨h1, rfl, rfl⟩

theorem addNodeStep_arcs (g : Graph) (nm : String) (d lo : Rat) (hi : ERat) :
    (addNodeStep g nm d lo hi).1.arcs = g.arcs := by
  unfold addNodeStep
  split_ifs <;> rfl

/-! ### `gAddArc` -/

theorem gAddArc_cases (g : Graph) (o d : String) (t c : Rat) :
    gAddArc g o d t c = g ∨
    ∃ i j, g.indexOf? o = some i ∧ g.indexOf? d = some j ∧ leE (g.lo i + t) (g.hi j) = true ∧
      gAddArc g o d t c = { g with arcs := dictSet g.arcs (i, j) ⟨o, d, t, c⟩ } := by
  unfold gAddArc
  cases hi : g.indexOf? o with
  | none => left; rw [C15.addArcWith_err _ _ _ _ _ _ (Or.inl hi)]
  | some i =>
    cases hj : g.indexOf? d with
    | none => left; rw [C15.addArcWith_err _ _ _ _ _ _ (Or.inr hj)]
    | some j =>
      rw [C15.addArcWith_eq g o d t c _ i j hi hj]
      by_cases hok : leE (g.lo i + t) (g.hi j) = true
      · right
        refine ⟨i, j, rfl, rfl, hok, ?_⟩
        simp [C15.okTiming, hok]
      · left
        simp [C15.okTiming, hok]

theorem gAddArc_eq_of {g : Graph} {o d : String} {t c : Rat} {i j : Nat}
    (hi : g.indexOf? o = some i) (hj : g.indexOf? d = some j)
    (hok : leE (g.lo i + t) (g.hi j) = true) :
    gAddArc g o d t c = { g with arcs := dictSet g.arcs (i, j) ⟨o, d, t, c⟩ } := by
  unfold gAddArc
  rw [C15.addArcWith_eq g o d t c _ i j hi hj]
  simp [C15.okTiming, hok]

theorem gAddArc_nodes (g : Graph) (o d : String) (t c : Rat) : (gAddArc g o d t c).nodes = g.nodes := by
  rcases gAddArc_cases g o d t c with h | ⟨i, j, _, _, _, h⟩ <;> rw [h]

theorem gAddArc_hasArc_mono (g : Graph) (o d : String) (t c : Rat) (i j : Nat)
    (h : g.hasArc i j = true) : (gAddArc g o d t c).hasArc i j = true := by
  rcases gAddArc_cases g o d t c with h' | ⟨i', j', _, _, _, h'⟩ <;> rw [h']
  · exact h
  · exact dictHas_dictSet_mono h

/-- an `add_arc` call keeps the value stored under `(i, j)` unless it writes the same value there -/
theorem gAddArc_arc?_keep {g : Graph} {o d : String} {t c : Rat} {i j : Nat} {A : Arc}
    (h : g.arc? i j = some A)
    (hsame : g.indexOf? o = some i → g.indexOf? d = some j → (⟨o, d, t, c⟩ : Arc) = A) :
    (gAddArc g o d t c).arc? i j = some A := by
  rcases gAddArc_cases g o d t c with h' | ⟨i', j', hi', hj', _, h'⟩ <;> rw [h']
  · exact h
  · show dictGet (dictSet g.arcs (i', j') _) (i, j) = some A
    by_cases hk : (i, j) = (i', j')
    · cases hk
      rw [dictGet_dictSet_self, hsame hi' hj']
    · rw [dictGet_dictSet_ne _ _ hk]; exact h

theorem gAddArc_inv (g : Graph) (o d : String) (t c : Rat) (h : C15.Inv g) : C15.Inv (gAddArc g o d t c) :=
  C15.addArcWith_inv g o d t c _ h

/-! ### `mapSet` / `nodesOf` -/

theorem find_mapSet (d : List (String × List String)) (k : String) (v : List String) (p : String) :
    ((mapSet d k v).find? fun e => e.1 = p) =
      if p = k then some (k, v) else d.find? fun e => e.1 = p := by
  induction d with
  | nil =>
    by_cases hp : p = k
    · simp [mapSet, hp]
    · have : ¬ k = p := fun h => hp h.symm
      simp [mapSet, hp, this]
  | cons e rest ih =>
    obtain ⟨k', v'⟩ := e
    by_cases hk : k' = k
    · subst hk
      by_cases hp : p = k'
      · simp [mapSet, hp]
      · have : ¬ k' = p := fun h => hp h.symm
        simp [mapSet, hp, this]
    · by_cases hp : p = k
      · subst hp
        simp only [mapSet, hk, if_false, List.find?_cons, decide_false, if_true] at ih ⊢
        simpa using ih
      · simp only [hp, if_false] at ih
        simp only [mapSet, hk, if_false, List.find?_cons, hp]
        rw [ih]

theorem nodesOf_of_mapSet {m m' : Mirp} {k : String} {v : List String}
    (h : m'.mapping = mapSet m.mapping k v) (p : String) :
    m'.nodesOf p = if p = k then v else m.nodesOf p := by
  unfold Mirp.nodesOf
  rw [h]
  simp only [find_mapSet]
  split_ifs <;> simp

/-! ### the arc-adding helpers, restated with named step functions (all by `rfl`) -/

/-- the two `add_arc` calls of `add_travel_arcs` for one pair of visit nodes -/
def travelStep (dist : String → String → Rat) (speed unit : Rat) (sfee dfee : String → Rat)
    (sp dp sn dn : String) (g : Graph) : Graph :=
  gAddArc (gAddArc g sn dn (dist sp dp / speed) (dist sp dp * unit + dfee dp)) dn sn
    (dist sp dp / speed) (dist sp dp * unit + sfee sp)

theorem travelStep_nodes (dist : String → String → Rat) (speed unit : Rat) (sfee dfee : String → Rat)
    (sp dp sn dn : String) (g : Graph) :
    (travelStep dist speed unit sfee dfee sp dp sn dn g).nodes = g.nodes := by
  unfold travelStep
  rw [gAddArc_nodes, gAddArc_nodes]

theorem addTravelArcs_eq (m : Mirp) (dist : String → String → Rat) (speed unit : Rat)
    (sfee dfee : String → Rat) :
    m.addTravelArcs dist speed unit sfee dfee =
      { m with g := m.supply.foldl (fun g sp => m.demand.foldl (fun g dp =>
          (m.nodesOf sp).foldl (fun g sn => (m.nodesOf dp).foldl (fun g dn =>
            travelStep dist speed unit sfee dfee sp dp sn dn g) g) g) g) m.g } := rfl

theorem addExitArcs_eq (m : Mirp) (t c : Rat) :
    m.addExitArcs t c =
      { m with g := (m.supply ++ m.demand).foldl (fun g port =>
          (m.nodesOf port).foldl (fun g nm => gAddArc g nm "Depot" t c) g) m.g } := rfl

/-- first loop of `add_entry_arcs` -/
def entryG1 (m : Mirp) (limit time cost : Rat) : Graph :=
  m.supply.foldl (fun g port =>
    (m.nodesOf port).foldl (fun g nm =>
      if nodeHiLt g nm limit then gAddArc g "Depot" nm time cost else g) g) m.g

/-- body of the second loop of `add_entry_arcs` -/
def entryStep (m : Mirp) (limit time cost : Rat) (st : Option (Graph × Nat)) (nm : String) :
    Option (Graph × Nat) :=
  match st with
  | none => none
  | some (g, k) =>
    if nodeHiLt g nm limit then
      let dummy := "Dum" ++ toString k
      let a := addNodeStep g dummy (-m.size) 0 none
      match a.2 with
      | .error _ => none
      | .ok _ =>
        let g2 := gAddArc a.1 "Depot" dummy 0 0
        some (gAddArc g2 dummy nm time cost, k + 1)
    else some (g, k)

theorem addEntryArcs_eq (m : Mirp) (limit time cost : Rat) :
    m.addEntryArcs limit time cost =
      (m.demand.foldl (fun st port => (m.nodesOf port).foldl (entryStep m limit time cost) st)
        (some (entryG1 m limit time cost, 0))).map fun (g, _) => { m with g := g } := rfl

theorem entryStep_cases (m : Mirp) (limit time cost : Rat) (st : Option (Graph × Nat)) (nm : String) :
    entryStep m limit time cost st nm = none ∨ entryStep m limit time cost st nm = st ∨
    ∃ g k x, st = some (g, k) ∧ (addNodeStep g ("Dum" ++ toString k) (-m.size) 0 none).2 = .ok x ∧
      entryStep m limit time cost st nm =
        some (gAddArc (gAddArc (addNodeStep g ("Dum" ++ toString k) (-m.size) 0 none).1 "Depot"
          ("Dum" ++ toString k) 0 0) ("Dum" ++ toString k) nm time cost, k + 1) := by
  cases st with
  | none => left; rfl
  | some gk =>
    obtain ⟨g, k⟩ := gk
    unfold entryStep
    simp only
    split_ifs with hlt
    · cases hx : (addNodeStep g ("Dum" ++ toString k) (-m.size) 0 none).2 with
      | error e => left; rfl
      | ok x => right; right; exact ⟨g, k, x, rfl, hx, rfl⟩
    · right; left; rfl

theorem addNodesLoop_succ (fuel : Nat) (m : Mirp) (port : String) (lvl init rate cap : Rat) (k : Nat)
    (acc : List String) :
    addNodesLoop (fuel + 1) m port lvl init rate cap k acc =
      if m.horizon < (getTimeWindow m.size k init rate cap).2 then some (m, .ok acc)
      else
        match (addNodeStep m.g (visitName port k) lvl (getTimeWindow m.size k init rate cap).1
            (some (getTimeWindow m.size k init rate cap).2)).2 with
        | .error e => some (m, .error e)
        | .ok _ =>
          addNodesLoop fuel
            { m with
              g := (addNodeStep m.g (visitName port k) lvl (getTimeWindow m.size k init rate cap).1
                (some (getTimeWindow m.size k init rate cap).2)).1,
              mapping := mapSet m.mapping port (acc ++ [visitName port k]) }
            port lvl init rate cap (k + 1) (acc ++ [visitName port k]) := rfl

end Vrp
